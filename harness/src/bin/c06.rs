//! C06: a source that fails to compile leaves no trace in the compiler.
//!
//! For generated [A.., bad, B..] vs [A.., B..]: digest of the compiled tables
//! (hook `Rules::verif_c06_digest`), scan dumps in normal and fast-scan mode,
//! errors()/ignored_rules() accounting, build() and scans under `catch`.
use std::panic::AssertUnwindSafe;
use std::path::Path;
use verif_harness::util::*;

#[derive(Clone, Debug)]
struct Src { text: String, expect_fail: bool, kind: &'static str }

const WORDS: [&str; 6] = ["alpha", "bravo", "charlie", "delta", "echo1", "fox"];

/// a pattern definition + whether it can be anchored at 0
fn gen_pattern(rng: &mut Rng, name: &str) -> String {
    let w = WORDS[rng.below(WORDS.len() as u64) as usize];
    match rng.below(6) {
        0 => format!("${} = \"{}\"", name, w),
        1 => format!("${} = \"{}\" nocase", name, w),
        2 => format!("${} = \"{}\" wide ascii", name, w),
        3 => format!("${} = {{ {} }}", name, w.bytes().map(|b| format!("{:02x}", b)).collect::<Vec<_>>().join(" ")),
        4 => format!("${} = /{}[0-9]?x/", name, w),
        _ => format!("${} = {{ {} [0-2] 21 }}", name, w.bytes().take(3).map(|b| format!("{:02x}", b)).collect::<Vec<_>>().join(" ")),
    }
}

fn gen_use(rng: &mut Rng, name: &str) -> String {
    match rng.below(6) {
        0 => format!("${}", name),
        1 => format!("${} at 0", name),
        2 => format!("#{} > 1", name),
        3 => format!("${} in (0..20)", name),
        4 => format!("@{}[1] >= 0", name),
        _ => format!("${} at {}", name, rng.below(8)),
    }
}

fn gen_good(rng: &mut Rng, id: usize, shared: &mut Vec<String>) -> Src {
    let np = 1 + rng.below(3) as usize;
    let mut pats = vec![];
    let mut uses = vec![];
    for k in 0..np {
        let name = format!("p{}", k);
        let def = if !shared.is_empty() && rng.chance(1, 3) {
            // share a pattern verbatim with an earlier rule (same text after the name)
            let s = rng.pick(shared).clone();
            format!("${} = {}", name, s)
        } else {
            let d = gen_pattern(rng, &name);
            shared.push(d.splitn(2, " = ").nth(1).unwrap().to_string());
            d
        };
        pats.push(def);
        uses.push(gen_use(rng, &name));
    }
    let extra = match rng.below(4) { 0 => " and filesize < 1000", 1 => " and filesize > 2", _ => "" };
    let text = format!("rule g{} {{ strings: {} condition: ({}){} }}", id, pats.join(" "),
        uses.join(if rng.chance(1, 2) { " or " } else { " and " }), extra);
    Src { text, expect_fail: false, kind: "good" }
}

fn gen_bad(rng: &mut Rng, id: usize, shared: &[String], good_ids: &[usize]) -> Src {
    // patterns of the same rule that are registered before the failure
    let k = rng.below(4) as usize;
    let mut pats = vec![];
    let mut uses = vec![];
    for j in 0..k {
        let name = format!("q{}", j);
        let def = if !shared.is_empty() && rng.chance(1, 2) {
            format!("${} = {}", name, rng.pick(shared))
        } else { gen_pattern(rng, &name) };
        pats.push(def);
        uses.push(gen_use(rng, &name));
    }
    let pre = if pats.is_empty() { String::new() } else { pats.join(" ") + " " };
    let cond_pre = if uses.is_empty() { String::new() } else { uses.join(" and ") + " and " };
    let strings = |extra: &str| -> String {
        if pre.is_empty() && extra.is_empty() { String::new() } else { format!("strings: {}{} ", pre, extra) }
    };
    let kind = rng.below(10);
    let (text, kindname): (String, &'static str) = match kind {
        0 => (format!("rule bad{} {{ {}condition: {} }}", id, strings(""), cond_pre.trim_end_matches(" and ").to_string() + " and and"), "syntax"),
        1 if !good_ids.is_empty() => (format!("rule g{} {{ {}condition: {}true }}", rng.pick(good_ids), strings(""), cond_pre), "duplicate-rule"),
        2 => (format!("rule bad{} {{ {}condition: {}unknown_ident_{} }}", id, strings(""), cond_pre, id), "unknown-identifier"),
        3 => (format!("rule bad{} {{ {}condition: {}(1 + \"a\" == 2) }}", id, strings(""), cond_pre), "type-error"),
        4 => (format!("rule bad{} {{ {}condition: {}$z }}", id, strings("$z = \"abc\" xor nocase"), cond_pre), "invalid-modifier"),
        5 => (format!("rule bad{} {{ {}condition: {}true }}", id, strings("$unused = \"zzz\""), cond_pre), "unused-pattern"),
        6 => (format!("rule bad{} {{ {}condition: {}$z }}", id, strings("$z = /(abc)*/"), cond_pre), "regexp-matches-empty"),
        7 => (format!("rule bad{} {{ {}condition: {}$z }}", id, strings("$z = /a*/"), cond_pre), "regexp-matches-empty"),
        8 => (format!("rule bad{} {{ {}condition: {}$z }}", id, strings("$z = /ab(c/"), cond_pre), "invalid-regexp"),
        _ => (format!("rule bad{} {{ {}condition: {}$q0 }}", id, strings(&format!("$q0 = \"dup{}\"", id)), cond_pre), "duplicate-pattern-or-ok"),
    };
    Src { text, expect_fail: true, kind: kindname }
}

struct Compiled { rules: Option<yara_x::Rules>, add_results: Vec<bool>, n_errors: usize, n_ignored: usize, build_panic: bool }

fn compile(srcs: &[Src], slow_err: bool) -> Compiled {
    let mut c = yara_x::Compiler::new();
    c.error_on_slow_pattern(slow_err);
    let mut add_results = vec![];
    for s in srcs {
        let r = catch(AssertUnwindSafe(|| c.add_source(s.text.as_str()).is_ok()));
        add_results.push(r.unwrap_or(false));
    }
    let n_errors = c.errors().len();
    let n_ignored = c.ignored_rules().count();
    match catch(AssertUnwindSafe(move || c.build())) {
        Ok(r) => Compiled { rules: Some(r), add_results, n_errors, n_ignored, build_panic: false },
        Err(_) => Compiled { rules: None, add_results, n_errors, n_ignored, build_panic: true },
    }
}

fn scan_dump(rules: &yara_x::Rules, data: &[u8], fast: bool) -> String {
    let r = catch(AssertUnwindSafe(|| {
        let mut s = yara_x::Scanner::new(rules);
        s.fast_scan(fast);
        let res = s.scan(data).map_err(|e| e.to_string());
        match res {
            Err(e) => format!("ERR {}", e),
            Ok(res) => {
                let mut out = vec![];
                for r in res.matching_rules() {
                    let mut ps = vec![];
                    for p in r.patterns() {
                        let ms: Vec<String> = p.matches().map(|m| format!("{}+{}", m.range().start, m.range().len())).collect();
                        ps.push(format!("{}:[{}]", p.identifier(), ms.join(",")));
                    }
                    out.push(format!("{}{{{}}}", r.identifier(), ps.join(" ")));
                }
                out.join(" ")
            }
        }
    }));
    match r { Ok(s) => s, Err(e) => format!("PANIC {}", e.lines().next().unwrap_or("")) }
}

fn buffers(rng: &mut Rng) -> Vec<Vec<u8>> {
    let mut v = vec![];
    for _ in 0..3 {
        let mut d = vec![];
        let n = 1 + rng.below(6);
        for _ in 0..n {
            let w = WORDS[rng.below(WORDS.len() as u64) as usize];
            match rng.below(5) {
                0 => d.extend_from_slice(w.as_bytes()),
                1 => d.extend_from_slice(w.to_uppercase().as_bytes()),
                2 => { for b in w.bytes() { d.push(b); d.push(0); } }
                3 => { d.extend_from_slice(w.as_bytes()); d.extend_from_slice(b"7x"); }
                _ => { d.extend_from_slice(&w.as_bytes()[..3]); d.extend_from_slice(b"..!"); }
            }
            if rng.chance(1, 2) { d.push(b' '); }
        }
        v.push(d);
    }
    v
}

fn digest_components(d: &str) -> Vec<(String, String)> {
    d.split(';').filter_map(|kv| kv.split_once('=')).map(|(k, v)| (k.to_string(), v.to_string())).collect()
}

fn coq_string(s: &str) -> String { format!("\"{}\"", s.replace('"', "\"\"")) }

fn main() {
    let args: Vec<String> = std::env::args().skip(1).collect();
    if arg_flag(&args, "--child") { std::process::exit(child()); }
    std::process::exit(run(&args));
}

/// Result of evaluating one case on the implementation.
#[derive(Default, Debug)]
struct Outcome { bad_failed: bool, good_rejected: bool, recorded: bool, others_same: bool, build_ok: bool,
                 scans_equal: bool, no_panic: bool, comps: Vec<(String, bool)> }

/// Child process: reads {"pre":[..],"bad":"..","post":[..],"slow":bool,"seed":n} on stdin and
/// prints `OUT <fields>`; a scan that aborts the process (a panic inside a host
/// function called from WASM cannot unwind) kills only the child.
fn child() -> i32 {
    quiet_panics();
    let mut inp = String::new();
    std::io::Read::read_to_string(&mut std::io::stdin(), &mut inp).unwrap();
    let v: serde_json::Value = serde_json::from_str(&inp).unwrap();
    let strs = |k: &str| -> Vec<Src> { v[k].as_array().unwrap().iter().map(|x| Src { text: x.as_str().unwrap().to_string(), expect_fail: false, kind: "good" }).collect() };
    let pre = strs("pre"); let post = strs("post");
    let bad = Src { text: v["bad"].as_str().unwrap().to_string(), expect_fail: true, kind: "bad" };
    let slow_err = v["slow"].as_bool().unwrap();
    let mut rng = Rng(v["seed"].as_u64().unwrap());
    let o = evaluate(&pre, &bad, &post, slow_err, &mut rng);
    // flush what we know before scanning is done inside evaluate; print final line
    println!("OUT {} {} {} {} {} {} {} {}", o.bad_failed, o.good_rejected, o.recorded, o.others_same, o.build_ok, o.scans_equal, o.no_panic,
        o.comps.iter().map(|(k, e)| format!("{}={}", k, e)).collect::<Vec<_>>().join(","));
    0
}

fn evaluate(pre: &[Src], bad: &Src, post: &[Src], slow_err: bool, rng: &mut Rng) -> Outcome {
    let mut with: Vec<Src> = pre.to_vec(); with.push(bad.clone()); with.extend(post.iter().cloned());
    let mut without: Vec<Src> = pre.to_vec(); without.extend(post.iter().cloned());
    let cw = compile(&with, slow_err);
    let co = compile(&without, slow_err);
    let bad_idx = pre.len();
    let mut o = Outcome::default();
    o.bad_failed = !cw.add_results[bad_idx];
    o.good_rejected = !co.add_results.iter().all(|x| *x);
    o.recorded = cw.n_errors > co.n_errors;
    o.others_same = true;
    for (i, r) in co.add_results.iter().enumerate() {
        let j = if i < bad_idx { i } else { i + 1 };
        if cw.add_results[j] != *r { o.others_same = false; }
    }
    o.build_ok = !cw.build_panic && !co.build_panic;
    o.scans_equal = true; o.no_panic = true;
    if let (Some(rw), Some(ro)) = (&cw.rules, &co.rules) {
        let dw = digest_components(&rw.verif_c06_digest());
        let dout = digest_components(&ro.verif_c06_digest());
        for ((k, v1), (_, v2)) in dw.iter().zip(dout.iter()) { o.comps.push((k.clone(), v1 == v2)); }
        // tell the parent what is known so far, in case a scan aborts the process
        println!("PRE {} {} {} {} {} {}", o.bad_failed, o.good_rejected, o.recorded, o.others_same, o.build_ok,
            o.comps.iter().map(|(k, e)| format!("{}={}", k, e)).collect::<Vec<_>>().join(","));
        let mut bufrng = rng.fork();
        for b in buffers(&mut bufrng) {
            for fast in [false, true] {
                let a = scan_dump(rw, &b, fast);
                let c = scan_dump(ro, &b, fast);
                if a.starts_with("PANIC") || c.starts_with("PANIC") { o.no_panic = false; }
                if a != c { o.scans_equal = false; }
            }
        }
    }
    o
}

fn parse_comps(s: &str) -> Vec<(String, bool)> {
    s.split(',').filter_map(|kv| kv.split_once('=')).map(|(k, v)| (k.to_string(), v == "true")).collect()
}

/// Parent side: run one case in a child process.
fn run_in_child(pre: &[Src], bad: &Src, post: &[Src], slow_err: bool, seed: u64) -> Outcome {
    use std::io::Write;
    use std::process::{Command, Stdio};
    let spec = serde_json::json!({"pre": pre.iter().map(|s| s.text.clone()).collect::<Vec<_>>(), "bad": bad.text,
                                  "post": post.iter().map(|s| s.text.clone()).collect::<Vec<_>>(), "slow": slow_err, "seed": seed});
    let mut ch = Command::new(std::env::current_exe().unwrap()).arg("--child")
        .stdin(Stdio::piped()).stdout(Stdio::piped()).stderr(Stdio::null()).spawn().unwrap();
    ch.stdin.take().unwrap().write_all(spec.to_string().as_bytes()).unwrap();
    let out = ch.wait_with_output().unwrap();
    let text = String::from_utf8_lossy(&out.stdout).to_string();
    let b = |s: &str| s == "true";
    let mut o = Outcome::default();
    if let Some(l) = text.lines().find(|l| l.starts_with("OUT ")) {
        let f: Vec<&str> = l.split(' ').collect();
        o = Outcome { bad_failed: b(f[1]), good_rejected: b(f[2]), recorded: b(f[3]), others_same: b(f[4]), build_ok: b(f[5]),
                      scans_equal: b(f[6]), no_panic: b(f[7]), comps: parse_comps(f.get(8).unwrap_or(&"")) };
    } else if let Some(l) = text.lines().find(|l| l.starts_with("PRE ")) {
        // the child died while scanning: a crash of the scanner
        let f: Vec<&str> = l.split(' ').collect();
        o = Outcome { bad_failed: b(f[1]), good_rejected: b(f[2]), recorded: b(f[3]), others_same: b(f[4]), build_ok: b(f[5]),
                      scans_equal: false, no_panic: false, comps: parse_comps(f.get(6).unwrap_or(&"")) };
    } else {
        // died before/while building
        o.bad_failed = true; o.build_ok = false;
    }
    o
}

fn corpus() -> Vec<(Vec<Src>, Src, Vec<Src>, bool)> {
    let g = |t: &str| Src { text: t.to_string(), expect_fail: false, kind: "good" };
    let b = |t: &str, k: &'static str| Src { text: t.to_string(), expect_fail: true, kind: k };
    vec![
        // anchored literal registered, then a regexp of the same rule fails
        (vec![], b("rule bad { strings: $a = \"abcd\" $b = /a*/ condition: $a at 0 and $b }", "regexp-matches-empty"),
         vec![g("rule good { strings: $a = \"alpha\" condition: $a }")], false),
        // a pattern shared with an earlier rule has its fast-scan bit cleared by the failing rule
        (vec![g("rule g0 { strings: $p0 = \"alpha\" condition: $p0 }")],
         b("rule bad { strings: $q0 = \"alpha\" $z = /a*/ condition: #q0 > 1 and $z }", "regexp-matches-empty"),
         vec![], false),
    ]
}

pub fn run(args: &[String]) -> i32 {
    quiet_panics();
    let seed = arg_u64(args, "--seed", 1);
    let n = arg_u64(args, "--n", 300) as usize;
    let out = arg_val(args, "--out").expect("--out");
    let prelude = "From Coq Require Import List NArith ZArith Bool String.\nFrom YV Require Import Gen.SnapshotGen Compiler.Snapshot Compiler.SnapshotCheck.\nImport ListNotations.\nLocal Open Scope string_scope.\n";
    let mut shards = Shards::new(Path::new(&out), prelude, 150);
    let mut rng = Rng::new(seed);
    let mut stats = Stats::default();
    let mut distinct = std::collections::HashSet::new();
    let mut samples = vec![];
    let mut corpus = corpus();
    while shards.total < n {
        let (pre, bad, post, slow_err) = if !corpus.is_empty() { corpus.remove(0) } else {
            let mut shared = vec![];
            let mut good_ids = vec![];
            let npre = rng.below(4) as usize;
            let npost = rng.below(3) as usize;
            let mut pre = vec![];
            for i in 0..npre { pre.push(gen_good(&mut rng, i, &mut shared)); good_ids.push(i); }
            let slow_err = rng.chance(1, 6);
            let mut bad = gen_bad(&mut rng, npre, &shared, &good_ids);
            if slow_err && rng.chance(1, 2) {
                bad = Src { text: format!("rule bad{} {{ strings: $q0 = {} $z = /a.*b/ condition: #q0 > 1 and $z }}", npre,
                    if shared.is_empty() { "\"alpha\"".to_string() } else { rng.pick(&shared).clone() }), expect_fail: true, kind: "slow-pattern-error" };
            }
            let mut post = vec![];
            for i in 0..npost { post.push(gen_good(&mut rng, 100 + i, &mut shared)); }
            (pre, bad, post, slow_err)
        };
        let o = run_in_child(&pre, &bad, &post, slow_err, rng.next());
        stats.inc(&format!("bad_kind:{}", bad.kind));
        stats.inc(if o.bad_failed { "bad_rejected" } else { "bad_accepted(not a C06 case)" });
        if o.good_rejected { stats.inc("good_rejected(generator)"); }
        if !o.bad_failed { continue; } // the "bad" source compiled: not a case for this property
        let (recorded, others_same, build_ok, scans_equal, no_panic, comps) =
            (o.recorded, o.others_same, o.build_ok, o.scans_equal, o.no_panic, o.comps.clone());
        let key = format!("{}|{}|{}", pre.len(), bad.kind, bad.text);
        distinct.insert(key);
        if comps.iter().any(|c| !c.1) { stats.inc("digest_differs"); }
        if !scans_equal { stats.inc("scans_differ"); }
        if !no_panic { stats.inc("scan_panics"); }
        let case = format!("mkCase {} {} {} {} {} {}",
            coq_list(&comps, |(k, eq)| format!("({}, {})", coq_string(k), coq_bool(*eq))),
            coq_bool(recorded), coq_bool(others_same), coq_bool(build_ok), coq_bool(scans_equal), coq_bool(no_panic));
        let replay = format!("{{\"pre\":{},\"bad\":{},\"bad_kind\":{},\"post\":{},\"error_on_slow_pattern\":{},\"digest_equal\":{},\"recorded\":{},\"others_same\":{},\"build_ok\":{},\"scans_equal\":{},\"no_panic\":{}}}",
            json_str(&pre.iter().map(|s| s.text.clone()).collect::<Vec<_>>().join("\n")), json_str(&bad.text), json_str(bad.kind),
            json_str(&post.iter().map(|s| s.text.clone()).collect::<Vec<_>>().join("\n")), slow_err,
            json_str(&format!("{:?}", comps)), recorded, others_same, build_ok, scans_equal, no_panic);
        if samples.len() < 3 { samples.push(replay.clone()); }
        shards.push(case, replay);
    }
    shards.flush();
    println!("{{\"evaluations\":{},\"distinct_nontrivial\":{},\"shards\":{},\"distribution\":{},\"samples\":[{}]}}",
        shards.total, distinct.len(), shards.shard_count, stats.json(), samples.join(","));
    0
}
