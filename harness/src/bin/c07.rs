//! C07: the slice of the scan results that belongs to one rule (matching?,
//! matches of its patterns), observed when the rule and the rules it depends
//! on are compiled alone and when they are embedded among unrelated rules.
//! Cases for coq/Cond/IndepCheck.v.
//!
//! c07 --seed S --n N --out DIR [--max-extra K]
//! c07 --replay FILE.json
#[path = "../cond_gen.rs"]
mod cond_gen;
use cond_gen::*;
use verif_harness::util::*;
use std::panic::AssertUnwindSafe;
use std::path::Path;

fn bx(e: E) -> Box<E> { Box::new(e) }
const CORE_NS: &str = "core";

/// an unrelated rule: written directly as source text
#[derive(Clone, Debug)]
struct Extra { ns: String, src: String, before: bool }

#[derive(Clone, Copy, Debug, PartialEq, Eq)]
enum Kind { Main, NonPositive, ForOf, RefFar }

struct Case {
    core: Vec<RuleSpec>, data: Vec<u8>, globals: Vec<GV>, kind: Kind,
    /// sources in compilation order: (namespace, text)
    embedded: Vec<(String, String)>,
    n_extra: usize, shares_verbatim: usize, shares_modified: usize, extra_in_core_ns: usize, fast_scan: bool,
}

/// (target matches?, matches of each of its patterns, does the scan report a match for any pattern of any rule?)
type Slice = (bool, Vec<Vec<(usize, usize)>>, bool);

fn slice_of(rules: &yara_x::Rules, globals: &[GV], data: &[u8], target: &str, fast_scan: bool) -> Result<Slice, String> {
    catch(AssertUnwindSafe(|| {
        let mut s = yara_x::Scanner::new(rules);
        s.set_timeout(std::time::Duration::from_secs(20));
        s.fast_scan(fast_scan);
        set_globals(&mut s, globals);
        let res = s.scan(data).map_err(|e| e.to_string())?;
        let pats = |r: &yara_x::Rule| -> Vec<Vec<(usize, usize)>> {
            r.patterns().include_private(true).map(|p| p.matches().map(|m| (m.range().start, m.range().len())).collect()).collect()
        };
        let any = res.matching_rules().include_private(true).chain(res.non_matching_rules().include_private(true))
            .any(|r| r.patterns().include_private(true).any(|p| p.matches().len() > 0));
        for r in res.matching_rules().include_private(true) { if r.namespace() == CORE_NS && r.identifier() == target { return Ok((true, pats(&r), any)); } }
        for r in res.non_matching_rules().include_private(true) { if r.namespace() == CORE_NS && r.identifier() == target { return Ok((false, pats(&r), any)); } }
        Err("target rule not found in the results".to_string())
    })).unwrap_or_else(|p| Err(format!("panic: {}", p)))
}

fn observe(sources: &[(String, String)], globals: &[GV], data: &[u8], target: &str, fast_scan: bool) -> Result<Slice, String> {
    let rules = match catch(AssertUnwindSafe(|| compile(sources, globals))) {
        Err(p) => return Err(format!("panic: compile: {}", p)),
        Ok(Err(e)) => return Err(format!("rejected: {}", e)),
        Ok(Ok(r)) => r,
    };
    slice_of(&rules, globals, data, target, fast_scan)
}

fn core_sources(core: &[RuleSpec]) -> Vec<(String, String)> {
    vec![(CORE_NS.to_string(), core.iter().enumerate().map(|(i, r)| rule_source(i, r)).collect::<String>())]
}

fn gen_extra(rng: &mut Rng, k: usize, core_pats: &[Vec<u8>], pool: &[Vec<u8>], stats: &mut (usize, usize)) -> (String, bool /* may be global */) {
    let npats = 1 + rng.below(3) as usize;
    let mut decl = String::new();
    for i in 0..npats {
        let (text, modif): (Vec<u8>, &str) = match rng.below(10) {
            0..=3 if !core_pats.is_empty() => { stats.0 += 1; (rng.pick(core_pats).clone(), "") }
            4..=6 if !core_pats.is_empty() => { stats.1 += 1; (rng.pick(core_pats).clone(), *rng.pick(&[" nocase", " wide", " ascii wide", " fullword", " private", " xor", " nocase fullword"])) }
            7 => (rng.pick(pool).clone(), ""),
            8 => { let mut t = gen_pattern_text(rng); t.extend_from_slice(b"xyzXYZ01"); (t, "") }
            _ => (gen_pattern_text(rng), *rng.pick(&["", " nocase", " wide"])),
        };
        decl.push_str(&format!("    $x{} = {}{}\n", i, yara_str(&text), modif));
    }
    let p = |rng: &mut Rng| format!("x{}", rng.below(npats as u64));
    let mut uses_all = false;
    let cond = match rng.below(11) {
        0 => { uses_all = true; "any of them".to_string() }
        1 => { uses_all = true; "all of them".to_string() }
        2 => format!("#{} > 1", p(rng)),
        3 => format!("${} at {}", p(rng), rng.below(4)),
        4 => format!("${} in (0..{})", p(rng), rng.below(20)),
        5 => format!("filesize < {} and ${}", 1 + rng.below(300), p(rng)),
        6 => { uses_all = true; "for any of them : ($ at 0 or # > 2)".to_string() }
        7 => format!("uint16(0) == 0x{:04x} and ${}", rng.below(0x10000), p(rng)),
        8 => format!("@{}[1] < 10 or !{}[2] == 2", p(rng), p(rng)),
        9 => { uses_all = true; format!("{} of them", 1 + rng.below(npats as u64)) }
        _ => format!("${}", p(rng)),
    };
    // every declared pattern must be used
    let cond = if uses_all { cond } else { format!("({}) and (any of them or true)", cond) };
    let private = if rng.chance(1, 6) { "private " } else { "" };
    (format!("{}rule s{} {{\n  strings:\n{}  condition:\n    {}\n}}\n", private, k, decl, cond), true)
}

fn gen_case(rng: &mut Rng, kind: Kind, depth: u32, max_extra: usize) -> Case {
    let n_dep = if kind == Kind::RefFar { 1 + rng.below(3) as usize } else { *rng.pick(&[0usize, 0, 0, 1, 1, 2]) };
    let with_global = kind != Kind::RefFar && rng.chance(1, 6);
    let n_core = n_dep + with_global as usize + 1;
    let pool: Vec<Vec<u8>> = { let mut v: Vec<Vec<u8>> = vec![]; while v.len() < 6 * n_core + 4 { let t = gen_pattern_text(rng); if !v.contains(&t) { v.push(t); } } v };
    let mut next_unique = 0usize;
    let data = gen_data(rng, &pool[..8.min(pool.len())]);
    let globals = gen_globals(rng);
    let mut core: Vec<RuleSpec> = vec![];
    for i in 0..n_core {
        let is_target = i == n_core - 1;
        let global = with_global && i == n_dep;
        let npats = if is_target && (kind == Kind::NonPositive || kind == Kind::ForOf) { 2 + rng.below(3) as usize } else if rng.chance(1, 6) { 0 } else { 1 + rng.below(4) as usize };
        let pats: Vec<Vec<u8>> = (0..npats).map(|_| if kind == Kind::NonPositive || (kind == Kind::ForOf && is_target) { next_unique += 1; pool[next_unique - 1].clone() } else { rng.pick(&pool[..8.min(pool.len())]).clone() }).collect();
        let refs: Vec<usize> = (0..i).filter(|j| !global || core[*j].global).collect();
        let mut g = Gen { rng, npats, fsize: data.len() as i64, scope: vec![], for_of: 0, refs, next_var: 0, slots: 0, max_slots: 58,
                          budget: 25 + 8 * depth as i32, stream: Stream::Main, zero_of: true, iters: 1 };
        let cond = if global { g.gen_bool(1) } else if is_target && kind == Kind::NonPositive {
            let n = g.npats;
            let (s, syn) = if g.rng.chance(1, 2) { ((0..n).collect::<Vec<_>>(), SetSyn::Them) } else {
                let mut s: Vec<usize> = (0..n).filter(|_| g.rng.chance(2, 3)).collect(); if s.is_empty() { s.push(0); } (s, SetSyn::List(g.rng.next())) };
            let q = match g.rng.below(4) { 0 => E::Int(0), 1 => E::Arith(Op::Sub, bx(E::Filesize), bx(E::Int(g.fsize))), 2 => E::Arith(Op::Sub, bx(E::Filesize), bx(E::Int(g.fsize + 1 + g.rng.range(0, 90)))),
                _ => E::Arith(Op::Sub, bx(E::Arith(Op::Sub, bx(E::Count(P::Id(0), None)), bx(E::Count(P::Id(0), None)))), bx(E::Int(g.rng.range(0, 2)))) };
            let t = E::Of(Q::Expr(bx(q)), s, syn, A::None);
            match g.rng.below(4) { 0 => E::Not(bx(t)), 1 => { let o = g.gen_bool(1); E::And(bx(t), bx(o)) } _ => t }
        } else if is_target && kind == Kind::RefFar {
            // the verdict is a function of the referenced rules' verdicts (read from the
            // matching-rules bitmap, whose layout depends on how many rules precede them)
            let mut t = E::Rule(0);
            for j in 1..n_dep { t = if g.rng.chance(1, 2) { E::And(bx(t), bx(E::Rule(j))) } else { E::Or(bx(t), bx(if g.rng.chance(1, 3) { E::Not(bx(E::Rule(j))) } else { E::Rule(j) })) }; }
            match g.rng.below(4) { 0 => E::Not(bx(t)), 1 => { let o = g.gen_bool(1); E::And(bx(t), bx(o)) } _ => t }
        } else if is_target && kind == Kind::ForOf {
            // `for <quantifier> of <set> : (<placeholder test>)` over patterns of the target's own:
            // the loop variable holds pattern ids, which depend on the rules compiled before
            let n = g.npats;
            let (s, syn) = if g.rng.chance(1, 2) { ((0..n).collect::<Vec<_>>(), SetSyn::Them) } else {
                let mut s: Vec<usize> = (0..n).filter(|_| g.rng.chance(2, 3)).collect(); if s.is_empty() { s.push(n - 1); } (s, SetSyn::List(g.rng.next())) };
            let q = match g.rng.below(5) { 0 => Q::Any, 1 => Q::All, 2 => Q::None, _ => Q::Expr(bx(E::Int(g.rng.range(1, s.len() as i64 + 1)))) };
            let body = match g.rng.below(6) {
                0 => E::Pat(P::Cur, A::None),
                1 => E::Cmp(Cmp::Gt, bx(E::Count(P::Cur, None)), bx(E::Int(0))),
                2 => E::Cmp(Cmp::Ge, bx(E::Count(P::Cur, None)), bx(E::Int(g.rng.range(1, 3)))),
                3 => E::Cmp(Cmp::Lt, bx(E::Offset(P::Cur, None)), bx(E::Int((g.fsize / 2).max(1)))),
                4 => E::Pat(P::Cur, A::In(bx(E::Int(0)), bx(E::Int((g.fsize / 2).max(1))))),
                _ => E::Cmp(Cmp::Ge, bx(E::Length(P::Cur, None)), bx(E::Int(2))),
            };
            let t = E::ForOf(q, s, syn, bx(body));
            match g.rng.below(4) { 0 => E::Not(bx(t)), 1 => { let o = g.gen_bool(1); E::Or(bx(t), bx(o)) } _ => t }
        } else { g.gen_bool(if is_target { depth } else { depth.min(2) }) };
        core.push(RuleSpec { ns: 0, global, private: rng.chance(1, 5), pats, cond });
    }
    let target_pats = core.last().unwrap().pats.clone();
    // the unrelated rules
    let n_extra = match rng.below(8) { 0 => 0, 1..=3 => 1 + rng.below(5) as usize, 4 | 5 => 8 + rng.below(25) as usize, _ => 40 + rng.below(161) as usize }.min(max_extra);
    let n_extra = if kind == Kind::ForOf { n_extra.max(1 + rng.below(4) as usize) } else { n_extra };
    // RefFar: the core follows 0, 31, 32, 33, 63, 64, 65 or 200 unrelated rules (so that the ids of
    // the referenced rules sit on both sides of the byte / word boundaries of the bitmap), minus
    // a few that go between the referenced rules and the target
    let far_before = *rng.pick(&[0usize, 31, 32, 33, 63, 64, 65, 200]);
    let far_between = rng.below(4) as usize;
    let n_extra = if kind == Kind::RefFar { (far_before + far_between).min(max_extra.max(70)) } else { n_extra };
    let mut sh = (0usize, 0usize);
    // namespace blocks before the core, the core namespace, blocks after
    let mut before: Vec<(String, String)> = vec![]; let mut after: Vec<(String, String)> = vec![];
    let mut in_core_ns: Vec<(usize /* position among core rules: 0..=n_core */, String)> = vec![];
    let n_other_ns = 1 + rng.below(24) as usize;
    for k in 0..n_extra {
        let (src, _) = gen_extra(rng, k, &target_pats, &pool, &mut sh);
        match if kind == Kind::ForOf && k == 0 { 2 } else if kind == Kind::RefFar { if k < far_before.min(n_extra) { 2 } else { 0 } } else { rng.below(5) } {
            0 | 1 => in_core_ns.push((if kind == Kind::RefFar { 1 + rng.below(n_core as u64 - 1) as usize } else { rng.below(n_core as u64 + 1) as usize }, src)),
            2 | 3 => { let ns = format!("nsb{}", rng.below(n_other_ns as u64)); let src = if rng.chance(1, 10) { format!("global {}", src.replacen("private ", "", 1)) } else { src }; before.push((ns, src)); }
            _ => { let ns = format!("nsa{}", rng.below(n_other_ns as u64)); after.push((ns, src)); }
        }
    }
    // consecutive blocks per namespace name (a name used again later would be a new namespace)
    before.sort_by(|a, b| a.0.cmp(&b.0)); after.sort_by(|a, b| a.0.cmp(&b.0));
    let mut embedded: Vec<(String, String)> = vec![];
    let per_rule = rng.chance(1, 2);
    let push = |v: &mut Vec<(String, String)>, ns: &str, src: &str| {
        if !per_rule { if let Some(last) = v.last_mut() { if last.0 == ns { last.1.push_str(src); return; } } }
        v.push((ns.to_string(), src.to_string()));
    };
    for (ns, s) in &before { push(&mut embedded, ns, s); }
    for pos in 0..=n_core {
        for (p, s) in &in_core_ns { if *p == pos { push(&mut embedded, CORE_NS, s); } }
        if pos < n_core { push(&mut embedded, CORE_NS, &rule_source(pos, &core[pos])); }
    }
    for (ns, s) in &after { push(&mut embedded, ns, s); }
    Case { core, data, globals, kind, embedded, n_extra, shares_verbatim: sh.0, shares_modified: sh.1, extra_in_core_ns: in_core_ns.len(), fast_scan: rng.chance(1, 5) }
}

/// minimised past failures, run first
fn corpus() -> Vec<Case> {
    let g0 = vec![GV::I(7), GV::I(-1), GV::B(true), GV::B(false), GV::S(b"Hello".to_vec()), GV::S(b"".to_vec())];
    let undef = E::Read(IntKind { bytes: 1, signed: false, be: false }, bx(E::Filesize));
    let mk = |cond: E, pats: Vec<&[u8]>, data: &[u8], kind: Kind, before: &str| {
        let core = vec![RuleSpec { ns: 0, global: false, private: false, pats: pats.into_iter().map(|p| p.to_vec()).collect(), cond }];
        let embedded = vec![("nsb0".to_string(), before.to_string()), (CORE_NS.to_string(), rule_source(0, &core[0]))];
        Case { core, data: data.to_vec(), globals: g0.clone(), kind, embedded, n_extra: 2, shares_verbatim: 1, shares_modified: 0, extra_in_core_ns: 0, fast_scan: false }
    };
    vec![
        // the loop variable of `for .. of` holds pattern ids of the whole set, not positions in the rule
        mk(E::ForOf(Q::Any, vec![0, 1], SetSyn::Them, bx(E::Pat(P::Cur, A::None))), vec![b"qqq", b"abc"], b"xxabc", Kind::ForOf,
           "rule s0 { strings: $x = \"nothere\" $y = \"neither\" condition: any of them }\n"),
        mk(E::ForOf(Q::All, vec![0, 1], SetSyn::Them, bx(E::Cmp(Cmp::Gt, bx(E::Count(P::Cur, None)), bx(E::Int(0))))), vec![b"abc", b"xx"], b"xxabc", Kind::ForOf,
           "rule s0 { strings: $x = \"nothere\" $y = \"neither\" condition: any of them }\n"),
        // the lazily emitted call to search_for_patterns is skipped by an undefined operand
        mk(E::Or(bx(E::Cmp(Cmp::Gt, bx(undef), bx(E::Count(P::Id(0), None)))), bx(E::Pat(P::Id(0), A::None))), vec![b"BAaa"], b"xxBAaa", Kind::Main,
           "rule s0 { strings: $x = \"BAaa\" condition: $x }\n"),
        // finding 6: (filesize-100) of ($a,$b) alone vs after rules sharing $b
        mk(E::Of(Q::Expr(bx(E::Arith(Op::Sub, bx(E::Filesize), bx(E::Int(100))))), vec![0, 1], SetSyn::List(1), A::None), vec![b"abc", b"zzz"], b"xyz", Kind::NonPositive,
           "rule s0 { strings: $x = \"zzz\" $y = \"other\" condition: any of them }\n"),
    ]
}

fn coq_slice(s: &Slice) -> String {
    format!("(mkObs {} {} {})", coq_bool(s.0), coq_list(&s.1, |m| coq_list(m, |(o, l)| format!("({}, {})", o, l))), coq_bool(s.2))
}
fn json_slice(s: &Slice) -> String {
    let m: Vec<String> = s.1.iter().map(|p| format!("[{}]", p.iter().map(|(o, l)| format!("[{},{}]", o, l)).collect::<Vec<_>>().join(","))).collect();
    format!("{{\"matching\":{},\"matches\":[{}],\"scan_reports_matches\":{}}}", s.0, m.join(","), s.2)
}

fn main() { let args: Vec<String> = std::env::args().skip(1).collect(); std::process::exit(run(&args)); }

fn replay(path: &str) -> i32 {
    let d: serde_json::Value = serde_json::from_str(&std::fs::read_to_string(path).unwrap()).unwrap();
    let c = if d.get("case").is_some() { &d["case"] } else { &d };
    let data = unhex(c["data_hex"].as_str().unwrap());
    let globals: Vec<GV> = GLOBALS.iter().map(|(n, t)| { let v = &c["globals"][*n]; match t { T::Int => GV::I(v.as_i64().unwrap()), T::Bool => GV::B(v.as_bool().unwrap()), T::Str => GV::S(gv_str(v)) } }).collect();
    let target = c["target"].as_str().unwrap();
    let fast = c["fast_scan"].as_bool().unwrap_or(false);
    for key in ["single_source", "embedded_source"] {
        let mut sources: Vec<(String, String)> = vec![];
        for part in c[key].as_str().unwrap().split("//NS ").skip(1) { let (ns, body) = part.split_once('\n').unwrap(); sources.push((ns.trim().to_string(), body.to_string())); }
        println!("{}: {:?}", key, observe(&sources, &globals, &data, target, fast));
    }
    println!("recorded: single={} embedded={}", c["single"], c["embedded"]);
    0
}

fn join_sources(s: &[(String, String)]) -> String { s.iter().map(|(ns, t)| format!("//NS {}\n{}", ns, t)).collect() }

pub fn run(args: &[String]) -> i32 {
    quiet_panics();
    if let Some(p) = arg_val(args, "--replay") { return replay(&p); }
    let seed = arg_u64(args, "--seed", 1);
    let n = arg_u64(args, "--n", 300) as usize;
    let depth = arg_u64(args, "--depth", 3) as u32;
    let max_extra = arg_u64(args, "--max-extra", 200) as usize;
    let out = arg_val(args, "--out").expect("--out");
    let prelude = "From Coq Require Import List NArith ZArith Bool.\nFrom YV Require Import Cond.Syntax Cond.Sem Cond.RuleSet Cond.IndepCheck.\nImport ListNotations.\nOpen Scope Z_scope.\n";
    let mut shards = Shards::new(Path::new(&out), prelude, 60);
    let mut rng = Rng::new(seed ^ 0xC07);
    let mut stats = Stats::default();
    let mut distinct = std::collections::HashSet::new();
    let mut samples = vec![];
    let mut problems: Vec<String> = vec![];
    let mut attempts = 0;
    let mut corpus = corpus();
    while shards.total < n {
        attempts += 1;
        if attempts > 3 * n + 50 { break; }
        let kind = if rng.chance(1, 12) { Kind::NonPositive } else if rng.chance(1, 6) { Kind::ForOf } else if rng.chance(1, 6) { Kind::RefFar } else { Kind::Main };
        let d = 1 + rng.below(depth as u64) as u32;
        let case = if !corpus.is_empty() { corpus.remove(0) } else { gen_case(&mut rng, kind, d, max_extra) };
        let kind = case.kind; let _ = kind;
        let target = format!("r{}", case.core.len() - 1);
        let single_src = core_sources(&case.core);
        let single = observe(&single_src, &case.globals, &case.data, &target, case.fast_scan);
        let embedded = observe(&case.embedded, &case.globals, &case.data, &target, case.fast_scan);
        let warm = observe(&with_warmup(&single_src), &case.globals, &case.data, &target, case.fast_scan);
        let (single, embedded, warm) = match (single, embedded, warm) {
            (Ok(a), Ok(b), Ok(c)) => (a, b, c),
            (a, b, c) => {
                let msg = format!("{:?} / {:?} / {:?}", a.as_ref().err(), b.as_ref().err(), c.as_ref().err());
                if msg.contains("panic") { stats.inc("impl_panic_excluded(C05)"); } else { stats.inc("rejected_by_compiler"); }
                if problems.len() < 5 { problems.push(format!("{}\n{}", msg, join_sources(&case.embedded))); }
                continue;
            }
        };
        stats.inc("cases");
        stats.inc(match case.kind { Kind::Main => "stream_main", Kind::NonPositive => "stream_of_nonpositive", Kind::ForOf => "stream_for_of", Kind::RefFar => "stream_references_after_many_rules" });
        stats.inc(&format!("extra_rules_{}", match case.n_extra { 0 => "0", 1..=5 => "1-5", 6..=39 => "6-39", _ => "40-200" }));
        stats.add("extra_rules_total", case.n_extra as u64);
        stats.add("patterns_shared_verbatim", case.shares_verbatim as u64);
        stats.add("patterns_shared_with_other_modifiers", case.shares_modified as u64);
        stats.add("extra_rules_in_core_namespace", case.extra_in_core_ns as u64);
        if case.core.len() > 1 { stats.inc("target_has_dependencies_or_global"); }
        if case.fast_scan { stats.inc("fast_scan_mode"); }
        if single.0 { stats.inc("target_matches"); }
        if single.1.iter().any(|m| !m.is_empty()) { stats.inc("target_has_pattern_matches"); }
        if (single.0, &single.1) != (embedded.0, &embedded.1) { stats.inc("slices_differ"); }
        if single.1 != embedded.1 && single.0 == embedded.0 && (!single.2 || !embedded.2) { stats.inc("matches_differ_only_because_one_scan_never_searched"); }
        if size(&case.core.last().unwrap().cond) >= 5 { distinct.insert(format!("{}|{}", rule_source(0, case.core.last().unwrap()), case.n_extra)); }
        let tr = case.core.last().unwrap();
        let anch = anchoring(&tr.cond, tr.pats.len());
        if anch.iter().any(|a| matches!(a, Anchoring::At(_))) { stats.inc("target_has_anchored_pattern"); }
        let coq = format!("mkCase {} {} {} {} {} {} {} {}", coq_list(&case.data, |b| format!("{}", b)), coq_list(&case.globals, gv_coq),
            coq_list(&case.core, rule_coq), coq_bool(!case.fast_scan),
            coq_list(&anch, |a| match a { Anchoring::Free => "(0%nat, 0)".to_string(), Anchoring::At(k) => format!("(1%nat, {})", coq_z(*k as i128).replace("%Z", "")), Anchoring::Unknown => "(2%nat, 0)".to_string() }),
            coq_slice(&single), coq_slice(&embedded), coq_slice(&warm));
        let replay = format!("{{\"index\":{},\"stream\":{},\"target\":{},\"fast_scan\":{},\"n_extra\":{},\"single_source\":{},\"embedded_source\":{},\"data_hex\":\"{}\",\"globals\":{},\"single\":{},\"embedded\":{},\"single_with_forced_search\":{}}}",
            shards.total, json_str(match case.kind { Kind::Main => "main", Kind::NonPositive => "of_nonpositive", Kind::ForOf => "for_of", Kind::RefFar => "references_after_many_rules" }), json_str(&target), case.fast_scan, case.n_extra,
            json_str(&join_sources(&single_src)), json_str(&join_sources(&case.embedded)), hex(&case.data), gv_json(&case.globals),
            json_slice(&single), json_slice(&embedded), json_slice(&warm));
        if samples.len() < 2 && case.n_extra > 0 && case.n_extra < 4 { samples.push(format!("{{\"embedded_source\":{},\"data_hex\":\"{}\",\"slice\":{}}}", json_str(&join_sources(&case.embedded)), hex(&case.data), json_slice(&embedded))); }
        shards.push(coq, replay);
    }
    shards.flush();
    for p in &problems { eprintln!("c07: excluded: {}", p); }
    let rej = stats.0.get("rejected_by_compiler").copied().unwrap_or(0);
    if rej * 20 > shards.total as u64 + 20 || shards.total < n { eprintln!("c07: too many rejected sources ({rej})"); return 2; }
    println!("{{\"evaluations\":{},\"distinct_nontrivial\":{},\"shards\":{},\"distribution\":{},\"samples\":[{}]}}",
        shards.total, distinct.len(), shards.shard_count, stats.json(), samples.join(","));
    0
}
