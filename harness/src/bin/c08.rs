//! C08: serialized rules behave identically after deserialization; truncated
//! blobs and foreign headers are rejected.
//!
//! Streams (all from one PRNG):
//!  (a) byte level: values of the Coq universe (Codec/Universe.v) encoded and
//!      decoded by the real `bincode` crate through serde, compared with the
//!      model encoder/decoder (exact bytes; Ok/Eof/Invalid class on damaged bytes);
//!  (b) behaviour: generated rule sets scanned with R, deserialize(serialize R)
//!      and the second round trip;
//!  (c) crash points: prefixes of real blobs, altered headers, foreign blobs.
use verif_harness::util::*;
use std::panic::AssertUnwindSafe;
use std::path::Path;
use std::collections::HashMap;
use std::ops::Bound;
use serde::ser::{Serialize, Serializer, SerializeSeq, SerializeMap, SerializeTuple, SerializeStruct, SerializeTupleVariant, SerializeStructVariant};
use serde::de::{self, Deserialize, Deserializer, DeserializeSeed, Visitor, SeqAccess, MapAccess, EnumAccess, VariantAccess};

// ---------------------------------------------------------------- universe
#[derive(Clone, Debug, PartialEq)]
pub enum Ty { U8, Bool, U16, U32, U64, Usize, I16, I32, I64, F64, Bytes, Str,
              Opt(Box<Ty>), Seq(Box<Ty>), Map(Box<Ty>, Box<Ty>), Tuple(Vec<Ty>), Enum(Vec<Ty>),
              /// a named (possibly recursive) type of the generated environment (coq/Gen/rules_ty.json)
              Named(String) }
#[derive(Clone, Debug, PartialEq)]
pub enum Val { U8(u8), Bool(bool), UInt(u64), SInt(i64), F64(u64), Bytes(Vec<u8>), Str(Vec<u8>),
               None, Some(Box<Val>), Seq(Vec<Val>), Tuple(Vec<Val>), Variant(u32, Box<Val>) }

static FIELDS: [&str; 12] = ["f0", "f1", "f2", "f3", "f4", "f5", "f6", "f7", "f8", "f9", "f10", "f11"];
/// tuples with an even number of fields go through serde's struct methods,
/// the others through the tuple methods (bincode frames neither)
fn as_struct(n: usize) -> bool { n % 2 == 0 && n <= FIELDS.len() }

/// The shapes derived by translate/gen_codec.py from the Rust definitions reachable from
/// `struct Rules` (the same derivation that produces coq/Gen/RulesTyGen.v).
static TYPES_JSON: &str = include_str!("../../../coq/Gen/rules_ty.json");
fn ty_of_json(v: &serde_json::Value) -> Ty {
    let b = |x: &serde_json::Value| Box::new(ty_of_json(x));
    let ts = |x: &serde_json::Value| x.as_array().map(|a| a.iter().map(ty_of_json).collect()).unwrap_or_default();
    match v["k"].as_str().unwrap_or("?") {
        "u8" => Ty::U8, "bool" => Ty::Bool, "f64" => Ty::F64, "bytes" => Ty::Bytes, "str" => Ty::Str,
        "uint" => match v["w"].as_u64() { Some(16) => Ty::U16, Some(32) => Ty::U32, _ => Ty::U64 },
        "sint" => match v["w"].as_u64() { Some(16) => Ty::I16, Some(32) => Ty::I32, _ => Ty::I64 },
        "opt" => Ty::Opt(b(&v["t"])), "seq" => Ty::Seq(b(&v["t"])), "map" => Ty::Map(b(&v["key"]), b(&v["val"])),
        "tuple" => Ty::Tuple(ts(&v["ts"])), "enum" => Ty::Enum(ts(&v["ts"])),
        "named" => Ty::Named(v["n"].as_str().unwrap_or("?").to_string()),
        k => panic!("rules_ty.json: unknown shape kind {}", k),
    }
}
pub fn type_env() -> &'static HashMap<String, Ty> {
    static ENV: std::sync::OnceLock<HashMap<String, Ty>> = std::sync::OnceLock::new();
    ENV.get_or_init(|| {
        let v: serde_json::Value = serde_json::from_str(TYPES_JSON).expect("rules_ty.json");
        v["types"].as_object().expect("types").iter().map(|(k, t)| (k.clone(), ty_of_json(t))).collect()
    })
}
fn named(n: &str) -> &'static Ty { type_env().get(n).unwrap_or_else(|| panic!("unknown named type {}", n)) }

pub fn zero_size(t: &Ty) -> bool { matches!(t, Ty::Tuple(ts) if ts.iter().all(zero_size)) }

pub struct TV<'a>(pub &'a Ty, pub &'a Val);
impl Serialize for TV<'_> {
    fn serialize<S: Serializer>(&self, s: S) -> Result<S::Ok, S::Error> {
        match (self.0, self.1) {
            (Ty::U8, Val::U8(x)) => s.serialize_u8(*x),
            (Ty::Bool, Val::Bool(b)) => s.serialize_bool(*b),
            (Ty::U16, Val::UInt(n)) => s.serialize_u16(*n as u16),
            (Ty::U32, Val::UInt(n)) => s.serialize_u32(*n as u32),
            (Ty::U64, Val::UInt(n)) => s.serialize_u64(*n),
            (Ty::Usize, Val::UInt(n)) => (*n as usize).serialize(s),
            (Ty::I16, Val::SInt(z)) => s.serialize_i16(*z as i16),
            (Ty::I32, Val::SInt(z)) => s.serialize_i32(*z as i32),
            (Ty::I64, Val::SInt(z)) => s.serialize_i64(*z),
            (Ty::F64, Val::F64(bits)) => s.serialize_f64(f64::from_bits(*bits)),
            (Ty::Bytes, Val::Bytes(b)) => s.serialize_bytes(b),
            (Ty::Str, Val::Str(b)) => s.serialize_str(std::str::from_utf8(b).expect("generator: valid utf8")),
            (Ty::Opt(_), Val::None) => s.serialize_none(),
            (Ty::Opt(t), Val::Some(v)) => s.serialize_some(&TV(t, v)),
            (Ty::Seq(t), Val::Seq(vs)) => {
                let mut q = s.serialize_seq(Some(vs.len()))?;
                for v in vs { q.serialize_element(&TV(t, v))?; }
                q.end()
            }
            (Ty::Map(k, v), Val::Seq(es)) => {
                let mut m = s.serialize_map(Some(es.len()))?;
                for e in es {
                    if let Val::Tuple(kv) = e { m.serialize_entry(&TV(k, &kv[0]), &TV(v, &kv[1]))?; } else { panic!("generator: map entry") }
                }
                m.end()
            }
            (Ty::Tuple(ts), Val::Tuple(vs)) => {
                assert_eq!(ts.len(), vs.len());
                if as_struct(ts.len()) {
                    let mut t = s.serialize_struct("S", ts.len())?;
                    for (i, (ty, v)) in ts.iter().zip(vs).enumerate() { t.serialize_field(FIELDS[i], &TV(ty, v))?; }
                    t.end()
                } else {
                    let mut t = s.serialize_tuple(ts.len())?;
                    for (ty, v) in ts.iter().zip(vs) { t.serialize_element(&TV(ty, v))?; }
                    t.end()
                }
            }
            (Ty::Enum(ts), Val::Variant(i, v)) => match (&ts[*i as usize], &**v) {
                (Ty::Tuple(fs), _) if fs.is_empty() => s.serialize_unit_variant("E", *i, "V"),
                (Ty::Tuple(fs), Val::Tuple(vs)) => {
                    if as_struct(fs.len()) {
                        let mut t = s.serialize_struct_variant("E", *i, "V", fs.len())?;
                        for (k, (ty, v)) in fs.iter().zip(vs).enumerate() { t.serialize_field(FIELDS[k], &TV(ty, v))?; }
                        t.end()
                    } else {
                        let mut t = s.serialize_tuple_variant("E", *i, "V", fs.len())?;
                        for (ty, v) in fs.iter().zip(vs) { t.serialize_field(&TV(ty, v))?; }
                        t.end()
                    }
                }
                (t, v) => s.serialize_newtype_variant("E", *i, "V", &TV(t, v)),
            },
            (Ty::Named(n), v) => TV(named(n), v).serialize(s),
            (t, v) => panic!("generator: ill-typed value {:?} : {:?}", v, t),
        }
    }
}

#[derive(Clone, Copy)]
pub struct Seed<'a>(pub &'a Ty);
struct OptV<'a>(&'a Ty);
struct SeqV<'a>(&'a Ty);
struct MapV<'a>(&'a Ty, &'a Ty);
struct TupV<'a>(&'a [Ty]);
struct EnumV<'a>(&'a [Ty]);

impl<'de> DeserializeSeed<'de> for Seed<'_> {
    type Value = Val;
    fn deserialize<D: Deserializer<'de>>(self, d: D) -> Result<Val, D::Error> {
        match self.0 {
            Ty::U8 => u8::deserialize(d).map(Val::U8),
            Ty::Bool => bool::deserialize(d).map(Val::Bool),
            Ty::U16 => u16::deserialize(d).map(|x| Val::UInt(x as u64)),
            Ty::U32 => u32::deserialize(d).map(|x| Val::UInt(x as u64)),
            Ty::U64 => u64::deserialize(d).map(Val::UInt),
            Ty::Usize => usize::deserialize(d).map(|x| Val::UInt(x as u64)),
            Ty::I16 => i16::deserialize(d).map(|x| Val::SInt(x as i64)),
            Ty::I32 => i32::deserialize(d).map(|x| Val::SInt(x as i64)),
            Ty::I64 => i64::deserialize(d).map(Val::SInt),
            Ty::F64 => f64::deserialize(d).map(|x| Val::F64(x.to_bits())),
            // borrowed forms: bincode checks the length against the slice before
            // handing out the bytes (no allocation driven by a damaged length)
            Ty::Bytes => <&[u8]>::deserialize(d).map(|b| Val::Bytes(b.to_vec())),
            Ty::Str => <&str>::deserialize(d).map(|s| Val::Str(s.as_bytes().to_vec())),
            Ty::Opt(t) => d.deserialize_option(OptV(t)),
            Ty::Seq(t) => d.deserialize_seq(SeqV(t)),
            Ty::Map(k, v) => d.deserialize_map(MapV(k, v)),
            Ty::Tuple(ts) => if as_struct(ts.len()) { d.deserialize_struct("S", &FIELDS[..ts.len()], TupV(ts)) }
                             else { d.deserialize_tuple(ts.len(), TupV(ts)) },
            Ty::Enum(ts) => d.deserialize_enum("E", &[], EnumV(ts)),
            Ty::Named(n) => Seed(named(n)).deserialize(d),
        }
    }
}
impl<'de> Visitor<'de> for OptV<'_> {
    type Value = Val;
    fn expecting(&self, f: &mut std::fmt::Formatter) -> std::fmt::Result { f.write_str("option") }
    fn visit_none<E: de::Error>(self) -> Result<Val, E> { Ok(Val::None) }
    fn visit_some<D: Deserializer<'de>>(self, d: D) -> Result<Val, D::Error> { Seed(self.0).deserialize(d).map(|v| Val::Some(Box::new(v))) }
}
impl<'de> Visitor<'de> for SeqV<'_> {
    type Value = Val;
    fn expecting(&self, f: &mut std::fmt::Formatter) -> std::fmt::Result { f.write_str("seq") }
    fn visit_seq<A: SeqAccess<'de>>(self, mut a: A) -> Result<Val, A::Error> {
        let mut vs = vec![];
        while let Some(v) = a.next_element_seed(Seed(self.0))? { vs.push(v); }
        Ok(Val::Seq(vs))
    }
}
impl<'de> Visitor<'de> for MapV<'_> {
    type Value = Val;
    fn expecting(&self, f: &mut std::fmt::Formatter) -> std::fmt::Result { f.write_str("map") }
    fn visit_map<A: MapAccess<'de>>(self, mut a: A) -> Result<Val, A::Error> {
        let mut vs = vec![];
        while let Some(k) = a.next_key_seed(Seed(self.0))? {
            let v = a.next_value_seed(Seed(self.1))?;
            vs.push(Val::Tuple(vec![k, v]));
        }
        Ok(Val::Seq(vs))
    }
}
impl<'de> Visitor<'de> for TupV<'_> {
    type Value = Val;
    fn expecting(&self, f: &mut std::fmt::Formatter) -> std::fmt::Result { f.write_str("tuple") }
    fn visit_seq<A: SeqAccess<'de>>(self, mut a: A) -> Result<Val, A::Error> {
        let mut vs = vec![];
        for (i, t) in self.0.iter().enumerate() {
            match a.next_element_seed(Seed(t))? { Some(v) => vs.push(v), None => return Err(de::Error::invalid_length(i, &"tuple")) }
        }
        Ok(Val::Tuple(vs))
    }
}
impl<'de> Visitor<'de> for EnumV<'_> {
    type Value = Val;
    fn expecting(&self, f: &mut std::fmt::Formatter) -> std::fmt::Result { f.write_str("enum") }
    fn visit_enum<A: EnumAccess<'de>>(self, a: A) -> Result<Val, A::Error> {
        let (idx, variant): (u32, A::Variant) = a.variant()?;
        let t = match self.0.get(idx as usize) {
            Some(t) => t,
            None => return Err(de::Error::invalid_value(de::Unexpected::Unsigned(idx as u64), &"variant index")),
        };
        let payload = match t {
            Ty::Tuple(fs) if fs.is_empty() => { variant.unit_variant()?; Val::Tuple(vec![]) }
            Ty::Tuple(fs) => if as_struct(fs.len()) { variant.struct_variant(&FIELDS[..fs.len()], TupV(fs))? }
                             else { variant.tuple_variant(fs.len(), TupV(fs))? },
            t => variant.newtype_variant_seed(Seed(t))?,
        };
        Ok(Val::Variant(idx, Box::new(payload)))
    }
}

pub fn real_encode(t: &Ty, v: &Val) -> Vec<u8> {
    bincode::serde::encode_to_vec(TV(t, v), bincode::config::standard()).expect("bincode encode")
}
#[derive(Debug, Clone, PartialEq)]
pub enum DOut { Ok(Val, usize), Eof, Invalid, Panic }
pub fn real_decode(t: &Ty, b: &[u8]) -> DOut {
    let r = catch(AssertUnwindSafe(|| bincode::serde::seed_decode_from_slice(Seed(t), b, bincode::config::standard())));
    match r {
        Err(_) => DOut::Panic,
        Ok(Ok((v, n))) => DOut::Ok(v, n),
        Ok(Err(bincode::error::DecodeError::UnexpectedEnd { .. })) => DOut::Eof,
        Ok(Err(_)) => DOut::Invalid,
    }
}

// ---- Coq printers
pub fn coq_ty(t: &Ty) -> String {
    match t {
        Ty::U8 => "TU8".into(), Ty::Bool => "TBool".into(),
        Ty::U16 => "(TUInt W16)".into(), Ty::U32 => "(TUInt W32)".into(), Ty::U64 | Ty::Usize => "(TUInt W64)".into(),
        Ty::I16 => "(TSInt W16)".into(), Ty::I32 => "(TSInt W32)".into(), Ty::I64 => "(TSInt W64)".into(),
        Ty::F64 => "TF64".into(), Ty::Bytes => "TBytes".into(), Ty::Str => "TStr".into(),
        Ty::Opt(t) => format!("(TOpt {})", coq_ty(t)),
        Ty::Seq(t) => format!("(TSeq {})", coq_ty(t)),
        Ty::Map(k, v) => format!("(TMap {} {})", coq_ty(k), coq_ty(v)),
        Ty::Tuple(ts) => format!("(TTuple {})", coq_list(ts, coq_ty)),
        Ty::Enum(ts) => format!("(TEnum {})", coq_list(ts, coq_ty)),
        Ty::Named(n) => coq_ty(named(n)),
    }
}
pub fn coq_val(v: &Val) -> String {
    match v {
        Val::U8(x) => format!("(VU8 {})", coq_n(*x as u64)),
        Val::Bool(b) => format!("(VBool {})", coq_bool(*b)),
        Val::UInt(n) => format!("(VUInt {})", coq_n(*n)),
        Val::SInt(z) => format!("(VSInt {})", coq_z(*z as i128)),
        Val::F64(bits) => format!("(VF64 {})", coq_bytes(&bits.to_le_bytes())),
        Val::Bytes(b) => format!("(VBytes {})", coq_bytes(b)),
        Val::Str(b) => format!("(VStr {})", coq_bytes(b)),
        Val::None => "VNone".into(),
        Val::Some(v) => format!("(VSome {})", coq_val(v)),
        Val::Seq(vs) => format!("(VSeq {})", coq_list(vs, coq_val)),
        Val::Tuple(vs) => format!("(VTuple {})", coq_list(vs, coq_val)),
        Val::Variant(i, v) => format!("(VVariant {} {})", coq_n(*i as u64), coq_val(v)),
    }
}
/// a long byte list as a concatenation of short literals (the list notation
/// is interpreted recursively: one literal of 10^5 elements overflows coqc's stack)
pub fn coq_bytes_chunked(b: &[u8]) -> String {
    format!("(concat {})%N", coq_list(&b.chunks(200).collect::<Vec<_>>(), |c| coq_list(c, |x| format!("{}", x))))
}
pub fn coq_dout(o: &DOut) -> String {
    match o {
        DOut::Ok(v, n) => format!("(DoOk {} {})", coq_val(v), coq_nat(*n)),
        DOut::Eof => "DoEof".into(), DOut::Invalid => "DoInvalid".into(), DOut::Panic => "DoPanic".into(),
    }
}

// ---------------------------------------------------------------- generators (a)
pub fn gen_ty(rng: &mut Rng, depth: u32) -> Ty {
    let leaf = depth == 0 || rng.chance(2, 5);
    if leaf {
        return match rng.below(12) {
            0 => Ty::U8, 1 => Ty::Bool, 2 => Ty::U16, 3 => Ty::U32, 4 => Ty::U64, 5 => Ty::Usize,
            6 => Ty::I16, 7 => Ty::I32, 8 => Ty::I64, 9 => Ty::F64, 10 => Ty::Bytes, _ => Ty::Str };
    }
    match rng.below(6) {
        0 => Ty::Opt(Box::new(gen_ty(rng, depth - 1))),
        1 => { let mut t = gen_ty(rng, depth - 1); if zero_size(&t) { t = Ty::U8; } Ty::Seq(Box::new(t)) }
        2 => { let mut k = gen_ty(rng, depth - 1); if zero_size(&k) { k = Ty::I32; } Ty::Map(Box::new(k), Box::new(gen_ty(rng, depth - 1))) }
        3 | 4 => { let n = rng.below(5) as usize; Ty::Tuple((0..n).map(|_| gen_ty(rng, depth - 1)).collect()) }
        _ => { let n = 1 + rng.below(5) as usize;
               Ty::Enum((0..n).map(|_| if rng.chance(1, 3) { Ty::Tuple(vec![]) } else { gen_ty(rng, depth - 1) }).collect()) }
    }
}
const U_EDGES: [u64; 14] = [0, 1, 250, 251, 252, 253, 255, 256, 65535, 65536, 0xffff_ffff, 0x1_0000_0000, u64::MAX - 1, u64::MAX];
fn gen_uint(rng: &mut Rng, max: u64) -> u64 {
    let x = match rng.below(4) { 0 => *rng.pick(&U_EDGES), 1 => rng.below(300), 2 => rng.next() >> rng.below(64), _ => rng.next() };
    if max == u64::MAX { x } else { x % (max + 1) }
}
fn gen_sint(rng: &mut Rng, bits: u32) -> i64 {
    let lo = -(1i128 << (bits - 1)); let hi = (1i128 << (bits - 1)) - 1;
    let x: i128 = match rng.below(5) {
        0 => *rng.pick(&[0i128, -1, 1, 125, 126, -125, -126, -127, 32767, -32768, 32768, 2147483647, -2147483648, i64::MAX as i128, i64::MIN as i128]),
        1 => rng.range(-200, 200) as i128,
        2 => (rng.next() >> rng.below(64)) as i64 as i128,
        3 => -(((rng.next() >> rng.below(64)) >> 1) as i128),
        _ => rng.next() as i64 as i128 };
    x.clamp(lo, hi) as i64
}
pub fn gen_utf8(rng: &mut Rng, n: usize) -> Vec<u8> {
    let mut s = String::new();
    for _ in 0..n {
        let c = match rng.below(6) {
            0..=2 => (0x20 + rng.below(0x5f)) as u32,
            3 => 0x80 + rng.below(0x780) as u32,
            4 => { let c = 0x800 + rng.below(0xf800) as u32; if (0xd800..0xe000).contains(&c) { 0xe000 } else { c } }
            _ => 0x10000 + rng.below(0x100000) as u32 };
        s.push(char::from_u32(c).unwrap_or('?'));
    }
    s.into_bytes()
}
fn gen_len(rng: &mut Rng) -> usize { match rng.below(10) { 0 => 0, 1..=6 => rng.below(5) as usize, 7 | 8 => rng.below(20) as usize, _ => 240 + rng.below(30) as usize } }
pub fn gen_val(rng: &mut Rng, t: &Ty, budget: &mut i64) -> Val {
    *budget -= 1;
    match t {
        Ty::U8 => Val::U8(rng.next() as u8), Ty::Bool => Val::Bool(rng.chance(1, 2)),
        Ty::U16 => Val::UInt(gen_uint(rng, 0xffff)), Ty::U32 => Val::UInt(gen_uint(rng, 0xffff_ffff)),
        Ty::U64 | Ty::Usize => Val::UInt(gen_uint(rng, u64::MAX)),
        Ty::I16 => Val::SInt(gen_sint(rng, 16)), Ty::I32 => Val::SInt(gen_sint(rng, 32)), Ty::I64 => Val::SInt(gen_sint(rng, 64)),
        Ty::F64 => Val::F64(match rng.below(4) { 0 => (rng.range(-1000, 1000) as f64 / 8.0).to_bits(), 1 => *rng.pick(&[0u64, 0x8000_0000_0000_0000, 0x7ff0_0000_0000_0000, 0x7ff8_0000_0000_0000, 1]), _ => rng.next() }),
        Ty::Bytes => { let n = gen_len(rng); *budget -= n as i64 / 8; Val::Bytes((0..n).map(|_| rng.next() as u8).collect()) }
        Ty::Str => { let n = gen_len(rng).min(120); *budget -= n as i64 / 8; Val::Str(gen_utf8(rng, n)) }
        Ty::Opt(t) => if rng.chance(1, 3) { Val::None } else { Val::Some(Box::new(gen_val(rng, t, budget))) },
        Ty::Seq(t) => { let n = if *budget <= 0 { 0 } else { gen_len(rng).min(*budget as usize) };
                        Val::Seq((0..n).map(|_| gen_val(rng, t, budget)).collect()) }
        Ty::Map(k, v) => { let n = if *budget <= 0 { 0 } else { gen_len(rng).min(*budget as usize / 2) };
                           Val::Seq((0..n).map(|_| Val::Tuple(vec![gen_val(rng, k, budget), gen_val(rng, v, budget)])).collect()) }
        Ty::Tuple(ts) => Val::Tuple(ts.iter().map(|t| gen_val(rng, t, budget)).collect()),
        Ty::Enum(ts) => { let i = rng.below(ts.len() as u64) as usize; Val::Variant(i as u32, Box::new(gen_val(rng, &ts[i], budget))) }
        Ty::Named(n) => gen_val(rng, named(n), budget),
    }
}

// ---- derive-generated serde code, mapped by hand to the universe: ties the
// conventions of #[derive(Serialize, Deserialize)] (field order, #[serde(skip)],
// transparent newtypes, variant indices, std impls for Option/Bound/HashMap/tuples)
// to the shapes used by the model.
pub trait Shape { fn ty() -> Ty; fn val(&self) -> Val; }
macro_rules! shape_uint { ($t:ty, $v:ident) => { impl Shape for $t { fn ty() -> Ty { Ty::$v } fn val(&self) -> Val { Val::UInt(*self as u64) } } } }
macro_rules! shape_sint { ($t:ty, $v:ident) => { impl Shape for $t { fn ty() -> Ty { Ty::$v } fn val(&self) -> Val { Val::SInt(*self as i64) } } } }
shape_uint!(u16, U16); shape_uint!(u32, U32); shape_uint!(u64, U64); shape_uint!(usize, Usize);
shape_sint!(i16, I16); shape_sint!(i32, I32); shape_sint!(i64, I64);
impl Shape for u8 { fn ty() -> Ty { Ty::U8 } fn val(&self) -> Val { Val::U8(*self) } }
impl Shape for bool { fn ty() -> Ty { Ty::Bool } fn val(&self) -> Val { Val::Bool(*self) } }
impl Shape for f64 { fn ty() -> Ty { Ty::F64 } fn val(&self) -> Val { Val::F64(self.to_bits()) } }
impl Shape for String { fn ty() -> Ty { Ty::Str } fn val(&self) -> Val { Val::Str(self.as_bytes().to_vec()) } }
impl<T: Shape> Shape for Vec<T> { fn ty() -> Ty { Ty::Seq(Box::new(T::ty())) } fn val(&self) -> Val { Val::Seq(self.iter().map(|x| x.val()).collect()) } }
impl<T: Shape> Shape for Option<T> { fn ty() -> Ty { Ty::Opt(Box::new(T::ty())) }
    fn val(&self) -> Val { match self { None => Val::None, Some(x) => Val::Some(Box::new(x.val())) } } }
impl<A: Shape, B: Shape> Shape for (A, B) { fn ty() -> Ty { Ty::Tuple(vec![A::ty(), B::ty()]) } fn val(&self) -> Val { Val::Tuple(vec![self.0.val(), self.1.val()]) } }
impl<K: Shape, V: Shape> Shape for HashMap<K, V> { fn ty() -> Ty { Ty::Map(Box::new(K::ty()), Box::new(V::ty())) }
    fn val(&self) -> Val { Val::Seq(self.iter().map(|(k, v)| Val::Tuple(vec![k.val(), v.val()])).collect()) } }
// serde's impl for Bound: enum { Unbounded, Included(T), Excluded(T) }
impl<T: Shape> Shape for Bound<T> { fn ty() -> Ty { Ty::Enum(vec![Ty::Tuple(vec![]), T::ty(), T::ty()]) }
    fn val(&self) -> Val { match self { Bound::Unbounded => Val::Variant(0, Box::new(Val::Tuple(vec![]))),
        Bound::Included(x) => Val::Variant(1, Box::new(x.val())), Bound::Excluded(x) => Val::Variant(2, Box::new(x.val())) } } }
fn unit() -> Ty { Ty::Tuple(vec![]) }
fn vunit() -> Box<Val> { Box::new(Val::Tuple(vec![])) }

#[derive(serde::Serialize, serde::Deserialize, Clone, Copy)] #[serde(transparent)] pub struct MId(u32);
impl Shape for MId { fn ty() -> Ty { Ty::U32 } fn val(&self) -> Val { Val::UInt(self.0 as u64) } }
#[derive(serde::Serialize, serde::Deserialize, Clone, Copy)] pub struct MReId(i32);      // newtype without `transparent`
impl Shape for MReId { fn ty() -> Ty { Ty::I32 } fn val(&self) -> Val { Val::SInt(self.0 as i64) } }
#[derive(serde::Serialize, serde::Deserialize)] pub enum MMeta { Bool(bool), Integer(i64), Float(f64), String(MId), Bytes(MId) }
impl Shape for MMeta { fn ty() -> Ty { Ty::Enum(vec![Ty::Bool, Ty::I64, Ty::F64, Ty::U32, Ty::U32]) }
    fn val(&self) -> Val { match self { MMeta::Bool(b) => Val::Variant(0, Box::new(b.val())), MMeta::Integer(i) => Val::Variant(1, Box::new(i.val())),
        MMeta::Float(f) => Val::Variant(2, Box::new(f.val())), MMeta::String(s) => Val::Variant(3, Box::new(s.val())), MMeta::Bytes(s) => Val::Variant(4, Box::new(s.val())) } } }
#[derive(serde::Serialize, serde::Deserialize, Clone, Copy)] pub enum MKind { Text, Hex, Regexp }
impl Shape for MKind { fn ty() -> Ty { Ty::Enum(vec![unit(), unit(), unit()]) }
    fn val(&self) -> Val { Val::Variant(*self as u32, vunit()) } }
#[derive(serde::Serialize, serde::Deserialize)] pub enum MSub {
    Literal { pattern: MId, anchored_at: Option<usize>, flags: u16 },
    Regexp { flags: u16 },
    Tail { chained_to: MId, gap: (u32, Option<u32>), flags: u16 },
    Base64 { pattern: MId, padding: u8 },
}
impl Shape for MSub {
    fn ty() -> Ty { Ty::Enum(vec![Ty::Tuple(vec![Ty::U32, <Option<usize>>::ty(), Ty::U16]), Ty::Tuple(vec![Ty::U16]),
        Ty::Tuple(vec![Ty::U32, <(u32, Option<u32>)>::ty(), Ty::U16]), Ty::Tuple(vec![Ty::U32, Ty::U8])]) }
    fn val(&self) -> Val { match self {
        MSub::Literal { pattern, anchored_at, flags } => Val::Variant(0, Box::new(Val::Tuple(vec![pattern.val(), anchored_at.val(), flags.val()]))),
        MSub::Regexp { flags } => Val::Variant(1, Box::new(Val::Tuple(vec![flags.val()]))),
        MSub::Tail { chained_to, gap, flags } => Val::Variant(2, Box::new(Val::Tuple(vec![chained_to.val(), gap.val(), flags.val()]))),
        MSub::Base64 { pattern, padding } => Val::Variant(3, Box::new(Val::Tuple(vec![pattern.val(), padding.val()]))) } }
}
#[derive(serde::Serialize, serde::Deserialize)] pub struct MRule {
    ns: i32, ident: MId, tags: Vec<MId>,
    #[serde(skip)] ident_ref: u64,
    metadata: Vec<(MId, MMeta)>, patterns: Vec<(i32, MKind, bool)>, num_private: usize, is_global: bool }
impl<A: Shape, B: Shape, C: Shape> Shape for (A, B, C) { fn ty() -> Ty { Ty::Tuple(vec![A::ty(), B::ty(), C::ty()]) }
    fn val(&self) -> Val { Val::Tuple(vec![self.0.val(), self.1.val(), self.2.val()]) } }
impl Shape for MRule {
    fn ty() -> Ty { Ty::Tuple(vec![Ty::I32, Ty::U32, <Vec<MId>>::ty(), <Vec<(MId, MMeta)>>::ty(), <Vec<(i32, MKind, bool)>>::ty(), Ty::Usize, Ty::Bool]) }
    fn val(&self) -> Val { Val::Tuple(vec![self.ns.val(), self.ident.val(), self.tags.val(), self.metadata.val(), self.patterns.val(), self.num_private.val(), self.is_global.val()]) } }
#[derive(serde::Serialize, serde::Deserialize)] pub enum MHeader { Unconstrained, Unsatisfiable, Constrained(Vec<u8>) }
impl Shape for MHeader { fn ty() -> Ty { Ty::Enum(vec![unit(), unit(), <Vec<u8>>::ty()]) }
    fn val(&self) -> Val { match self { MHeader::Unconstrained => Val::Variant(0, vunit()), MHeader::Unsatisfiable => Val::Variant(1, vunit()), MHeader::Constrained(b) => Val::Variant(2, Box::new(b.val())) } } }
#[derive(serde::Serialize, serde::Deserialize)] pub struct MRules {
    pool: Vec<String>, relaxed: bool, wasm_mod: Vec<u8>, compiled: Option<Vec<u8>>, imported: Vec<MId>, rules: Vec<MRule>,
    num_patterns: usize, sub_patterns: Vec<(i32, MSub)>, bounds: HashMap<i32, (Bound<i64>, Bound<i64>)>, headers: HashMap<i32, MHeader>,
    #[serde(skip)] warnings: Vec<String>,
    regex_sets: HashMap<MReId, Vec<MReId>>, profiling: bool }
impl Shape for MRules {
    fn ty() -> Ty { Ty::Tuple(vec![<Vec<String>>::ty(), Ty::Bool, <Vec<u8>>::ty(), <Option<Vec<u8>>>::ty(), <Vec<MId>>::ty(), <Vec<MRule>>::ty(), Ty::Usize,
        <Vec<(i32, MSub)>>::ty(), <HashMap<i32, (Bound<i64>, Bound<i64>)>>::ty(), <HashMap<i32, MHeader>>::ty(),
        Ty::Map(Box::new(Ty::I32), Box::new(Ty::Seq(Box::new(Ty::I32)))), Ty::Bool]) }
    fn val(&self) -> Val { Val::Tuple(vec![self.pool.val(), self.relaxed.val(), self.wasm_mod.val(), self.compiled.val(), self.imported.val(), self.rules.val(),
        self.num_patterns.val(), self.sub_patterns.val(), self.bounds.val(), self.headers.val(),
        Val::Seq(self.regex_sets.iter().map(|(k, v)| Val::Tuple(vec![k.val(), v.val()])).collect()), self.profiling.val()]) } }

fn gen_bound(rng: &mut Rng) -> Bound<i64> { match rng.below(3) { 0 => Bound::Unbounded, 1 => Bound::Included(gen_sint(rng, 64)), _ => Bound::Excluded(gen_sint(rng, 64)) } }
pub fn gen_mrules(rng: &mut Rng) -> MRules {
    let id = |rng: &mut Rng| MId(gen_uint(rng, 0xffff_ffff) as u32);
    let small = |rng: &mut Rng| rng.below(4) as usize;
    MRules {
        pool: (0..small(rng)).map(|_| { let k = rng.below(8) as usize; String::from_utf8(gen_utf8(rng, k)).unwrap() }).collect(),
        relaxed: rng.chance(1, 2),
        wasm_mod: (0..rng.below(40)).map(|_| rng.next() as u8).collect(),
        compiled: if rng.chance(1, 2) { None } else { Some((0..rng.below(6)).map(|_| rng.next() as u8).collect()) },
        imported: (0..small(rng)).map(|_| id(rng)).collect(),
        rules: (0..small(rng)).map(|_| MRule {
            ns: gen_sint(rng, 32) as i32, ident: id(rng), tags: (0..small(rng)).map(|_| id(rng)).collect(), ident_ref: rng.next(),
            metadata: (0..small(rng)).map(|_| (id(rng), match rng.below(5) { 0 => MMeta::Bool(rng.chance(1, 2)), 1 => MMeta::Integer(gen_sint(rng, 64)),
                2 => MMeta::Float(f64::from_bits(rng.next())), 3 => MMeta::String(id(rng)), _ => MMeta::Bytes(id(rng)) })).collect(),
            patterns: (0..small(rng)).map(|_| (gen_sint(rng, 32) as i32, *rng.pick(&[MKind::Text, MKind::Hex, MKind::Regexp]), rng.chance(1, 2))).collect(),
            num_private: gen_uint(rng, u64::MAX) as usize, is_global: rng.chance(1, 2) }).collect(),
        num_patterns: gen_uint(rng, u64::MAX) as usize,
        sub_patterns: (0..small(rng)).map(|_| (gen_sint(rng, 32) as i32, match rng.below(4) {
            0 => MSub::Literal { pattern: id(rng), anchored_at: if rng.chance(1, 2) { None } else { Some(gen_uint(rng, u64::MAX) as usize) }, flags: gen_uint(rng, 0xffff) as u16 },
            1 => MSub::Regexp { flags: gen_uint(rng, 0xffff) as u16 },
            2 => MSub::Tail { chained_to: id(rng), gap: (gen_uint(rng, 0xffff_ffff) as u32, if rng.chance(1, 2) { None } else { Some(rng.next() as u32) }), flags: rng.next() as u16 },
            _ => MSub::Base64 { pattern: id(rng), padding: rng.next() as u8 } })).collect(),
        bounds: (0..small(rng)).map(|_| (gen_sint(rng, 32) as i32, (gen_bound(rng), gen_bound(rng)))).collect(),
        headers: (0..small(rng)).map(|_| (gen_sint(rng, 32) as i32, match rng.below(3) { 0 => MHeader::Unconstrained, 1 => MHeader::Unsatisfiable,
            _ => MHeader::Constrained((0..rng.below(5)).map(|_| rng.next() as u8).collect()) })).collect(),
        warnings: vec!["dropped".into()],
        regex_sets: (0..small(rng)).map(|_| (MReId(gen_sint(rng, 32) as i32), (0..small(rng)).map(|_| MReId(gen_sint(rng, 32) as i32)).collect())).collect(),
        profiling: rng.chance(1, 2),
    }
}
// HashMap<MReId,..> needs Hash/Eq
impl std::hash::Hash for MReId { fn hash<H: std::hash::Hasher>(&self, h: &mut H) { self.0.hash(h) } }
impl PartialEq for MReId { fn eq(&self, o: &Self) -> bool { self.0 == o.0 } }
impl Eq for MReId {}

/// hand-aimed inputs for the decoders of the small shapes: every marker byte in
/// front of every integer width, bool / option / variant tags, UTF-8 boundary
/// sequences (surrogates, over-long forms, > U+10FFFF, truncated sequences)
pub fn directed(rng: &mut Rng) -> (Ty, Vec<u8>, &'static str) {
    const UTF8: [&[u8]; 22] = [b"\xed\xa0\x80", b"\xed\x9f\xbf", b"\xee\x80\x80", b"\xc0\x80", b"\xc1\xbf", b"\xc2\x80", b"\xdf\xbf", b"\xe0\x80\x80", b"\xe0\x9f\xbf",
        b"\xe0\xa0\x80", b"\xef\xbf\xbf", b"\xf0\x80\x80\x80", b"\xf0\x8f\xbf\xbf", b"\xf0\x90\x80\x80", b"\xf4\x8f\xbf\xbf", b"\xf4\x90\x80\x80", b"\xf5\x80\x80\x80",
        b"\xe2\x82", b"\xf0\x9f\x98", b"\x80", b"\xff", b"a\xc3\xa9z"];
    let marker = |rng: &mut Rng| -> u8 { if rng.chance(2, 3) { *rng.pick(&[0u8, 1, 2, 3, 249, 250, 251, 252, 253, 254, 255]) } else { rng.next() as u8 } };
    let tail = |rng: &mut Rng, n: u64| -> Vec<u8> { (0..rng.below(n + 1)).map(|_| if rng.chance(1, 3) { 0 } else { rng.next() as u8 }).collect() };
    match rng.below(8) {
        0 => { let t = rng.pick(&[Ty::U16, Ty::U32, Ty::U64, Ty::Usize, Ty::I16, Ty::I32, Ty::I64]).clone(); let mut b = vec![marker(rng)]; b.extend(tail(rng, 9)); (t, b, "directed-int") }
        1 => (Ty::Bool, vec![marker(rng)], "directed-bool"),
        2 => { let mut b = vec![marker(rng)]; b.extend(tail(rng, 2)); (Ty::Opt(Box::new(Ty::U8)), b, "directed-option") }
        3 => { let mut b = vec![marker(rng)]; b.extend(tail(rng, 9)); (Ty::Enum(vec![Ty::Tuple(vec![]), Ty::U8, Ty::Tuple(vec![]), Ty::U16]), b, "directed-enum") }
        4 | 5 => { let mut body: Vec<u8> = vec![]; for _ in 0..1 + rng.below(3) { if rng.chance(1, 4) { body.push(b'a' + rng.below(26) as u8); } else { body.extend(*rng.pick(&UTF8)); } }
               let mut b = vec![body.len() as u8]; b.extend(body); (Ty::Str, b, "directed-utf8") }
        6 => { let mut b = vec![marker(rng)]; b.extend(tail(rng, 12)); (rng.pick(&[Ty::Bytes, Ty::Str, Ty::Seq(Box::new(Ty::U8)), Ty::Seq(Box::new(Ty::Bool)), Ty::Map(Box::new(Ty::U8), Box::new(Ty::Bool))]).clone(), b, "directed-length") }
        _ => { let t = Ty::Tuple(vec![Ty::Opt(Box::new(Ty::Bool)), Ty::Enum(vec![Ty::I16, Ty::Str]), Ty::U16]); let mut b = vec![marker(rng) % 3, marker(rng) % 3]; b.extend(tail(rng, 8)); (t, b, "directed-mixed") }
    }
}

/// damage an encoding: truncation, byte replacement, insertion, deletion
pub fn mutate(rng: &mut Rng, b: &[u8]) -> (Vec<u8>, &'static str) {
    let mut v = b.to_vec();
    match rng.below(10) {
        0..=3 if !v.is_empty() => { let k = rng.below(v.len() as u64) as usize; v.truncate(k); (v, "truncated") }
        4..=6 if !v.is_empty() => { let i = rng.below(v.len() as u64) as usize;
            v[i] = if rng.chance(1, 2) { *rng.pick(&[0u8, 1, 2, 250, 251, 252, 253, 254, 255, 0x80, 0xc0, 0xff]) } else { rng.next() as u8 }; (v, "byte-replaced") }
        7 if !v.is_empty() => { let i = rng.below(v.len() as u64) as usize; v.remove(i); (v, "byte-deleted") }
        8 => { let i = rng.below(v.len() as u64 + 1) as usize; v.insert(i, rng.next() as u8); (v, "byte-inserted") }
        _ => { let n = rng.below(12) as usize; ((0..n).map(|_| rng.next() as u8).collect(), "random") }
    }
}

// ---------------------------------------------------------------- rule sets (b)
const B64: &[u8; 64] = b"ABCDEFGHIJKLMNOPQRSTUVWXYZabcdefghijklmnopqrstuvwxyz0123456789+/";
const B64_CUSTOM: &[u8; 64] = b"NOPQRSTUVWXYZabcdefghijklmnopqrstuvwxyz0123456789+/ABCDEFGHIJKLM";
fn base64(alpha: &[u8; 64], d: &[u8]) -> Vec<u8> {
    let mut o = vec![];
    for c in d.chunks(3) {
        let n = (c[0] as u32) << 16 | (*c.get(1).unwrap_or(&0) as u32) << 8 | *c.get(2).unwrap_or(&0) as u32;
        o.push(alpha[(n >> 18) as usize & 63]); o.push(alpha[(n >> 12) as usize & 63]);
        if c.len() > 1 { o.push(alpha[(n >> 6) as usize & 63]); }
        if c.len() > 2 { o.push(alpha[n as usize & 63]); }
    }
    o
}
fn wide(d: &[u8]) -> Vec<u8> { d.iter().flat_map(|b| [*b, 0]).collect() }
fn word(rng: &mut Rng, lo: u64, hi: u64) -> String {
    let n = lo + rng.below(hi - lo + 1);
    (0..n).map(|_| (b'a' + rng.below(26) as u8) as char).collect()
}
fn hexs(b: &[u8]) -> String { b.iter().map(|x| format!("{:02X}", x)).collect::<Vec<_>>().join(" ") }

pub struct Pat { pub decl: String, pub inst: Vec<Vec<u8>>, pub kind: &'static str }

fn gen_text_pat(rng: &mut Rng) -> Pat {
    let w = word(rng, 4, 9); let wb = w.as_bytes().to_vec();
    let flip = |rng: &mut Rng| -> Vec<u8> { wb.iter().map(|c| if rng.chance(1, 2) { c.to_ascii_uppercase() } else { *c }).collect() };
    let (m, inst, kind): (String, Vec<Vec<u8>>, &'static str) = match rng.below(16) {
        0 => ("".into(), vec![wb.clone()], "text"),
        1 => ("ascii".into(), vec![wb.clone()], "text-ascii"),
        2 => ("wide".into(), vec![wide(&wb)], "text-wide"),
        3 => ("ascii wide".into(), vec![wb.clone(), wide(&wb)], "text-ascii-wide"),
        4 => ("nocase".into(), vec![flip(rng), wb.clone()], "text-nocase"),
        5 => ("wide nocase".into(), vec![wide(&flip(rng))], "text-wide-nocase"),
        6 => ("fullword".into(), vec![wb.clone()], "text-fullword"),
        7 => ("nocase fullword ascii wide".into(), vec![flip(rng), wide(&flip(rng))], "text-nocase-fullword-ascii-wide"),
        8 => { let k = 1 + rng.below(255) as u8; ("xor".into(), vec![wb.iter().map(|c| c ^ k).collect(), wb.clone()], "text-xor") }
        9 => { let k = 16 + rng.below(33) as u8; ("xor(16-48)".into(), vec![wb.iter().map(|c| c ^ k).collect()], "text-xor-range") }
        10 => { let k = 1 + rng.below(255) as u8; ("xor wide".into(), vec![wide(&wb).iter().map(|c| c ^ k).collect()], "text-xor-wide") }
        11 => { let r = rng.below(3) as usize; let mut d = vec![b'#'; r]; d.extend(&wb); d.extend(b"!!");
                ("base64".into(), vec![base64(B64, &d)], "text-base64") }
        12 => { let mut d = wb.clone(); d.extend(b"!!"); ("base64wide".into(), vec![wide(&base64(B64, &d))], "text-base64wide") }
        13 => { let mut d = wb.clone(); d.extend(b"!!");
                (format!("base64(\"{}\")", std::str::from_utf8(B64_CUSTOM).unwrap()), vec![base64(B64_CUSTOM, &d)], "text-base64-custom") }
        14 => { let mut d = wb.clone(); d.extend(b"!!"); ("base64 base64wide".into(), vec![base64(B64, &d), wide(&base64(B64, &d))], "text-base64-both") }
        _ => ("private".into(), vec![wb.clone()], "text-private"),
    };
    Pat { decl: format!("\"{}\" {}", w, m), inst, kind }
}
fn gen_hex_pat(rng: &mut Rng) -> Pat {
    let n = 4 + rng.below(5) as usize;
    let b: Vec<u8> = (0..n).map(|_| 1 + rng.below(254) as u8).collect();
    let c: Vec<u8> = (0..4).map(|_| 1 + rng.below(254) as u8).collect();
    let fill = |rng: &mut Rng, k: usize| -> Vec<u8> { (0..k).map(|_| rng.next() as u8).collect() };
    let cat = |xs: &[&[u8]]| -> Vec<u8> { xs.concat() };
    match rng.below(9) {
        0 => Pat { decl: format!("{{ {} }}", hexs(&b)), inst: vec![b.clone()], kind: "hex-plain" },
        1 => Pat { decl: format!("{{ {} ?? {} }}", hexs(&b[..2]), hexs(&b[2..])), inst: vec![cat(&[&b[..2], &[0x77], &b[2..]])], kind: "hex-wildcard" },
        2 => Pat { decl: format!("{{ {} {:X}? ?{:X} {} }}", hexs(&b[..2]), c[0] >> 4, c[1] & 15, hexs(&b[2..])),
                   inst: vec![cat(&[&b[..2], &[c[0], c[1]], &b[2..]])], kind: "hex-nibble" },
        3 => Pat { decl: format!("{{ {} [2-4] {} }}", hexs(&b), hexs(&c)), inst: vec![cat(&[&b, &fill(rng, 3), &c])], kind: "hex-jump" },
        4 => Pat { decl: format!("{{ {} ( {} | {} ) {} }}", hexs(&b[..2]), hexs(&c[..2]), hexs(&c[2..3]), hexs(&b[2..])),
                   inst: vec![cat(&[&b[..2], &c[..2], &b[2..]]), cat(&[&b[..2], &c[2..3], &b[2..]])], kind: "hex-alt" },
        5 => Pat { decl: format!("{{ {} ~{:02X} {} }}", hexs(&b[..3]), c[0], hexs(&b[3..])), inst: vec![cat(&[&b[..3], &[c[0] ^ 0x55], &b[3..]])], kind: "hex-not" },
        6 => Pat { decl: format!("{{ {} [250-300] {} }}", hexs(&b), hexs(&c)), inst: vec![cat(&[&b, &fill(rng, 260), &c])], kind: "hex-chain" },
        7 => Pat { decl: format!("{{ {} [-] {} }}", hexs(&b), hexs(&c)), inst: vec![cat(&[&b, &fill(rng, 17), &c])], kind: "hex-unbounded" },
        _ => Pat { decl: format!("{{ {} [210-220] {} [1-2] {} }} private", hexs(&b), hexs(&c), hexs(&b[..3])),
                   inst: vec![cat(&[&b, &fill(rng, 215), &c, &[9], &b[..3]])], kind: "hex-chain3-private" },
    }
}
fn gen_re_pat(rng: &mut Rng) -> Pat {
    let w = word(rng, 3, 6); let v = word(rng, 3, 5);
    let s = |x: String| x.into_bytes();
    match rng.below(9) {
        0 => Pat { decl: format!("/{}[0-9]{{2}}x/", w), inst: vec![s(format!("{}42x", w))], kind: "re-class" },
        1 => Pat { decl: format!("/{}.+{}/", w, v), inst: vec![s(format!("{}--{}", w, v))], kind: "re-greedy" },
        2 => Pat { decl: format!("/({}|{})q/i", w, v), inst: vec![s(format!("{}q", w.to_uppercase())), s(format!("{}Q", v))], kind: "re-alt-i" },
        3 => Pat { decl: format!("/{}.{{210,260}}{}/s", w, v), inst: vec![s(format!("{}{}\n{}", w, "z".repeat(220), v))], kind: "re-chain-s" },
        4 => Pat { decl: format!("/{}\\d+/ wide", w), inst: vec![wide(&s(format!("{}123", w)))], kind: "re-wide" },
        5 => Pat { decl: format!("/{}[a-f]*?{}/ nocase ascii wide", w, v), inst: vec![s(format!("{}abc{}", w.to_uppercase(), v)), wide(&s(format!("{}{}", w, v)))], kind: "re-lazy-nocase-wide" },
        6 => Pat { decl: format!("/\\b{}\\b/ fullword", w), inst: vec![s(w.clone())], kind: "re-fullword" },
        7 => Pat { decl: format!("/{}(ab|cd){{1,3}}{}/ private", w, v), inst: vec![s(format!("{}abcd{}", w, v))], kind: "re-rep-private" },
        _ => Pat { decl: format!("/^{}/", w), inst: vec![s(w.clone())], kind: "re-anchored" },
    }
}

pub struct GRule { pub src: String, pub insts: Vec<Vec<u8>>, pub kinds: Vec<&'static str> }
pub struct GSet { pub namespaces: Vec<(String, String)>, pub globals: Vec<(String, GVal)>, pub insts: Vec<Vec<u8>>, pub kinds: Vec<String>, pub relaxed: bool,
                  /// extra scans (of the first buffer) with these string globals overridden through Scanner::set_global
                  pub scan_globals: Vec<Vec<(String, String)>> }
#[derive(Clone, Debug)]
pub enum GVal { B(bool), I(i64), F(f64), S(String), Bytes(Vec<u8>), Json(String) }

fn gen_meta(rng: &mut Rng) -> String {
    let n = rng.below(5);
    if n == 0 { return String::new(); }
    let mut s = String::from("  meta:\n");
    for i in 0..n {
        s.push_str(&match rng.below(7) {
            0 => format!("    m{} = {}\n", i, rng.below(100000)),
            1 => format!("    m{} = -{}\n", i, rng.below(100000)),
            2 => format!("    m{} = \"{}\"\n", i, word(rng, 0, 12)),
            3 => format!("    m{} = \"\\x00\\xff{}\\x80\"\n", i, word(rng, 0, 4)),
            4 => format!("    m{} = {}\n", i, rng.chance(1, 2)),
            5 => format!("    m{} = {}.5\n", i, rng.below(1000)),
            _ => format!("    m{} = \"{}\"\n", i % 2, word(rng, 1, 3)), // possibly duplicated key
        });
    }
    s
}

fn gen_rule(rng: &mut Rng, name: &str, earlier: &[String], globals: &[(String, GVal)], imports: &[&str]) -> GRule {
    let npat = if rng.chance(1, 6) { 0 } else { 1 + rng.below(4) as usize };
    let mut pats = vec![];
    for _ in 0..npat { pats.push(match rng.below(3) { 0 => gen_text_pat(rng), 1 => gen_hex_pat(rng), _ => gen_re_pat(rng) }); }
    let mut src = String::new();
    if rng.chance(1, 10) { src.push_str("global "); }
    if rng.chance(1, 6) { src.push_str("private "); }
    src.push_str(&format!("rule {}", name));
    let ntags = if rng.chance(1, 2) { 0 } else { 1 + rng.below(3) };
    if ntags > 0 { src.push_str(" :"); for t in 0..ntags { src.push_str(&format!(" tag{}_{}", t, word(rng, 1, 4))); } }
    src.push_str(" {\n");
    src.push_str(&gen_meta(rng));
    if npat > 0 { src.push_str("  strings:\n"); for (i, p) in pats.iter().enumerate() { src.push_str(&format!("    $p{} = {}\n", i, p.decl)); } }
    // condition: every pattern must be used
    let mut terms: Vec<String> = vec![];
    let mut kinds: Vec<&'static str> = pats.iter().map(|p| p.kind).collect();
    for i in 0..npat {
        terms.push(match rng.below(10) {
            0 => format!("$p{}", i), 1 => format!("#p{} > 1", i), 2 => format!("@p{}[1] >= 0", i), 3 => format!("!p{}[1] > 2", i),
            4 => format!("$p{} at 0", i), 5 => format!("$p{} in (0..200)", i), 6 => format!("#p{} in (0..400) >= 1", i),
            7 => format!("for any i in (1..#p{}) : ( @p{}[i] > 3 )", i, i), 8 => format!("not $p{}", i), _ => format!("#p{} == 0 or $p{}", i, i) });
    }
    if npat > 0 && rng.chance(1, 3) { terms.push((*rng.pick(&["any of them", "all of them", "1 of ($p*)", "none of them", "50% of them"])).to_string()); kinds.push("cond-of"); }
    if rng.chance(1, 4) { terms.push(format!("filesize {} {}", rng.pick(&["<", ">", "<=", ">="]), rng.below(600))); kinds.push("cond-filesize"); }
    if rng.chance(1, 5) { terms.push((*rng.pick(&["uint16(0) == 0x4241", "uint8(0) == 0x41", "uint32be(0) == 0x41424344"])).to_string()); kinds.push("cond-header"); }
    if !earlier.is_empty() && rng.chance(1, 4) { terms.push(format!("{}{}", if rng.chance(1, 2) { "not " } else { "" }, rng.pick(earlier))); kinds.push("cond-rule-ref"); }
    if rng.chance(1, 3) {
        let (g, v) = rng.pick(globals);
        terms.push(match v {
            GVal::B(_) => g.clone(),
            GVal::I(x) => format!("{} {} {}", g, rng.pick(&["==", "<", ">="]), if rng.chance(1, 2) { *x } else { rng.range(-5, 5) }),
            GVal::F(_) => format!("{} > 0.75", g),
            GVal::S(s) => match rng.below(4) { 0 => format!("{} contains \"{}\"", g, &s[..s.len().min(2)]), 1 => format!("{} matches /{}/i", g, &s[..s.len().min(3)].to_uppercase()),
                                               2 => format!("{} == \"{}\"", g, s), _ => format!("({} matches /^[a-z]+$/ or {} matches /q+/s or {} matches /zz/)", g, g, g) },
            GVal::Bytes(_) => format!("{} contains \"\\x00\"", g),
            GVal::Json(_) => match rng.below(3) { 0 => format!("{}.a == 1", g), 1 => format!("{}.arr[1] == 20", g), _ => format!("{}.name icontains \"X\"", g) },
        });
        kinds.push("cond-global");
    }
    if rng.chance(1, 6) { terms.push(format!("\"{}\" matches /{}/", word(rng, 3, 6), rng.pick(&["[a-m]+", "a.c", "^.{3,}$", "(x|y|z)"]))); kinds.push("cond-regexp-literal"); }
    for m in imports {
        if rng.chance(1, 2) {
            terms.push((match *m {
                "math" => *rng.pick(&["math.min(3, 5) == 3", "math.entropy(0, filesize) >= 0.0", "math.in_range(2.0, 1.0, 3.0)"]),
                "hash" => *rng.pick(&["hash.crc32(0, filesize) != 1", "hash.md5(0, filesize) != \"\"", "hash.sha256(0, 2) != \"00\""]),
                "string" => *rng.pick(&["string.length(\"abc\") == 3", "string.to_int(\"12\") == 12"]),
                _ => "true" }).to_string());
            kinds.push("cond-module");
        }
    }
    if terms.is_empty() { terms.push(if rng.chance(1, 2) { "true".into() } else { "false".into() }); kinds.push("cond-const"); }
    let mut cond = String::new();
    for (i, t) in terms.iter().enumerate() {
        if i > 0 { cond.push_str(if rng.chance(2, 3) { " or " } else { " and " }); }
        cond.push_str(&format!("({})", t));
    }
    src.push_str(&format!("  condition:\n    {}\n}}\n", cond));
    GRule { src, insts: pats.into_iter().flat_map(|p| p.inst).collect(), kinds }
}

pub fn gen_set(rng: &mut Rng) -> GSet {
    let mut globals = vec![
        ("g_bool".to_string(), GVal::B(rng.chance(1, 2))),
        ("g_int".to_string(), GVal::I(gen_sint(rng, 64))),
        ("g_float".to_string(), GVal::F(rng.below(200) as f64 / 100.0)),
        ("g_str".to_string(), GVal::S(word(rng, 2, 8))),
        ("g_obj".to_string(), GVal::Json(format!("{{\"a\": {}, \"arr\": [10, {}, 30], \"name\": \"{}x\", \"f\": 1.5, \"ok\": true}}", rng.below(2), 20 + rng.below(2), word(rng, 1, 3)))),
    ];
    if rng.chance(1, 2) { globals.push(("g_bytes".to_string(), GVal::Bytes(vec![b'a', 0, 0xff, b'z']))); }
    let nns = 1 + rng.below(3) as usize;
    let mut namespaces = vec![]; let mut insts = vec![]; let mut kinds = vec![];
    let mut counter = 0;
    for n in 0..nns {
        let mut src = String::new();
        let mut imports: Vec<&str> = vec![];
        for m in ["math", "hash", "string"] { if rng.chance(1, 4) { imports.push(m); src.push_str(&format!("import \"{}\"\n", m)); } }
        let big = rng.chance(1, 8); let nrules = 1 + rng.below(if big { 14 } else { 4 }) as usize;
        let mut earlier = vec![];
        for _ in 0..nrules {
            let name = format!("r{}", counter); counter += 1;
            let r = gen_rule(rng, &name, &earlier, &globals, &imports);
            src.push_str(&r.src); insts.extend(r.insts); kinds.extend(r.kinds.iter().map(|k| k.to_string()));
            earlier.push(name);
        }
        namespaces.push((if n == 0 && rng.chance(1, 2) { "default".to_string() } else { format!("ns{}", n) }, src));
    }
    GSet { namespaces, globals, insts, kinds, relaxed: rng.chance(1, 5), scan_globals: vec![] }
}

/// Rule sets whose verdicts depend on WHICH regexp set a rule is wired to: 3-10 rules, each
/// with its own `or`-chain of `matches` over one of several string globals (ast2ir groups
/// >= 2 `matches` with the same left operand inside one `or` into a RegexSet, keyed by
/// RegexSetId in Rules::regex_sets; `contains`/`icontains` are not grouped).  Every regexp
/// holds a token unique to its rule; one extra scan per rule sets the rule's global to a
/// string containing only that rule's token, so exactly that rule (of the family) matches,
/// and any permutation of the sets changes some dump.
pub fn gen_regex_set_family(rng: &mut Rng) -> GSet {
    let m = 1 + rng.below(4) as usize;
    let k = 3 + rng.below(8) as usize;
    let toks: Vec<[String; 3]> = (0..k).map(|i| [format!("{}{}a", word(rng, 3, 5), i), format!("{}{}b", word(rng, 3, 5), i), format!("{}{}c", word(rng, 3, 5), i)]).collect();
    let mut defaults = vec![String::from("none"); m];
    for i in 0..k { if rng.chance(1, 2) { let t = rng.below(2) as usize; defaults[i % m].push_str(&format!(" {}", toks[i][t])); } }
    let mut globals: Vec<(String, GVal)> = (0..m).map(|j| (format!("g_s{}", j), GVal::S(defaults[j].clone()))).collect();
    globals.push(("g_int".into(), GVal::I(rng.range(-3, 3))));
    let two_ns = rng.chance(1, 3);
    let mut srcs = vec![String::new(), String::new()];
    let mut scan_globals = vec![]; let mut kinds = vec!["regex-set-family".to_string()];
    for i in 0..k {
        let g = format!("g_s{}", i % m); let t = &toks[i];
        let (cond, inst): (String, Vec<String>) = match rng.below(6) {
            // every regexp has a class or a quantifier: a purely literal one is turned into
            // `contains`/`icontains` by ast2ir and would not become a member of a set
            0 => (format!("{g} matches /{}[0-9]?/ or {g} matches /{}.?/", t[0], t[1]), vec![t[0].clone(), t[1].clone()]),
            1 => (format!("{g} matches /{}[a-z]?/i or {g} matches /{}\\d*/ or {g} matches /{}[0-9]+/", t[0], t[1], t[2]), vec![t[0].to_uppercase(), t[1].clone(), format!("{}77", t[2])]),
            2 => (format!("filesize > 100000 or {g} matches /{}(x|y)?/ or {g} matches /^{}.?/", t[0], t[1]), vec![format!("x{}", t[0]), t[1].clone()]),
            3 => (format!("({g} matches /{}.?/s or {g} matches /{}.?$/) and not {g} contains \"zzzz\"", t[0], t[1]), vec![t[0].clone(), format!("- {}", t[1])]),
            4 => (format!("{g} matches /{}[0-9]?/ or g_int == 99 or {g} matches /{}[0-9]?/ or {g} icontains \"{}\"", t[0], t[1], t[2].to_uppercase()), vec![t[0].clone(), t[1].clone(), t[2].clone()]),
            _ => (format!("{g} matches /({}|{})x/ or {g} matches /{}.?y/ or {g} matches /{}\\w?/", t[0], t[1], t[1], t[2]), vec![format!("{}x", t[0]), format!("{}y", t[1]), t[2].clone()]),
        };
        let flags = if rng.chance(1, 8) { "private " } else { "" };
        let which = if two_ns && i % 2 == 1 { 1 } else { 0 };
        srcs[which].push_str(&format!("{}rule rs{} {{ condition: {} }}\n", flags, i, cond));
        for x in inst { scan_globals.push(vec![(g.clone(), x)]); }
        kinds.push("cond-regex-set".into());
    }
    // an unrelated ordinary rule, so that the regexp pool and patterns are not empty
    let extra = gen_rule(rng, "plain0", &[], &globals, &[]);
    srcs[0].push_str(&extra.src);
    let mut namespaces = vec![("default".to_string(), srcs[0].clone())];
    if two_ns { namespaces.push(("ns_b".to_string(), srcs[1].clone())); }
    kinds.extend(extra.kinds.iter().map(|x| x.to_string()));
    GSet { namespaces, globals, insts: extra.insts, kinds, relaxed: false, scan_globals }
}

pub fn set_json(set: &GSet) -> String {
    format!("{{\"namespaces\":[{}],\"globals\":[{}],\"relaxed_re_syntax\":{},\"scan_globals\":[{}]}}",
        set.namespaces.iter().map(|(n, s)| format!("[{},{}]", json_str(n), json_str(s))).collect::<Vec<_>>().join(","),
        set.globals.iter().map(|(g, v)| { let (t, x) = match v {
            GVal::B(b) => ("bool", b.to_string()), GVal::I(i) => ("int", i.to_string()), GVal::F(f) => ("float", format!("{:?}", f)),
            GVal::S(x) => ("str", x.clone()), GVal::Bytes(b) => ("bytes_hex", hex(b)), GVal::Json(j) => ("json", j.clone()) };
            format!("[{},{},{}]", json_str(g), json_str(t), json_str(&x)) }).collect::<Vec<_>>().join(","),
        set.relaxed,
        set.scan_globals.iter().map(|o| format!("[{}]", o.iter().map(|(g, v)| format!("[{},{}]", json_str(g), json_str(v))).collect::<Vec<_>>().join(","))).collect::<Vec<_>>().join(","))
}
pub fn set_from_json(v: &serde_json::Value) -> GSet {
    let s = |x: &serde_json::Value| x.as_str().unwrap_or("").to_string();
    GSet {
        namespaces: v["namespaces"].as_array().map(|a| a.iter().map(|p| (s(&p[0]), s(&p[1]))).collect()).unwrap_or_default(),
        globals: v["globals"].as_array().map(|a| a.iter().map(|g| (s(&g[0]), match g[1].as_str().unwrap_or("") {
            "bool" => GVal::B(s(&g[2]) == "true"), "int" => GVal::I(s(&g[2]).parse().unwrap_or(0)), "float" => GVal::F(s(&g[2]).parse().unwrap_or(0.0)),
            "str" => GVal::S(s(&g[2])), "bytes_hex" => GVal::Bytes(unhex(&s(&g[2]))), _ => GVal::Json(s(&g[2])) })).collect()).unwrap_or_default(),
        insts: vec![], kinds: vec![], relaxed: v["relaxed_re_syntax"].as_bool().unwrap_or(false),
        scan_globals: v["scan_globals"].as_array().map(|a| a.iter().map(|o| o.as_array().map(|ps| ps.iter().map(|p| (s(&p[0]), s(&p[1]))).collect()).unwrap_or_default()).collect()).unwrap_or_default() }
}
/// `c08 --replay file.json`: redo the round trips / prefixes of a recorded case and print what happens
pub fn replay(path: &str) -> i32 {
    let d: serde_json::Value = serde_json::from_str(&std::fs::read_to_string(path).expect("read replay")).expect("json");
    let case = if d.get("case").is_some() { &d["case"] } else { &d };
    let stream = case["stream"].as_str().unwrap_or("?").to_string();
    println!("replaying stream {}", stream);
    if stream.starts_with("a-") {
        println!("byte-level case: compare `real_hex` / `real_outcome` with the model (coq/Codec/Universe.v) by hand:\n{}", case);
        return 0;
    }
    if stream == "c-foreign" && case["based_on_source"].is_null() {
        let b = unhex(case["blob_hex_if_short"].as_str().unwrap_or(""));
        println!("Rules::deserialize({}) = {:?}", hex(&b), classify(&b)); return 0;
    }
    let src = if case.get("source").is_some() { &case["source"] } else { &case["based_on_source"] };
    let set = set_from_json(src);
    let r0 = match compile_set(&set) { Ok(r) => r, Err(e) => { println!("source no longer compiles: {}", e); return 1; } };
    let b0 = r0.serialize().unwrap();
    let hdr_len = header_len(&b0);
    println!("blob: {} bytes, header {}", b0.len(), hex(&b0[..hdr_len]));
    let (c1, r1) = try_deserialize(&b0);
    println!("deserialize(serialize R): {:?}", c1);
    let mut rc = 0;
    if let Some(r1) = r1 {
        let b1 = r1.serialize().unwrap();
        println!("re-serialized: {} bytes, byte-equal: {}, equal up to map order: {}", b1.len(), b0 == b1, blob_value(&rules_ty(), &b0, hdr_len) == blob_value(&rules_ty(), &b1, hdr_len));
        if static_dump(&r0) != static_dump(&r1) { println!("STATIC DUMPS DIFFER\n{}\n---\n{}", static_dump(&r0), static_dump(&r1)); rc = 1; }
        if let Some(bufs) = case["buffers_hex"].as_array() {
            for b in bufs { let data = unhex(b.as_str().unwrap_or("")); let (d0, d1) = (scan_dump(&r0, &data, &[]), scan_dump(&r1, &data, &[]));
                if d0 != d1 { println!("SCAN OF {} DIFFERS\n{}\n---\n{}", hex(&data), d0, d1); rc = 1; } }
            let first = bufs.first().map(|b| unhex(b.as_str().unwrap_or(""))).unwrap_or_default();
            for o in &set.scan_globals { let (d0, d1) = (scan_dump(&r0, &first, o), scan_dump(&r1, &first, o));
                if d0 != d1 { println!("SCAN WITH GLOBALS {:?} DIFFERS\n{}\n---\n{}", o, d0, d1); rc = 1; } }
        }
    } else { rc = 1; }
    let ks: Vec<usize> = (0..b0.len()).collect();
    let out = classify_prefixes(&b0, &ks);
    let bad: Vec<(usize, &Ocl)> = ks.iter().cloned().zip(out.iter()).filter(|(k, o)| !is_err(o) || (*k >= hdr_len && **o != Ocl::DecodeEof) || (*k < hdr_len && **o != Ocl::Format)).take(10).collect();
    println!("strict prefixes tested: {}; not rejected as predicted: {:?}", ks.len(), bad);
    if bad.iter().any(|(_, o)| !is_err(o)) { rc = 1; }
    let mut blob = b0.clone(); let mut accepted = vec![];
    for pos in 0..hdr_len { for b in 0..=255u8 { if b != b0[pos] { blob[pos] = b; if !is_err(&classify(&blob)) { accepted.push((pos, b)); } } } blob[pos] = b0[pos]; }
    println!("single-byte header alterations accepted or panicking: {:?}", accepted);
    if !accepted.is_empty() { rc = 1; }
    rc
}

/// Not part of the check (crafted blobs are outside C08): re-encode a real blob with the
/// SubPatternId of the first atom set to sub_patterns.len() + delta and report what
/// Rules::deserialize says.  Nothing is scanned with the crafted rules.
pub fn bound_check_probe() -> i32 {
    let mut c = yara_x::Compiler::new();
    c.add_source("rule a { strings: $a = \"abcd\" $b = \"efgh\" condition: $a or $b }").unwrap();
    let b0 = c.build().serialize().unwrap();
    let hdr_len = header_len(&b0);
    let t = rules_ty();
    let v = match real_decode(&t, &b0[hdr_len..]) { DOut::Ok(v, _) => v, o => { println!("cannot decode: {:?}", o); return 1; } };
    let Val::Tuple(fields) = &v else { return 1 };
    let n_sub = if let Val::Seq(x) = &fields[F_SUB_PATTERNS] { x.len() as u64 } else { return 1 };
    println!("sub_patterns.len() = {}", n_sub);
    { let mut r = Rng::new(0xC08); let set = gen_regex_set_family(&mut r); let rr = compile_set(&set).unwrap(); let b = rr.serialize().unwrap();
      if let Some(Val::Tuple(f)) = blob_value(&t, &b, hdr_len) { println!("family regex_sets = {:?}\nregex_pool = {:?}", f[F_REGEX_SETS], f[1]); } else { println!("family blob not decodable"); } }
    for delta in [-1i64, 0, 1] {
        let mut f = fields.clone();
        if let Val::Seq(atoms) = &mut f[F_ATOMS] { if let Some(Val::Tuple(a)) = atoms.first_mut() { a[0] = Val::UInt((n_sub as i64 + delta) as u64); } }
        let mut blob = b0[..hdr_len].to_vec(); blob.extend(real_encode(&t, &Val::Tuple(f)));
        println!("atom[0].sub_pattern_id = len{:+}: Rules::deserialize -> {:?}", delta, classify(&blob));
    }
    0
}

/// Self-test of stream (b), not part of the check: emulate a deserializer that drops the keys of
/// Rules::regex_sets and numbers the entries in blob order (the blob is rewritten accordingly,
/// then loaded by the real deserializer) and count how often the scans of the generated
/// regex-set families tell the difference.
pub fn selftest_rekey(n: usize) -> i32 {
    let t = rules_ty();
    let (mut changed, mut detected) = (0, 0);
    for seed in 0..n {
        let mut rng = Rng::new(1000 + seed as u64);
        let set = gen_regex_set_family(&mut rng);
        let bufs = buffers(&mut rng, &set);
        let r0 = match compile_set(&set) { Ok(r) => r, Err(e) => { println!("rejected: {}", e); continue; } };
        let b0 = r0.serialize().unwrap(); let hdr_len = header_len(&b0);
        let Some(Val::Tuple(mut f)) = (match real_decode(&t, &b0[hdr_len..]) { DOut::Ok(v, _) => Some(v), _ => None }) else { println!("undecodable"); continue };
        let mut differs = false;
        if let Val::Seq(es) = &mut f[F_REGEX_SETS] { for (i, e) in es.iter_mut().enumerate() { if let Val::Tuple(kv) = e { if kv[0] != Val::SInt(i as i64) { differs = true; } kv[0] = Val::SInt(i as i64); } } }
        if !differs { continue; }
        changed += 1;
        let mut blob = b0[..hdr_len].to_vec(); blob.extend(real_encode(&t, &Val::Tuple(f)));
        let (c, r1) = try_deserialize(&blob);
        let Some(r1) = r1 else { println!("rekeyed blob rejected: {:?}", c); continue };
        let none: Vec<(String, String)> = vec![];
        let found = bufs.iter().map(|b| (b, &none)).chain(set.scan_globals.iter().map(|o| (&bufs[0], o))).any(|(d, o)| scan_dump(&r0, d, o) != scan_dump(&r1, d, o));
        if found { detected += 1; }
    }
    println!("families: {}, re-keying changes the map: {}, detected by the scans: {}", n, changed, detected);
    if changed == detected { 0 } else { 1 }
}

pub fn compile_set(s: &GSet) -> Result<yara_x::Rules, String> {
    let mut c = yara_x::Compiler::new();
    c.relaxed_re_syntax(s.relaxed);
    for (g, v) in &s.globals {
        let r = match v {
            GVal::B(b) => c.define_global(g, *b).map(|_| ()), GVal::I(i) => c.define_global(g, *i).map(|_| ()), GVal::F(f) => c.define_global(g, *f).map(|_| ()),
            GVal::S(x) => c.define_global(g, x.as_str()).map(|_| ()), GVal::Bytes(b) => c.define_global(g, b.as_slice()).map(|_| ()),
            GVal::Json(j) => c.define_global(g, serde_json::from_str::<serde_json::Value>(j).unwrap()).map(|_| ()) };
        r.map_err(|e| format!("define_global {}: {}", g, e))?;
    }
    for (ns, src) in &s.namespaces {
        if ns != "default" { c.new_namespace(ns); }
        c.add_source(src.as_str()).map_err(|e| e.to_string())?;
    }
    Ok(c.build())
}

pub fn buffers(rng: &mut Rng, s: &GSet) -> Vec<Vec<u8>> {
    let mut all = vec![]; let mut some = b"AB".to_vec(); let mut twice = vec![];
    for i in &s.insts {
        all.extend(i); all.extend(b" \n ");
        if rng.chance(1, 2) { some.extend(b"--"); some.extend(i); some.push(b'.'); }
        twice.extend(i); twice.push(b' '); twice.extend(i); twice.extend(b" | ");
    }
    let rnd: Vec<u8> = (0..rng.below(300)).map(|_| rng.next() as u8).collect();
    let first = s.insts.first().cloned().unwrap_or_default();
    vec![all, some, twice, vec![], rnd, first]
}

pub fn static_dump(r: &yara_x::Rules) -> String {
    let mut s = String::new();
    s.push_str(&format!("imports={:?}\n", r.imports().collect::<Vec<_>>()));
    for rule in r.iter() {
        s.push_str(&format!("rule {}:{} global={} private={} tags={:?} meta={} patterns=[", rule.namespace(), rule.identifier(), rule.is_global(), rule.is_private(),
            rule.tags().map(|t| t.identifier().to_string()).collect::<Vec<_>>(), rule.metadata().into_json()));
        for p in rule.patterns().include_private(true) { s.push_str(&format!("{}:{}:{} ", p.identifier(), match p.kind() { yara_x::PatternKind::Text => "text", yara_x::PatternKind::Hex => "hex", yara_x::PatternKind::Regexp => "regexp" }, p.is_private())); }
        s.push_str("]\n");
    }
    s
}
pub fn scan_dump(r: &yara_x::Rules, data: &[u8], over: &[(String, String)]) -> String {
    let res = catch(AssertUnwindSafe(|| {
        let mut sc = yara_x::Scanner::new(r);
        for (g, v) in over { if let Err(e) = sc.set_global(g.as_str(), v.as_str()) { return format!("set_global {} error: {}", g, e); } }
        let results = match sc.scan(data) { Ok(x) => x, Err(e) => return format!("scan error: {}", e) };
        let mut s = String::new();
        for rule in results.matching_rules().include_private(true) {
            s.push_str(&format!("+{}:{} [", rule.namespace(), rule.identifier()));
            for p in rule.patterns().include_private(true) {
                s.push_str(&format!("{}=", p.identifier()));
                for m in p.matches() { s.push_str(&format!("({},{},{:?})", m.range().start, m.range().len(), m.xor_key())); }
                s.push(' ');
            }
            s.push_str("]\n");
        }
        for rule in results.non_matching_rules().include_private(true) { s.push_str(&format!("-{}:{}\n", rule.namespace(), rule.identifier())); }
        s
    }));
    match res { Ok(s) => s, Err(p) => format!("PANIC: {}", p) }
}

// ---- the wire shape of `struct Rules` (same as coq/Codec/RulesShape.v, where it is
// validated against real blobs); used only to compare two blobs up to the order
// of hash-map entries
pub fn rules_ty() -> Ty {
    // the top-level struct, unfolded one level so that its fields can be addressed by index
    named("Rules").clone()
}
pub fn globals_ty() -> Ty { Ty::Named("Struct".into()) }
/// index of a field of `struct Rules` among the serialized fields (Gen/CodecGen.v lists the
/// same names; the order is the declaration order without the skipped fields)
pub const F_SUB_PATTERNS: usize = 9; pub const F_FSB: usize = 10; pub const F_HC: usize = 11;
pub const F_ATOMS: usize = 13; pub const F_GLOBALS: usize = 15; pub const F_REGEX_SETS: usize = 17;

/// The positions (offset, length) of the framing integers of an encoding of shape t: lengths of
/// sequences / maps / byte strings / strings, option tags, variant indices.  Mirrors the model's
/// decoder (coq/Codec/Universe.v [frames]); the result is compared with it in Coq (CFlipModel).
pub fn varint_at(b: &[u8], pos: usize) -> Option<(u64, usize)> {
    let m = *b.get(pos)?;
    let rd = |n: usize| -> Option<u64> { let s = b.get(pos + 1..pos + 1 + n)?; let mut x = 0u64; for (i, y) in s.iter().enumerate() { x |= (*y as u64) << (8 * i); } Some(x) };
    match m { 0..=250 => Some((m as u64, 1)), 251 => Some((rd(2)?, 3)), 252 => Some((rd(4)?, 5)), 253 => Some((rd(8)?, 9)), _ => None }
}
pub fn walk(t: &Ty, b: &[u8], pos: &mut usize, out: &mut Vec<(usize, usize)>) -> Option<()> {
    match t {
        Ty::U8 | Ty::Bool => { *pos += 1; }
        Ty::U16 | Ty::U32 | Ty::U64 | Ty::Usize | Ty::I16 | Ty::I32 | Ty::I64 => { *pos += varint_at(b, *pos)?.1; }
        Ty::F64 => { *pos += 8; }
        Ty::Bytes | Ty::Str => { let (n, l) = varint_at(b, *pos)?; out.push((*pos, l)); *pos += l + n as usize; }
        Ty::Opt(t) => { let tag = *b.get(*pos)?; out.push((*pos, 1)); *pos += 1; if tag == 1 { walk(t, b, pos, out)?; } else if tag != 0 { return None; } }
        Ty::Seq(t) => { let (n, l) = varint_at(b, *pos)?; out.push((*pos, l)); *pos += l; for _ in 0..n { walk(t, b, pos, out)?; } }
        Ty::Map(k, v) => { let (n, l) = varint_at(b, *pos)?; out.push((*pos, l)); *pos += l; for _ in 0..n { walk(k, b, pos, out)?; walk(v, b, pos, out)?; } }
        Ty::Tuple(ts) => { for t in ts { walk(t, b, pos, out)?; } }
        Ty::Enum(ts) => { let (i, l) = varint_at(b, *pos)?; out.push((*pos, l)); *pos += l; walk(ts.get(i as usize)?, b, pos, out)?; }
        Ty::Named(n) => { walk(named(n), b, pos, out)?; }
    }
    if *pos > b.len() { None } else { Some(()) }
}

/// sort the entries of every map
pub fn canon(t: &Ty, v: Val) -> Val {
    match (t, v) {
        (Ty::Map(k, vt), Val::Seq(es)) => {
            let mut es: Vec<Val> = es.into_iter().map(|e| match e { Val::Tuple(mut kv) if kv.len() == 2 => { let b = kv.pop().unwrap(); let a = kv.pop().unwrap(); Val::Tuple(vec![canon(k, a), canon(vt, b)]) } o => o }).collect();
            es.sort_by_key(|e| format!("{:?}", e)); Val::Seq(es) }
        (Ty::Seq(t), Val::Seq(es)) => Val::Seq(es.into_iter().map(|e| canon(t, e)).collect()),
        (Ty::Tuple(ts), Val::Tuple(vs)) if ts.len() == vs.len() => Val::Tuple(ts.iter().zip(vs).map(|(t, v)| canon(t, v)).collect()),
        (Ty::Opt(t), Val::Some(v)) => Val::Some(Box::new(canon(t, *v))),
        (Ty::Enum(ts), Val::Variant(i, v)) if (i as usize) < ts.len() => Val::Variant(i, Box::new(canon(&ts[i as usize], *v))),
        (Ty::Named(n), v) => canon(named(n), v),
        (_, v) => v,
    }
}
/// payload of a blob as a canonical value (None: the shape does not fit / not fully consumed)
pub fn blob_value(t: &Ty, blob: &[u8], hdr_len: usize) -> Option<Val> {
    if blob.len() < hdr_len { return None; }
    match real_decode(t, &blob[hdr_len..]) { DOut::Ok(v, n) if n == blob.len() - hdr_len => Some(canon(t, v)), _ => None }
}

// ---------------------------------------------------------------- crash points (c)
#[derive(Clone, Debug, PartialEq)]
pub enum Ocl { Ok, Panic, Format, Version(u32, u32), DecodeEof, DecodeOther(String), Other(String) }
pub fn coq_ocl(o: &Ocl) -> String {
    match o {
        Ocl::Ok => "OOk".into(), Ocl::Panic => "OPanic".into(), Ocl::Format => "OFormat".into(),
        Ocl::Version(e, a) => format!("(OVersion {} {})", coq_n(*e as u64), coq_n(*a as u64)),
        Ocl::DecodeEof => "ODecodeEof".into(), Ocl::DecodeOther(_) => "ODecodeOther".into(), Ocl::Other(_) => "OOther".into(),
    }
}
pub fn try_deserialize(b: &[u8]) -> (Ocl, Option<yara_x::Rules>) {
    use yara_x::errors::SerializationError as E;
    match catch(AssertUnwindSafe(|| yara_x::Rules::deserialize(b))) {
        Err(_) => (Ocl::Panic, None),
        Ok(Ok(r)) => (Ocl::Ok, Some(r)),
        Ok(Err(E::InvalidFormat)) => (Ocl::Format, None),
        Ok(Err(E::InvalidVersion { expected, actual })) => (Ocl::Version(expected, actual), None),
        Ok(Err(E::DecodeError(bincode::error::DecodeError::UnexpectedEnd { .. }))) => (Ocl::DecodeEof, None),
        Ok(Err(E::DecodeError(e))) => (Ocl::DecodeOther(format!("{:?}", e)), None),
        Ok(Err(e)) => (Ocl::Other(format!("{:?}", e)), None),
    }
}
fn classify(b: &[u8]) -> Ocl { try_deserialize(b).0 }
/// Rules::deserialize on the prefixes blob[..k] for k in ks, spread over the available cores
fn classify_prefixes(blob: &[u8], ks: &[usize]) -> Vec<Ocl> {
    let nt = std::thread::available_parallelism().map(|n| n.get()).unwrap_or(4).min(16).max(1);
    if ks.len() < 2048 || nt == 1 { return ks.iter().map(|&k| classify(&blob[..k])).collect(); }
    let mut out: Vec<Ocl> = vec![Ocl::Panic; ks.len()];
    // interleave so that every thread gets short and long prefixes
    std::thread::scope(|sc| {
        let handles: Vec<_> = (0..nt).map(|t| sc.spawn(move || {
            let mut r = vec![]; let mut i = t; while i < ks.len() { r.push((i, classify(&blob[..ks[i]]))); i += nt; } r })).collect();
        for h in handles { if let Ok(r) = h.join() { for (i, o) in r { out[i] = o; } } }
    });
    out
}
fn is_err(o: &Ocl) -> bool { !matches!(o, Ocl::Ok | Ocl::Panic) }

// ---- bit flips in a child process
#[derive(Clone, Debug, PartialEq)]
pub enum Fcl { Err(Ocl), OkSame, OkDiff, Panic, Abort(i32), Mem(u64) }
impl Fcl { fn coq(&self) -> &'static str { match self { Fcl::Err(_) => "FErr", Fcl::OkSame => "FOkSame", Fcl::OkDiff => "FOkDiff", Fcl::Panic => "FPanic", Fcl::Abort(_) => "FAbort", Fcl::Mem(_) => "FMem" } } }
const CHILD_AS_LIMIT: u64 = 24 << 30;      // address space: an allocation driven by a damaged length fails
const CHILD_RSS_LIMIT_KB: u64 = 3 << 20;   // resident: 3 GiB
/// child: `work` holds the blob (hex) on the first line and "pos bit" on the others
fn flip_child(work: &str, from: usize) -> i32 {
    unsafe { let lim = libc::rlimit { rlim_cur: CHILD_AS_LIMIT, rlim_max: CHILD_AS_LIMIT }; libc::setrlimit(libc::RLIMIT_AS, &lim); }
    let text = std::fs::read_to_string(work).expect("work file");
    let mut lines = text.lines();
    let blob = unhex(lines.next().unwrap_or(""));
    let reference = match yara_x::Rules::deserialize(&blob) { Ok(r) => r.verif_c08_digest(), Err(e) => { println!("reference blob rejected: {:?}", e); return 2; } };
    use std::io::Write;
    let out = std::io::stdout();
    for (i, l) in lines.enumerate().skip(from) {
        let mut it = l.split_whitespace();
        let (p, b): (usize, u8) = (it.next().unwrap().parse().unwrap(), it.next().unwrap().parse().unwrap());
        let mut d = blob.clone(); d[p] ^= 1 << b;
        let (o, r) = try_deserialize(&d);
        let cls = match (&o, r) {
            (Ocl::Ok, Some(r)) => match catch(AssertUnwindSafe(|| r.verif_c08_digest())) { Ok(g) if g == reference => "S".to_string(), Ok(_) => "D".to_string(), Err(_) => "D".to_string() },
            (Ocl::Panic, _) => "P".to_string(),
            (Ocl::Format, _) => "E Format".into(), (Ocl::Version(e, a), _) => format!("E Version {} {}", e, a),
            (Ocl::DecodeEof, _) => "E DecodeEof".into(), (Ocl::DecodeOther(_), _) => "E DecodeOther".into(), _ => "E Other".into() };
        let mut ru: libc::rusage = unsafe { std::mem::zeroed() };
        unsafe { libc::getrusage(libc::RUSAGE_SELF, &mut ru); }
        let _ = writeln!(out.lock(), "{} {} rss={}", i, cls, ru.ru_maxrss); let _ = out.lock().flush();
    }
    0
}
/// parent: run the flips, restarting the child after the flip that killed it
fn run_flips(dir: &Path, blob: &[u8], flips: &[(usize, u8)]) -> Vec<((usize, u8), Fcl)> {
    let work = dir.join("flip_work.txt");
    let mut text = hex(blob); text.push('\n');
    for (p, b) in flips { text.push_str(&format!("{} {}\n", p, b)); }
    std::fs::write(&work, text).expect("write work file");
    let exe = std::env::current_exe().expect("exe");
    let mut res: Vec<((usize, u8), Fcl)> = vec![];
    let mut restarts = 0;
    while res.len() < flips.len() && restarts < 50 {
        let from = res.len();
        let o = std::process::Command::new(&exe).args(["--flip-child", work.to_str().unwrap(), "--from", &from.to_string()]).output().expect("spawn child");
        let so = String::from_utf8_lossy(&o.stdout);
        let mut rss_before = 0u64;
        for l in so.lines() {
            let mut it = l.split_whitespace();
            let Some(Ok(i)) = it.next().map(|x| x.parse::<usize>()) else { continue };
            if i != res.len() { continue; }
            let cls = it.next().unwrap_or("?");
            let rest: Vec<&str> = it.collect();
            let rss: u64 = rest.iter().find_map(|x| x.strip_prefix("rss=")).and_then(|x| x.parse().ok()).unwrap_or(0);
            let mut f = match cls { "S" => Fcl::OkSame, "D" => Fcl::OkDiff, "P" => Fcl::Panic,
                _ => Fcl::Err(match rest.first().copied() { Some("Format") => Ocl::Format, Some("Version") => Ocl::Version(rest[1].parse().unwrap_or(0), rest[2].parse().unwrap_or(0)),
                                                        Some("DecodeEof") => Ocl::DecodeEof, Some("DecodeOther") => Ocl::DecodeOther(String::new()), _ => Ocl::Other(String::new()) }) };
            if rss > CHILD_RSS_LIMIT_KB && rss_before <= CHILD_RSS_LIMIT_KB { f = Fcl::Mem(rss); }
            rss_before = rss;
            res.push((flips[i], f));
        }
        if res.len() < flips.len() && !o.status.success() {
            // the child died on the next flip
            use std::os::unix::process::ExitStatusExt;
            let i = res.len(); res.push((flips[i], Fcl::Abort(o.status.signal().unwrap_or(-1)))); restarts += 1;
        } else if res.len() < flips.len() { restarts += 1; }
    }
    let _ = std::fs::remove_file(&work);
    res
}

fn corpus_sets() -> Vec<GSet> {
    let g = |src: &str| GSet { namespaces: vec![("default".into(), src.into())], globals: vec![], insts: vec![b"abcd".to_vec(), b"MZ....".to_vec()], kinds: vec!["corpus".into()], relaxed: false, scan_globals: vec![] };
    let mut fam_rng = Rng::new(0xC08);
    vec![
        gen_regex_set_family(&mut fam_rng),
        g("rule empty { condition: true }"),
        g("rule a { strings: $a = \"abcd\" condition: $a }"),
        g("rule hdr { strings: $a = \"abcd\" $mz = \"MZ\" condition: $mz at 0 and filesize < 100 and $a }"),
        g("rule kinds : k { meta: i = -7 f = 2.5 b = \"\\x00\\xfe\" strings: $bt = { ?? ?? ?? 61 62 63 64 65 } $x = \"abcd\" xor(1-9) $b64 = \"abcd!!xy\" base64 base64wide $c = { 61 62 63 64 [300-400] 4D 5A 2E 2E } $w = \"abcd\" wide nocase fullword $re = /ab.{1,5}?cd/s $re2 = /x[0-9]{220,230}abcd/ $m = { 4D 5A ?E 2? } private condition: filesize < 5000 and uint16(0) == 0x5A4D and 2 of them and #x >= 0 and @w[1] >= 0 }\nglobal private rule g { condition: filesize >= 0 }"),
        g("import \"math\"\nimport \"hash\"\nrule m : t1 t2 { meta: a = 1 b = \"x\" c = true strings: $a = /ab[c-e]d/ wide ascii $h = { 61 62 [1-3] 64 } condition: any of them or math.min(1,2) == 1 or hash.md5(0,filesize) == \"x\" }"),
    ]
}

/// Length of the header, observed on the implementation: the shortest prefix of a
/// valid blob that is no longer reported as "not a rules file" (12 today; the
/// model's value comes from the source and is compared in Coq).
fn header_len(blob: &[u8]) -> usize {
    (0..blob.len().min(64)).find(|&k| classify(&blob[..k]) != Ocl::Format).unwrap_or(12)
}

fn main() { let args: Vec<String> = std::env::args().skip(1).collect(); std::process::exit(run(&args)); }

pub fn run(args: &[String]) -> i32 {
    quiet_panics();
    if let Some(p) = arg_val(args, "--replay") { return replay(&p); }
    if arg_flag(args, "--bound-check-probe") { return bound_check_probe(); }
    if let Some(p) = arg_val(args, "--flip-child") { return flip_child(&p, arg_u64(args, "--from", 0) as usize); }
    if arg_flag(args, "--selftest-regex-set-rekey") { return selftest_rekey(arg_u64(args, "--n", 20) as usize); }
    let seed = arg_u64(args, "--seed", 1);
    let n_bytes = arg_u64(args, "--n", 400) as usize;
    let n_sets = arg_u64(args, "--rulesets", 30) as usize;
    let all_prefixes = arg_flag(args, "--all-prefixes");
    let max_all = arg_u64(args, "--max-all-prefix-len", 400_000) as usize;
    let all_sets = arg_u64(args, "--all-prefix-sets", u64::MAX >> 1) as usize;
    let n_blobs = arg_u64(args, "--model-blobs", 6) as usize;
    let max_blob = arg_u64(args, "--max-model-blob-len", 150_000) as usize;
    let mut blobs_emitted = 0usize;
    let n_flip_sets = arg_u64(args, "--flip-sets", 1) as usize;
    let max_flips = arg_u64(args, "--max-flips", 600) as usize;
    let flips_all_bits = arg_flag(args, "--flips-all-bits");
    let n_flip_model = arg_u64(args, "--flip-model-blobs", 1) as usize;
    let n_flip_sample = arg_u64(args, "--flip-model-sample", 6) as usize;
    let (mut flip_sets_done, mut flip_model_done) = (0usize, 0usize);
    let out = arg_val(args, "--out").expect("--out");
    let prelude = "From Coq Require Import List NArith ZArith Bool.\nFrom YV Require Import Codec.Reader Codec.Varint Codec.Universe Codec.Header Codec.CodecCheck.\nImport ListNotations.\n";
    let mut shards = Shards::new(Path::new(&out), prelude, 60);
    let mut rng = Rng::new(seed);
    let mut stats = Stats::default();
    let mut distinct = std::collections::HashSet::new();
    let mut samples: Vec<String> = vec![];
    let mut rust_side_errors: Vec<String> = vec![];

    // ---------------- (a) byte level
    let mut produced = 0usize;
    while produced < n_bytes {
        let (t, v, real, origin) = if rng.chance(1, 5) {
            let m = gen_mrules(&mut rng);
            let real = bincode::serde::encode_to_vec(&m, bincode::config::standard()).unwrap();
            // derive-generated decoder: round trip and re-encoding
            match bincode::serde::decode_from_slice::<MRules, _>(&real, bincode::config::standard()) {
                Ok((m2, used)) => {
                    let again = bincode::serde::encode_to_vec(&m2, bincode::config::standard()).unwrap();
                    if used != real.len() { rust_side_errors.push(format!("derive decode consumed {} of {}", used, real.len())); }
                    // HashMap iteration order may differ after the round trip; compare as multisets of entries via the model value
                    if again.len() != real.len() { rust_side_errors.push("derive re-encode length differs".into()); }
                }
                Err(e) => rust_side_errors.push(format!("derive decode failed: {:?}", e)),
            }
            (MRules::ty(), m.val(), real, "derive")
        } else {
            let t = gen_ty(&mut rng, 3);
            let mut budget = 60i64;
            let v = gen_val(&mut rng, &t, &mut budget);
            let real = real_encode(&t, &v);
            (t, v, real, "universe")
        };
        stats.inc(&format!("a_enc_{}", origin));
        stats.inc(&format!("a_len_{}", match real.len() { 0 => "0", 1..=8 => "1-8", 9..=64 => "9-64", 65..=512 => "65-512", _ => "513+" }));
        if real.len() > 2 { distinct.insert(format!("{:?}{:?}", t, v)); }
        let replay = format!("{{\"stream\":\"a-encode\",\"origin\":\"{}\",\"ty\":{},\"val\":{},\"real_hex\":\"{}\"}}", origin, json_str(&format!("{:?}", t)), json_str(&format!("{:?}", v)), hex(&real));
        if samples.len() < 2 && real.len() > 12 && origin == "universe" { samples.push(replay.clone()); }
        shards.push(format!("CEnc {} {} {}", coq_ty(&t), coq_val(&v), coq_bytes(&real)), replay);
        produced += 1;
        // decode agreement on the intact bytes followed by junk, and on damaged bytes
        let k = 1 + rng.below(2);
        for _ in 0..k {
            let (bytes, how) = if rng.chance(1, 6) { let mut b = real.clone(); b.extend((0..rng.below(4)).map(|_| rng.next() as u8)); (b, "trailing") } else { mutate(&mut rng, &real) };
            let o = real_decode(&t, &bytes);
            stats.inc(&format!("a_dec_{}_{}", how, match &o { DOut::Ok(..) => "ok", DOut::Eof => "eof", DOut::Invalid => "invalid", DOut::Panic => "PANIC" }));
            // (only on truncated / extended encodings: bincode's owned `String` decoder allocates
            //  the length it read before looking at the input, so a damaged length aborts the process)
            if origin == "derive" && (how == "truncated" || how == "trailing") {
                // the derive-generated decoder must agree with the type-directed one
                let d = catch(AssertUnwindSafe(|| bincode::serde::decode_from_slice::<MRules, _>(&bytes, bincode::config::standard())));
                let cls = match &d { Err(_) => "panic", Ok(Ok(_)) => "ok", Ok(Err(bincode::error::DecodeError::UnexpectedEnd { .. })) => "eof", Ok(Err(_)) => "invalid" };
                let mine = match &o { DOut::Ok(..) => "ok", DOut::Eof => "eof", DOut::Invalid => "invalid", DOut::Panic => "panic" };
                if cls != mine { rust_side_errors.push(format!("derive decoder says {} but type-directed decoder says {} on {}", cls, mine, hex(&bytes))); }
            }
            let replay = format!("{{\"stream\":\"a-decode\",\"how\":\"{}\",\"ty\":{},\"bytes_hex\":\"{}\",\"real_outcome\":{}}}", how, json_str(&format!("{:?}", t)), hex(&bytes), json_str(&format!("{:?}", o)));
            shards.push(format!("CDec {} {} {}", coq_ty(&t), coq_bytes(&bytes), coq_dout(&o)), replay);
            produced += 1;
        }
    }

    // directed decoder inputs: a fixed grid (every width x every marker, tags), then random ones
    let mut grid: Vec<(Ty, Vec<u8>, &'static str)> = vec![];
    for t in [Ty::U16, Ty::U32, Ty::U64, Ty::Usize, Ty::I16, Ty::I32, Ty::I64] {
        for m in [0u8, 250, 251, 252, 253, 254, 255] { grid.push((t.clone(), vec![m, 1, 2, 3, 4, 5, 6, 7, 8], "grid-int")); grid.push((t.clone(), vec![m, 0xff], "grid-int-short")); }
    }
    for m in [0u8, 1, 2, 255] {
        grid.push((Ty::Bool, vec![m], "grid-bool"));
        grid.push((Ty::Opt(Box::new(Ty::U8)), vec![m, 7], "grid-option"));
    }
    for m in [0u8, 1, 2, 3, 250, 251, 252, 253] { grid.push((Ty::Enum(vec![Ty::U8, Ty::Tuple(vec![]), Ty::U8]), vec![m, 1, 0, 0, 0, 0, 0, 0, 0, 9], "grid-enum")); }
    let n_directed = grid.len() + n_bytes / 3;
    for _ in 0..n_directed {
        let (t, bytes, how) = if !grid.is_empty() { grid.remove(0) } else { directed(&mut rng) };
        let o = real_decode(&t, &bytes);
        stats.inc(&format!("a_dec_{}_{}", how, match &o { DOut::Ok(..) => "ok", DOut::Eof => "eof", DOut::Invalid => "invalid", DOut::Panic => "PANIC" }));
        distinct.insert(format!("{:?}{}", t, hex(&bytes)));
        let replay = format!("{{\"stream\":\"a-decode\",\"how\":\"{}\",\"ty\":{},\"bytes_hex\":\"{}\",\"real_outcome\":{}}}", how, json_str(&format!("{:?}", t)), hex(&bytes), json_str(&format!("{:?}", o)));
        shards.push(format!("CDec {} {} {}", coq_ty(&t), coq_bytes(&bytes), coq_dout(&o)), replay);
    }

    // ---------------- (b) + (c) on real rule sets
    let mut corpus = corpus_sets();
    let rty = rules_ty();
    let mut rejected = 0usize; let mut done = 0usize; let mut blob_total = 0usize;
    while done < n_sets {
        // one forked generator per rule set: the sequence of rule sets does not depend on
        // how many random choices the streams below make (tier options)
        let mut set_rng = rng.fork();
        let set = if !corpus.is_empty() { corpus.remove(0) } else if done % 4 == 2 { gen_regex_set_family(&mut set_rng) } else { gen_set(&mut set_rng) };
        let rng = &mut set_rng;
        let bufs = buffers(rng, &set);
        let src_json = set_json(&set);
        let r0 = match catch(AssertUnwindSafe(|| compile_set(&set))) {
            Ok(Ok(r)) => r,
            Ok(Err(e)) => { rejected += 1; stats.inc("b_generator_rejected"); eprintln!("c08: rejected source: {}\n{}", e, src_json);
                            if rejected > 5 + n_sets / 4 { eprintln!("c08: too many rejected sources"); return 2; } continue; }
            Err(p) => { rejected += 1; stats.inc("b_compiler_panicked"); eprintln!("c08: compiler panicked: {}", p); continue; }
        };
        done += 1;
        for k in &set.kinds { stats.inc(&format!("kind_{}", k)); }
        distinct.insert(src_json.clone());
        let b0 = r0.serialize().expect("serialize");
        let mut b0s = Vec::new(); r0.serialize_into(&mut b0s).expect("serialize_into");
        blob_total += b0.len();
        let hdr_len = header_len(&b0);
        stats.inc(&format!("b_blob_{}", match b0.len() { 0..=49_999 => "<50K", 50_000..=99_999 => "50-100K", 100_000..=199_999 => "100-200K", _ => "200K+" }));
        // how many regexp sets / constrained patterns does this blob hold (maps whose keys matter)
        if let Some(Val::Tuple(f)) = blob_value(&rty, &b0, hdr_len) {
            let n = |i: usize| if let Some(Val::Seq(x)) = f.get(i) { x.len() } else { 0 };
            stats.inc(&format!("b_regex_sets_{}", match n(F_REGEX_SETS) { 0 => "0", 1 | 2 => "1-2", _ => "3+" }));
            stats.inc(&format!("b_filesize_bounds_{}", match n(F_FSB) { 0 => "0", 1 | 2 => "1-2", _ => "3+" }));
            stats.inc(&format!("b_header_constraints_{}", match n(F_HC) { 0 => "0", 1 | 2 => "1-2", _ => "3+" }));
        } else { stats.inc("b_blob_not_decodable_by_rust_shape"); }
        let (c1, r1) = try_deserialize(&b0);
        let (mut deser_ok, mut static_eq, mut scans_eq, mut reser_eq, mut stream_eq) = (false, false, false, false, b0 == b0s);
        let mut digest_eq = false;
        let mut detail = String::new();
        if let Some(r1) = &r1 {
            let b1 = catch(AssertUnwindSafe(|| r1.serialize())).ok().and_then(|x| x.ok()).unwrap_or_default();
            let r2 = catch(AssertUnwindSafe(|| yara_x::Rules::deserialize_from(&b1[..]))).ok().and_then(|x| x.ok());
            if let Some(r2) = &r2 {
                deser_ok = true;
                let mut b2 = Vec::new(); let _ = catch(AssertUnwindSafe(|| r2.serialize_into(&mut b2)));
                // Byte equality is the common case.  FxHashMap iteration order depends on the
                // table's capacity history, so blobs holding a map with several entries may
                // list them in another order after a round trip: compare up to that order.
                if b0 == b1 && b1 == b2 { reser_eq = true; stats.inc("b_reserialized_byte_equal"); }
                else {
                    let (v0, v1, v2) = (blob_value(&rty, &b0, hdr_len), blob_value(&rty, &b1, hdr_len), blob_value(&rty, &b2, hdr_len));
                    reser_eq = v0.is_some() && v0 == v1 && v1 == v2 && b0.len() == b1.len() && b1.len() == b2.len();
                    stats.inc(if reser_eq { "b_reserialized_equal_up_to_map_order" } else { "b_reserialized_DIFFERENT" });
                }
                if !reser_eq { detail.push_str(&format!("blobs differ beyond map order; lengths {} {} {}; ", b0.len(), b1.len(), b2.len())); }
                let sd = |r: &yara_x::Rules| catch(AssertUnwindSafe(|| static_dump(r))).unwrap_or_else(|p| format!("PANIC in static dump: {}", p));
                let (s0, s1, s2) = (sd(&r0), sd(r1), sd(r2));
                static_eq = s0 == s1 && s1 == s2;
                if !static_eq { detail.push_str(&format!("static dumps differ:\n{}\n---\n{}\n---\n{}; ", s0, s1, s2)); }
                // every table the scanner reads, dumped without serde (hook, cfg yara_x_verif)
                let dg = |r: &yara_x::Rules| catch(AssertUnwindSafe(|| r.verif_c08_digest())).unwrap_or_else(|p| format!("PANIC in digest: {}", p));
                let (g0, g1, g2) = (dg(&r0), dg(r1), dg(r2));
                digest_eq = g0 == g1 && g1 == g2;
                if !digest_eq {
                    let diff: Vec<String> = g0.lines().zip(g1.lines()).chain(g1.lines().zip(g2.lines())).filter(|(a, b)| a != b).take(4)
                        .map(|(a, b)| format!("{} -> {}", &a[..a.len().min(300)], &b[..b.len().min(300)])).collect();
                    detail.push_str(&format!("table digests differ (lines {} / {} / {}): {:?}; ", g0.lines().count(), g1.lines().count(), g2.lines().count(), diff));
                }
                scans_eq = true;
                let none: Vec<(String, String)> = vec![];
                let scans: Vec<(&Vec<u8>, &Vec<(String, String)>)> = bufs.iter().map(|b| (b, &none)).chain(set.scan_globals.iter().map(|o| (&bufs[0], o))).collect();
                for (d, over) in scans {
                    let (d0, d1, d2) = (scan_dump(&r0, d, over), scan_dump(r1, d, over), scan_dump(r2, d, over));
                    if !over.is_empty() { stats.inc(if d0.contains("+") { "b_global_override_scans_with_matches" } else { "b_global_override_scans_without_matches" }); }
                    if d0.contains("+") { stats.inc("b_scans_with_matches"); } else { stats.inc("b_scans_without_matches"); }
                    if d0.starts_with("PANIC") { stats.inc("b_scan_panicked_on_original"); }
                    if !(d0 == d1 && d1 == d2) { scans_eq = false; detail.push_str(&format!("scan of {} with globals {:?} differs:\n{}\n---\n{}\n---\n{}; ", hex(d), over, d0, d1, d2)); }
                }
            } else { detail.push_str("second deserialize (deserialize_from) failed; "); }
        } else { detail.push_str(&format!("deserialize(serialize R) = {:?}; ", c1)); }
        let hdr = &b0[..hdr_len.min(b0.len())];
        let replay = format!("{{\"stream\":\"b-behaviour\",\"source\":{},\"buffers_hex\":[{}],\"deser_ok\":{},\"static_eq\":{},\"scans_eq\":{},\"reser_eq\":{},\"stream_api_eq\":{},\"digest_eq\":{},\"detail\":{}}}",
            src_json, bufs.iter().map(|b| format!("\"{}\"", hex(b))).collect::<Vec<_>>().join(","), deser_ok, static_eq, scans_eq, reser_eq, stream_eq, digest_eq, json_str(&detail));
        if samples.len() < 4 { samples.push(format!("{{\"stream\":\"b-behaviour\",\"source\":{}}}", src_json)); }
        shards.push(format!("CBehav {} {} {} {} {} {} {}", coq_bytes(hdr), coq_bool(deser_ok), coq_bool(static_eq), coq_bool(scans_eq), coq_bool(reser_eq), coq_bool(stream_eq), coq_bool(digest_eq)), replay);
        stream_eq = stream_eq && true;
        let _ = stream_eq;

        // (d) the whole blob, decoded by the model of `struct Rules`
        if blobs_emitted < n_blobs && b0.len() <= max_blob && c1 == Ocl::Ok {
            blobs_emitted += 1; stats.inc("d_model_decoded_blobs"); stats.add("d_model_decoded_bytes", b0.len() as u64);
            shards.flush();
            shards.push(format!("CBlob {}", coq_bytes_chunked(&b0)), format!("{{\"stream\":\"d-blob\",\"source\":{},\"blob_len\":{}}}", src_json, b0.len()));
            shards.flush();
            // the globals blob inside it, decoded by the model of types::Struct
            if let DOut::Ok(Val::Tuple(f), _) = real_decode(&rty, &b0[hdr_len..]) {
                if let Some(Val::Bytes(g)) = f.get(F_GLOBALS) {
                    let shape_ok = matches!(real_decode(&globals_ty(), g), DOut::Ok(_, n) if n == g.len());
                    stats.inc(if shape_ok { "d_globals_blobs" } else { "d_globals_blob_NOT_decodable_by_rust_shape" }); stats.add("d_globals_bytes", g.len() as u64);
                    shards.push(format!("CGlobals {}", coq_bytes_chunked(g)), format!("{{\"stream\":\"d-globals\",\"source\":{},\"globals_hex\":\"{}\"}}", src_json, hex(g)));
                    shards.flush();
                }
            }
        }
        // (c') single-bit flips of the header and of every framing integer, in a child process
        // (the first one on the corpus rule set holding every sub-pattern kind, then on generated sets)
        if flip_sets_done < n_flip_sets && c1 == Ocl::Ok && b0.len() <= max_blob && (flip_sets_done > 0 || src_json.contains("rule kinds") || corpus.is_empty()) {
            flip_sets_done += 1;
            let mut frames = vec![]; let mut pos = hdr_len;
            let walked = walk(&rty, &b0, &mut pos, &mut frames).is_some() && pos == b0.len();
            if !walked { stats.inc("c_flip_walker_FAILED"); frames.clear(); }
            // which (byte position, bit)
            let mut flips: Vec<(usize, u8)> = (0..hdr_len).flat_map(|p| (0..8u8).map(move |b| (p, b))).collect();
            let per_frame_all = flips_all_bits || frames.len() * 8 <= max_flips;
            for (off, len) in &frames {
                if per_frame_all { for p in *off..*off + *len { for b in 0..8u8 { flips.push((p, b)); } } }
                else { flips.push((*off, rng.below(8) as u8)); if *len > 1 { flips.push((*off + 1 + rng.below((*len - 1) as u64) as usize, rng.below(8) as u8)); } }
            }
            if flips.len() > max_flips + hdr_len * 8 { let keep = hdr_len * 8; let mut rest = flips.split_off(keep); while rest.len() > max_flips { let i = rng.below(rest.len() as u64) as usize; rest.swap_remove(i); } rest.sort(); flips.extend(rest); }
            let outcomes = run_flips(Path::new(&out), &b0, &flips);
            let mut counts: std::collections::BTreeMap<&str, u64> = Default::default();
            for (_, f) in &outcomes { *counts.entry(match f { Fcl::Err(_) => "c_flip_err", Fcl::OkSame => "c_flip_ok_same", Fcl::OkDiff => "c_flip_ok_different", Fcl::Panic => "c_flip_PANIC", Fcl::Abort(_) => "c_flip_ABORT", Fcl::Mem(_) => "c_flip_MEMORY" }).or_default() += 1; }
            for (k, v) in counts { stats.add(k, v); }
            stats.add("c_flip_frames", frames.len() as u64);
            let bad: Vec<String> = outcomes.iter().filter(|(_, f)| matches!(f, Fcl::Panic | Fcl::Abort(_) | Fcl::Mem(_))).take(10).map(|((p, b), f)| format!("byte {} bit {}: {:?}", p, b, f)).collect();
            shards.flush();
            shards.push(format!("CBodyFlips {}", coq_list(&outcomes, |((p, b), f)| format!("({}, {}, {})", coq_n(*p as u64), coq_n(*b as u64), f.coq()))),
                format!("{{\"stream\":\"c-flips\",\"source\":{},\"blob_len\":{},\"flips\":{},\"crashes\":{}}}", src_json, b0.len(), outcomes.len(), json_str(&format!("{:?}", bad))));
            // a sample also decoded by the model, with the positions of all framing integers
            if flip_model_done < n_flip_model && walked {
                flip_model_done += 1;
                let body: Vec<&((usize, u8), Fcl)> = outcomes.iter().filter(|((p, _), _)| *p >= hdr_len).collect();
                let mut sample: Vec<&((usize, u8), Fcl)> = vec![];
                for want in ["eof", "other", "ok"] { for o in &body { let c = match &o.1 { Fcl::Err(Ocl::DecodeEof) => "eof", Fcl::Err(_) => "other", _ => "ok" }; if c == want && sample.len() < n_flip_sample && !sample.iter().any(|s| s.0 == o.0) { sample.push(o); if sample.iter().filter(|s| (match &s.1 { Fcl::Err(Ocl::DecodeEof) => "eof", Fcl::Err(_) => "other", _ => "ok" }) == want).count() >= (n_flip_sample + 2) / 3 { break; } } } }
                let term = coq_list(&sample, |((p, b), f)| format!("({}, {}, {})", coq_n(*p as u64), coq_n((b0[*p] ^ (1u8 << *b)) as u64), coq_ocl(&match f { Fcl::Err(o) => o.clone(), Fcl::OkSame | Fcl::OkDiff => Ocl::Ok, _ => Ocl::Panic })));
                stats.add("c_flip_model_decoded", sample.len() as u64);
                shards.push(format!("CFlipModel {} {} {}", coq_bytes_chunked(&b0), coq_list(&frames, |(o, l)| format!("({}, {})", coq_n(*o as u64), coq_n(*l as u64))), term),
                    format!("{{\"stream\":\"c-flip-model\",\"source\":{},\"sample\":{}}}", src_json, json_str(&format!("{:?}", sample))));
            }
            shards.flush();
        }
        // (c) prefixes
        let len = b0.len();
        let all_here = all_prefixes && len <= max_all && done <= all_sets;
        let mut ks: Vec<usize> = if all_here { (0..len).collect() } else {
            let mut v: Vec<usize> = (0..len.min(4097)).collect();
            for _ in 0..512 { if len > 4097 { v.push(4097 + rng.below((len - 4097) as u64) as usize); } }
            if len > 0 { v.push(len - 1); }
            v };
        ks.sort(); ks.dedup();
        let mut segs: Vec<(usize, usize, Ocl)> = vec![];
        let mut bad: Vec<(usize, String)> = vec![];
        let outcomes = classify_prefixes(&b0, &ks);
        for (&k, o) in ks.iter().zip(outcomes) {
            if !is_err(&o) && bad.len() < 20 { bad.push((k, format!("{:?}", o))); }
            if let Ocl::DecodeOther(e) | Ocl::Other(e) = &o { if bad.len() < 20 { bad.push((k, e.clone())); } }
            match segs.last_mut() { Some((_, hi, c)) if *c == o => *hi = k, _ => segs.push((k, k, o)) }
        }
        stats.add("c_prefixes_tested", ks.len() as u64);
        if all_here { stats.inc("c_blobs_all_prefixes"); }
        let replay = format!("{{\"stream\":\"c-prefix\",\"source\":{},\"blob_len\":{},\"full\":{},\"unexpected\":{}}}", src_json, len, json_str(&format!("{:?}", c1)), json_str(&format!("{:?}", bad)));
        shards.push(format!("CPrefix {} {} {} {}", coq_bytes(hdr), coq_n(len as u64), coq_ocl(&c1),
            coq_list(&segs, |(lo, hi, o)| format!("({}, {}, {})", coq_n(*lo as u64), coq_n(*hi as u64), coq_ocl(o)))), replay);

        // (c) altered header, payload intact
        let positions: Vec<usize> = if done == 1 { (0..hdr_len).collect() } else { vec![rng.below(hdr_len as u64) as usize] };
        for pos in positions {
            let alts: Vec<u8> = if done == 1 { (0..=255u8).filter(|b| *b != b0[pos]).collect() }
                                else { (0..24).map(|_| rng.next() as u8).filter(|b| *b != b0[pos]).collect() };
            let mut res = vec![]; let mut bad = vec![];
            let mut blob = b0.clone();
            for b in alts { blob[pos] = b; let o = classify(&blob); if !is_err(&o) { bad.push((b, format!("{:?}", o))); } res.push((b, o)); }
            stats.add("c_header_alterations", res.len() as u64);
            let replay = format!("{{\"stream\":\"c-header\",\"source\":{},\"pos\":{},\"accepted_or_panicked\":{}}}", src_json, pos, json_str(&format!("{:?}", bad)));
            shards.push(format!("CHeader {} {} {}", coq_bytes(hdr), coq_nat(pos), coq_list(&res, |(b, o)| format!("({}, {})", coq_n(*b as u64), coq_ocl(o)))), replay);
        }
        // (c) foreign blobs
        for kind in 0..4 {
            let blob: Vec<u8> = match kind {
                0 => (0..rng.below(40)).map(|_| rng.next() as u8).collect(),
                1 => { let mut b = b0.clone(); for x in b.iter_mut().take(hdr_len) { *x = rng.next() as u8; } b }
                2 => { let mut b = b0.clone(); let v = u32::from_le_bytes(b[hdr_len - 4..hdr_len].try_into().unwrap()); let rv = rng.next() as u32; let nv = *rng.pick(&[v.wrapping_add(1), v.wrapping_sub(1), 0, u32::MAX, v.swap_bytes(), rv]);
                       b[hdr_len - 4..hdr_len].copy_from_slice(&nv.to_le_bytes()); if nv == v { b[hdr_len - 4] ^= 1; } b }
                _ => { let m: &[u8] = *rng.pick(&[&b"YARA"[..], &b"YARA-X\0"[..], &b"yara-x\0\0"[..], &b"YARA-X\0\0"[..], &b"\0\0X-ARAY"[..], &b"YARA-X\0\0\x06"[..], &b"YARA-X\0\0\x06\0\0"[..]]);
                       let mut b = m.to_vec(); if b.len() >= hdr_len { b[0] ^= 0x20; } if rng.chance(1, 2) && b.len() < hdr_len { /* keep short */ } b }
            };
            if blob.len() >= hdr_len && blob[..hdr_len] == b0[..hdr_len] { continue; }
            let o = classify(&blob);
            stats.inc(&format!("c_foreign_{}", match &o { Ocl::Format => "format", Ocl::Version(..) => "version", Ocl::Ok => "ACCEPTED", Ocl::Panic => "PANIC", _ => "other" }));
            let first = &blob[..blob.len().min(hdr_len + 4)];
            let replay = format!("{{\"stream\":\"c-foreign\",\"blob_len\":{},\"first_bytes_hex\":\"{}\",\"blob_hex_if_short\":\"{}\",\"based_on_source\":{},\"outcome\":{}}}",
                blob.len(), hex(first), if blob.len() <= 64 { hex(&blob) } else { String::new() }, if kind == 1 || kind == 2 { src_json.clone() } else { "null".into() }, json_str(&format!("{:?}", o)));
            shards.push(format!("CForeign {} {}", coq_bytes(first), coq_ocl(&o)), replay);
        }
        // trailing bytes (not part of the property)
        { let mut b = b0.clone(); b.extend((0..1 + rng.below(9)).map(|_| rng.next() as u8)); let o = classify(&b);
          stats.inc(&format!("c_trailing_{}", if o == Ocl::Ok { "accepted" } else { "rejected" }));
          shards.push(format!("CTrailing {}", coq_ocl(&o)), format!("{{\"stream\":\"c-trailing\",\"source\":{},\"outcome\":{}}}", src_json, json_str(&format!("{:?}", o)))); }
    }
    shards.flush();
    if !rust_side_errors.is_empty() {
        eprintln!("c08: the derive-generated serde code disagrees with the type-directed code used for the correspondence:\n{}", rust_side_errors[..rust_side_errors.len().min(5)].join("\n"));
        return 3;
    }
    stats.add("b_rule_sets", done as u64);
    stats.add("b_avg_blob_len", if done > 0 { (blob_total / done) as u64 } else { 0 });
    println!("{{\"evaluations\":{},\"distinct_nontrivial\":{},\"shards\":{},\"distribution\":{},\"samples\":[{}]}}",
        shards.total, distinct.len(), shards.shard_count, stats.json(), samples.join(","));
    0
}
