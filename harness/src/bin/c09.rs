//! C09: Compiler::add_source + build + rendering of every diagnostic on arbitrary bytes.
//! Every case runs in a child process (`--child`), on a thread with a large stack, because a
//! stack overflow aborts the process; the parent restarts the child after a crash or a hang
//! and records which case was being processed.
#[path = "../srcgen.rs"]
mod srcgen;
use srcgen::*;
use std::io::{BufRead, BufReader, Write};
use std::panic::AssertUnwindSafe;
use std::path::Path;
use std::process::{Command, Stdio};
use std::sync::mpsc;
use std::time::Duration;
use verif_harness::util::*;
use yara_x_parser::cst::{CSTStream, Event, SyntaxKind};
use yara_x_parser::Parser;

const CHILD_STACK: usize = 512 << 20;
static PANIC_LOC: std::sync::Mutex<String> = std::sync::Mutex::new(String::new());
const CASE_TIMEOUT_S: u64 = 30;

#[derive(Default, Clone)]
struct Obs {
    crashed: bool, timed_out: bool, panicked: Option<String>,
    add_ok: bool, nerr: usize, nwarn: usize, render_ok: bool, build_ok: bool,
    labels: Vec<(usize, usize, bool, bool)>, rendered_len: usize,
    declared: Vec<String>, built: Vec<String>, ignored: Vec<String>, ast_rules: Option<Vec<String>>,
    utf8_err: Option<(usize, Option<usize>)>, e032_span: Option<(usize, usize)>, max_depth: usize,
    codes: Vec<String>, wcodes: Vec<String>, multiline_fix: bool,
}

fn declared_rules(src: &[u8]) -> (Vec<String>, usize) {
    let mut names = vec![]; let mut depth = 0usize; let mut max_depth = 0usize; let mut want_name = false;
    for e in CSTStream::from(Parser::new(src)) {
        match e {
            Event::Begin { kind, .. } => { depth += 1; max_depth = max_depth.max(depth); if kind == SyntaxKind::RULE_DECL { want_name = true; } }
            Event::End { kind, .. } => { depth -= 1; if kind == SyntaxKind::RULE_DECL { if want_name { names.push(String::new()); } want_name = false; } }
            Event::Token { kind: SyntaxKind::IDENT, span } if want_name => { names.push(String::from_utf8_lossy(&src[span.range()]).to_string()); want_name = false; }
            _ => {}
        }
    }
    (names, max_depth)
}

fn observe(src: &[u8]) -> Obs {
    let mut o = Obs::default();
    let valid = std::str::from_utf8(src);
    let rendered: String = match valid { Ok(s) => s.to_string(), Err(_) => String::from_utf8_lossy(src).to_string() };
    o.rendered_len = rendered.len();
    if let Err(e) = valid { o.utf8_err = Some((e.valid_up_to(), e.error_len())); }
    if valid.is_ok() {
        let (d, m) = declared_rules(src); o.declared = d; o.max_depth = m;
        let ast = yara_x_parser::ast::AST::from(Parser::new(src));
        o.ast_rules = Some(ast.rules().map(|r| r.identifier.name.to_string()).collect());
    }
    let mut c = yara_x::Compiler::new();
    o.add_ok = c.add_source(src).is_ok();
    o.nerr = c.errors().len(); o.nwarn = c.warnings().len();
    o.render_ok = true;
    for e in c.errors() {
        // every way a diagnostic is rendered: Display, Debug, JSON
        if e.to_string().is_empty() || e.title().is_empty() || format!("{:?}", e).is_empty() { o.render_ok = false; }
        if serde_json::to_string(e).map(|s| s.is_empty()).unwrap_or(true) { o.render_ok = false; }
        o.codes.push(e.code().to_string());
        for l in e.labels() {
            let (a, b) = (l.span().start(), l.span().end());
            o.labels.push((a, b, rendered.is_char_boundary(a), rendered.is_char_boundary(b)));
            if e.code() == "E032" && o.e032_span.is_none() { o.e032_span = Some((a, b)); }
        }
    }
    for w in c.warnings() {
        if w.to_string().is_empty() || w.title().is_empty() || format!("{:?}", w).is_empty() { o.render_ok = false; }
        if serde_json::to_string(w).map(|s| s.is_empty()).unwrap_or(true) { o.render_ok = false; }
        o.wcodes.push(w.code().to_string());
        for l in w.labels() {
            let (a, b) = (l.span().start(), l.span().end());
            o.labels.push((a, b, rendered.is_char_boundary(a), rendered.is_char_boundary(b)));
        }
        // the suggested fixes: their spans are locations too
        for p in w.patches() {
            let (a, b) = (p.span().start(), p.span().end());
            let _ = p.replacement().len();
            o.labels.push((a, b, rendered.is_char_boundary(a), rendered.is_char_boundary(b)));
            if rendered.get(a..b).map(|t| t.contains('\n')).unwrap_or(false) { o.multiline_fix = true; }
        }
    }
    o.ignored = c.ignored_rules().map(|(n, _)| n.to_string()).collect();
    let rules = c.build();
    o.built = rules.iter().map(|r| r.identifier().to_string()).collect();
    o.build_ok = true;
    o
}

fn obs_json(o: &Obs) -> String {
    let strs = |v: &Vec<String>| format!("[{}]", v.iter().map(|s| json_str(s)).collect::<Vec<_>>().join(","));
    format!("{{\"panicked\":{},\"add_ok\":{},\"nerr\":{},\"nwarn\":{},\"render_ok\":{},\"build_ok\":{},\"labels\":[{}],\"rendered_len\":{},\"declared\":{},\"built\":{},\"ignored\":{},\"ast_rules\":{},\"utf8_err\":{},\"e032_span\":{},\"max_depth\":{},\"codes\":{},\"wcodes\":{},\"multiline_fix\":{}}}",
        match &o.panicked { Some(m) => json_str(m), None => "null".into() }, o.add_ok, o.nerr, o.nwarn, o.render_ok, o.build_ok,
        o.labels.iter().map(|(a, b, x, y)| format!("[{},{},{},{}]", a, b, x, y)).collect::<Vec<_>>().join(","), o.rendered_len,
        strs(&o.declared), strs(&o.built), strs(&o.ignored),
        match &o.ast_rules { Some(v) => strs(v), None => "null".into() },
        match &o.utf8_err { Some((v, Some(n))) => format!("[{},{}]", v, n), Some((v, None)) => format!("[{},null]", v), None => "null".into() },
        match &o.e032_span { Some((a, b)) => format!("[{},{}]", a, b), None => "null".into() }, o.max_depth, strs(&o.codes), strs(&o.wcodes), o.multiline_fix)
}

fn obs_from_json(s: &str) -> Option<Obs> {
    let v: serde_json::Value = serde_json::from_str(s).ok()?;
    let strs = |x: &serde_json::Value| x.as_array().map(|a| a.iter().map(|s| s.as_str().unwrap_or("").to_string()).collect::<Vec<_>>());
    Some(Obs {
        crashed: false, timed_out: false, panicked: v["panicked"].as_str().map(|s| s.to_string()),
        add_ok: v["add_ok"].as_bool()?, nerr: v["nerr"].as_u64()? as usize, nwarn: v["nwarn"].as_u64()? as usize,
        render_ok: v["render_ok"].as_bool()?, build_ok: v["build_ok"].as_bool()?,
        labels: v["labels"].as_array()?.iter().map(|l| (l[0].as_u64().unwrap() as usize, l[1].as_u64().unwrap() as usize, l[2].as_bool().unwrap(), l[3].as_bool().unwrap())).collect(),
        rendered_len: v["rendered_len"].as_u64()? as usize,
        declared: strs(&v["declared"])?, built: strs(&v["built"])?, ignored: strs(&v["ignored"])?, ast_rules: strs(&v["ast_rules"]),
        utf8_err: v["utf8_err"].as_array().map(|a| (a[0].as_u64().unwrap() as usize, a[1].as_u64().map(|x| x as usize))),
        e032_span: v["e032_span"].as_array().map(|a| (a[0].as_u64().unwrap() as usize, a[1].as_u64().unwrap() as usize)),
        max_depth: v["max_depth"].as_u64()? as usize, codes: strs(&v["codes"])?, wcodes: strs(&v["wcodes"]).unwrap_or_default(), multiline_fix: v["multiline_fix"].as_bool().unwrap_or(false),
    })
}

/// child: one hex-encoded source per line of `file`; prints `BEGIN i` then `RESULT i json`
fn child(file: &str, from: usize) -> i32 {
    let file = file.to_string();
    let h = std::thread::Builder::new().stack_size(CHILD_STACK).spawn(move || {
        // silent hook that remembers where the panic was raised (file only: line numbers move)
        std::panic::set_hook(Box::new(|info| {
            if let Some(l) = info.location() { *PANIC_LOC.lock().unwrap() = l.file().rsplit("/repo/").next().unwrap_or(l.file()).to_string(); }
        }));
        let text = std::fs::read_to_string(&file).unwrap();
        let out = std::io::stdout();
        for (i, line) in text.lines().enumerate().skip(from) {
            let src = unhex(line.trim());
            { let mut o = out.lock(); writeln!(o, "BEGIN {}", i).unwrap(); o.flush().unwrap(); }
            let obs = match catch(AssertUnwindSafe(|| observe(&src))) {
                Ok(o) => o,
                Err(m) => { let mut o = Obs::default(); o.panicked = Some(format!("{}: {}", PANIC_LOC.lock().unwrap(), m)); o }
            };
            { let mut o = out.lock(); writeln!(o, "RESULT {} {}", i, obs_json(&obs)).unwrap(); o.flush().unwrap(); }
        }
    }).unwrap();
    match h.join() { Ok(_) => 0, Err(_) => 3 }
}

/// parent: run all cases through children; a crash/hang is attributed to the case in progress
fn run_in_children(cases: &[Vec<u8>], dir: &Path) -> Vec<Obs> {
    let file = dir.join("batch.hex");
    std::fs::write(&file, cases.iter().map(|c| hex(c)).collect::<Vec<_>>().join("\n") + "\n").unwrap();
    let exe = std::env::current_exe().unwrap();
    let mut res: Vec<Option<Obs>> = vec![None; cases.len()];
    let mut from = 0usize;
    while from < cases.len() {
        let mut ch = Command::new(&exe).arg("--child").arg(&file).arg("--from").arg(from.to_string())
            .stdout(Stdio::piped()).stderr(Stdio::null()).spawn().expect("spawn child");
        let stdout = ch.stdout.take().unwrap();
        let (tx, rx) = mpsc::channel::<String>();
        let reader = std::thread::spawn(move || { for l in BufReader::new(stdout).lines().map_while(Result::ok) { if tx.send(l).is_err() { break; } } });
        let mut current: Option<usize> = None;
        let mut timed_out = false;
        loop {
            match rx.recv_timeout(Duration::from_secs(CASE_TIMEOUT_S)) {
                Ok(l) => {
                    if let Some(r) = l.strip_prefix("BEGIN ") { current = r.trim().parse().ok(); }
                    else if let Some(r) = l.strip_prefix("RESULT ") {
                        let (i, js) = r.split_once(' ').unwrap();
                        let i: usize = i.parse().unwrap();
                        res[i] = obs_from_json(js); if res[i].is_none() { let mut o = Obs::default(); o.panicked = Some("unparsable child output".into()); res[i] = Some(o); }
                        current = None; from = i + 1;
                    }
                }
                Err(mpsc::RecvTimeoutError::Timeout) => { timed_out = true; let _ = ch.kill(); break; }
                Err(mpsc::RecvTimeoutError::Disconnected) => break,
            }
        }
        let _ = ch.wait(); let _ = reader.join();
        if let Some(i) = current {
            let mut o = Obs::default(); o.crashed = !timed_out; o.timed_out = timed_out; res[i] = Some(o); from = i + 1;
        } else if from < cases.len() && !timed_out && res[from].is_none() {
            // the child ended without starting the next case: count it as a crash of that case
            let status_ok = false;
            if !status_ok { let mut o = Obs::default(); o.crashed = true; res[from] = Some(o); from += 1; }
        }
    }
    res.into_iter().map(|o| o.unwrap_or_else(|| { let mut o = Obs::default(); o.crashed = true; o })).collect()
}

fn corpus(thorough: bool) -> Vec<(String, Vec<u8>)> {
    let mut v: Vec<(String, Vec<u8>)> = vec![];
    let mut add = |n: &str, s: Vec<u8>| v.push((n.to_string(), s));
    add("corpus", b"rule a {condition: true}".to_vec());
    add("corpus", b"rule a {condition: true} rule a {condition: false}".to_vec());
    add("corpus", b"import \"unknown_mod\" rule a {condition: unknown_mod.x == 1}".to_vec());
    add("corpus", b"rule a {strings: $a = \"x\" condition: true}".to_vec());
    add("corpus", b"rule a {condition: \xff}".to_vec());
    add("corpus", b"\xe2\x82".to_vec());
    add("corpus", b"rule \xf0\x9f\x98 {condition: true}".to_vec());
    add("corpus", "rule a {condition: \"é\" == €}".as_bytes().to_vec());
    add("corpus", b"rule a {condition: for any i in (0x7ffffffffffffffe..0x7fffffffffffffff) : (i > 0)}".to_vec());
    // crashes with overflow checks on (dev profile), repaired by 46fdbbba and 1eeaceb7
    // repaired by 46fdbbba (coalesced jump bounds overflowed u32). The end-bound sum answers at once; the
    // start-bound sum now saturates to a huge fixed jump (the known slow class below), so that input is
    // only run in the thorough tier, where its time-out is classified under the huge-jump fingerprint
    add("corpus", b"rule r { strings: $a = { 01 [0-4294967295][0-1] 02 } condition: $a }".to_vec());
    if thorough { add("corpus", b"rule r { strings: $a = { 01 [4294967295][1] 02 } condition: $a }".to_vec()); }
    add("corpus", b"rule r { condition: -(-9223372036854775807 - 1) == 0 }".to_vec());
    // compile time proportional to the value of a fixed jump: no answer within the time limit
    add("corpus", b"rule r { strings: $a = { 01 [4294967295] 02 } condition: $a }".to_vec());
    // invalid byte as the last byte of the source
    add("corpus", b"rule r { condition: true } \xff".to_vec());
    add("corpus", b"rule r { condition: true }\xe2\x82".to_vec());
    add("corpus", b"rule r { strings: $a = \"foo\" xor(1KB) condition: $a }".to_vec());
    add("corpus", b"rule r { strings: $a = \"foo\" xor(0-1MB) condition: $a }".to_vec());
    add("corpus", "rule r { strings: $a = \u{201c}aaaaaaaaaaa\u{e9}bbbbbbbbbbbbb\u{201d} condition: $a }".as_bytes().to_vec());
    add("corpus", b"rule r { strings: $a = { 61 62\n 63 64 } condition: $a }".to_vec());
    add("corpus", b"rule r { strings: $a = { 01 [1]\n [2] 02 } condition: $a }".to_vec());
    // DESIGN.md section 7 #14: a rule nested deeper than MAX_AST_DEPTH between two good rules
    add("depth_limit", format!("rule a{{condition:true}} rule deep{{condition: {}true}} rule b{{condition:true}}", "not ".repeat(2999)).into_bytes());
    v
}

/// a syntax error ON a long token (> 15 bytes) that holds 2-, 3- or 4-byte characters at a varied byte offset
fn gen_long_token_error(rng: &mut Rng) -> Vec<u8> {
    let ch = *rng.pick(&["\u{e9}", "\u{20ac}", "\u{1f600}", "\u{4e2d}", "\u{7ff}", "\u{10ffff}"]);
    // half of the time the multi-byte run lies across byte offsets 10..18 of the token (15 is where messages truncate)
    let before = if rng.chance(1, 2) { 8 + rng.below(10) as usize } else { rng.below(30) as usize };
    let after = rng.below(20) as usize;
    let reps = 1 + rng.below(8) as usize;
    let body = format!("{}{}{}", "a".repeat(before), ch.repeat(reps), "b".repeat(after));
    let tok = match rng.below(7) {
        0 => format!("\"{}\"", body),                       // string literal where it is a syntax error
        1 => format!("/{}x/", body),                        // regexp
        2 => format!("\u{201c}{}\u{201d}", body),           // typographic quotes: UNKNOWN token
        3 => format!("\"{}", body),                         // unclosed string
        4 => format!("/*{}", body),                         // unclosed comment
        5 => format!("{}{}", ch, body),                     // unknown token starting with a non-ASCII char
        _ => format!("'{}'", body),
    };
    let s = match rng.below(9) {
        0 => format!("rule r {{ strings: $a = {} condition: $a }}", tok),
        1 => format!("rule r {{ condition: true {} }}", tok),
        2 => format!("rule {} {{ condition: true }}", tok),
        3 => format!("rule r {{ meta: a = {} condition: true }}", tok),
        4 => format!("{} rule r {{ condition: true }}", tok),
        5 => format!("rule r {{ condition: {} }}", tok),
        6 => format!("rule r : {} {{ condition: true }}", tok),
        7 => format!("import {} rule r {{ condition: true }}", tok),
        _ => format!("rule r {{ strings: $a = \"x\" {} condition: $a }}", tok),
    };
    s.into_bytes()
}

/// out-of-range and KB/MB-suffixed integer literals in every literal position of the grammar
fn gen_int_literal_position(rng: &mut Rng) -> Vec<u8> {
    let lit = rng.pick(&["0", "1", "255", "256", "1KB", "1MB", "2KB", "300", "65536", "4294967295", "4294967296", "0x100", "0xFFFFFFFF",
        "0x1_0000_0000", "9223372036854775807", "9223372036854775808", "18446744073709551616", "8388608MB", "9007199254740993KB",
        "0o400", "1_0", "1__KB", "00", "0x7fffffffffffffff", "-1", "- 1"]).to_string();
    let lit2 = rng.pick(&["1", "0", "1KB", "255", "256", "4294967295", "1MB"]).to_string();
    // hex jumps: compiling `[N]` takes time proportional to N (about 13 s for 1e8 in the dev profile; the
    // corpus holds one such input), so the generated jump bounds stay below 1e6
    let jl = rng.pick(&["0", "1", "2", "200", "201", "255", "256", "65535", "65536", "999999", "1KB", "1MB", "0x10", "0x1_0", "0o17", "00", "-1"]).to_string();
    let jl2 = rng.pick(&["0", "1", "3", "1KB", "300"]).to_string();
    let s = match rng.below(20) {
        0 => format!("rule r {{ strings: $a = \"foo\" xor({}) condition: $a }}", lit),
        1 => format!("rule r {{ strings: $a = \"foo\" xor({}-{}) condition: $a }}", lit2, lit),
        2 => format!("rule r {{ strings: $a = \"foo\" xor({}-{}) condition: $a }}", lit, lit2),
        3 => format!("rule r {{ strings: $a = {{ 01 [{}] 02 }} condition: $a }}", jl),
        4 => format!("rule r {{ strings: $a = {{ 01 [{}-{}] 02 }} condition: $a }}", jl2, jl),
        5 => format!("rule r {{ strings: $a = {{ 01 [{}-] 02 }} condition: $a }}", jl),
        6 => format!("rule r {{ strings: $a = {{ 01 [{}][{}] 02 ( 03 [{}-{}] 04 | 05 ) }} condition: $a }}", jl, jl2, jl2, jl),
        7 => format!("rule r {{ strings: $a = \"foo\" base64(\"{}\") condition: $a }}", "A".repeat(rng.below(70) as usize)),
        8 => format!("rule r {{ condition: filesize == {} }}", lit),
        9 => format!("rule r {{ condition: for any i in (0..{}) : (i == {}) }}", lit, lit2),
        10 => format!("rule r {{ condition: for any i in ({}..{}) : (true) }}", lit, lit2),
        11 => format!("rule r {{ strings: $a = \"x\" condition: {}% of them }}", lit),
        12 => format!("rule r {{ strings: $a = \"x\" condition: {} of them }}", lit),
        13 => format!("rule r {{ strings: $a = \"x\" condition: #a in (0..{}) > {} }}", lit, lit2),
        14 => format!("rule r {{ strings: $a = \"x\" condition: @a[{}] == 0 or !a[{}] == 0 }}", lit, lit2),
        15 => format!("rule r {{ strings: $a = \"x\" condition: $a at {} or $a in ({}..{}) }}", lit, lit2, lit),
        16 => format!("rule r {{ condition: uint8({}) == 0 or 1 << {} == 0 }}", lit, lit2),
        17 => format!("rule r {{ meta: m = {} condition: true }}", lit),
        18 => format!("rule r {{ condition: -({}) == 0 or -(-{} - 1) == 0 or {} \\ {} == 1 or {} % {} == 1 }}", lit, lit, lit, lit2, lit, lit2),
        _ => format!("rule r {{ condition: for any i in ({}, {}) : (i * {} + {} - {} > 0) }}", lit, lit2, lit, lit, lit2),
    };
    s.into_bytes()
}

/// warnings whose suggested fix spans more than one line
fn gen_multiline_fix(rng: &mut Rng) -> Vec<u8> {
    let nl = *rng.pick(&["\n", "\r\n", "\n\n", " \n ", "\n\t", " // c\n", " /* c\n */ "]);
    let s = match rng.below(8) {
        0 => format!("rule r {{ strings: $a = {{ 61 62{}63 64 }} condition: $a }}", nl),
        1 => format!("rule r {{ strings: $a = {{{}61 62 63 64 65{}}} condition: $a }}", nl, nl),
        2 => format!("rule r {{ strings: $a = {{ 01 [1]{}[2] 02 }} condition: $a }}", nl),
        3 => format!("rule r {{ strings: $a = {{ 01 [1-2]{}[3-4]{}[5] 02 }} condition: $a }}", nl, nl),
        4 => format!("import \"pe\"{}import \"pe\" rule r {{ condition:{}true }}", nl, nl),
        5 => format!("rule r {{ strings: $a = \"abc\" condition: not{}defined{}$a or 0 of{}them or true == 1 }}", nl, nl, nl),
        6 => format!("rule r {{ strings: $a = {{ 4D 5A{}}} $b = {{ 30{}31 32 33 }} condition: any{}of them at 0 }}", nl, nl, nl),
        _ => format!("rule r {{ condition: pe.is_pe{}=={}1 and 1{}=={}true }}", nl, nl, nl, nl),
    };
    s.into_bytes()
}

fn main() { let args: Vec<String> = std::env::args().skip(1).collect(); std::process::exit(run(&args)); }

fn run(args: &[String]) -> i32 {
    if let Some(f) = arg_val(args, "--child") { return child(&f, arg_u64(args, "--from", 0) as usize); }
    quiet_panics();
    let out = arg_val(args, "--out").unwrap_or_else(|| "/verif/.cache/cases/C09".into());
    let dir = Path::new(&out);
    std::fs::create_dir_all(dir).unwrap();
    if let Some(hx) = arg_val(args, "--replay-hex") {
        let src = unhex(&hx);
        let o = &run_in_children(&[src.clone()], dir)[0];
        println!("source ({} bytes): {:?}", src.len(), String::from_utf8_lossy(&src[..src.len().min(300)]));
        println!("crashed={} timed_out={} {}", o.crashed, o.timed_out, obs_json(o));
        let bad = spec_violations(o);
        if bad.is_empty() { println!("property holds on this input"); return 0; }
        for b in bad { println!("VIOLATED: {b}"); }
        return 1;
    }
    let seed = arg_u64(args, "--seed", 1);
    let n = arg_u64(args, "--n", 400) as usize;
    let max_nest = arg_u64(args, "--max-nest", 200);
    let mut rng = Rng::new(seed);
    let mut cases: Vec<(String, Vec<u8>)> = corpus(n >= 4000);
    if n >= 400 {
        // invalid UTF-8 at EVERY position of one small valid rule, for three kinds of bad sequence
        let base = b"rule r {condition: \"\xc3\xa9\" == \"e\"}".to_vec();
        for bad in [&[0xffu8][..], &[0xe2, 0x82], &[0xf0, 0x9f, 0x98]] {
            for p in 0..=base.len() {
                let mut v = base.clone();
                for (k, b) in bad.iter().enumerate() { v.insert(p + k, *b); }
                cases.push(("invalid_utf8_sweep".to_string(), v));
            }
        }
    }
    while cases.len() < n {
        let c = match rng.below(19) {
            12 | 13 => ("long_token_error".to_string(), gen_long_token_error(&mut rng)),
            14 | 15 => ("int_literal_position".to_string(), gen_int_literal_position(&mut rng)),
            16 | 18 => ("multiline_fix".to_string(), gen_multiline_fix(&mut rng)),
            17 => { // invalid bytes at the very end of the source
                let mut v = format!("rule r{} {{ condition: true }}{}", rng.below(9), rng.pick(&["", " ", "\n"])).into_bytes();
                v.extend_from_slice(*rng.pick(&[&[0xffu8][..], &[0xc3], &[0xe2, 0x82], &[0xf0, 0x9f, 0x98], &[0x80], &[0xe2, 0x28], &[0xed, 0xa0]]));
                ("invalid_utf8_at_end".to_string(), v)
            }
            0 => { // invalid UTF-8 at every position of a small valid rule: pick one position
                let mut v = format!("rule r{} {{ condition: {} }}", rng.below(9), gen_bool(&mut rng, 1)).into_bytes();
                let p = rng.below(v.len() as u64 + 1) as usize;
                let bad: &[u8] = *rng.pick(&[&[0xffu8][..], &[0xc3], &[0xe2, 0x82], &[0xf0, 0x9f, 0x98], &[0x80], &[0xed, 0xa0, 0x80], &[0xc0, 0xaf], &[0xf4, 0x90]]);
                for (k, b) in bad.iter().enumerate() { v.insert(p + k, *b); }
                ("invalid_utf8_position".to_string(), v)
            }
            1 => ("deep".to_string(), gen_deep(&mut rng, max_nest).into_bytes()),
            2 => { // semantically wrong but syntactically valid
                let s = format!("rule r {{ strings: $a = \"x\" condition: {} }}", rng.pick(&["$b", "$a and undefined_ident", "1 + \"s\" == 2", "$a at \"x\"", "pe.nope", "for all i in (1..\"a\") : (true)", "filesize matches /[/", "#a == \"x\"", "-(true)", "1 of ($c*)", "$a in (10..1)", "uint8(\"s\")"]));
                ("semantic".to_string(), s.into_bytes())
            }
            3 => { // huge literals
                let s = format!("rule r {{ condition: {} }}", rng.pick(&["99999999999999999999999 > 1", "0xffffffffffffffffffff == 1", "1.7976931348623157e999 > 1", "9223372036854775807KB > 1", "1 << 9999 == 0", "-9223372036854775808 < 0", "filesize == 0o7777777777777777777777777"]));
                ("huge_literal".to_string(), s.into_bytes())
            }
            _ => gen_source(&mut rng),
        };
        cases.push(c);
    }
    let srcs: Vec<Vec<u8>> = cases.iter().map(|c| c.1.clone()).collect();
    let t0 = std::time::Instant::now();
    let obs = run_in_children(&srcs, dir);
    let elapsed = t0.elapsed().as_secs_f64();

    let prelude = "From Coq Require Import List NArith ZArith Bool.\nFrom YV Require Import Compiler.CompilerCheck.\nImport ListNotations.\nLocal Open Scope N_scope.\n";
    let mut shards = Shards::new(dir, prelude, 150);
    let mut stats = Stats::default();
    let mut distinct = std::collections::HashSet::new();
    let mut samples = vec![];
    for ((stream, src), o) in cases.iter().zip(obs.iter()) {
        // intern rule names of this case
        let mut names: Vec<String> = vec![];
        let mut id = |s: &String| -> String { let i = match names.iter().position(|x| x == s) { Some(i) => i, None => { names.push(s.clone()); names.len() - 1 } }; i.to_string() };
        let ids = |v: &Vec<String>, id: &mut dyn FnMut(&String) -> String| format!("[{}]", v.iter().map(|s| id(s)).collect::<Vec<_>>().join("; "));
        let declared = ids(&o.declared, &mut id); let built = ids(&o.built, &mut id); let ignored = ids(&o.ignored, &mut id);
        let ast_rules = match &o.ast_rules { Some(v) => format!("(Some {})", ids(v, &mut id)), None => "None".into() };
        let utf8 = match &o.utf8_err {
            Some((v, el)) if src.len() <= 200 => format!("(Some ({}, ({}, {}), {}))", coq_list(src, |b| b.to_string()), v,
                match el { Some(n) => format!("Some {}", n), None => "None".into() },
                match &o.e032_span { Some((a, b)) => format!("Some ({}, {})", a, b), None => "None".into() }),
            _ => "None".into(),
        };
        let case = format!("mkCase {} {} {} {}%nat {}%nat {} {} {} {} {} {} {} {} {}",
            coq_bool(o.crashed || o.timed_out), coq_bool(o.panicked.is_some()), coq_bool(o.add_ok), o.nerr, o.nwarn, coq_bool(o.render_ok), coq_bool(o.build_ok),
            coq_list(&o.labels, |(a, b, x, y)| format!("({}, {}, {}, {})", a, b, coq_bool(*x), coq_bool(*y))), o.rendered_len,
            declared, built, ignored, ast_rules, utf8);
        let shown = if src.len() > 400 { format!("{}...({} bytes)", String::from_utf8_lossy(&src[..200]), src.len()) } else { String::from_utf8_lossy(src).to_string() };
        let replay = format!("{{\"stream\":{},\"source_hex\":\"{}\",\"source_lossy\":{},\"crashed\":{},\"timed_out\":{},\"obs\":{},\"violations\":[{}]}}",
            json_str(stream), if src.len() <= 20000 { hex(src) } else { String::new() }, json_str(&shown), o.crashed, o.timed_out, obs_json(o),
            spec_violations(o).iter().map(|s| json_str(s)).collect::<Vec<_>>().join(","));
        stats.inc(&format!("stream_{}", stream));
        if o.crashed { stats.inc("child_crashed"); } if o.timed_out { stats.inc("child_timed_out"); } if o.panicked.is_some() { stats.inc("panicked"); }
        if o.add_ok { stats.inc("accepted"); } else { stats.inc("rejected"); }
        if o.utf8_err.is_some() { stats.inc("invalid_utf8"); }
        if !o.ignored.is_empty() { stats.inc("has_ignored_rule"); }
        if o.declared.len() >= 2 { stats.inc("two_or_more_declared"); }
        if o.nwarn > 0 { stats.inc("has_warning"); }
        stats.inc(&format!("depth_{}", match o.max_depth { 0..=9 => "0-9", 10..=49 => "10-49", 50..=199 => "50-199", 200..=999 => "200-999", _ => "1000+" }));
        for c in &o.codes { stats.inc(&format!("code_{}", c)); }
        for c in &o.wcodes { stats.inc(&format!("warn_{}", c)); }
        if o.multiline_fix { stats.inc("fix_spans_several_lines"); }
        if src.len() >= 10 { distinct.insert(src.clone()); }
        if samples.len() < 3 && o.nerr > 0 && src.len() < 300 { samples.push(replay.clone()); }
        shards.push(case, replay);
    }
    shards.flush();
    println!("{{\"evaluations\":{},\"distinct_nontrivial\":{},\"shards\":{},\"child_seconds\":{:.1},\"distribution\":{},\"samples\":[{}]}}",
        shards.total, distinct.len(), shards.shard_count, elapsed, stats.json(), samples.join(","));
    0
}

/// the property on one observation (the same conditions as spec_case in Coq), for replay and classify
fn spec_violations(o: &Obs) -> Vec<String> {
    let mut v = vec![];
    if o.crashed { v.push("the process died while compiling this source (stack overflow / abort)".to_string()); return v; }
    if o.timed_out { v.push(format!("no answer within {} s", CASE_TIMEOUT_S)); return v; }
    if let Some(m) = &o.panicked { v.push(format!("panic: {}", m)); return v; }
    if !o.build_ok { v.push("build() did not complete".into()); }
    if !o.render_ok { v.push("a diagnostic rendered to an empty string".into()); }
    if o.add_ok != (o.nerr == 0) { v.push(format!("add_source Ok={} but {} errors recorded", o.add_ok, o.nerr)); }
    for (a, b, x, y) in &o.labels {
        if a > b || *b > o.rendered_len { v.push(format!("label span {a}..{b} outside the source ({} bytes)", o.rendered_len)); }
        else if !x || !y { v.push(format!("label span {a}..{b} not on character boundaries")); }
    }
    if o.nerr == 0 {
        for d in &o.declared { if !o.built.contains(d) && !o.ignored.contains(d) {
            v.push(format!("rule `{}` was declared, the source was accepted without errors, but the rule is neither built nor ignored (expected: {} rules accounted for; actual: built={:?} ignored={:?})", d, o.declared.len(), o.built, o.ignored)); } }
    }
    v
}
