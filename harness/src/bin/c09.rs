//! C09: Compiler::add_source + build + rendering of every diagnostic on arbitrary bytes.
//! Every case runs in a child process (`--child`), on a thread with a large stack, because a
//! stack overflow aborts the process; the parent restarts the child after a crash or a hang
//! and records which case was being processed.
#[path = "../srcgen.rs"]
mod srcgen;
use srcgen::*;
use std::io::{BufRead, BufReader, Write};
use std::panic::AssertUnwindSafe;
use std::path::Path;
use std::process::{Command, Stdio};
use std::sync::mpsc;
use std::time::Duration;
use verif_harness::util::*;
use yara_x_parser::cst::{CSTStream, Event, SyntaxKind};
use yara_x_parser::Parser;

const CHILD_STACK: usize = 512 << 20;
static PANIC_LOC: std::sync::Mutex<String> = std::sync::Mutex::new(String::new());
const CASE_TIMEOUT_S: u64 = 30;

#[derive(Default, Clone)]
struct Obs {
    crashed: bool, timed_out: bool, panicked: Option<String>,
    add_ok: bool, nerr: usize, nwarn: usize, render_ok: bool, build_ok: bool,
    labels: Vec<(usize, usize, usize, bool, bool)>, rendered_len: usize,
    declared: Vec<String>, built: Vec<String>, ignored: Vec<String>, ast_rules: Option<Vec<String>>,
    utf8_err: Option<(usize, Option<usize>)>, e032_span: Option<(usize, usize)>, max_depth: usize,
    codes: Vec<String>, wcodes: Vec<String>, multiline_fix: bool,
    /// labels of `invalid regular expression` errors that do not lie inside any REGEXP token of the CST
    re_outside: usize, cfg: u8, flaky: bool,
    /// per label: (line, column) agrees with the oracle that splits lines at \n only / at \n, \r\n and lone \r
    linecol: Vec<(bool, bool)>,
    /// the diagnostic's own line/column is its first label's, and the `--> ..:L:C` of the rendered text is a label's
    head_ok: bool,
    /// spans of the RULE_DECL nodes (parallel to `declared`) and of the labels of errors only
    decl_spans: Vec<(usize, usize)>, err_labels: Vec<(usize, usize)>,
    /// the same source with base64 and base64wide exchanged is accepted / rejected with other error codes
    twin_mismatch: bool, has_includes: bool,
}

fn declared_rules(src: &[u8]) -> (Vec<String>, usize, Vec<(usize, usize)>, Vec<(usize, usize)>) {
    let mut regexps = vec![]; let mut dspans = vec![];
    let mut names = vec![]; let mut depth = 0usize; let mut max_depth = 0usize; let mut want_name = false;
    for e in CSTStream::from(Parser::new(src)) {
        match e {
            Event::Begin { kind, span } => { depth += 1; max_depth = max_depth.max(depth); if kind == SyntaxKind::RULE_DECL { want_name = true; dspans.push((span.start(), span.end())); } }
            Event::End { kind, .. } => { depth -= 1; if kind == SyntaxKind::RULE_DECL { if want_name { names.push(String::new()); } want_name = false; } }
            Event::Token { kind: SyntaxKind::REGEXP, span } => regexps.push((span.start(), span.end())),
            Event::Token { kind: SyntaxKind::IDENT, span } if want_name => { names.push(String::from_utf8_lossy(&src[span.range()]).to_string()); want_name = false; }
            _ => {}
        }
    }
    (names, max_depth, regexps, dspans)
}

/// (line, column) of a byte offset, lines and columns counted from 1, columns in characters.
/// `universal` = false: a line ends at \n (what the report builder documents in its tests);
/// true: at \n, at \r\n (once) and at a lone \r.
fn line_col(text: &str, off: usize, universal: bool) -> (usize, usize) {
    let b = text.as_bytes(); let mut line = 1usize; let mut start = 0usize; let mut i = 0usize;
    while i < off.min(b.len()) {
        if b[i] == b'\n' { line += 1; start = i + 1; }
        else if universal && b[i] == b'\r' && !(i + 1 < b.len() && b[i + 1] == b'\n') { line += 1; start = i + 1; }
        i += 1;
    }
    let col = text.get(start..off).map(|t| t.chars().count()).unwrap_or(0) + 1;
    (line, col)
}

/// the compiler configurations every property of C09 is claimed for
const N_CFG: u8 = 6;
fn cfg_name(cfg: u8) -> &'static str {
    match cfg { 0 => "default", 1 => "relaxed_re_syntax", 2 => "error_on_slow", 3 => "linters", 4 => "ignore_ban_module", _ => "optimize_narrow_color" }
}
fn apply_cfg(c: &mut yara_x::Compiler, cfg: u8) {
    match cfg {
        0 => {}
        1 => { c.relaxed_re_syntax(true); }
        2 => { c.error_on_slow_pattern(true); c.error_on_slow_loop(true); }
        3 => {
            c.add_linter(yara_x::linters::rule_name("^r[0-9]*$").unwrap());
            c.add_linter(yara_x::linters::tags_allowed(vec!["t1".to_string()]).error(true));
            c.add_linter(yara_x::linters::metadata("author").required(true));
        }
        4 => { c.ignore_module("pe"); c.ban_module("math", "module banned", "math is not allowed here"); }
        _ => { c.condition_optimization(true); c.colorize_errors(true); c.errors_max_width(40); c.max_warnings(2); }
    }
}

/// files an `include` statement can find (name, content); `weird_dir`: the include directory's name is not UTF-8
#[derive(Clone, Default)]
struct IncSet { files: Vec<(String, Vec<u8>)>, weird_dir: bool }

fn inc_encode(i: &IncSet) -> String {
    format!("I:{}:{}", i.weird_dir as u8, i.files.iter().map(|(n, c)| format!("{}={}", hex(n.as_bytes()), hex(c))).collect::<Vec<_>>().join(","))
}
fn inc_decode(s: &str) -> Option<IncSet> {
    let mut it = s.splitn(3, ':'); if it.next()? != "I" { return None; }
    let weird = it.next()? == "1";
    let files = it.next()?.split(',').filter(|x| !x.is_empty()).filter_map(|kv| { let (k, v) = kv.split_once('=')?; Some((String::from_utf8_lossy(&unhex(k)).to_string(), unhex(v))) }).collect();
    Some(IncSet { files, weird_dir: weird })
}

fn compile_outcome(src: &[u8], cfg: u8) -> (bool, Vec<String>) {
    let mut c = yara_x::Compiler::new();
    apply_cfg(&mut c, cfg);
    let ok = c.add_source(src).is_ok();
    let mut codes: Vec<String> = c.errors().iter().map(|e| e.code().to_string()).collect(); codes.sort();
    (ok, codes)
}

fn observe(src: &[u8], cfg: u8, inc: Option<(&IncSet, &Path)>) -> Obs {
    let mut o = Obs::default();
    o.cfg = cfg;
    o.has_includes = inc.is_some();
    let mut regexps: Vec<(usize, usize)> = vec![];
    let valid = std::str::from_utf8(src);
    let rendered: String = match valid { Ok(s) => s.to_string(), Err(_) => String::from_utf8_lossy(src).to_string() };
    o.rendered_len = rendered.len();
    if let Err(e) = valid { o.utf8_err = Some((e.valid_up_to(), e.error_len())); }
    if valid.is_ok() {
        let (d, m, r, ds) = declared_rules(src); o.declared = d; o.max_depth = m; regexps = r; o.decl_spans = ds;
        let ast = yara_x_parser::ast::AST::from(Parser::new(src));
        // (with includes the built rules also come from other files: no exact count)
        if inc.is_none() { o.ast_rules = Some(ast.rules().map(|r| r.identifier.name.to_string()).collect()); }
    }
    let mut c = yara_x::Compiler::new();
    apply_cfg(&mut c, cfg);
    // the texts labels can refer to: the submitted source and the included files (as they are rendered)
    let mut texts: Vec<(Option<String>, String)> = vec![(None, rendered.clone())];
    if let Some((set, dir)) = inc {
        use std::os::unix::ffi::OsStrExt;
        let d = if set.weird_dir { dir.join(std::ffi::OsStr::from_bytes(b"d\xff")) } else { dir.to_path_buf() };
        let _ = std::fs::remove_dir_all(dir); std::fs::create_dir_all(&d).unwrap();
        for (n, content) in &set.files { std::fs::write(d.join(n), content).unwrap(); texts.push((Some(n.clone()), String::from_utf8_lossy(content).to_string())); }
        c.enable_includes(true); c.add_include_dir(&d);
    }
    let text_of = |origin: Option<&str>| -> &str {
        match origin { None => &texts[0].1, Some(p) => texts.iter().find(|(n, _)| n.as_ref().map(|n| p.ends_with(n.as_str())).unwrap_or(false)).map(|t| t.1.as_str()).unwrap_or(&texts[0].1) }
    };
    o.add_ok = c.add_source(src).is_ok();
    // metamorphic: base64 and base64wide have the same requirements on the pattern
    if inc.is_none() {
        if let Ok(t) = std::str::from_utf8(src) { if t.contains("base64") {
            let twin = t.replace("base64wide", "\u{1}").replace("base64", "base64wide").replace('\u{1}', "base64");
            let (ok2, codes2) = compile_outcome(twin.as_bytes(), cfg);
            let mut codes1: Vec<String> = c.errors().iter().map(|e| e.code().to_string()).collect(); codes1.sort();
            if ok2 != o.add_ok || codes1 != codes2 { o.twin_mismatch = true; }
        } }
    }
    o.nerr = c.errors().len(); o.nwarn = c.warnings().len();
    o.render_ok = true;
    o.head_ok = true;
    // line / column of every label against an independent computation from the byte span
    let mut check_lines = |js: Option<serde_json::Value>, text: String, o: &mut Obs| {
        let Some(js) = js else { return };
        let labels = js["labels"].as_array().cloned().unwrap_or_default();
        for l in &labels {
            let (line, col, st) = (l["line"].as_u64().unwrap_or(0) as usize, l["column"].as_u64().unwrap_or(0) as usize, l["span"]["start"].as_u64().unwrap_or(0) as usize);
            let t = text_of(l["code_origin"].as_str());
            o.linecol.push(((line, col) == line_col(t, st, false), (line, col) == line_col(t, st, true)));
        }
        if let Some(f) = labels.first() {
            if js["line"] != f["line"] || js["column"] != f["column"] { o.head_ok = false; }
            // ` --> origin:L:C` of the rendered text
            if let Some(p) = text.find("--> ") {
                let head: String = text[p + 4..].chars().take_while(|c| *c != '\n').collect();
                let mut it = head.rsplit(':');
                let (c, l) = (it.next().and_then(|x| x.trim().parse::<u64>().ok()), it.next().and_then(|x| x.trim().parse::<u64>().ok()));
                // (the renderer points at the annotation that comes first in the source, not necessarily the first label)
                if !labels.iter().any(|x| x["line"].as_u64() == l && x["column"].as_u64() == c) { o.head_ok = false; }
            }
        }
    };
    for e in c.errors() {
        check_lines(serde_json::to_value(e).ok(), e.to_string(), &mut o);
        for l in e.labels() { if l.origin().is_none() { o.err_labels.push((l.span().start(), l.span().end())); } }
        // every way a diagnostic is rendered: Display, Debug, JSON
        if e.to_string().is_empty() || e.title().is_empty() || format!("{:?}", e).is_empty() { o.render_ok = false; }
        if serde_json::to_string(e).map(|s| s.is_empty()).unwrap_or(true) { o.render_ok = false; }
        o.codes.push(e.code().to_string());
        for l in e.labels() {
            let (a, b) = (l.span().start(), l.span().end());
            let t = text_of(l.origin());
            o.labels.push((a, b, t.len(), t.is_char_boundary(a), t.is_char_boundary(b)));
            if e.code() == "E032" && o.e032_span.is_none() { o.e032_span = Some((a, b)); }
            // an error about a regular expression points into that regular expression (or at a construct,
            // like the pattern definition, that contains the whole regexp literal)
            if e.code() == "E014" && valid.is_ok() && l.origin().is_none() && !regexps.iter().any(|(s, t)| (*s <= a && b <= *t) || (a <= *s && *t <= b)) { o.re_outside += 1; }
        }
    }
    for w in c.warnings() {
        check_lines(serde_json::to_value(w).ok(), w.to_string(), &mut o);
        if w.to_string().is_empty() || w.title().is_empty() || format!("{:?}", w).is_empty() { o.render_ok = false; }
        if serde_json::to_string(w).map(|s| s.is_empty()).unwrap_or(true) { o.render_ok = false; }
        o.wcodes.push(w.code().to_string());
        for l in w.labels() {
            let (a, b) = (l.span().start(), l.span().end());
            let t = text_of(l.origin());
            o.labels.push((a, b, t.len(), t.is_char_boundary(a), t.is_char_boundary(b)));
        }
        // the suggested fixes: their spans are locations too
        for p in w.patches() {
            let (a, b) = (p.span().start(), p.span().end());
            let _ = p.replacement().len();
            let po = p.origin();
            let t = text_of(po.as_deref());
            o.labels.push((a, b, t.len(), t.is_char_boundary(a), t.is_char_boundary(b)));
            if t.get(a..b).map(|t| t.contains('\n')).unwrap_or(false) { o.multiline_fix = true; }
        }
    }
    o.ignored = c.ignored_rules().map(|(n, _)| n.to_string()).collect();
    let rules = c.build();
    o.built = rules.iter().map(|r| r.identifier().to_string()).collect();
    o.build_ok = true;
    o
}

fn obs_json(o: &Obs) -> String {
    let strs = |v: &Vec<String>| format!("[{}]", v.iter().map(|s| json_str(s)).collect::<Vec<_>>().join(","));
    format!("{{\"panicked\":{},\"add_ok\":{},\"nerr\":{},\"nwarn\":{},\"render_ok\":{},\"build_ok\":{},\"labels\":[{}],\"rendered_len\":{},\"declared\":{},\"built\":{},\"ignored\":{},\"ast_rules\":{},\"utf8_err\":{},\"e032_span\":{},\"max_depth\":{},\"codes\":{},\"wcodes\":{},\"multiline_fix\":{},\"re_outside\":{},\"cfg\":{},\"linecol\":[{}],\"head_ok\":{},\"decl_spans\":[{}],\"err_labels\":[{}],\"twin_mismatch\":{},\"has_includes\":{}}}",
        match &o.panicked { Some(m) => json_str(m), None => "null".into() }, o.add_ok, o.nerr, o.nwarn, o.render_ok, o.build_ok,
        o.labels.iter().map(|(a, b, n, x, y)| format!("[{},{},{},{},{}]", a, b, n, x, y)).collect::<Vec<_>>().join(","), o.rendered_len,
        strs(&o.declared), strs(&o.built), strs(&o.ignored),
        match &o.ast_rules { Some(v) => strs(v), None => "null".into() },
        match &o.utf8_err { Some((v, Some(n))) => format!("[{},{}]", v, n), Some((v, None)) => format!("[{},null]", v), None => "null".into() },
        match &o.e032_span { Some((a, b)) => format!("[{},{}]", a, b), None => "null".into() }, o.max_depth, strs(&o.codes), strs(&o.wcodes), o.multiline_fix, o.re_outside, o.cfg,
        o.linecol.iter().map(|(a, b)| format!("[{},{}]", a, b)).collect::<Vec<_>>().join(","), o.head_ok,
        o.decl_spans.iter().map(|(a, b)| format!("[{},{}]", a, b)).collect::<Vec<_>>().join(","),
        o.err_labels.iter().map(|(a, b)| format!("[{},{}]", a, b)).collect::<Vec<_>>().join(","), o.twin_mismatch, o.has_includes)
}

fn obs_from_json(s: &str) -> Option<Obs> {
    let v: serde_json::Value = serde_json::from_str(s).ok()?;
    let strs = |x: &serde_json::Value| x.as_array().map(|a| a.iter().map(|s| s.as_str().unwrap_or("").to_string()).collect::<Vec<_>>());
    Some(Obs {
        crashed: false, timed_out: false, panicked: v["panicked"].as_str().map(|s| s.to_string()),
        add_ok: v["add_ok"].as_bool()?, nerr: v["nerr"].as_u64()? as usize, nwarn: v["nwarn"].as_u64()? as usize,
        render_ok: v["render_ok"].as_bool()?, build_ok: v["build_ok"].as_bool()?,
        labels: v["labels"].as_array()?.iter().map(|l| (l[0].as_u64().unwrap() as usize, l[1].as_u64().unwrap() as usize, l[2].as_u64().unwrap() as usize, l[3].as_bool().unwrap(), l[4].as_bool().unwrap())).collect(),
        rendered_len: v["rendered_len"].as_u64()? as usize,
        declared: strs(&v["declared"])?, built: strs(&v["built"])?, ignored: strs(&v["ignored"])?, ast_rules: strs(&v["ast_rules"]),
        utf8_err: v["utf8_err"].as_array().map(|a| (a[0].as_u64().unwrap() as usize, a[1].as_u64().map(|x| x as usize))),
        e032_span: v["e032_span"].as_array().map(|a| (a[0].as_u64().unwrap() as usize, a[1].as_u64().unwrap() as usize)),
        max_depth: v["max_depth"].as_u64()? as usize, codes: strs(&v["codes"])?, wcodes: strs(&v["wcodes"]).unwrap_or_default(), multiline_fix: v["multiline_fix"].as_bool().unwrap_or(false), re_outside: v["re_outside"].as_u64().unwrap_or(0) as usize, cfg: v["cfg"].as_u64().unwrap_or(0) as u8, flaky: false,
        linecol: v["linecol"].as_array().map(|a| a.iter().map(|x| (x[0].as_bool().unwrap_or(false), x[1].as_bool().unwrap_or(false))).collect()).unwrap_or_default(),
        head_ok: v["head_ok"].as_bool().unwrap_or(true),
        decl_spans: v["decl_spans"].as_array().map(|a| a.iter().map(|x| (x[0].as_u64().unwrap_or(0) as usize, x[1].as_u64().unwrap_or(0) as usize)).collect()).unwrap_or_default(),
        twin_mismatch: v["twin_mismatch"].as_bool().unwrap_or(false), has_includes: v["has_includes"].as_bool().unwrap_or(false),
        err_labels: v["err_labels"].as_array().map(|a| a.iter().map(|x| (x[0].as_u64().unwrap_or(0) as usize, x[1].as_u64().unwrap_or(0) as usize)).collect()).unwrap_or_default(),
    })
}

/// child: one hex-encoded source per line of `file`; prints `BEGIN i` then `RESULT i json`
fn child(file: &str, from: usize) -> i32 {
    let file = file.to_string();
    let h = std::thread::Builder::new().stack_size(CHILD_STACK).spawn(move || {
        // silent hook that remembers where the panic was raised (file only: line numbers move)
        std::panic::set_hook(Box::new(|info| {
            if let Some(l) = info.location() {
                // path relative to the repository root, wherever the repository is checked out
                let f = l.file();
                let rel = ["/lib/src/", "/parser/src/", "/fmt/src/", "/macros/src/", "/capi/src/", "/proto/src/"].iter()
                    .filter_map(|m| f.find(m).map(|i| &f[i + 1..])).next()
                    // a dependency: <crate>-<version>/src/.. without the registry directory
                    .or_else(|| f.find("/registry/src/").and_then(|i| f[i + 14..].find('/').map(|j| &f[i + 14 + j + 1..])))
                    .unwrap_or(f);
                *PANIC_LOC.lock().unwrap() = rel.to_string();
            }
        }));
        let text = std::fs::read_to_string(&file).unwrap();
        let out = std::io::stdout();
        for (i, line) in text.lines().enumerate().skip(from) {
            let mut parts = line.trim().split(' ');
            let cfg: u8 = parts.next().and_then(|x| x.parse().ok()).unwrap_or(0);
            let src = unhex(parts.next().unwrap_or(""));
            let inc = parts.next().and_then(inc_decode);
            let inc_dir = Path::new(&file).parent().unwrap_or(Path::new(".")).join("inc");
            { let mut o = out.lock(); writeln!(o, "BEGIN {}", i).unwrap(); o.flush().unwrap(); }
            let obs = match catch(AssertUnwindSafe(|| observe(&src, cfg, inc.as_ref().map(|i| (i, inc_dir.as_path()))))) {
                Ok(o) => o,
                Err(m) => { let mut o = Obs::default(); o.cfg = cfg; o.has_includes = inc.is_some(); o.panicked = Some(format!("{}: {}", PANIC_LOC.lock().unwrap(), m)); o }
            };
            { let mut o = out.lock(); writeln!(o, "RESULT {} {}", i, obs_json(&obs)).unwrap(); o.flush().unwrap(); }
        }
    }).unwrap();
    match h.join() { Ok(_) => 0, Err(_) => 3 }
}

/// parent: run all cases through children; a crash/hang is attributed to the case in progress
type Job = (u8, Vec<u8>, Option<IncSet>);

fn run_in_children(cases: &[Job], dir: &Path) -> Vec<Obs> {
    let limits: Vec<u64> = cases.iter().map(|c| time_limit(&c.1)).collect();
    let mut res = run_in_children_once(cases, &limits, dir);
    // a crash or a time-out must be reproducible: run the case again on its own (machine load, OOM killer)
    for i in 0..cases.len() {
        if res[i].crashed || res[i].timed_out {
            let again = run_in_children_once(&cases[i..i + 1], &limits[i..i + 1], dir).remove(0);
            if !(again.crashed || again.timed_out) { res[i] = again; res[i].flaky = true; }
        }
    }
    res
}

/// seconds a case may take. Compiling a huge fixed hex jump allocates about 280 MB per second (known
/// finding): such inputs get a short limit so that the check does not exhaust the machine's memory
fn time_limit(src: &[u8]) -> u64 {
    let s = String::from_utf8_lossy(src);
    let huge = s.split('[').skip(1).any(|t| { let d: String = t.chars().take_while(|c| c.is_ascii_digit()).collect(); d.len() >= 9 });
    // nested function calls are parsed in exponential time (known finding)
    let nested_calls = s.contains("f(f(f(f(f(f(f(f(f(f(f(f(");
    if huge || nested_calls { 8 } else { CASE_TIMEOUT_S }
}

fn run_in_children_once(cases: &[Job], limits: &[u64], dir: &Path) -> Vec<Obs> {
    let file = dir.join("batch.hex");
    std::fs::write(&file, cases.iter().map(|c| match &c.2 { Some(i) => format!("{} {} {}", c.0, hex(&c.1), inc_encode(i)), None => format!("{} {}", c.0, hex(&c.1)) }).collect::<Vec<_>>().join("\n") + "\n").unwrap();
    let exe = std::env::current_exe().unwrap();
    let mut res: Vec<Option<Obs>> = vec![None; cases.len()];
    let mut from = 0usize;
    while from < cases.len() {
        let mut ch = Command::new(&exe).arg("--child").arg(&file).arg("--from").arg(from.to_string())
            .stdout(Stdio::piped()).stderr(Stdio::null()).spawn().expect("spawn child");
        let stdout = ch.stdout.take().unwrap();
        let (tx, rx) = mpsc::channel::<String>();
        let reader = std::thread::spawn(move || { for l in BufReader::new(stdout).lines().map_while(Result::ok) { if tx.send(l).is_err() { break; } } });
        let mut current: Option<usize> = None;
        let mut timed_out = false;
        loop {
            let limit = current.map(|i| limits[i]).unwrap_or(CASE_TIMEOUT_S);
            match rx.recv_timeout(Duration::from_secs(limit)) {
                Ok(l) => {
                    if let Some(r) = l.strip_prefix("BEGIN ") { current = r.trim().parse().ok(); }
                    else if let Some(r) = l.strip_prefix("RESULT ") {
                        let (i, js) = r.split_once(' ').unwrap();
                        let i: usize = i.parse().unwrap();
                        res[i] = obs_from_json(js); if res[i].is_none() { let mut o = Obs::default(); o.panicked = Some("unparsable child output".into()); res[i] = Some(o); }
                        current = None; from = i + 1;
                    }
                }
                Err(mpsc::RecvTimeoutError::Timeout) => { timed_out = true; let _ = ch.kill(); break; }
                Err(mpsc::RecvTimeoutError::Disconnected) => break,
            }
        }
        let _ = ch.wait(); let _ = reader.join();
        if let Some(i) = current {
            let mut o = Obs::default(); o.cfg = cases[i].0; o.crashed = !timed_out; o.timed_out = timed_out; res[i] = Some(o); from = i + 1;
        } else if from < cases.len() && !timed_out && res[from].is_none() {
            // the child ended without starting the next case: count it as a crash of that case
            let status_ok = false;
            if !status_ok { let mut o = Obs::default(); o.crashed = true; res[from] = Some(o); from += 1; }
        }
    }
    res.into_iter().map(|o| o.unwrap_or_else(|| { let mut o = Obs::default(); o.crashed = true; o })).collect()
}

fn corpus(thorough: bool) -> Vec<(String, Vec<u8>)> {
    let mut v: Vec<(String, Vec<u8>)> = vec![];
    let mut add = |n: &str, s: Vec<u8>| v.push((n.to_string(), s));
    add("corpus", b"rule a {condition: true}".to_vec());
    add("corpus", b"rule a {condition: true} rule a {condition: false}".to_vec());
    add("corpus", b"import \"unknown_mod\" rule a {condition: unknown_mod.x == 1}".to_vec());
    add("corpus", b"rule a {strings: $a = \"x\" condition: true}".to_vec());
    add("corpus", b"rule a {condition: \xff}".to_vec());
    add("corpus", b"\xe2\x82".to_vec());
    add("corpus", b"rule \xf0\x9f\x98 {condition: true}".to_vec());
    add("corpus", "rule a {condition: \"é\" == €}".as_bytes().to_vec());
    add("corpus", b"rule a {condition: for any i in (0x7ffffffffffffffe..0x7fffffffffffffff) : (i > 0)}".to_vec());
    // crashes with overflow checks on (dev profile), repaired by 46fdbbba and 1eeaceb7
    // repaired by 46fdbbba (coalesced jump bounds overflowed u32). The end-bound sum answers at once; the
    // start-bound sum now saturates to a huge fixed jump (the known slow class below), so that input is
    // only run in the thorough tier, where its time-out is classified under the huge-jump fingerprint
    add("corpus", b"rule r { strings: $a = { 01 [0-4294967295][0-1] 02 } condition: $a }".to_vec());
    if thorough { add("corpus", b"rule r { strings: $a = { 01 [4294967295][1] 02 } condition: $a }".to_vec()); }
    add("corpus", b"rule r { condition: -(-9223372036854775807 - 1) == 0 }".to_vec());
    // parse time exponential in the nesting of function calls: no answer within the time limit
    add("corpus", format!("rule r {{ condition: {}1{} == 1 }}", "f(".repeat(14), ")".repeat(14)).into_bytes());
    // one source, rules of mixed fate: a compile error in one rule and a syntax error in another
    add("corpus", b"rule a { condition: undefined_ident } rule b { condition: true true } rule c { condition: true }".to_vec());
    add("corpus", b"rule a { condition: true true }\r\nrule b { condition: undefined_ident }\r\nrule c { condition: true }\r\n".to_vec());
    add("corpus", b"rule a {\r\n condition:\r\n  foo\r\n}\rrule b {\r condition:\r  $x\r}\n\nrule c { condition:\n \"\xc3\xa9\xf0\x9f\x98\x80\" == bar }".to_vec());
    // compile time proportional to the value of a fixed jump: no answer within the time limit
    add("corpus", b"rule r { strings: $a = { 01 [4294967295] 02 } condition: $a }".to_vec());
    // invalid byte as the last byte of the source
    add("corpus", b"rule r { condition: true } \xff".to_vec());
    add("corpus", b"rule r { condition: true }\xe2\x82".to_vec());
    add("corpus", b"rule r { strings: $a = \"foo\" xor(1KB) condition: $a }".to_vec());
    add("corpus", b"rule r { strings: $a = \"foo\" xor(0-1MB) condition: $a }".to_vec());
    add("corpus", "rule r { strings: $a = \u{201c}aaaaaaaaaaa\u{e9}bbbbbbbbbbbbb\u{201d} condition: $a }".as_bytes().to_vec());
    add("corpus", b"rule r { strings: $a = { 61 62\n 63 64 } condition: $a }".to_vec());
    add("corpus", b"rule r { strings: $a = { 01 [1]\n [2] 02 } condition: $a }".to_vec());
    // DESIGN.md section 7 #14: a rule nested deeper than MAX_AST_DEPTH between two good rules
    add("depth_limit", format!("rule a{{condition:true}} rule deep{{condition: {}true}} rule b{{condition:true}}", "not ".repeat(2999)).into_bytes());
    v
}

/// a syntax error ON a long token (> 15 bytes) that holds 2-, 3- or 4-byte characters at a varied byte offset
fn gen_long_token_error(rng: &mut Rng) -> Vec<u8> {
    let ch = *rng.pick(&["\u{e9}", "\u{20ac}", "\u{1f600}", "\u{4e2d}", "\u{7ff}", "\u{10ffff}"]);
    // half of the time the multi-byte run lies across byte offsets 10..18 of the token (15 is where messages truncate)
    let before = if rng.chance(1, 2) { 8 + rng.below(10) as usize } else { rng.below(30) as usize };
    let after = rng.below(20) as usize;
    let reps = 1 + rng.below(8) as usize;
    let body = format!("{}{}{}", "a".repeat(before), ch.repeat(reps), "b".repeat(after));
    let tok = match rng.below(7) {
        0 => format!("\"{}\"", body),                       // string literal where it is a syntax error
        1 => format!("/{}x/", body),                        // regexp
        2 => format!("\u{201c}{}\u{201d}", body),           // typographic quotes: UNKNOWN token
        3 => format!("\"{}", body),                         // unclosed string
        4 => format!("/*{}", body),                         // unclosed comment
        5 => format!("{}{}", ch, body),                     // unknown token starting with a non-ASCII char
        _ => format!("'{}'", body),
    };
    let s = match rng.below(9) {
        0 => format!("rule r {{ strings: $a = {} condition: $a }}", tok),
        1 => format!("rule r {{ condition: true {} }}", tok),
        2 => format!("rule {} {{ condition: true }}", tok),
        3 => format!("rule r {{ meta: a = {} condition: true }}", tok),
        4 => format!("{} rule r {{ condition: true }}", tok),
        5 => format!("rule r {{ condition: {} }}", tok),
        6 => format!("rule r : {} {{ condition: true }}", tok),
        7 => format!("import {} rule r {{ condition: true }}", tok),
        _ => format!("rule r {{ strings: $a = \"x\" {} condition: $a }}", tok),
    };
    s.into_bytes()
}

/// out-of-range and KB/MB-suffixed integer literals in every literal position of the grammar
fn gen_int_literal_position(rng: &mut Rng) -> Vec<u8> {
    let lit = rng.pick(&["0", "1", "255", "256", "1KB", "1MB", "2KB", "300", "65536", "4294967295", "4294967296", "0x100", "0xFFFFFFFF",
        "0x1_0000_0000", "9223372036854775807", "9223372036854775808", "18446744073709551616", "8388608MB", "9007199254740993KB",
        "0o400", "1_0", "1__KB", "00", "0x7fffffffffffffff", "-1", "- 1"]).to_string();
    let lit2 = rng.pick(&["1", "0", "1KB", "255", "256", "4294967295", "1MB"]).to_string();
    // hex jumps: compiling `[N]` takes time proportional to N (about 13 s for 1e8 in the dev profile; the
    // corpus holds one such input), so the generated jump bounds stay below 1e6
    let jl = rng.pick(&["0", "1", "2", "200", "201", "255", "256", "65535", "65536", "999999", "1KB", "1MB", "0x10", "0x1_0", "0o17", "00", "-1"]).to_string();
    let jl2 = rng.pick(&["0", "1", "3", "1KB", "300"]).to_string();
    let s = match rng.below(20) {
        0 => format!("rule r {{ strings: $a = \"foo\" xor({}) condition: $a }}", lit),
        1 => format!("rule r {{ strings: $a = \"foo\" xor({}-{}) condition: $a }}", lit2, lit),
        2 => format!("rule r {{ strings: $a = \"foo\" xor({}-{}) condition: $a }}", lit, lit2),
        3 => format!("rule r {{ strings: $a = {{ 01 [{}] 02 }} condition: $a }}", jl),
        4 => format!("rule r {{ strings: $a = {{ 01 [{}-{}] 02 }} condition: $a }}", jl2, jl),
        5 => format!("rule r {{ strings: $a = {{ 01 [{}-] 02 }} condition: $a }}", jl),
        6 => format!("rule r {{ strings: $a = {{ 01 [{}][{}] 02 ( 03 [{}-{}] 04 | 05 ) }} condition: $a }}", jl, jl2, jl2, jl),
        7 => format!("rule r {{ strings: $a = \"foo\" base64(\"{}\") condition: $a }}", "A".repeat(rng.below(70) as usize)),
        8 => format!("rule r {{ condition: filesize == {} }}", lit),
        9 => format!("rule r {{ condition: for any i in (0..{}) : (i == {}) }}", lit, lit2),
        10 => format!("rule r {{ condition: for any i in ({}..{}) : (true) }}", lit, lit2),
        11 => format!("rule r {{ strings: $a = \"x\" condition: {}% of them }}", lit),
        12 => format!("rule r {{ strings: $a = \"x\" condition: {} of them }}", lit),
        13 => format!("rule r {{ strings: $a = \"x\" condition: #a in (0..{}) > {} }}", lit, lit2),
        14 => format!("rule r {{ strings: $a = \"x\" condition: @a[{}] == 0 or !a[{}] == 0 }}", lit, lit2),
        15 => format!("rule r {{ strings: $a = \"x\" condition: $a at {} or $a in ({}..{}) }}", lit, lit2, lit),
        16 => format!("rule r {{ condition: uint8({}) == 0 or 1 << {} == 0 }}", lit, lit2),
        17 => format!("rule r {{ meta: m = {} condition: true }}", lit),
        18 => format!("rule r {{ condition: -({}) == 0 or -(-{} - 1) == 0 or {} \\ {} == 1 or {} % {} == 1 }}", lit, lit, lit, lit2, lit, lit2),
        _ => format!("rule r {{ condition: for any i in ({}, {}) : (i * {} + {} - {} > 0) }}", lit, lit2, lit, lit, lit2),
    };
    s.into_bytes()
}

/// warnings whose suggested fix spans more than one line
fn gen_multiline_fix(rng: &mut Rng) -> Vec<u8> {
    let nl = *rng.pick(&["\n", "\r\n", "\n\n", " \n ", "\n\t", " // c\n", " /* c\n */ "]);
    let s = match rng.below(8) {
        0 => format!("rule r {{ strings: $a = {{ 61 62{}63 64 }} condition: $a }}", nl),
        1 => format!("rule r {{ strings: $a = {{{}61 62 63 64 65{}}} condition: $a }}", nl, nl),
        2 => format!("rule r {{ strings: $a = {{ 01 [1]{}[2] 02 }} condition: $a }}", nl),
        3 => format!("rule r {{ strings: $a = {{ 01 [1-2]{}[3-4]{}[5] 02 }} condition: $a }}", nl, nl),
        4 => format!("import \"pe\"{}import \"pe\" rule r {{ condition:{}true }}", nl, nl),
        5 => format!("rule r {{ strings: $a = \"abc\" condition: not{}defined{}$a or 0 of{}them or true == 1 }}", nl, nl, nl),
        6 => format!("rule r {{ strings: $a = {{ 4D 5A{}}} $b = {{ 30{}31 32 33 }} condition: any{}of them at 0 }}", nl, nl, nl),
        _ => format!("rule r {{ condition: pe.is_pe{}=={}1 and 1{}=={}true }}", nl, nl, nl, nl),
    };
    s.into_bytes()
}

/// regular expressions that relaxed_re_syntax repairs (literal `{` / `}`, unknown escapes) combined with
/// a genuine error later in the same regexp, multi-byte characters around
fn gen_regexp_error(rng: &mut Rng) -> Vec<u8> {
    const PLAIN: &[&str] = &["a", "ab", "\\d", ".", "\u{e9}", "\u{20ac}", "\u{1f600}", "x+", "(y|z)", "[0-9]", "\\x41", "b?", " "];
    const FIXABLE: &[&str] = &["{", "}", "a{", "{}", "{x}", "a{,}", "{ }", "{1,x}", "\\g", "\\_", "\\<", "\\%", "\\\u{e9}", "{\u{1f600}}", "}{"];
    const BROKEN: &[&str] = &["(", ")", "[z-a]", "a{3,1}", "[", "*", "a**", "(?P<n", "\\xZZ", "[[:foo:]]", "(?z)", "x{99999}", "\\", "(a", "a)", "[a", "+", "\\p{Foo}", "(?<n>a)(?<n>b)"];
    let mut re = String::new();
    let nfix = rng.below(4);
    for _ in 0..rng.below(3) { re.push_str(*rng.pick(PLAIN)); }
    for _ in 0..nfix { re.push_str(*rng.pick(FIXABLE)); for _ in 0..rng.below(2) { re.push_str(*rng.pick(PLAIN)); } }
    // most of the time the genuine error is the last thing of the regexp, so that a location that is off
    // by a few bytes leaves the literal
    let error_last = rng.chance(3, 5);
    if error_last || rng.chance(1, 2) { re.push_str(*rng.pick(BROKEN)); }
    if !error_last {
        for _ in 0..rng.below(3) { re.push_str(*rng.pick(PLAIN)); }
        if rng.chance(1, 4) { re.push_str(*rng.pick(FIXABLE)); }
    }
    if re.is_empty() || re.starts_with('*') { re.insert(0, 'q'); }
    let mods = if error_last { "" } else { *rng.pick(&["", "i", "s", "is", ""]) };
    let s = match rng.below(5) {
        0 | 1 => format!("rule r {{ strings: $a = /{}/{} condition: $a }}", re, mods),
        2 => format!("rule r {{ strings: $a = /{}/{} wide $b = /ok{{2}}/ condition: $a or $b }}", re, mods),
        3 => format!("rule r {{ condition: \"x\" matches /{}/{} }}", re, mods),
        _ => format!("rule r {{ strings: $a = /q{{/ $b = /{}/{} condition: all of them }}", re, mods),
    };
    s.into_bytes()
}

/// small rules that together use every production of the grammar; the single-token sweep deletes or
/// duplicates each of their tokens in turn
const SWEEP_RULES: &[&str] = &[
    "import \"pe\" private global rule s0 : t1 t2 { meta: a = 1 b = \"s\" c = true d = -2 e = 1.5 condition: true }",
    "rule s1 { strings: $a = \"x\" ascii wide nocase fullword private $b = \"y\" xor(1-5) $c = \"z\" base64(\"ABCDEFGHIJKLMNOPQRSTUVWXYZabcdefghijklmnopqrstuvwxyz0123456789+/\") condition: $a or $b or $c }",
    "rule s2 { strings: $a = /ab+c/is $b = { 01 ?? [2-4] ( 03 | 04 [1] 05 ) ~06 [2-] 07 } condition: $a at 10 or $b in (0..100) }",
    "rule s3 { condition: for any i in (1, 2, 3) : ( i == 1 ) }",
    "rule s4 { condition: for all i, j in (0..3) : ( i + j < 10 ) }",
    "rule s5 { strings: $a = \"x\" $b = \"y\" condition: for 2 of ($a, $b*) : ( $ at 0 ) and 1 of (true, false, 1 == 1) }",
    "rule s6 { strings: $a = \"x\" condition: any of them in (0..10) or 50% of ($a*) or none of ($a) at 5 }",
    "rule s7 { condition: with x = 1, y = 2 + 3 : ( x < y ) }",
    "rule s8 { strings: $a = \"x\" condition: #a in (0..9) > 1 and @a[1] < 5 and !a[2] == 1 and #a == 2 }",
    "rule s9 { condition: pe.sections[0].name == \"x\" and f(1, \"s\", /r/) and a.b.c(2)[3] != 0 }",
    "rule s10 { condition: not defined (1 + 2 * 3 \\ 4 % 5 - -6) or ~1 & 2 | 3 ^ 4 << 1 >> 2 == 0 }",
    "rule s11 { condition: \"a\" contains \"b\" or \"a\" icontains \"b\" or \"a\" startswith \"b\" or \"a\" iendswith \"b\" or \"a\" iequals \"b\" or \"a\" matches /b/ }",
    "rule s12 { condition: filesize > 1KB and entrypoint >= 0x10 and 1.5 <= 2.0 and for any s in pe.sections : ( s.size > 0 ) }",
    "include \"x.yar\" rule s13 { condition: for any k, v in some_map : ( k == \"a\" and v == 1 ) }",
    "rule s14 { condition: for 1 i in (1, 2) : ( for any j in (i, 3) : ( j == 3 ) ) and (true or (false and (1 == 1))) }",
];

fn token_sweep() -> Vec<(String, Vec<u8>)> {
    let mut out = vec![];
    for r in SWEEP_RULES {
        let src = r.as_bytes();
        let spans = token_spans(src);
        for (i, (a, b)) in spans.iter().enumerate() {
            if src[*a..*b].iter().all(|c| c.is_ascii_whitespace()) { continue; }
            // delete token i
            let mut d = src[..*a].to_vec(); d.extend_from_slice(&src[*b..]);
            out.push(("sweep_delete".to_string(), d));
            // duplicate token i (separated by a space so that it stays a token of its own)
            let mut u = src[..*b].to_vec(); u.push(b' '); u.extend_from_slice(&src[*a..*b]); u.extend_from_slice(&src[*b..]);
            out.push(("sweep_duplicate".to_string(), u));
            let _ = i;
        }
    }
    out
}

/// several rules of mixed fate in one source, in every order: fine, compile error, syntax error, ignored
/// (depends on the ignored/unknown module), too deep for the AST
fn gen_mixed_fate(rng: &mut Rng) -> Vec<u8> {
    let k = 2 + rng.below(4) as usize;
    let mut s = String::new();
    if rng.chance(1, 3) { s.push_str("import \"pe\"\n"); }
    for i in 0..k {
        let body = match rng.below(9) {
            0 | 1 => format!("rule m{} {{ condition: true }}", i),
            2 => format!("rule m{} {{ strings: $a = \"x\" condition: $a }}", i),
            3 => format!("rule m{} {{ condition: {} }}", i, rng.pick(&["undefined_ident", "$nope", "1 + \"s\" == 2", "m99", "uint8(\"x\")"])),
            4 => format!("rule m{} {{ strings: $a = \"x\" condition: true }}", i),                       // unused pattern
            5 => format!("rule m{} {{ condition: {} }}", i, rng.pick(&["true true", "( true", "1 +", "for any i in (1, 2, ) : ( true )", "and", "$a at", "1 of (true, )"])),
            6 => format!("rule m{} {{ {} condition: true }}", i, rng.pick(&["strings: $a = condition", "meta: a = ", "strings: $a = { zz }", "meta: = 1"])),
            7 => format!("rule m{} {{ condition: pe.is_pe and pe.number_of_sections > {} }}", i, rng.below(9)),
            _ => format!("rule m{} {{ condition: {}true{} }}", i, "(".repeat(800), ")".repeat(800)),
        };
        s.push_str(&body);
        s.push_str(*rng.pick(&[" ", "\n", "\n\n", "\r\n", "\t", " // c\n", ""]));
    }
    s.into_bytes()
}

/// line endings: rewrite the \n of a source as CRLF / lone CR / a mix, and break some lines
fn vary_newlines(rng: &mut Rng, src: &[u8]) -> Vec<u8> {
    let mode = rng.below(4);
    let mut out = Vec::with_capacity(src.len() + 16);
    let mut in_str = false;
    for (i, b) in src.iter().enumerate() {
        if *b == b'"' && (i == 0 || src[i - 1] != b'\\') { in_str = !in_str; }
        let nl: &[u8] = match mode { 0 => b"\r\n", 1 => b"\r", 2 => *rng.pick(&[&b"\n"[..], b"\r\n", b"\r", b"\r\r\n", b"\n\r"]), _ => b"\r\n" };
        if *b == b'\n' { out.extend_from_slice(nl); }
        else if *b == b' ' && !in_str && rng.chance(1, 6) { out.extend_from_slice(nl); }
        else { out.push(*b); }
    }
    out
}

const INC_FILES: &[(&str, &[u8])] = &[
    ("ok.yar", b"rule inc_ok { condition: true }\n"),
    ("ok2.yar", b"// second file\r\nrule inc_ok2 {\r\n strings: $a = \"x\"\r\n condition: $a\r\n}\r\n"),
    ("sem.yar", b"rule inc_before { condition: true }\nrule inc_sem {\n  condition:\n    undefined_in_include\n}\n"),
    ("syn.yar", b"rule inc_syn {\n condition: true true\n}\nrule inc_after { condition: true }"),
    ("warn.yar", b"\n\nrule inc_warn { strings: $a = { 00 00 00 00 } condition: $a and 1 == 1 }"),
    ("bad_utf8.yar", b"rule inc_bad { condition: \xff }"),
    ("empty.yar", b""),
    ("nest.yar", b"include \"ok.yar\"\nrule inc_nest { condition: inc_ok }\n"),
    ("nest_err.yar", b"include \"sem.yar\"\nrule inc_nest2 { condition: also_undefined }\n"),
    ("self.yar", b"rule inc_self { condition: true }\ninclude \"self.yar\"\n"),
    ("loop_a.yar", b"include \"loop_b.yar\" rule la { condition: true }"),
    ("loop_b.yar", b"include \"loop_a.yar\" rule lb { condition: true }"),
    ("long.yar", b"/* a longer file than the including one, so that a span of this file is beyond the end of the other\n\n\n\n\n\n\n\n\n\n\n\n\n\n\n\n\n\n\n\n\n\n\n\n\n\n\n\n\n\n\n\n\n\n\n\n\n\n\n\n */ rule inc_long { condition: late_undefined_identifier_far_away }"),
];

fn inc_all() -> IncSet { IncSet { files: INC_FILES.iter().map(|(n, c)| (n.to_string(), c.to_vec())).collect(), weird_dir: false } }

/// an including source: rules of mixed fate before and after `include` statements
fn gen_include_case(rng: &mut Rng) -> (Vec<u8>, IncSet) {
    let mut s = String::new();
    let k = 2 + rng.below(5);
    for i in 0..k {
        if rng.chance(1, 2) {
            s.push_str(&format!("include \"{}\"", rng.pick(&["ok.yar", "ok2.yar", "sem.yar", "syn.yar", "warn.yar", "bad_utf8.yar", "empty.yar", "nest.yar", "nest_err.yar", "self.yar", "loop_a.yar", "missing.yar", "long.yar", "sem.yar", "syn.yar"])));
        } else {
            s.push_str(&match rng.below(6) {
                0 | 1 => format!("rule main{} {{ condition: true }}", i),
                2 => format!("rule main{} {{ condition: main_undefined_{} }}", i, i),
                3 => format!("rule main{} {{ condition: true true }}", i),
                4 => format!("rule main{} {{ strings: $a = {{ 00 00 00 00 }} condition: $a and 2 == 2 }}", i),
                _ => format!("rule main{} {{ condition: inc_ok or inc_before }}", i),
            });
        }
        s.push_str(*rng.pick(&["\n", " ", "\r\n", "\n\n"]));
    }
    (s.into_bytes(), inc_all())
}

fn include_corpus() -> Vec<(Vec<u8>, IncSet)> {
    let mut v: Vec<(Vec<u8>, IncSet)> = vec![];
    for src in [&b"include \"sem.yar\"\nrule after { condition: undefined_after_include }\n"[..],
                b"rule before { condition: undefined_before }\ninclude \"syn.yar\"\n\n\n\nrule after { strings: $a = { 00 00 00 00 } condition: $a and undefined_after }",
                b"include \"long.yar\" rule short { condition: x }",
                b"include \"nest_err.yar\"\ninclude \"ok2.yar\"\nrule m { condition: inc_ok2 and nope }",
                b"include \"self.yar\"", b"include \"loop_a.yar\" rule m { condition: la and lb }", b"include \"missing.yar\" rule m { condition: true }",
                b"include \"bad_utf8.yar\" rule m { condition: nope }", b"include \"empty.yar\"include \"ok.yar\" rule m { condition: inc_ok }"] {
        v.push((src.to_vec(), inc_all()));
    }
    // the include directory's name is not valid UTF-8
    v.push((b"include \"ok.yar\" rule m { condition: inc_ok }".to_vec(), IncSet { files: vec![("ok.yar".to_string(), b"rule inc_ok { condition: true }".to_vec())], weird_dir: true }));
    v
}

/// every pattern modifier and pairs of modifiers on text patterns of 0..4 bytes, with arguments at their
/// boundaries; one-byte hex patterns; regexps that match the empty string
fn modifier_matrix(rng: &mut Rng, n: usize) -> Vec<Vec<u8>> {
    const MODS: &[&str] = &["ascii", "wide", "nocase", "fullword", "private", "xor", "xor(0)", "xor(255)", "xor(256)", "xor(5-3)", "xor(0-255)", "xor(1-1)",
        "base64", "base64wide",
        "base64(\"ABCDEFGHIJKLMNOPQRSTUVWXYZabcdefghijklmnopqrstuvwxyz0123456789+\")",
        "base64(\"ABCDEFGHIJKLMNOPQRSTUVWXYZabcdefghijklmnopqrstuvwxyz0123456789+/\")",
        "base64(\"ABCDEFGHIJKLMNOPQRSTUVWXYZabcdefghijklmnopqrstuvwxyz0123456789+/=\")",
        "base64(\"AACDEFGHIJKLMNOPQRSTUVWXYZabcdefghijklmnopqrstuvwxyz0123456789+/\")",
        "base64wide(\"!@#$%^&*(){}[].,|ABCDEFGHIJ\\x09LMNOPQRSTUVWXYZabcdefghijklmnopqrstu\")", "base64(\"\")"];
    const TEXTS: &[&str] = &["", "a", "ab", "abc", "abcd", "\\x00", "\\x00\\x01", "\u{e9}", " "];
    let mut all: Vec<String> = vec![];
    for t in TEXTS { for m in MODS { all.push(format!("rule r {{ strings: $a = \"{}\" {} condition: $a }}", t, m)); } }
    for t in TEXTS { for m1 in ["base64", "base64wide", "xor", "fullword", "wide"] { for m2 in MODS {
        all.push(format!("rule r {{ strings: $a = \"{}\" {} {} condition: $a }}", t, m1, m2)); } } }
    for h in ["01", "??", "~01", "0?", "( 01 | 02 )", "01 [0] 02", "[1] 01", "01 [1]", ""] { for m in ["", "private", "wide", "xor"] {
        all.push(format!("rule r {{ strings: $a = {{ {} }} {} condition: $a }}", h, m)); } }
    for re in ["a*", "(a|)", "^$", "a?", "()", "a{0}", "\\b", ".*", "(a*)*", "[^\\x00-\\xff]"] { for m in ["", "wide", "nocase", "fullword", "ascii wide", "base64", "xor"] {
        all.push(format!("rule r {{ strings: $a = /{}/ {} condition: $a }}", re, m)); } }
    // a deterministic rotation through the whole matrix: every run covers a different window, every entry is small
    let start = rng.below(all.len() as u64) as usize;
    // the one- and two-byte base64 / base64wide patterns are always there
    let mut out: Vec<Vec<u8>> = all.iter().filter(|s| (s.contains("\"a\" base64") || s.contains("\"ab\" base64") || s.contains("\"\" base64")) && !s.contains("(")).map(|s| s.clone().into_bytes()).collect();
    for k in 0..n { out.push(all[(start + k * 7) % all.len()].clone().into_bytes()); }
    out
}

fn main() { let args: Vec<String> = std::env::args().skip(1).collect(); std::process::exit(run(&args)); }

fn run(args: &[String]) -> i32 {
    if let Some(f) = arg_val(args, "--child") { return child(&f, arg_u64(args, "--from", 0) as usize); }
    quiet_panics();
    let out = arg_val(args, "--out").unwrap_or_else(|| "/verif/.cache/cases/C09".into());
    let dir = Path::new(&out);
    std::fs::create_dir_all(dir).unwrap();
    if let Some(hx) = arg_val(args, "--replay-hex") {
        let src = unhex(&hx);
        let cfg = arg_u64(args, "--cfg", 0) as u8;
        println!("compiler configuration: {} ({})", cfg, cfg_name(cfg));
        let inc = arg_val(args, "--inc").and_then(|x| inc_decode(&x));
        if let Some(i) = &inc { for (n, c) in &i.files { println!("include file {:?}: {:?}", n, String::from_utf8_lossy(c)); } }
        let o = &run_in_children(&[(cfg, src.clone(), inc)], dir)[0];
        println!("source ({} bytes): {:?}", src.len(), String::from_utf8_lossy(&src[..src.len().min(300)]));
        println!("crashed={} timed_out={} {}", o.crashed, o.timed_out, obs_json(o));
        let bad = spec_violations(o);
        if bad.is_empty() { println!("property holds on this input"); return 0; }
        for b in bad { println!("VIOLATED: {b}"); }
        return 1;
    }
    let seed = arg_u64(args, "--seed", 1);
    let n = arg_u64(args, "--n", 400) as usize;
    let max_nest = arg_u64(args, "--max-nest", 200);
    let mut rng = Rng::new(seed);
    // (stream, source, compiler configuration)
    let mut cases: Vec<(String, Vec<u8>, u8, Option<IncSet>)> = corpus(n >= 4000).into_iter().map(|(a, b)| (a, b, 0u8, None)).collect();
    // inputs that need a non-default configuration
    for (src, cfg) in [(&b"rule r { strings: $a = /a{}b{}(/ condition: $a }"[..], 1u8), (b"rule r { strings: $a = /a{}b(/ condition: $a }", 1),
                       (b"rule r { strings: $a = /\\g{x}[z-a]/ condition: $a }", 1),
                       // fixed by 776fc1b2 (relaxed_re_syntax): endless repair loop on an escaped `{` before a misplaced `+`
                       (b"rule t { strings: $a = /\\{(+/ condition: $a }", 1), (b"rule t { strings: $a = /a\\{b{(*\\{/ condition: $a }", 1),
                       // fixed by 776fc1b2 (relaxed_re_syntax): slice in the middle of a multi-byte character; no `{` to escape
                       ("rule r { strings: $a = /(y|z)a{\u{e9}\\d/s condition: $a }".as_bytes(), 1), (b"rule r { strings: $a = /+ \\x41/i condition: $a }", 1),
                       // fixed by a11c27fd (relaxed_re_syntax): the span compensation ignored WHERE the repairs were made
                       ("rule r { strings: $a = /\\%\u{20ac}(a{}/ condition: $a }".as_bytes(), 1), (b"rule r { strings: $a = { 00 00 00 00 } condition: $a }", 2),
                       (b"rule Bad : t9 { condition: true }", 3), (b"import \"pe\" import \"math\" rule r { condition: pe.is_pe and math.abs(1) == 1 } rule q { condition: r }", 4),
                       (b"rule r { strings: $a = \"abc\" condition: $a and for all i in (0..filesize) : ( i > 0 ) }", 2)] {
        cases.push(("corpus_cfg".to_string(), src.to_vec(), cfg, None));
    }
    // every token of a set of small rules that covers every production: deleted, duplicated
    for (stream, src) in token_sweep() { cases.push((stream, src, 0, None)); }
    // includes: files of every fate, rules of mixed fate before and after the include statements
    for (src, inc) in include_corpus() { cases.push(("include".to_string(), src, 0, Some(inc))); }
    // every pattern modifier (and pairs) on patterns of 0..4 bytes, arguments at their boundaries
    for src in modifier_matrix(&mut rng, if n >= 4000 { 1200 } else { 260 }) { cases.push(("modifier_matrix".to_string(), src, 0, None)); }
    if n >= 400 {
        // invalid UTF-8 at EVERY position of one small valid rule, for three kinds of bad sequence
        let base = b"rule r {condition: \"\xc3\xa9\" == \"e\"}".to_vec();
        for bad in [&[0xffu8][..], &[0xe2, 0x82], &[0xf0, 0x9f, 0x98]] {
            for p in 0..=base.len() {
                let mut v = base.clone();
                for (k, b) in bad.iter().enumerate() { v.insert(p + k, *b); }
                cases.push(("invalid_utf8_sweep".to_string(), v, 0, None));
            }
        }
    }
    let fixed = cases.len();
    let mut generated = 0usize;
    while generated < n {
        generated += 1;
        let c = match rng.below(34) {
            19..=24 => ("regexp_error".to_string(), gen_regexp_error(&mut rng)),
            25..=29 => ("mixed_fate".to_string(), gen_mixed_fate(&mut rng)),
            30..=33 => ("include".to_string(), vec![]),
            12 | 13 => ("long_token_error".to_string(), gen_long_token_error(&mut rng)),
            14 | 15 => ("int_literal_position".to_string(), gen_int_literal_position(&mut rng)),
            16 | 18 => ("multiline_fix".to_string(), gen_multiline_fix(&mut rng)),
            17 => { // invalid bytes at the very end of the source
                let mut v = format!("rule r{} {{ condition: true }}{}", rng.below(9), rng.pick(&["", " ", "\n"])).into_bytes();
                v.extend_from_slice(*rng.pick(&[&[0xffu8][..], &[0xc3], &[0xe2, 0x82], &[0xf0, 0x9f, 0x98], &[0x80], &[0xe2, 0x28], &[0xed, 0xa0]]));
                ("invalid_utf8_at_end".to_string(), v)
            }
            0 => { // invalid UTF-8 at every position of a small valid rule: pick one position
                let mut v = format!("rule r{} {{ condition: {} }}", rng.below(9), gen_bool(&mut rng, 1)).into_bytes();
                let p = rng.below(v.len() as u64 + 1) as usize;
                let bad: &[u8] = *rng.pick(&[&[0xffu8][..], &[0xc3], &[0xe2, 0x82], &[0xf0, 0x9f, 0x98], &[0x80], &[0xed, 0xa0, 0x80], &[0xc0, 0xaf], &[0xf4, 0x90]]);
                for (k, b) in bad.iter().enumerate() { v.insert(p + k, *b); }
                ("invalid_utf8_position".to_string(), v)
            }
            1 => ("deep".to_string(), gen_deep(&mut rng, max_nest).into_bytes()),
            2 => { // semantically wrong but syntactically valid
                let s = format!("rule r {{ strings: $a = \"x\" condition: {} }}", rng.pick(&["$b", "$a and undefined_ident", "1 + \"s\" == 2", "$a at \"x\"", "pe.nope", "for all i in (1..\"a\") : (true)", "filesize matches /[/", "#a == \"x\"", "-(true)", "1 of ($c*)", "$a in (10..1)", "uint8(\"s\")"]));
                ("semantic".to_string(), s.into_bytes())
            }
            3 => { // huge literals
                let s = format!("rule r {{ condition: {} }}", rng.pick(&["99999999999999999999999 > 1", "0xffffffffffffffffffff == 1", "1.7976931348623157e999 > 1", "9223372036854775807KB > 1", "1 << 9999 == 0", "-9223372036854775808 < 0", "filesize == 0o7777777777777777777777777"]));
                ("huge_literal".to_string(), s.into_bytes())
            }
            _ => gen_source(&mut rng),
        };
        // a third of the sources get other line endings (CRLF, lone CR, mixed) and more line breaks
        let c = if rng.chance(1, 3) && std::str::from_utf8(&c.1).is_ok() { (c.0, vary_newlines(&mut rng, &c.1)) } else { c };
        // every generated source under the default configuration and under two of the others (rotating);
        // regexps always also with relaxed_re_syntax
        let (k, m) = (generated, (N_CFG - 1) as usize);
        let mut cfgs = vec![0u8, (1 + k % m) as u8, (1 + (k / m + k + 2) % m) as u8];
        if c.0 == "regexp_error" { cfgs.push(1); }
        if c.0 == "mixed_fate" { cfgs.push(4); }
        cfgs.sort(); cfgs.dedup();
        if c.0 == "include" { let (src, inc) = gen_include_case(&mut rng); cases.push(("include".to_string(), src, 0, Some(inc))); continue; }
        for cfg in cfgs { cases.push((c.0.clone(), c.1.clone(), cfg, None)); }
    }
    let _ = fixed;
    let srcs: Vec<Job> = cases.iter().map(|c| (c.2, c.1.clone(), c.3.clone())).collect();
    let t0 = std::time::Instant::now();
    let obs = run_in_children(&srcs, dir);
    let elapsed = t0.elapsed().as_secs_f64();

    let prelude = "From Coq Require Import List NArith ZArith Bool.\nFrom YV Require Import Compiler.CompilerCheck.\nImport ListNotations.\nLocal Open Scope N_scope.\n";
    let mut shards = Shards::new(dir, prelude, 150);
    let mut stats = Stats::default();
    let mut distinct = std::collections::HashSet::new();
    let mut samples = vec![];
    for ((stream, src, cfg, inc), o) in cases.iter().zip(obs.iter()) {
        // intern rule names of this case
        let mut names: Vec<String> = vec![];
        let mut id = |s: &String| -> String { let i = match names.iter().position(|x| x == s) { Some(i) => i, None => { names.push(s.clone()); names.len() - 1 } }; i.to_string() };
        let ids = |v: &Vec<String>, id: &mut dyn FnMut(&String) -> String| format!("[{}]", v.iter().map(|s| id(s)).collect::<Vec<_>>().join("; "));
        let declared = ids(&o.declared, &mut id); let built = ids(&o.built, &mut id); let ignored = ids(&o.ignored, &mut id);
        let ast_rules = match &o.ast_rules { Some(v) => format!("(Some {})", ids(v, &mut id)), None => "None".into() };
        let utf8 = match &o.utf8_err {
            Some((v, el)) if src.len() <= 200 => format!("(Some ({}, ({}, {}), {}))", coq_list(src, |b| b.to_string()), v,
                match el { Some(n) => format!("Some {}", n), None => "None".into() },
                match &o.e032_span { Some((a, b)) => format!("Some ({}, {})", a, b), None => "None".into() }),
            _ => "None".into(),
        };
        let case = format!("mkCase {} {} {} {}%nat {}%nat {} {} {} {} {} {} {} {} {} {}%nat {} {} {} {} {}",
            coq_bool(o.crashed || o.timed_out), coq_bool(o.panicked.is_some()), coq_bool(o.add_ok), o.nerr, o.nwarn, coq_bool(o.render_ok), coq_bool(o.build_ok),
            coq_list(&o.labels, |(a, b, n, x, y)| format!("({}, {}, {}, {}, {})", a, b, n, coq_bool(*x), coq_bool(*y))), o.rendered_len,
            declared, built, ignored, ast_rules, utf8, o.re_outside,
            coq_list(&o.linecol, |(a, b)| format!("({}, {})", coq_bool(*a), coq_bool(*b))), coq_bool(o.head_ok),
            coq_list(&o.decl_spans, |(a, b)| format!("({}, {})", a, b)), coq_list(&o.err_labels, |(a, b)| format!("({}, {})", a, b)), coq_bool(o.twin_mismatch));
        let shown = if src.len() > 400 { format!("{}...({} bytes)", String::from_utf8_lossy(&src[..200]), src.len()) } else { String::from_utf8_lossy(src).to_string() };
        let replay = format!("{{\"stream\":{},\"includes\":{},\"cfg\":{},\"cfg_name\":\"{}\",\"source_hex\":\"{}\",\"source_lossy\":{},\"crashed\":{},\"timed_out\":{},\"obs\":{},\"violations\":[{}]}}",
            json_str(stream), match inc { Some(i) => json_str(&inc_encode(i)), None => "null".into() }, cfg, cfg_name(*cfg), if src.len() <= 20000 { hex(src) } else { String::new() }, json_str(&shown), o.crashed, o.timed_out, obs_json(o),
            spec_violations(o).iter().map(|s| json_str(s)).collect::<Vec<_>>().join(","));
        stats.inc(&format!("stream_{}", stream));
        stats.inc(&format!("cfg_{}", cfg_name(*cfg)));
        if o.flaky { stats.inc("crash_or_timeout_not_reproduced"); }
        if o.twin_mismatch { stats.inc("base64_twin_mismatch"); }
        if o.labels.iter().any(|l| l.2 != o.rendered_len) { stats.inc("label_in_included_file"); }
        if o.crashed { stats.inc("child_crashed"); } if o.timed_out { stats.inc("child_timed_out"); } if o.panicked.is_some() { stats.inc("panicked"); }
        if o.add_ok { stats.inc("accepted"); } else { stats.inc("rejected"); }
        if o.utf8_err.is_some() { stats.inc("invalid_utf8"); }
        if !o.ignored.is_empty() { stats.inc("has_ignored_rule"); }
        if o.declared.len() >= 2 { stats.inc("two_or_more_declared"); }
        if o.nwarn > 0 { stats.inc("has_warning"); }
        stats.inc(&format!("depth_{}", match o.max_depth { 0..=9 => "0-9", 10..=49 => "10-49", 50..=199 => "50-199", 200..=999 => "200-999", _ => "1000+" }));
        for c in &o.codes { stats.inc(&format!("code_{}", c)); }
        for c in &o.wcodes { stats.inc(&format!("warn_{}", c)); }
        if o.multiline_fix { stats.inc("fix_spans_several_lines"); }
        if !o.linecol.is_empty() && src.contains(&b'\r') { stats.inc("diagnostics_in_source_with_cr"); }
        if o.declared.len() >= 2 && o.nerr > 0 && !o.built.is_empty() { stats.inc("mixed_fate_observed"); }
        if src.len() >= 10 { distinct.insert(src.clone()); }
        if samples.len() < 3 && o.nerr > 0 && src.len() < 300 { samples.push(replay.clone()); }
        shards.push(case, replay);
    }
    shards.flush();
    println!("{{\"evaluations\":{},\"distinct_nontrivial\":{},\"shards\":{},\"child_seconds\":{:.1},\"distribution\":{},\"samples\":[{}]}}",
        shards.total, distinct.len(), shards.shard_count, elapsed, stats.json(), samples.join(","));
    0
}

/// the property on one observation (the same conditions as spec_case in Coq), for replay and classify
fn spec_violations(o: &Obs) -> Vec<String> {
    let mut v = vec![];
    if o.crashed { v.push("the process died while compiling this source (stack overflow / abort)".to_string()); return v; }
    if o.timed_out { v.push("no answer within the time limit".to_string()); return v; }
    if let Some(m) = &o.panicked { v.push(format!("panic: {}", m)); return v; }
    if !o.build_ok { v.push("build() did not complete".into()); }
    if !o.render_ok { v.push("a diagnostic rendered to an empty string".into()); }
    if o.add_ok != (o.nerr == 0) { v.push(format!("add_source Ok={} but {} errors recorded", o.add_ok, o.nerr)); }
    for (a, b, n, x, y) in &o.labels {
        if a > b || *b > *n { v.push(format!("label span {a}..{b} outside the text it refers to ({} bytes)", n)); }
        else if !x || !y { v.push(format!("label span {a}..{b} not on character boundaries")); }
    }
    if o.twin_mismatch { v.push("the same source with base64 and base64wide exchanged is accepted / rejected differently".to_string()); }
    if o.re_outside > 0 { v.push(format!("{} label(s) of an `invalid regular expression` error neither lie inside a regexp literal of the source nor contain one", o.re_outside)); }
    for (i, (a, b)) in o.linecol.iter().enumerate() {
        if !a && !b { v.push(format!("label {i}: the reported line/column does not designate the start of its span (neither with lines ending at \\n nor with \\n, \\r\\n and lone \\r)")); }
    }
    // per rule: built, or ignored, or covered by an error located inside the rule
    for (i, d) in o.declared.iter().enumerate() {
        let (s, e) = o.decl_spans.get(i).copied().unwrap_or((0, usize::MAX));
        let covered = o.err_labels.iter().any(|(a, b)| *a <= e && s <= *b);
        if !o.built.contains(d) && !o.ignored.contains(d) && !covered {
            v.push(format!("rule `{}` ({}..{}) was declared but it is neither built, nor ignored, nor covered by an error located in it (built={:?} ignored={:?} errors at {:?})", d, s, e, o.built, o.ignored, o.err_labels)); }
    }
    v
}
