//! C10: the real parser's event streams, CST positions and AST spans for generated
//! sources, written as Coq cases for Parser/ParserCheck.v.
use std::collections::HashMap;
use std::panic::AssertUnwindSafe;
use std::path::Path;
#[path = "../srcgen.rs"]
mod srcgen;
use srcgen::*;
use verif_harness::util::*;
use yara_x_parser::ast::AST;
use yara_x_parser::cst::{CSTStream, Event, SyntaxKind, Utf16, Utf32, Utf8};
use yara_x_parser::Parser;

fn coq_event(e: &Event) -> String {
    match e {
        Event::Begin { kind, span } => format!("EB {} {} {}", *kind as u16, span.start(), span.end()),
        Event::End { kind, span } => format!("EE {} {} {}", *kind as u16, span.start(), span.end()),
        Event::Token { kind, span } => format!("ET {} {} {}", *kind as u16, span.start(), span.end()),
        Event::Error { span, .. } => format!("ER {} {}", span.start(), span.end()),
    }
}
fn coq_events(es: &Option<Vec<Event>>) -> String { coq_option(es, |v| coq_list(v, coq_event)) }
fn onat(x: &Option<usize>) -> String { match x { Some(v) => format!("(Some {}%nat)", v), None => "None".into() } }

struct TObs {
    class: u8, text: Vec<u32>, lo: usize, hi: usize,
    sp: [(usize, usize); 3], ep: [(usize, usize); 3],
    at_off: Option<usize>, at: [Option<usize>; 3],
}

/// tokens of the CST with the positions the implementation reports; None = no CST (invalid UTF-8)
/// `positions = false` (very long inputs): only the text round-trip of the CST is observed,
/// start_pos is quadratic in the number of tokens
fn observe_tokens(src: &[u8], positions: bool) -> Result<Option<(Vec<TObs>, bool)>, String> {
    catch(AssertUnwindSafe(|| {
        let cst = match parse_cst(src) { Ok(c) => c, Err(_) => return None };
        let root = cst.root();
        let root_text_ok = root.text().to_string().as_bytes() == src;
        if !positions { return Some((vec![], root_text_ok)); }
        let mut toks = vec![];
        let mut t = root.first_token();
        while let Some(tok) = t { t = tok.next_token(); toks.push(tok); }
        let index: HashMap<usize, usize> = toks.iter().enumerate().map(|(i, t)| (t.span().start(), i)).collect();
        let idx = |t: Option<yara_x_parser::cst::Token<yara_x_parser::cst::Immutable>>| t.map(|t| *index.get(&t.span().start()).unwrap_or(&usize::MAX));
        let mut out = vec![];
        for tok in &toks {
            let class = match tok.kind() { SyntaxKind::NEWLINE => 0, SyntaxKind::COMMENT => 1, _ => 2 };
            let s8 = tok.start_pos::<Utf8>(); let s16 = tok.start_pos::<Utf16>(); let s32 = tok.start_pos::<Utf32>();
            let e8 = tok.end_pos::<Utf8>(); let e16 = tok.end_pos::<Utf16>(); let e32 = tok.end_pos::<Utf32>();
            let sp = [(s8.line, s8.column), (s16.line, s16.column), (s32.line, s32.column)];
            let ep = [(e8.line, e8.column), (e16.line, e16.column), (e32.line, e32.column)];
            let at = [idx(root.token_at_position::<Utf8, _>(s8)), idx(root.token_at_position::<Utf16, _>(s16)),
                      idx(root.token_at_position::<Utf32, _>(s32))];
            out.push(TObs { class, text: tok.text().chars().map(|c| c as u32).collect(), lo: tok.span().start(), hi: tok.span().end(),
                sp, ep, at_off: idx(root.token_at_offset(tok.span().start())), at });
        }
        Some((out, root_text_ok))
    }))
}

/// every `Span(a..b)` in the Debug rendering of the AST items and errors
fn ast_spans(src: &[u8]) -> Result<Vec<(u64, u64)>, String> {
    catch(AssertUnwindSafe(|| {
        let ast = parse_ast(src);
        let mut dbg = String::new();
        for item in ast.items() {
            match item {
                yara_x_parser::ast::Item::Import(i) => dbg.push_str(&format!("{:?}", i)),
                yara_x_parser::ast::Item::Include(i) => dbg.push_str(&format!("{:?}", i)),
                yara_x_parser::ast::Item::Rule(r) => dbg.push_str(&format!("{:?}", r)),
            }
        }
        dbg.push_str(&format!("{:?}", ast.errors()));
        let mut spans = vec![];
        let b = dbg.as_bytes();
        let mut i = 0;
        while let Some(p) = dbg[i..].find("Span(") {
            let mut j = i + p + 5;
            let mut a = 0u64; let mut ok = false;
            while j < b.len() && b[j].is_ascii_digit() { a = a.saturating_mul(10).saturating_add((b[j] - b'0') as u64); j += 1; ok = true; }
            if ok && dbg[j..].starts_with("..") {
                j += 2; let mut c = 0u64; let mut ok2 = false;
                while j < b.len() && b[j].is_ascii_digit() { c = c.saturating_mul(10).saturating_add((b[j] - b'0') as u64); j += 1; ok2 = true; }
                if ok2 && j < b.len() && b[j] == b')' { spans.push((a, c)); }
            }
            i = i + p + 5;
        }
        spans.sort(); spans.dedup();
        spans
    }))
}

// ---------------------------------------------------------------- one parse, several consumers
// Inputs whose parse takes minutes (the parser's fuel runs out) are parsed once; the CST stream, the CST
// and the AST are then built from the recorded events through the public constructors that
// `From<Parser>` uses itself (CSTStream::new, CST::try_from(CSTStream), AST::new).
thread_local! { static SHARED_RAW: std::cell::RefCell<Option<Vec<Event>>> = const { std::cell::RefCell::new(None) }; }
fn clone_events(v: &[Event]) -> Vec<Event> {
    v.iter().map(|e| match e {
        Event::Begin { kind, span } => Event::Begin { kind: *kind, span: span.clone() },
        Event::End { kind, span } => Event::End { kind: *kind, span: span.clone() },
        Event::Token { kind, span } => Event::Token { kind: *kind, span: span.clone() },
        Event::Error { message, span } => Event::Error { message: message.clone(), span: span.clone() },
    }).collect()
}
fn shared() -> Option<Vec<Event>> { SHARED_RAW.with(|r| r.borrow().as_ref().map(|v| clone_events(v))) }
fn parse_cst_events(src: &[u8]) -> Vec<Event> {
    match shared() { Some(r) => CSTStream::new(src, r.into_iter()).collect(), None => CSTStream::from(Parser::new(src)).collect() }
}
fn parse_cst(src: &[u8]) -> Result<yara_x_parser::cst::CST, std::str::Utf8Error> {
    match shared() { Some(r) => yara_x_parser::cst::CST::try_from(CSTStream::new(src, r.into_iter())), None => Parser::new(src).try_into_cst() }
}
fn parse_ast(src: &[u8]) -> AST<'_> {
    match shared() { Some(r) => AST::new(src, r.into_iter()), None => AST::from(Parser::new(src)) }
}

// ---------------------------------------------------------------- structure of the AST
/// One node of the AST as rendered by `{:?}`: a struct / enum variant. `own` = it has a `span` field (or a
/// Span in its tuple payload); otherwise its span is the hull of its children. Children are in field order.
#[derive(Debug, Default)]
struct DNode { name: String, own: Option<(usize, usize)>, extra: Vec<(usize, usize)>, strs: Vec<(String, String)>, kids: Vec<DNode> }

struct DParser<'a> { s: &'a [u8], i: usize }
impl<'a> DParser<'a> {
    fn ws(&mut self) { while self.i < self.s.len() && (self.s[self.i] == b' ' || self.s[self.i] == b'\n') { self.i += 1; } }
    fn peek(&mut self) -> u8 { self.ws(); if self.i < self.s.len() { self.s[self.i] } else { 0 } }
    fn string(&mut self) -> String {
        // self.s[self.i] == b'"' ; Rust Debug escapes
        self.i += 1; let mut out = String::new(); let b = self.s;
        while self.i < b.len() && b[self.i] != b'"' {
            if b[self.i] == b'\\' && self.i + 1 < b.len() {
                self.i += 1;
                match b[self.i] {
                    b'n' => out.push('\n'), b'r' => out.push('\r'), b't' => out.push('\t'), b'0' => out.push('\0'),
                    b'u' => { let j = self.i + 2; let k = j + b[j..].iter().position(|c| *c == b'}').unwrap_or(0);
                              if let Some(c) = std::str::from_utf8(&b[j..k]).ok().and_then(|h| u32::from_str_radix(h, 16).ok()).and_then(char::from_u32) { out.push(c); }
                              self.i = k; }
                    b'x' => { let h = std::str::from_utf8(&b[self.i + 1..self.i + 3]).unwrap_or("3f"); out.push(u8::from_str_radix(h, 16).unwrap_or(b'?') as char); self.i += 2; }
                    c => out.push(c as char),
                }
                self.i += 1;
            } else {
                let st = self.i; self.i += 1; while self.i < b.len() && (b[self.i] & 0xC0) == 0x80 { self.i += 1; }
                out.push_str(std::str::from_utf8(&b[st..self.i]).unwrap_or("?"));
            }
        }
        self.i += 1; out
    }
    /// a value; struct-like things are appended to `into.kids`, spans/strings recorded on `into` under `field`
    fn value(&mut self, field: &str, into: &mut DNode) {
        match self.peek() {
            b'"' => { let v = self.string(); into.strs.push((field.to_string(), v)); }
            b'(' | b'[' => { // anonymous tuple / list: transparent
                let close = if self.s[self.i] == b'(' { b')' } else { b']' }; self.i += 1;
                while self.peek() != close && self.peek() != 0 { self.value(field, into); if self.peek() == b',' { self.i += 1; } }
                self.i += 1;
            }
            _ => {
                let st = self.i;
                while self.i < self.s.len() && !b",(){}[]\"".contains(&self.s[self.i]) { self.i += 1; }
                let atom = std::str::from_utf8(&self.s[st..self.i]).unwrap_or("").trim().to_string();
                match self.peek() {
                    b'(' if atom == "Span" => {
                        self.i += 1; let st = self.i; while self.s[self.i] != b')' { self.i += 1; }
                        let body = std::str::from_utf8(&self.s[st..self.i]).unwrap_or(""); self.i += 1;
                        let mut it = body.split(".."); let a = it.next().and_then(|x| x.parse().ok()); let b = it.next().and_then(|x| x.parse().ok());
                        if let (Some(a), Some(b)) = (a, b) { if field == "span" || field.is_empty() { if into.own.is_none() { into.own = Some((a, b)); } else { into.extra.push((a, b)); } } else { into.extra.push((a, b)); } }
                    }
                    b'(' if !atom.is_empty() => { // tuple struct / variant: Name(..)
                        self.i += 1; let mut n = DNode { name: atom, ..Default::default() };
                        while self.peek() != b')' && self.peek() != 0 { self.value("", &mut n); if self.peek() == b',' { self.i += 1; } }
                        self.i += 1; into.kids.push(n);
                    }
                    b'{' if !atom.is_empty() => {
                        self.i += 1; let mut n = DNode { name: atom, ..Default::default() };
                        while self.peek() != b'}' && self.peek() != 0 {
                            let st = self.i; while self.i < self.s.len() && self.s[self.i] != b':' { self.i += 1; }
                            let f = std::str::from_utf8(&self.s[st..self.i]).unwrap_or("").trim().to_string(); self.i += 1;
                            self.value(&f, &mut n); if self.peek() == b',' { self.i += 1; }
                        }
                        self.i += 1; into.kids.push(n);
                    }
                    _ => {} // plain atom: number, bool, None, flags
                }
            }
        }
    }
}

/// (parent index, has own span, lo, hi, on char boundaries, text at the span is what the node says, previous sibling)
type ANode = (usize, bool, usize, usize, bool, bool, Option<usize>, bool /* must be covered by its parent */);

/// flatten to preorder; wrappers that carry no span of their own and exactly one child (Some(..), Box-like enum
/// variants such as Eq(BinaryExpr{..})) are merged with that child
fn flatten(n: &DNode, parent: Option<usize>, src: &[u8], out: &mut Vec<ANode>, names: &mut Vec<String>) -> Option<(usize, usize, usize)> {
    if n.own.is_none() && n.kids.len() == 1 && n.extra.is_empty() && n.strs.is_empty() { return flatten(&n.kids[0], parent, src, out, names); }
    let idx = out.len();
    // (a FuncCall node's extent as computed here includes its object, which FuncCall::span() leaves out: see below)
    out.push((parent.unwrap_or(idx), n.own.is_some(), 0, 0, true, true, None, n.name != "FuncCall"));
    names.push(n.name.clone());
    let mut lo = usize::MAX; let mut hi = 0usize; let mut prev: Option<usize> = None;
    for k in &n.kids {
        if let Some((ki, a, b)) = flatten(k, Some(idx), src, out, names) {
            out[ki].6 = prev; prev = Some(ki); lo = lo.min(a); hi = hi.max(b);
            // by design the span of a hex pattern node is its `{ .. }` literal, the span of a base64
            // modifier is its keyword (identifier / modifiers / alphabet lie outside), and the span of a
            // method-like call `obj.f(x)` is `f(x)` (FuncCall::span() leaves the object out; a test of the
            // repository pins the labels this produces). The property asks for spans inside the source,
            // which these are; covering every child is this check's own, stronger, demand.
            if matches!(n.name.as_str(), "HexPattern" | "Base64" | "Base64Wide" | "FuncCall") { out[ki].7 = false; }
        }
    }
    for (a, b) in &n.extra { lo = lo.min(*a); hi = hi.max(*b); }
    let (a, b) = match n.own { Some(x) => x, None => { if lo == usize::MAX { out.truncate(idx); names.truncate(idx); return None; } (lo, hi) } };
    let valid = std::str::from_utf8(src).ok();
    let bnd = match valid { Some(s) => a <= s.len() && b <= s.len() && s.is_char_boundary(a) && s.is_char_boundary(b), None => true };
    // the text at the span is the identifier / the literal
    let want = n.strs.iter().find(|(f, _)| (n.name == "Ident" && f == "name") || f == "literal").map(|(_, v)| v.clone());
    // (an integer literal node keeps its text without the KB/MB suffix)
    let text_ok = match (&want, n.own) {
        (Some(w), Some((a, b))) if a <= b && b <= src.len() => if n.name == "LiteralInteger" { src[a..b].starts_with(w.as_bytes()) } else { &src[a..b] == w.as_bytes() },
        (Some(_), Some(_)) => false, _ => true };
    out[idx].2 = a; out[idx].3 = b; out[idx].4 = bnd; out[idx].5 = text_ok;
    Some((idx, a, b))
}

fn ast_nodes(src: &[u8]) -> Result<(Vec<ANode>, Vec<String>), String> {
    catch(AssertUnwindSafe(|| {
        let ast = parse_ast(src);
        let mut out = vec![]; let mut names = vec![];
        for item in ast.items() {
            let dbg = match item {
                yara_x_parser::ast::Item::Import(i) => format!("{:?}", i),
                yara_x_parser::ast::Item::Include(i) => format!("{:?}", i),
                yara_x_parser::ast::Item::Rule(r) => format!("{:?}", r),
            };
            let mut root = DNode::default();
            DParser { s: dbg.as_bytes(), i: 0 }.value("", &mut root);
            for k in &root.kids { flatten(k, None, src, &mut out, &mut names); }
        }
        (out, names)
    }))
}

fn ast_node_violations(nodes: &[ANode], names: &[String], len: usize) -> Vec<String> {
    let mut v = vec![];
    for (i, n) in nodes.iter().enumerate() {
        let (p, _own, lo, hi, bnd, text_ok, prev, cover) = *n;
        if lo > hi || hi > len { v.push(format!("AST node {} span {}..{} is not inside the source ({} bytes)", names[i], lo, hi, len)); continue; }
        if !bnd { v.push(format!("AST node {} span {}..{} is not on character boundaries", names[i], lo, hi)); }
        if !text_ok { v.push(format!("the text at the span {}..{} of AST node {} is not the identifier/literal it holds", lo, hi, names[i])); }
        if cover && p != i && nodes[p].1 && (lo < nodes[p].2 || hi > nodes[p].3) { v.push(format!("AST node {} {}..{} is not covered by its parent {} {}..{}", names[i], lo, hi, names[p], nodes[p].2, nodes[p].3)); }
        if let Some(j) = prev { if nodes[j].3 > lo { v.push(format!("AST node {} {}..{} starts before its previous sibling {} {}..{} ends", names[i], lo, hi, names[j], nodes[j].2, nodes[j].3)); } }
    }
    v
}

fn main() {
    let args: Vec<String> = std::env::args().skip(1).collect();
    // the parser, the AST builder and the drop of a deep rowan tree recurse: big stack
    let h = std::thread::Builder::new().stack_size(2 << 30).spawn(move || run(&args)).unwrap();
    std::process::exit(h.join().unwrap_or(3));
}

fn run(args: &[String]) -> i32 {
    quiet_panics();
    if let Some(hx) = arg_val(args, "--replay-hex") { return replay(&unhex(&hx)); }
    if arg_flag(args, "--tokenizer") { return run_tokenizer(args); }
    if arg_flag(args, "--ast-survey") {
        // which structural facts about AST spans hold on the current tree (development aid)
        let mut rng = Rng::new(arg_u64(args, "--seed", 1));
        let mut agg: std::collections::BTreeMap<String, (usize, String)> = Default::default();
        let mut all = corpus(); all.extend(oracle_inputs());
        for _ in 0..arg_u64(args, "--n", 2000) { all.push(if rng.chance(1, 3) { gen_chainy(&mut rng).into_bytes() } else { gen_source(&mut rng).1 }); }
        let mut total = 0usize;
        for src in &all {
            if let Ok((nodes, names)) = ast_nodes(src) {
                total += nodes.len();
                for v in ast_node_violations(&nodes, &names, src.len()) {
                    let key: String = v.split(|c: char| c.is_ascii_digit()).filter(|p| !p.is_empty() && *p != "..").collect::<Vec<_>>().join("#");
                    let e = agg.entry(key).or_insert((0, String::from_utf8_lossy(src).chars().take(160).collect())); e.0 += 1;
                }
            }
        }
        println!("{} sources, {} AST nodes", all.len(), total);
        for (k, (n, ex)) in agg { println!("{:6} {}\n        e.g. {:?}", n, k, ex); }
        return 0;
    }
    let seed = arg_u64(args, "--seed", 1);
    let n = arg_u64(args, "--n", 600) as usize;
    let max_tokens = arg_u64(args, "--max-tokens", 90) as usize;
    let out = arg_val(args, "--out").expect("--out");
    let prelude = "From Coq Require Import List NArith ZArith Bool.\nFrom YV Require Import Parser.Machine Parser.ParserCheck.\nImport ListNotations.\nLocal Open Scope N_scope.\n";
    let mut shards = Shards::new(Path::new(&out), prelude, 60);
    let mut rng = Rng::new(seed);
    let mut stats = Stats::default();
    let mut distinct = std::collections::HashSet::new();
    let mut samples = vec![];
    let mut corpus = corpus();
    corpus.extend(oracle_inputs());
    let mut deep = very_deep_inputs();
    let mut medium = medium_deep_inputs();
    // nested function calls are parsed in exponential time; 18 levels exhaust the parser's fuel (about 2 minutes)
    let mut fuel: Vec<Vec<u8>> = if arg_flag(args, "--fuel") { vec![format!("rule a {{condition: {}1{} == 1 }} rule b {{condition: true}}", "f(".repeat(18), ")".repeat(18)).into_bytes()] } else { vec![] };
    // one source of megabytes on every run: the parser's fuel is per file, a long list of rules must not exhaust it
    {
        let nrules = arg_u64(args, "--big-rules", 40000) as usize;
        let mut big = String::with_capacity(nrules * 40);
        for i in 0..nrules {
            big.push_str(&format!("rule big_{} : t1 {{ meta: n = {} strings: $a = \"x{}\" condition: $a at {} and filesize > 10 or m.f({}) == 1 }}\n", i, i, i, i, i));
            if i % 1000 == 999 { big.push_str("// a thousand more\n"); }
        }
        let src = big.into_bytes();
        let t0 = std::time::Instant::now();
        let raw = catch(AssertUnwindSafe(|| Parser::new(&src).collect::<Vec<Event>>())).unwrap_or_default();
        let mut covered = 0usize; let mut cst_rules = 0usize;
        for e in &raw { match e { Event::Token { span, .. } => { if span.start() == covered { covered = span.end(); } } Event::Begin { kind: SyntaxKind::RULE_DECL, .. } => cst_rules += 1, _ => {} } }
        SHARED_RAW.with(|r| *r.borrow_mut() = Some(clone_events(&raw)));
        let root_ok = catch(AssertUnwindSafe(|| parse_cst(&src).map(|c| c.root().text().to_string().as_bytes() == &src[..]).unwrap_or(false))).unwrap_or(false);
        let (ast_rules, ast_errors) = catch(AssertUnwindSafe(|| { let a = parse_ast(&src); (a.rules().count(), a.errors().len()) })).unwrap_or((0, usize::MAX >> 8));
        SHARED_RAW.with(|r| *r.borrow_mut() = None);
        stats.add("big_source_bytes", src.len() as u64); stats.add("big_source_parse_ms", t0.elapsed().as_millis() as u64);
        let case = format!("mkCase false {} None None {} {} None None [] true true (Some ({}, {}, {}, {}, {}))", src.len(), coq_bool(covered == src.len()), coq_bool(root_ok),
            covered, nrules, cst_rules, ast_rules, ast_errors);
        let replay = format!("{{\"stream\":\"big_source\",\"rules\":{},\"bytes\":{},\"covered\":{},\"cst_rules\":{},\"ast_rules\":{},\"ast_errors\":{},\"how\":\"{} lines `rule big_<i> : t1 {{ meta: .. strings: .. condition: $a at <i> and filesize > 10 or m.f(<i>) == 1 }}`, a comment line after every 1000\"}}",
            nrules, src.len(), covered, cst_rules, ast_rules, ast_errors, nrules);
        shards.push(case, replay);
    }
    let mut attempts = 0usize;
    while shards.total < n && attempts < n * 20 {
        attempts += 1;
        let (stream, src) = if !corpus.is_empty() { ("corpus".to_string(), corpus.remove(0)) }
            else if !medium.is_empty() { shards.flush(); ("medium_deep".to_string(), medium.remove(0)) }   // K with the model parser
            else if !deep.is_empty() { shards.flush(); ("very_deep".to_string(), deep.remove(0)) }   // one shard per very deep case
            else if !fuel.is_empty() { shards.flush(); ("fuel".to_string(), fuel.remove(0)) }
            else if rng.chance(1, 6) { ("chains".to_string(), gen_chainy(&mut rng).into_bytes()) }
            else { gen_source(&mut rng) };
        let very_deep = stream == "very_deep" || stream == "fuel";
        let medium_deep = stream == "medium_deep";
        let raw = catch(AssertUnwindSafe(|| Parser::new(&src).collect::<Vec<Event>>())).ok();
        let ntok = raw.as_ref().map(|v| v.iter().filter(|e| matches!(e, Event::Token { .. })).count()).unwrap_or(0);
        if ntok > max_tokens && !very_deep && !medium_deep { stats.inc("skipped_too_long"); continue; }
        let heavy = stream == "fuel";
        SHARED_RAW.with(|r| *r.borrow_mut() = if heavy { raw.as_ref().map(|v| clone_events(v)) } else { None });
        let cst = catch(AssertUnwindSafe(|| parse_cst_events(&src))).ok();
        // token texts concatenate to the source
        let texts_ok = raw.as_ref().map(|v| {
            let mut acc: Vec<u8> = vec![];
            for e in v { if let Event::Token { span, .. } = e { match src.get(span.range()) { Some(t) => acc.extend_from_slice(t), None => return false } } }
            acc == src
        }).unwrap_or(false);
        let toks = observe_tokens(&src, !very_deep && !medium_deep);
        let (toks_coq, root_text_ok, have_cst) = match &toks {
            Ok(Some((_, ok))) if very_deep || medium_deep => ("None".to_string(), *ok, false),
            Ok(Some((os, ok))) => (format!("(Some {})", coq_list(os, |o| format!(
                "mkTObs {} {} {} {} ({},{}) ({},{}) ({},{}) ({},{}) ({},{}) ({},{}) {} {} {} {}",
                o.class, coq_list(&o.text, |c| c.to_string()), o.lo, o.hi,
                o.sp[0].0, o.sp[0].1, o.sp[1].0, o.sp[1].1, o.sp[2].0, o.sp[2].1,
                o.ep[0].0, o.ep[0].1, o.ep[1].0, o.ep[1].1, o.ep[2].0, o.ep[2].1,
                onat(&o.at_off), onat(&o.at[0]), onat(&o.at[1]), onat(&o.at[2])))), *ok, true),
            Ok(None) => ("None".to_string(), true, false),
            // a panic while walking the CST: report as a failed root-text observation
            Err(_) => ("None".to_string(), false, false),
        };
        let ast = ast_spans(&src).ok();
        let ast_coq = coq_option(&ast, |v| coq_list(v, |(a, b)| format!("({},{})", a, b)));
        let (anodes, anames) = ast_nodes(&src).unwrap_or_default();
        let ast_bad = ast_node_violations(&anodes, &anames, src.len());
        let anodes_coq = coq_list(&anodes, |n| format!("mkAN {}%nat {} {} {} {} {} {} {}", n.0, coq_bool(n.1), n.2, n.3, coq_bool(n.4), coq_bool(n.5), onat(&n.6), coq_bool(n.7)));
        let valid_utf8 = std::str::from_utf8(&src).is_ok();
        let cst_built = catch(AssertUnwindSafe(|| parse_cst(&src).is_ok())).unwrap_or(false);
        stats.add("ast_nodes", anodes.len() as u64);

        stats.inc(&format!("stream_{}", stream));
        stats.inc(&format!("tokens_{}", match ntok { 0 => "0", 1..=9 => "1-9", 10..=29 => "10-29", 30..=59 => "30-59", _ => "60+" }));
        if let Some(v) = &raw {
            if v.iter().any(|e| matches!(e, Event::Error { .. })) { stats.inc("has_error_event"); }
            if v.iter().any(|e| matches!(e, Event::Begin { kind: SyntaxKind::ERROR, .. })) { stats.inc("has_error_node"); }
            if v.iter().any(|e| matches!(e, Event::Begin { kind: SyntaxKind::HEX_PATTERN, .. })) { stats.inc("has_hex_pattern"); }
            if v.iter().any(|e| matches!(e, Event::Token { kind: SyntaxKind::INVALID_UTF8, .. })) { stats.inc("has_invalid_utf8_token"); }
            if v.iter().filter(|e| matches!(e, Event::Begin { kind: SyntaxKind::RULE_DECL, .. })).count() >= 2 { stats.inc("two_or_more_rules"); }
        } else { stats.inc("parser_panicked"); }
        if !src.is_ascii() { stats.inc("non_ascii_source"); }
        if have_cst { stats.inc("with_cst_positions"); }
        if ast.is_none() { stats.inc("ast_panicked"); }
        if ntok >= 5 { distinct.insert(src.clone()); }

        // diagnostics for classify(): first gap/overlap between consecutive token spans
        let gap = raw.as_ref().and_then(|v| {
            let mut prev: (usize, usize) = (0, 0);
            for e in v { if let Event::Token { span, .. } = e {
                if span.start() != prev.1 { return Some(format!("{}..{}->{}:{}", prev.0, prev.1, span.start(), hex(&src[prev.0.min(src.len())..span.start().min(src.len()).max(prev.0.min(src.len()))]))); }
                prev = (span.start(), span.end()); } }
            if prev.1 != src.len() { return Some(format!("{}..{}->end{}:{}", prev.0, prev.1, src.len(), hex(&src[prev.0.min(src.len())..]))); }
            None
        });
        let own_fail = match &toks { Ok(Some((os, _))) => os.iter().enumerate().filter(|(i, o)| o.at_off != Some(*i) || o.at.iter().any(|a| *a != Some(*i))).count(), _ => 0 };
        let case = format!("mkCase {} {} {} {} {} {} {} {} {} {} {} {}", coq_bool(!very_deep), src.len(), coq_events(&raw), coq_events(&cst),
            coq_bool(texts_ok), coq_bool(root_text_ok), toks_coq, ast_coq, anodes_coq, coq_bool(valid_utf8), coq_bool(cst_built), "None");
        let replay = format!("{{\"index\":{},\"stream\":{},\"source_hex\":\"{}\",\"source_lossy\":{},\"tokens\":{},\"parser_panicked\":{},\"cst_stream_panicked\":{},\"ast_panicked\":{},\"gap\":{},\"texts_ok\":{},\"root_text_ok\":{},\"own_lookup_failures\":{},\"valid_utf8\":{},\"cst_built\":{},\"ast_structure\":[{}]}}",
            shards.total, json_str(&stream), hex(&src), json_str(&String::from_utf8_lossy(&src)), ntok,
            raw.is_none(), cst.is_none(), ast.is_none(), match &gap { Some(g) => json_str(g), None => "null".into() }, texts_ok, root_text_ok, own_fail, valid_utf8, cst_built,
            ast_bad.iter().take(3).map(|b| json_str(b)).collect::<Vec<_>>().join(","));
        if samples.len() < 3 && ntok >= 20 { samples.push(replay.clone()); }
        shards.push(case, replay);
        if very_deep || medium_deep { shards.flush(); }
    }
    shards.flush();
    println!("{{\"evaluations\":{},\"distinct_nontrivial\":{},\"shards\":{},\"distribution\":{},\"samples\":[{}]}}",
        shards.total, distinct.len(), shards.shard_count, stats.json(), samples.join(","));
    0
}

/// K/S cases for the tokenizer wrapper (Parser/TokenizerCheck.v): the calls the parser made on the
/// real Tokenizer, the answers of the three real logos lexers at every token boundary, the real tokens
fn run_tokenizer(args: &[String]) -> i32 {
    quiet_panics();
    let seed = arg_u64(args, "--seed", 1);
    let n = arg_u64(args, "--n", 600) as usize;
    let max_tokens = arg_u64(args, "--max-tokens", 90) as usize;
    let out = arg_val(args, "--out").expect("--out");
    let prelude = "From Coq Require Import List NArith ZArith Bool.\nFrom YV Require Import Parser.TokenizerCheck.\nImport ListNotations.\nLocal Open Scope N_scope.\n";
    let mut shards = Shards::new(Path::new(&out), prelude, 100);
    let mut rng = Rng::new(seed ^ 0x70C3);
    let mut stats = Stats::default();
    let mut distinct = std::collections::HashSet::new();
    let mut samples = vec![];
    let mut corpus = corpus();
    corpus.extend(tokenizer_corpus());
    let mut attempts = 0usize; let mut lex_calls = 0u64;
    while shards.total < n && attempts < n * 20 {
        attempts += 1;
        let (stream, src) = if !corpus.is_empty() { ("corpus".to_string(), corpus.remove(0)) }
            else if rng.chance(1, 2) { ("hexy".to_string(), gen_hexy(&mut rng)) } else { gen_source(&mut rng) };
        let _ = yara_x_parser::verif_take_ops();
        let raw = match catch(AssertUnwindSafe(|| Parser::new(&src).collect::<Vec<Event>>())) { Ok(v) => v, Err(_) => { stats.inc("parser_panicked"); continue; } };
        let ops = yara_x_parser::verif_take_ops();
        let toks: Vec<(u16, usize, usize)> = raw.iter().filter_map(|e| if let Event::Token { kind, span } = e { Some((*kind as u16, span.start(), span.end())) } else { None }).collect();
        if toks.len() > max_tokens { stats.inc("skipped_too_long"); continue; }
        // the real lexers at every token boundary, in every mode
        let mut bounds: Vec<usize> = vec![0]; for t in &toks { bounds.push(t.1); bounds.push(t.2); } bounds.push(src.len());
        bounds.sort(); bounds.dedup(); bounds.retain(|b| *b <= src.len());
        let mut table = vec![];
        for b in &bounds { for m in 0u8..3 {
            lex_calls += 1;
            let a = yara_x_parser::verif_lex(m, &src, *b);
            table.push(format!("({}, {}, {})", m, b, match a {
                None => "None".to_string(),
                Some((id, s, e)) => format!("Some ({}, {}, {})", match id { Some(i) => format!("Some {}", i), None => "None".into() }, s, e),
            }));
        } }
        stats.inc(&format!("stream_{}", stream));
        if ops.iter().any(|o| *o == 1) { stats.inc("enters_hex_pattern_mode"); }
        if ops.iter().any(|o| *o == 2) { stats.inc("enters_hex_jump_mode"); }
        if toks.iter().any(|t| t.0 == SyntaxKind::INVALID_UTF8 as u16) { stats.inc("has_invalid_utf8_token"); }
        if toks.iter().any(|t| t.0 == SyntaxKind::UNKNOWN as u16) { stats.inc("has_unknown_token"); }
        if toks.iter().any(|t| t.0 == SyntaxKind::UNKNOWN as u16 && t.2 - t.1 > 1) { stats.inc("has_long_unknown_token"); }
        if toks.iter().any(|t| t.0 == SyntaxKind::HEX_BYTE as u16) { stats.inc("has_hex_byte"); }
        if toks.len() >= 5 { distinct.insert(src.clone()); }
        let case = format!("mkCase {} {} [{}] {}", coq_list(&src, |b| b.to_string()), coq_list(&ops, |o| o.to_string()), table.join("; "),
            coq_list(&toks, |(k, a, b)| format!("({}, {}, {})", k, a, b)));
        let gap = { let mut prev = 0usize; let mut g = None; for t in &toks { if t.1 != prev { g = Some((prev, t.1)); break; } prev = t.2; } if g.is_none() && prev != src.len() { g = Some((prev, src.len())); } g };
        let replay = format!("{{\"index\":{},\"check\":\"tokenizer\",\"stream\":{},\"source_hex\":\"{}\",\"source_lossy\":{},\"tokens\":{},\"ops\":{},\"gap\":{}}}",
            shards.total, json_str(&stream), hex(&src), json_str(&String::from_utf8_lossy(&src)), toks.len(), json_str(&format!("{:?}", ops)),
            match gap { Some((a, b)) => format!("\"{}..{}\"", a, b), None => "null".into() });
        if samples.len() < 3 && ops.iter().any(|o| *o == 2) { samples.push(replay.clone()); }
        shards.push(case, replay);
    }
    shards.flush();
    println!("{{\"evaluations\":{},\"distinct_nontrivial\":{},\"shards\":{},\"lexer_calls_checked\":{},\"distribution\":{},\"samples\":[{}]}}",
        shards.total, distinct.len(), shards.shard_count, lex_calls, stats.json(), samples.join(","));
    0
}

fn tokenizer_corpus() -> Vec<Vec<u8>> {
    let v: Vec<&[u8]> = vec![
        b"rule a {strings: $a = { 01 [2-4] 02 } condition: $a}",
        b"rule a {strings: $a = { zz } condition: $a}",                       // hex mode entered, left at once
        b"rule a {strings: $a = { 01 [ x ] 02 } condition: $a}",              // jump mode left on an error
        b"rule a {strings: $a = { 01 [1-",                                     // input ends in jump mode
        b"rule a {strings: $a = { AB",                                         // input ends in hex pattern mode
        b"rule a {strings: $a = { 01 \xe2\x80 02 } condition: $a}",
        b"rule a {strings: $a = { 01 [\xff] 02 } condition: $a}",
        b"rule a {strings: $a = {{ 01 }} $b = { ( 01 | [1] ) } condition: $a}",
        "rule a {condition: \u{3000}x\u{1680}y \u{85} abc\u{e9}def\u{2028}ghi}".as_bytes(),   // whitespace the lexer does not know
        "\u{201c}abc def\u{201d} \u{e9}\u{e9}\u{e9}".as_bytes(),
        b"abc\xe2\x80\xe2\x81\x9f\xe2\x80\xaf\xff\xfe\xc3",
        b"{ 01 } [ 1 ] 0x10 1KB ?? ~AB",
    ];
    v.into_iter().map(|s| s.to_vec()).collect()
}

/// replay of one source: what the implementation returns, and the property on it
fn replay(src: &[u8]) -> i32 {
    println!("source ({} bytes): {:?}", src.len(), String::from_utf8_lossy(src));
    let raw = catch(AssertUnwindSafe(|| Parser::new(src).collect::<Vec<Event>>()));
    let mut bad = vec![];
    match &raw {
        Err(e) => bad.push(format!("parser panicked: {e}")),
        Ok(v) => {
            let mut prev = 0usize; let mut depth = 0i64;
            for e in v {
                match e {
                    Event::Token { kind, span } => {
                        println!("  token {:?} {}..{} {:?}", kind, span.start(), span.end(), String::from_utf8_lossy(&src[span.range()]));
                        if span.start() != prev { bad.push(format!("expected: next token starts at {prev}; actual: it starts at {} (bytes {}..{} are in no token)", span.start(), prev, span.start())); }
                        prev = span.end();
                    }
                    Event::Begin { .. } => depth += 1,
                    Event::End { .. } => { depth -= 1; if depth < 0 { bad.push("End without Begin".into()); } }
                    Event::Error { message, span } => println!("  error {}..{} {}", span.start(), span.end(), message),
                }
            }
            if prev != src.len() { bad.push(format!("expected: last token ends at {}; actual: {}", src.len(), prev)); }
            if depth != 0 { bad.push("unbalanced Begin/End".into()); }
        }
    }
    match observe_tokens(src, src.len() < 4000) {
        Ok(Some((os, ok))) => {
            if !ok { bad.push("CST root text differs from the source".into()); }
            for (i, o) in os.iter().enumerate() {
                if o.at_off != Some(i) || o.at.iter().any(|a| *a != Some(i)) { bad.push(format!("token {i}: own offset/position lookup returned {:?} {:?}", o.at_off, o.at)); }
            }
        }
        Ok(None) => println!("  (no CST: a token is not valid UTF-8)"),
        Err(e) => bad.push(format!("CST walk panicked: {e}")),
    }
    match ast_spans(src) { Ok(v) => for (a, b) in v { if a > b || b as usize > src.len() { bad.push(format!("AST span {a}..{b} outside the source")); } }, Err(e) => bad.push(format!("AST builder panicked: {e}")) }
    match ast_nodes(src) {
        Ok((nodes, names)) => {
            if std::env::var("C10_DUMP_AST").is_ok() { for (i, n) in nodes.iter().enumerate() { println!("  ast[{i}] {} parent={} own={} {}..{} {:?}", names[i], n.0, n.1, n.2, n.3, String::from_utf8_lossy(&src[n.2.min(src.len())..n.3.min(src.len()).max(n.2.min(src.len()))])); } }
            bad.extend(ast_node_violations(&nodes, &names, src.len()));
        }
        Err(e) => bad.push(format!("AST builder panicked: {e}")),
    }
    if bad.is_empty() { println!("property holds on this input"); 0 } else { for b in &bad { println!("VIOLATED: {b}"); } 1 }
}

/// a few hundred levels: still cheap enough to re-run the model parser under vm_compute
fn medium_deep_inputs() -> Vec<Vec<u8>> {
    vec![
        format!("rule d {{condition: {}true}}", "not ".repeat(700)).into_bytes(),
        format!("rule d {{condition: {}1{} == 1 and {}$a{}}}", "-(".repeat(150), ")".repeat(150), "(".repeat(200), ")".repeat(200)).into_bytes(),
    ]
}

/// CSTs nested deeper than 3000 levels (beyond MAX_AST_DEPTH): the parser must still be lossless
fn very_deep_inputs() -> Vec<Vec<u8>> {
    vec![
        format!("rule d {{condition: {}true}}", "not ".repeat(3100)).into_bytes(),
        format!("rule d {{condition: {}true{}}}", "(".repeat(1600), ")".repeat(1600)).into_bytes(),
        format!("rule d {{condition: {}1{} == 1}} rule e {{condition: true}}", "-(".repeat(1600), ")".repeat(1600)).into_bytes(),
        format!("rule d {{condition: {}true}} rule e {{condition: true}}", "(".repeat(1700)).into_bytes(),   // unbalanced
    ]
}

/// inputs of the reviewer's oracle (seeded/notes/oracle_r4b.rs) that the corpus did not have
fn oracle_inputs() -> Vec<Vec<u8>> {
    let s = |x: &str| x.as_bytes().to_vec();
    let mut v: Vec<Vec<u8>> = vec![
        s("rule a { condition: true }\n"), s("\u{feff}rule a { condition: true }"), s("rule a {\u{2010} condition: true }"),
        s("rule a {\u{a0}\u{2003} condition:\u{205f}true }"), s("rule a {\x0c condition: true }"), s("rule a {\0 condition: true }"),
        s("rule a {\r condition: true }\r"), s("rule a {\r\n condition: true }\r\n"),
        s("rule a { condition: \"abc"), s("rule a { condition: /abc"), s("rule a { condition: /* abc"),
        s("rule a { strings: $a = { 01 02"), s("rule a { strings: $a = { 01 ( 02 | zz ) } condition: $a }"),
        s("rule a { strings: $a = { 01 [1-\u{e9}] 03 } condition: $a }"), s("rule a { strings: $a = { 01 /* c */ 02 // x\n 03 } condition: $a }"),
        s("rule a { strings: $a = /a[/]b/ condition: $a }"), s("rule a { strings: $a = /ab\\/c/is wide condition: $a }"),
        s("rule a { strings: $a = \"x\" xor(1-2) base64(\"abc\") private condition: $a }"),
        s("rule a { meta: a = -1 b = -1.5 c = \"x\\x00\" d = true condition: true }"),
        s("import \"pe\"\nrule a { condition: pe.sections[0].name == \"x\" and pe.foo.bar[1] == 2 and a.b(1,2).c[3] }"),
        s("rule a { condition: 1 + 2 * 3 - 4 \\ 5 % 6 | 7 & 8 ^ ~9 << 1 >> 2 == 3 }"), s("rule a { condition: not defined -1 and - - 2 == -(3) }"),
        s("rule a { condition: for any i in (1..2) : ( i == 1 ) and for all of them : ($) and 2 of ($a*, $b) in (0..10) }"),
        s("a /* x\n yy */ b /* z */ c"), s("rule a { condition: \"\u{1F600}\" == \"\u{4e2d}\u{e9}\" }"), s("\t\trule\ta\t{\tcondition:\ttrue\t}"),
        s("rule a : { condition: true }"), s("rule a { condition: (((true))) or ( false"), s("rule a { meta: condition: true }"),
        s("rule a { strings: condition: true }"), s("rule a { strings: $a = \"x\" foo condition: true }"), s("rule a { condition: x. }"),
        s("rule a { condition: 1 of ( $a , ) }"), s("rule a { condition: for 1 x in y : ( x "), s("include \"x\" import \"y\" rule"),
        s("rule"), s("global"), s("private global"), s("rule a { condition: true } // end"), s("rule a { condition: true } /* end"),
        s("rule a { condition: ruler or rules or conditions }"), s("rule a { condition: 1KB + 2MB + 0x1f + 0o17 + 1_000 + 1.5_0 }"),
        s("rule a { condition: \"\"\"multi\nline\"\"\" == \"x\" }"), s("rule a { strings: $a = \"\\\u{e9}\" condition: $a }"),
        s("rule a { strings: $a = \"\\xZZ\" condition: $a }"), s("rule a { strings: $a = /abc/x condition: $a }"),
        // Unicode whitespace the lexer does not know (known finding: the UNKNOWN token splits the character)
        s("rule a {\u{2028} condition: true }"), s("rule a {\u{3000} condition: true }"), s("\u{2029}x"), s("\u{1680}"), s("\u{85}"),
        // deep field access / lookup / call chains
        s("rule a { condition: a.b.c[0] == 1 and a.b.c.d[0].e == 2 and a.b.c[0].d(e.f[1])[g] }"),
        s("rule a { condition: x.y.z[1][2].w[3] == a.b(c.d[e.f.g[0]]).h }"),
    ];
    for b in [&b"rule a { condition: \"\xff\" == \"a\" }"[..], b"rule a { condition: true } \xe2", b"rule a { condition: true } \xf0\x9f\x98",
              b"rule a { // \xff\n condition: /* \xfe */ true }", b"rule a { strings: $a = { 01 \xff 02 } condition: $a }",
              b"rule a { strings: $a = /a\xffb/ condition: $a }", b"rule a\xc3 { condition: true }",
              b"rule a { strings: $a = { 01 /* \xff */ 02 } condition: $a }", b"rule a { condition: - /*\xff*/ 1 == 0 }"] { v.push(b.to_vec()); }
    v
}

/// deep field access / lookup / call chains, operator chains, nested parentheses (call nesting stays shallow:
/// nested function calls take exponential time, a known finding)
fn gen_chainy(rng: &mut Rng) -> String {
    fn chain(rng: &mut Rng, d: u32) -> String {
        let ids = ["a", "b", "c", "d", "pe", "x1", "_y"];
        let mut s = rng.pick(&ids).to_string();
        for _ in 0..(1 + rng.below(6)) {
            match rng.below(if d == 0 { 3 } else { 6 }) {
                0 | 1 | 2 => { s.push('.'); s.push_str(*rng.pick(&ids)); }
                3 | 4 => { s.push('['); s.push_str(&if rng.chance(1, 2) { rng.below(9).to_string() } else { chain(rng, d - 1) }); s.push(']'); }
                _ => { s.push('.'); s.push_str(*rng.pick(&ids)); s.push('('); if rng.chance(2, 3) { s.push_str(&chain(rng, 0)); if rng.chance(1, 3) { s.push_str(", 1"); } } s.push(')'); }
            }
        }
        s
    }
    let mut terms = vec![];
    for _ in 0..(1 + rng.below(3)) {
        let t = match rng.below(4) {
            0 => format!("{} == {}", chain(rng, 2), rng.below(9)),
            1 => format!("{} + {} * ({} - {}) > 0", chain(rng, 1), chain(rng, 1), chain(rng, 0), rng.below(9)),
            2 => format!("(({}) or not ({} != 1))", chain(rng, 2), chain(rng, 1)),
            _ => format!("for any i in ({}, {}) : ( {}[i] == i )", chain(rng, 0), rng.below(9), chain(rng, 1)),
        };
        terms.push(t);
    }
    format!("rule c {{ condition: {} }}", terms.join(if rng.chance(1, 2) { " and " } else { " or " }))
}

/// minimized inputs that exercised something once; they run first
fn corpus() -> Vec<Vec<u8>> {
    let v: Vec<&[u8]> = vec![
        b"",
        b" ",
        b"rule a{condition:true}rule b{condition:true}",
        b"global rule a{condition:true}private global rule b : t1 t2 {condition:false}",
        b"rule a {strings: $a = { 01 ?? [2-4] ( 03 | 04 05 ) ~06 } condition: $a}",
        b"rule a {condition: for any i in (0..3) : ( i == 1 ) }",
        b"rule a {condition: 2 of ($a*, $b) at 0 }",
        b"import \"pe\" rule a {condition: pe.sections[0].name == \"x\" }",
        b"rule a {condition: ",
        b"rule a {condition: true } }} rule b {condition: true}",
        b"xx rule a {condition: true}",
        b"rule a { meta: a = -1 b = \"s\" condition: 1 + 2 * 3 \\ 4 % 5 == 6 }",
        b"rule a {condition: \xff true}",
        b"rule \xc3\xa9 {condition: true}",
        b"/* c \n c */ rule a // x\n{condition:\ttrue\r\n}",
        b"rule a {condition: with x = 1, y = 2 : ( x == y ) }",
        b"rule a {condition: 50% of them }",
        b"rule a {condition: not not not true and ( ( ( false ) ) ) }",
        // multi-line comments whose first / middle / LAST line holds 2-, 3- and 4-byte characters, with
        // tokens following on the same line (columns in UTF-16/UTF-32 units differ from bytes)
        "rule a /* x\n\u{e9}\u{20ac}\u{1f600} */ {condition: true}".as_bytes(),
        "rule a /* \u{1f600}\n y */ { /* a\n\u{e9}\n\u{1f600}\u{1f600} */ condition: /* \u{20ac} */ true /* z\r\n\u{1f600}\u{e9} */ }".as_bytes(),
        "rule a {condition: /* q\r\n\u{4e2d}\u{6587}\u{1f600} */ $a $b /* \n\u{1f600} */ ) true}".as_bytes(),     // next to an error site
        "rule a {strings: $a = { 01 /* h\n\u{1f600}\u{e9} */ 02 [2-4] /* \u{20ac}\n\u{1f600} */ 03 } /* \n\u{e9} */ private condition: $a}".as_bytes(),
        "/* \u{1f600}\n\u{1f600} */rule a{condition:true}/* \n\u{10ffff}\u{7ff}\u{800} */rule b{condition:false}".as_bytes(),
        "rule a // \u{1f600}\n /* \u{1f600} */ {condition: \"\u{1f600}\" /* \n\n\u{1f600} */ == \"x\"}".as_bytes(),
        // repaired by 03453382: a truncated multi-byte Unicode space lost a byte (e28061 family)
        b"rule a {condition: \xe2\x80true}",
        b"\xe2\x81",
        b"\xe2\x80a",
        b"\xe2\x80",
        b"\xe2\x81 ",
        b"a\xe2\x80b ",
        b"\xe2\x80\xe2\x80\x80\xe2\x81\xe2",
        b"rule a {strings: $a = { 01 \xe2\x80 02 } condition: $a}",
    ];
    v.into_iter().map(|s| s.to_vec()).collect()
}
