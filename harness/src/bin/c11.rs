//! C11 (supporting tests, not proofs): file-format modules are total, bounded
//! and deterministic on any bytes.
//!
//! Parent: builds the corpus (repository samples unzipped by checks/C11.py,
//! truncations, field mutations, cross-format splices, random bytes behind
//! valid magics, a self-referential PE resource table) from one PRNG and feeds
//! it to child processes; a child that dies or exceeds the wall-time limit is
//! replaced and the input is recorded. Child (`--child`): RLIMIT_AS, then per
//! input `mods::invoke_all` twice on the main thread and once on a second
//! thread (dumps must be equal), a scan with rules importing every module, and
//! for PE the section table with the (rva, offset) pairs visible in the output
//! (entry point, exports, resources) for comparison with Modules/Rva.v.
//! Boundary sweeps (`SWEEP` command of the child: one invocation per mutation,
//! only failures reported one by one): every repository sample as it is under
//! a tight time bound; every field located by the readers of ../c11/fields.rs
//! set to every boundary value; every offset of the small samples.
use std::io::{BufRead, BufReader, Read, Write};
use std::panic::AssertUnwindSafe;
use std::path::{Path, PathBuf};
use std::process::{Child, Command, Stdio};
use std::sync::mpsc;
use std::time::{Duration, Instant};
use verif_harness::util::*;
#[path = "../c11/fields.rs"]
mod fields;

const IMPORT_ALL: &str = "import \"pe\" import \"elf\" import \"macho\" import \"dotnet\" import \"lnk\" import \"dex\" import \"crx\" import \"olecf\" import \"msi\" import \"vba\" import \"zip\" import \"hash\" import \"math\"\nrule always { condition: true }\nrule pe_ep { condition: pe.is_pe and pe.entry_point >= 0 }\nrule elf_n { condition: elf.number_of_sections >= 0 }\nrule zip_n { condition: zip.is_zip and for any e in zip.entries : (e.uncompressed_size >= 0) }\n";

fn rss_kb() -> u64 { std::fs::read_to_string("/proc/self/statm").ok().and_then(|s| s.split(' ').nth(1).and_then(|x| x.parse::<u64>().ok())).map_or(0, |p| p * 4) }
fn hwm_kb() -> u64 { std::fs::read_to_string("/proc/self/status").ok().and_then(|s| s.lines().find(|l| l.starts_with("VmHWM:")).and_then(|l| l.split_whitespace().nth(1).and_then(|x| x.parse().ok()))).unwrap_or(0) }
fn fnv64(b: &[u8]) -> u64 { let mut h = 0xcbf29ce484222325u64; for x in b { h ^= *x as u64; h = h.wrapping_mul(0x100000001b3); } h }

// ---------------------------------------------------------------- child
fn child() -> i32 {
    quiet_panics();
    unsafe {
        let lim = libc::rlimit { rlim_cur: 3 << 30, rlim_max: 3 << 30 };
        libc::setrlimit(libc::RLIMIT_AS, &lim);
    }
    let rules = { let mut c = yara_x::Compiler::new(); match c.add_source(IMPORT_ALL) { Ok(_) => Some(c.build()), Err(e) => { println!("NOTE import-all rules rejected: {}", e.to_string().lines().next().unwrap_or("")); None } } };
    let stdin = std::io::stdin();
    let mut inp = stdin.lock();
    let out = std::io::stdout();
    loop {
        let mut hdr = String::new();
        if inp.read_line(&mut hdr).unwrap_or(0) == 0 { return 0; }
        let f: Vec<&str> = hdr.trim().split(' ').collect();
        if f.len() == 4 && f[0] == "SWEEP" {
            // SWEEP idx len nmut, the carrier, then nmut lines `off width big_endian value` (width 0: the carrier as it is).
            // One invocation per mutation under `catch`; only failures are reported one by one.
            let (idx, len, nmut): (usize, usize, usize) = (f[1].parse().unwrap(), f[2].parse().unwrap(), f[3].parse().unwrap());
            let mut data = vec![0u8; len];
            inp.read_exact(&mut data).unwrap();
            // off width big_endian value del_from del_to cut: write the value, delete [del_from, del_to), keep the first `cut` bytes (0: all)
            // (then groups of `off width big_endian value`: writes that ENABLE the field, applied first)
            let mut muts: Vec<(usize, usize, bool, u64, usize, usize, usize)> = Vec::with_capacity(nmut);
            let mut pres: Vec<Vec<(usize, usize, bool, u64)>> = Vec::with_capacity(nmut);
            for _ in 0..nmut { let mut l = String::new(); inp.read_line(&mut l).unwrap(); let g: Vec<&str> = l.trim().split(' ').collect();
                muts.push((g[0].parse().unwrap(), g[1].parse().unwrap(), g[2] == "1", g[3].parse().unwrap(), g[4].parse().unwrap(), g[5].parse().unwrap(), g[6].parse().unwrap()));
                pres.push(g[7..].chunks(4).filter(|c| c.len() == 4).map(|c| (c[0].parse().unwrap(), c[1].parse().unwrap(), c[2] == "1", c[3].parse().unwrap())).collect()); }
            let rss0 = hwm_kb().max(rss_kb());
            let bound_us = 4_000_000 + 60 * len as u128;
            let (mut n_panic, mut n_slow, mut max_us) = (0usize, 0usize, 0u128);
            let mut o = out.lock();
            for (k, (off, w, be, val, da, db, cut)) in muts.iter().enumerate() {
                writeln!(o, "AT {} {}", idx, k).unwrap(); o.flush().unwrap();
                let saved_pre: Vec<(usize, Vec<u8>)> = pres[k].iter().map(|(o, w, _, _)| (*o, data[*o..*o + *w].to_vec())).collect();
                for (po, pw, pbe, pv) in &pres[k] { fields::wr(&mut data, *po, *pw, *pbe, *pv); }
                let saved: Vec<u8> = data[*off..*off + *w].to_vec();
                if *w > 0 { fields::wr(&mut data, *off, *w, *be, *val); }
                let structural: Option<Vec<u8>> = if da < db || *cut > 0 { let mut v = data.clone(); if da < db { v.drain(*da..*db); } if *cut > 0 { v.truncate(*cut); } Some(v) } else { None };
                let input: &[u8] = structural.as_deref().unwrap_or(&data);
                let t = Instant::now();
                let r = catch(AssertUnwindSafe(|| { let m = yara_x::mods::invoke_all(input); drop(m); }));
                let us = t.elapsed().as_micros();
                drop(structural);
                data[*off..*off + *w].copy_from_slice(&saved);
                for (o, b) in saved_pre.iter().rev() { data[*o..*o + b.len()].copy_from_slice(b); }
                max_us = max_us.max(us);
                match r {
                    Ok(()) => { if us > bound_us { n_slow += 1; writeln!(o, "SWFAIL {} {} slow {}", idx, k, us).unwrap(); } }
                    Err(p) => { n_panic += 1; if n_panic <= 400 { writeln!(o, "SWFAIL {} {} panic {}", idx, k, p.lines().next().unwrap_or("").replace(' ', "_")).unwrap(); } }
                }
            }
            writeln!(o, "SWEND {} {} {} {} {} {}", idx, muts.len(), n_panic, n_slow, max_us, hwm_kb().max(rss_kb()).saturating_sub(rss0)).unwrap();
            o.flush().unwrap();
            continue;
        }
        if f.len() != 2 { return 0; }
        let (idx, len): (usize, usize) = (f[0].parse().unwrap(), f[1].parse().unwrap());
        let mut data = vec![0u8; len];
        inp.read_exact(&mut data).unwrap();
        { let mut o = out.lock(); writeln!(o, "BEGIN {}", idx).unwrap(); o.flush().unwrap(); }
        let t0 = Instant::now();
        let rss0 = rss_kb();
        let r = catch(AssertUnwindSafe(|| {
            let a = yara_x::mods::invoke_all(&data);
            let t_first = t0.elapsed();
            // peak resident memory reached during the call, over what was resident before it
            // (the parent replaces a child whose peak is already high, so an earlier peak does not mask this one)
            let rss_grow = hwm_kb().max(rss_kb()).saturating_sub(rss0);
            // no Debug rendering of the message: it is several times larger than the message itself
            struct Da; impl Da { fn len(&self) -> usize { 0 } }
            let da = Da;
            // hopelessly over the time bound already: do not repeat the call four more times
            if t_first.as_micros() > 4_000_000 + 60 * data.len() as u128 || rss_grow > 256 * 1024 + (256 * data.len() as u64) / 1024 {
                return (true, true, true, da.len() as u64, da.len(), t_first, String::new(), "skipped-after-slow-or-large-first-call".to_string(), rss_grow);
            }
            let b = yara_x::mods::invoke_all(&data);
            let same2 = *a == *b; // PartialEq: map fields compare as maps (their Debug order is per-instance)
            let d2 = data.clone();
            let dc = std::thread::Builder::new().stack_size(8 << 20).spawn(move || yara_x::mods::invoke_all(&d2)).unwrap().join();
            let same3 = match dc { Ok(c) => *c == *a, Err(_) => false };
            // through a scan importing every module, twice
            let scan = |d: &[u8]| -> String {
                match &rules { None => "no-rules".into(), Some(r) => { let mut s = yara_x::Scanner::new(r);
                    match s.scan(d) { Ok(res) => { let mut v: Vec<String> = res.matching_rules().map(|x| x.identifier().to_string()).collect(); v.sort(); v.join(",") } Err(e) => format!("ERR {}", e) } } }
            };
            let s1 = scan(&data); let s2 = scan(&data);
            // PE: section table and (rva, offset) pairs
            let mut pe_line = String::new();
            if let Some(pe) = a.pe.as_ref() {
                if pe.is_pe.unwrap_or(false) && !pe.sections.is_empty() {
                    let mut pairs: Vec<(u32, Option<u32>)> = vec![];
                    if let Some(raw) = pe.entry_point_raw { pairs.push((raw, pe.entry_point)); }
                    // forwarded exports (rva inside the export directory) carry no offset: leave them out
                    let (ex_va, ex_size) = pe.data_directories.first().map(|d| (d.virtual_address.unwrap_or(0), d.size.unwrap_or(0))).unwrap_or((0, 0));
                    for e in pe.export_details.iter().take(40) {
                        if let Some(rva) = e.rva {
                            let forwarded = (rva as u64) >= ex_va as u64 && (rva as u64) < ex_va as u64 + ex_size as u64;
                            if !forwarded && e.forward_name.is_none() && pairs.len() < 25 { pairs.push((rva, e.offset)); }
                        }
                    }
                    for r in pe.resources.iter().take(24) { if let Some(rva) = r.rva { pairs.push((rva, r.offset)); } }
                    pe_line = format!("PE {} {} {} {} {}", idx, pe.file_alignment.unwrap_or(0), pe.section_alignment.unwrap_or(0),
                        pe.sections.iter().map(|s| format!("{}:{}:{}:{}", s.virtual_address.unwrap_or(0), s.virtual_size.unwrap_or(0), s.raw_data_offset.unwrap_or(0), s.raw_data_size.unwrap_or(0))).collect::<Vec<_>>().join(","),
                        pairs.iter().map(|(r, o)| format!("{}:{}", r, o.map_or("-".to_string(), |x| x.to_string()))).collect::<Vec<_>>().join(","));
                }
            }
            if let Some(m) = a.macho.as_ref() {
                let n = m.exports.len() + m.file.iter().map(|f| f.exports.len()).sum::<usize>();
                let bytes: usize = m.exports.iter().map(|e| e.len()).sum();
                if n > 0 { if !pe_line.is_empty() { pe_line.push('\n'); } pe_line.push_str(&format!("MX {} {} {}", idx, n, bytes)); }
            }
            // PE overlay: sections' raw ranges, file length, reported overlay
            if let Some(pe) = a.pe.as_ref() {
                if pe.is_pe.unwrap_or(false) {
                    if let Some(ov) = pe.overlay.as_ref() {
                        if !pe_line.is_empty() { pe_line.push('\n'); }
                        pe_line.push_str(&format!("OV {} {} {} {} {}", idx, data.len(), ov.offset.unwrap_or(0), ov.size.unwrap_or(0),
                            pe.sections.iter().map(|s| format!("{}:{}", s.raw_data_offset.unwrap_or(0), s.raw_data_size.unwrap_or(0))).collect::<Vec<_>>().join(",")));
                    }
                }
            }
            // ELF: entry point conversion on the segments / sections of the same file
            if let Some(elf) = a.elf.as_ref() {
                if data.len() >= 0x40 && data.starts_with(b"\x7fELF") && elf.type_.is_some() {
                    let is64 = data[4] == 2; let le = data[5] == 1;
                    let rd = |o: usize, n: usize| -> u64 { let mut v = 0u64; for i in 0..n { let b = data[o + if le { n - 1 - i } else { i }] as u64; v = (v << 8) | b; } v };
                    let entry = if is64 { rd(0x18, 8) } else { rd(0x18, 4) };
                    let shnum = if is64 { rd(0x3c, 2) } else { rd(0x30, 2) };
                    if entry != 0 && shnum < 0xff00 {
                        use yara_x::mods::elf::Type;
                        let exe = matches!(elf.type_.unwrap().enum_value(), Ok(Type::ET_EXEC) | Ok(Type::ET_DYN));
                        if !pe_line.is_empty() { pe_line.push('\n'); }
                        pe_line.push_str(&format!("ELF {} {} {} {} {} {}", idx, exe as u8, entry, elf.entry_point.map_or("-".to_string(), |x| x.to_string()),
                            elf.segments.iter().take(40).map(|s| format!("{}:{}:{}", s.offset.unwrap_or(0), s.virtual_address.unwrap_or(0), s.memory_size.unwrap_or(0))).collect::<Vec<_>>().join(","),
                            elf.sections.iter().take(60).map(|s| format!("{}:{}:{}:{}", s.type_.map_or(0, |t| t.value()), s.address.unwrap_or(0), s.offset.unwrap_or(0), s.size.unwrap_or(0))).collect::<Vec<_>>().join(",")));
                        if elf.segments.len() > 40 || elf.sections.len() > 60 { pe_line = pe_line.lines().filter(|l| !l.starts_with("ELF ")).collect::<Vec<_>>().join("\n"); }
                    }
                }
            }
            (same2, same3, s1 == s2 && !s1.starts_with("ERR"), da.len() as u64, da.len(), t_first, pe_line, s1, rss_grow)
        }));
        let mut o = out.lock();
        match r {
            Ok((same2, same3, scan_ok, h, dl, t_first, pe_line, s1, rss_grow)) => {
                if !pe_line.is_empty() { writeln!(o, "{}", pe_line).unwrap(); }
                writeln!(o, "END {} ok {} {} {} {} {} {} {} {} {}", idx, same2 as u8, same3 as u8, scan_ok as u8, t_first.as_micros(), t0.elapsed().as_micros(), h, dl, if s1.is_empty() { "-" } else { &s1 }, rss_grow).unwrap();
            }
            Err(p) => { writeln!(o, "END {} panic {}", idx, p.lines().next().unwrap_or("").replace(' ', "_")).unwrap(); }
        }
        o.flush().unwrap();
    }
}

// ---------------------------------------------------------------- corpus
struct Input { label: String, class: &'static str, data: Vec<u8>, max_exports: Option<usize> }

fn le32(d: &[u8], o: usize) -> Option<u32> { d.get(o..o + 4).map(|b| u32::from_le_bytes([b[0], b[1], b[2], b[3]])) }
fn le16(d: &[u8], o: usize) -> Option<u16> { d.get(o..o + 2).map(|b| u16::from_le_bytes([b[0], b[1]])) }

/// offsets of count / offset / size fields worth mutating, by format
fn field_offsets(d: &[u8]) -> Vec<(usize, usize)> {
    let mut v: Vec<(usize, usize)> = vec![];
    if d.starts_with(b"MZ") {
        v.push((0x3c, 4));
        if let Some(pe) = le32(d, 0x3c) { let pe = pe as usize;
            if d.get(pe..pe + 4) == Some(b"PE\0\0") {
                v.push((pe + 6, 2)); v.push((pe + 12, 4)); v.push((pe + 16, 4)); v.push((pe + 20, 2));
                let opt = pe + 24; let pe32p = le16(d, opt) == Some(0x20b);
                v.push((opt + 16, 4)); v.push((opt + 32, 4)); v.push((opt + 36, 4)); v.push((opt + 56, 4)); v.push((opt + 60, 4));
                let nrva = opt + if pe32p { 108 } else { 92 }; v.push((nrva, 4));
                for i in 0..16 { v.push((nrva + 4 + 8 * i, 4)); v.push((nrva + 8 + 8 * i, 4)); }
                let soh = le16(d, pe + 20).unwrap_or(0) as usize; let nsec = le16(d, pe + 6).unwrap_or(0).min(12) as usize;
                for s in 0..nsec { let b = opt + soh + 40 * s; for o in [8usize, 12, 16, 20] { v.push((b + o, 4)); } }
            } }
    } else if d.starts_with(b"\x7fELF") {
        let is64 = d.get(4) == Some(&2);
        if is64 { for o in [0x20usize, 0x28] { v.push((o, 8)); } for o in [0x34usize, 0x36, 0x38, 0x3a, 0x3c, 0x3e] { v.push((o, 2)); }
                  if let Some(sh) = d.get(0x28..0x30) { let sh = u64::from_le_bytes(sh.try_into().unwrap()) as usize; for s in 0..6 { for o in [0x18usize, 0x20, 0x28, 0x38] { v.push((sh.saturating_add(64 * s + o), 8)); } } } }
        else { for o in [0x1cusize, 0x20] { v.push((o, 4)); } for o in [0x28usize, 0x2a, 0x2c, 0x2e, 0x30, 0x32] { v.push((o, 2)); } }
    } else if d.len() >= 4 && (d[..4] == [0xcf, 0xfa, 0xed, 0xfe] || d[..4] == [0xce, 0xfa, 0xed, 0xfe] || d[..4] == [0xca, 0xfe, 0xba, 0xbe]) {
        for o in [4usize, 8, 12, 16, 20, 24, 28, 32, 36, 40, 44, 48] { v.push((o, 4)); }
    } else if d.starts_with(&[0x4c, 0, 0, 0]) { for o in [0x14usize, 0x34, 0x4c, 0x4e, 0x50] { v.push((o, 4)); } v.push((0x4c, 2)); }
    else if d.starts_with(b"dex\n") { for o in (0x20usize..0x70).step_by(4) { v.push((o, 4)); } }
    else if d.starts_with(b"Cr24") { for o in [4usize, 8, 12] { v.push((o, 4)); } }
    else if d.starts_with(&[0xd0, 0xcf, 0x11, 0xe0]) { for o in [0x1eusize, 0x20] { v.push((o, 2)); } for o in (0x2cusize..0x4c).step_by(4) { v.push((o, 4)); } }
    else if d.starts_with(b"PK") { for o in [18usize, 22, 26, 28] { v.push((o, 4)); }
        if d.len() > 22 { let e = d.len() - 22; for o in [8usize, 10, 12, 16] { v.push((e + o, 4)); } } }
    v.retain(|(o, w)| o + w <= d.len());
    v
}

fn mutate_field(d: &[u8], off: usize, w: usize, which: u64) -> Vec<u8> {
    let mut m = d.to_vec();
    let val: u64 = match which { 0 => 0, 1 => 1, 2 => u64::MAX, 3 => d.len() as u64, 4 => d.len() as u64 + 1, 5 => (d.len() as u64).saturating_sub(1), 6 => 0x7fff_ffff, _ => off as u64 /* self-reference */ };
    let bytes = val.to_le_bytes();
    m[off..off + w].copy_from_slice(&bytes[..w]);
    m
}

/// a PE whose resource directory is a two-node graph: the root's `e` entries
/// point to directory D, D's `e` sub-directory entries point to D itself
fn rsrc_bomb(e: usize) -> Vec<u8> {
    let rsrc_len = (2 * (16 + 8 * e) + 0x1ff) & !0x1ff;
    let mut d = vec![0u8; 0x400 + rsrc_len];
    d[0] = b'M'; d[1] = b'Z'; d[0x3c] = 0x80;
    let pe = 0x80; d[pe..pe + 4].copy_from_slice(b"PE\0\0");
    d[pe + 4..pe + 6].copy_from_slice(&0x14cu16.to_le_bytes()); d[pe + 6..pe + 8].copy_from_slice(&1u16.to_le_bytes());
    d[pe + 20..pe + 22].copy_from_slice(&0xe0u16.to_le_bytes()); d[pe + 22..pe + 24].copy_from_slice(&0x102u16.to_le_bytes());
    let opt = pe + 24; d[opt..opt + 2].copy_from_slice(&0x10bu16.to_le_bytes());
    d[opt + 16..opt + 20].copy_from_slice(&0x1000u32.to_le_bytes()); // entry point
    d[opt + 28..opt + 32].copy_from_slice(&0x400000u32.to_le_bytes());
    d[opt + 32..opt + 36].copy_from_slice(&0x1000u32.to_le_bytes()); d[opt + 36..opt + 40].copy_from_slice(&0x200u32.to_le_bytes());
    d[opt + 56..opt + 60].copy_from_slice(&((0x1000 + rsrc_len as u32 + 0xfff) & !0xfff).to_le_bytes());
    d[opt + 60..opt + 64].copy_from_slice(&0x400u32.to_le_bytes());
    d[opt + 92..opt + 96].copy_from_slice(&16u32.to_le_bytes());
    let dd = opt + 96 + 8 * 2; // IMAGE_DIRECTORY_ENTRY_RESOURCE
    d[dd..dd + 4].copy_from_slice(&0x1000u32.to_le_bytes()); d[dd + 4..dd + 8].copy_from_slice(&(rsrc_len as u32).to_le_bytes());
    let sh = opt + 0xe0; d[sh..sh + 5].copy_from_slice(b".rsrc");
    d[sh + 8..sh + 12].copy_from_slice(&(rsrc_len as u32).to_le_bytes()); d[sh + 12..sh + 16].copy_from_slice(&0x1000u32.to_le_bytes());
    d[sh + 16..sh + 20].copy_from_slice(&(rsrc_len as u32).to_le_bytes()); d[sh + 20..sh + 24].copy_from_slice(&0x400u32.to_le_bytes());
    d[sh + 36..sh + 40].copy_from_slice(&0x40000040u32.to_le_bytes());
    let r = 0x400; let dir2 = 16 + 8 * e;
    for base in [0usize, dir2] {
        d[r + base + 14..r + base + 16].copy_from_slice(&(e as u16).to_le_bytes()); // number_of_id_entries
        for i in 0..e {
            let o = r + base + 16 + 8 * i;
            d[o..o + 4].copy_from_slice(&(i as u32 + 1).to_le_bytes());
            d[o + 4..o + 8].copy_from_slice(&(0x80000000u32 | dir2 as u32).to_le_bytes());
        }
    }
    d
}

/// ELF64 with n symbols whose names all start at the same offset of a string
/// table that holds one l-byte string: every name is read up to the NUL
fn elf_names_bomb(n: usize, l: usize) -> Vec<u8> {
    let mut d = b"\x7fELF\x02\x01\x01\x00".to_vec(); d.extend_from_slice(&[0u8; 8]);
    for (v, w) in [(2u64, 2), (62, 2), (1, 4), (0, 8), (0, 8), (64, 8), (0, 4), (64, 2), (56, 2), (0, 2), (64, 2), (3, 2), (0, 2)] { d.extend_from_slice(&v.to_le_bytes()[..w]); }
    let sym_off = 64 + 3 * 64; let str_off = sym_off + n * 24;
    let sh = |typ: u32, off: usize, size: usize, link: u32, d: &mut Vec<u8>| {
        d.extend_from_slice(&0u32.to_le_bytes()); d.extend_from_slice(&typ.to_le_bytes());
        for v in [0u64, 0, off as u64, size as u64] { d.extend_from_slice(&v.to_le_bytes()); }
        d.extend_from_slice(&link.to_le_bytes()); d.extend_from_slice(&0u32.to_le_bytes());
        for v in [0u64, 24] { d.extend_from_slice(&v.to_le_bytes()); }
    };
    d.extend_from_slice(&[0u8; 64]); sh(2, sym_off, n * 24, 2, &mut d); sh(3, str_off, l + 1, 0, &mut d);
    for _ in 0..n { d.extend_from_slice(&0u32.to_le_bytes()); d.extend_from_slice(&[0x12, 0, 1, 0]); d.extend_from_slice(&0x1000u64.to_le_bytes()); d.extend_from_slice(&8u64.to_le_bytes()); }
    d.extend(std::iter::repeat(b'A').take(l)); d.push(0);
    d
}
/// Mach-O 64 with LC_DYLD_CHAINED_FIXUPS: n imports whose name offset is 0 in a
/// symbol pool holding one l-byte string
fn macho_fixups_bomb(n: usize, l: usize) -> Vec<u8> {
    let mut d = vec![];
    for v in [0xfeedfacfu32, 0x01000007, 3, 2, 1, 16, 0, 0] { d.extend_from_slice(&v.to_le_bytes()); }
    let mut fix = vec![];
    for v in [0u32, 0, 28, 28 + 4 * n as u32, n as u32, 1, 0] { fix.extend_from_slice(&v.to_le_bytes()); }
    fix.extend(std::iter::repeat(0u8).take(4 * n)); fix.extend(std::iter::repeat(b'B').take(l)); fix.push(0);
    for v in [0x80000034u32, 16, 48, fix.len() as u32] { d.extend_from_slice(&v.to_le_bytes()); }
    d.extend_from_slice(&fix);
    d
}
/// Mach-O 64 with LC_SYMTAB: n nlist_64 entries with n_strx = 0, one l-byte string
fn macho_symtab_bomb(n: usize, l: usize) -> Vec<u8> {
    let mut d = vec![];
    for v in [0xfeedfacfu32, 0x01000007, 3, 2, 1, 24, 0, 0] { d.extend_from_slice(&v.to_le_bytes()); }
    let symoff = 32 + 24; let stroff = symoff + 16 * n;
    for v in [2u32, 24, symoff as u32, n as u32, stroff as u32, l as u32 + 1] { d.extend_from_slice(&v.to_le_bytes()); }
    for _ in 0..n { d.extend_from_slice(&0u32.to_le_bytes()); d.extend_from_slice(&[0x0f, 1, 0, 0]); d.extend_from_slice(&0x1000u64.to_le_bytes()); }
    d.extend(std::iter::repeat(b'C').take(l)); d.push(0);
    d
}

/// Mach-O 64 with LC_DYLD_EXPORTS_TRIE whose trie is the given graph: node i
/// has the edges (label, target node); every node is terminal.
fn macho_trie(nodes: &[Vec<(Vec<u8>, usize)>]) -> Vec<u8> {
    // fixed-size encoding: terminal info `02 00 00`, edge count, per edge label NUL + 3-byte uleb offset
    let mut offs = vec![]; let mut o = 0usize;
    for n in nodes { offs.push(o); o += 4 + n.iter().map(|(l, _)| l.len() + 4).sum::<usize>(); }
    let mut t = vec![];
    for n in nodes {
        t.extend_from_slice(&[2, 0, 0, n.len() as u8]);
        for (l, tgt) in n { t.extend_from_slice(l); t.push(0); let x = offs[*tgt]; t.push((x & 0x7f) as u8 | 0x80); t.push((x >> 7) as u8 & 0x7f | 0x80); t.push((x >> 14) as u8 & 0x7f); }
    }
    let mut d = vec![];
    for v in [0xfeedfacfu32, 0x01000007, 3, 2, 1, 16, 0, 0] { d.extend_from_slice(&v.to_le_bytes()); }
    for v in [0x80000033u32, 16, 48, t.len() as u32] { d.extend_from_slice(&v.to_le_bytes()); }
    d.extend_from_slice(&t);
    d
}
fn trie_inputs(rng: &mut Rng, big: bool) -> Vec<Input> {
    let mut v = vec![];
    let mut add = |label: String, nodes: Vec<Vec<(Vec<u8>, usize)>>| {
        let n = nodes.len();
        v.push(Input { label, class: "macho-export-trie-graph", data: macho_trie(&nodes), max_exports: Some(n) });
    };
    // a proper tree (baseline)
    add("trie:tree:7".into(), (0..7).map(|i| if i < 3 { vec![(b"l".to_vec(), 2 * i + 1), (b"r".to_vec(), 2 * i + 2)] } else { vec![] }).collect());
    // diamonds: both edges of node i point to node i + 1
    for k in if big { vec![4usize, 12, 17, 22, 40] } else { vec![4usize, 17, 22] } {
        for empty in [false, true] {
            let lab = |c: u8| if empty { vec![] } else { vec![c] };
            add(format!("trie:diamond:k={}:{}", k, if empty { "empty-labels" } else { "labels" }),
                (0..=k).map(|i| if i < k { vec![(lab(b'a'), i + 1), (lab(b'b'), i + 1)] } else { vec![] }).collect());
        }
    }
    // cycles: back edge to the root, to an earlier node, to itself; with and without labels
    for (name, back) in [("root", 0usize), ("earlier", 2), ("self", usize::MAX)] {
        for empty in [false, true] {
            let n = 6usize;
            let nodes = (0..n).map(|i| {
                let mut e = vec![];
                if i + 1 < n { e.push((b"n".to_vec(), i + 1)); }
                if i >= 2 { e.push((if empty { vec![] } else { b"x".to_vec() }, if back == usize::MAX { i } else { back })); }
                e
            }).collect();
            add(format!("trie:cycle:{}:{}", name, if empty { "empty-label" } else { "label" }), nodes);
        }
    }
    // random graphs
    for r in 0..(if big { 40 } else { 8 }) {
        let n = 2 + rng.below(14) as usize;
        let nodes = (0..n).map(|_| (0..rng.below(4)).map(|_| ((0..rng.below(3)).map(|_| b'a' + rng.below(3) as u8).collect(), rng.below(n as u64) as usize)).collect()).collect();
        add(format!("trie:random:{}", r), nodes);
    }
    // a long chain: the accumulated prefix grows with the depth
    for (n, l) in if big { vec![(100usize, 8usize), (2000, 4), (6000, 1), (40000, 1)] } else { vec![(100usize, 8usize), (2000, 4), (40000, 1)] } {
        add(format!("trie:chain:n={},l={}", n, l), (0..n).map(|i| if i + 1 < n { vec![(vec![b'c'; l], i + 1)] } else { vec![] }).collect());
    }
    v
}

fn build_corpus(samples: &[(String, Vec<u8>)], rng: &mut Rng, n_trunc: usize, n_field: usize, bomb: &[usize], names: &[(usize, usize)]) -> Vec<Input> {
    let mut v: Vec<Input> = vec![];
    v.push(Input { label: "empty".into(), class: "sample", data: vec![], max_exports: None });
    for (name, d) in samples {
        v.push(Input { label: name.clone(), class: "sample", data: d.clone(), max_exports: None });
        // truncations at sampled boundaries (header region densely, then spread)
        for k in 0..n_trunc {
            let cut = if k % 2 == 0 { rng.below(d.len().min(1024) as u64 + 1) as usize } else { rng.below(d.len() as u64 + 1) as usize };
            v.push(Input { label: format!("{}|trunc@{}", name, cut), class: "truncation", data: d[..cut].to_vec(), max_exports: None });
        }
        let fo = field_offsets(d);
        for _ in 0..n_field {
            if fo.is_empty() { break; }
            let (o, w) = *rng.pick(&fo); let which = rng.below(8);
            v.push(Input { label: format!("{}|field@{:#x}/{}={}", name, o, w, which), class: "field-mutation", data: mutate_field(d, o, w, which), max_exports: None });
        }
    }
    // cross-format splices
    let ns = samples.len();
    if ns >= 2 {
        for _ in 0..(ns * 2).min(60) {
            let (an, a) = &samples[rng.below(ns as u64) as usize]; let (bn, b) = &samples[rng.below(ns as u64) as usize];
            let ca = rng.below(a.len().min(4096) as u64 + 1) as usize; let cb = rng.below(b.len() as u64 + 1) as usize;
            let mut d = a[..ca].to_vec(); d.extend_from_slice(&b[cb.min(b.len())..(cb + 65536).min(b.len())]);
            v.push(Input { label: format!("{}[..{}]+{}[{}..]", an, ca, bn, cb), class: "splice", data: d, max_exports: None });
        }
    }
    // random bytes behind valid magics
    let magics: [&[u8]; 12] = [b"MZ", b"\x7fELF\x02\x01\x01", b"\x7fELF\x01\x01\x01", &[0xcf, 0xfa, 0xed, 0xfe], &[0xca, 0xfe, 0xba, 0xbe], &[0x4c, 0, 0, 0, 1, 0x14, 2, 0, 0, 0, 0, 0, 0xc0, 0, 0, 0, 0, 0, 0, 0x46],
        b"dex\n035\0", b"Cr24\x03\0\0\0", &[0xd0, 0xcf, 0x11, 0xe0, 0xa1, 0xb1, 0x1a, 0xe1], b"PK\x03\x04", b"PK\x05\x06", b"BSJB"];
    for m in magics.iter() {
        for _ in 0..4 {
            let n = *rng.pick(&[16usize, 64, 300, 2000]);
            let mut d = m.to_vec();
            let small = rng.chance(1, 2);
            d.extend((0..n).map(|_| if small { (rng.below(4) as u8) * (rng.below(3) as u8) } else { rng.below(256) as u8 }));
            if m.starts_with(b"MZ") && d.len() > 0x44 { d[0x3c..0x40].copy_from_slice(&0x40u32.to_le_bytes()); d[0x40..0x44].copy_from_slice(b"PE\0\0"); }
            v.push(Input { label: format!("magic:{}+{}{}", hex(&m[..m.len().min(4)]), n, if small { "s" } else { "r" }), class: "magic+random", data: d, max_exports: None });
        }
    }
    for e in bomb { v.push(Input { label: format!("rsrc-self-reference:e={}", e), class: "self-referential-table", data: rsrc_bomb(*e), max_exports: None }); }
    v.extend(trie_inputs(rng, n_trunc > 32));
    v.extend(amplification_inputs(n_trunc > 32));
    // OLE/CF: FAT entries rewired into cycles / joins
    for (name, d) in samples.iter().filter(|(_, d)| d.starts_with(&[0xd0, 0xcf, 0x11, 0xe0]) && d.len() > 1024) {
        let ssz = 1usize << (le16(d, 0x1e).unwrap_or(9).min(12) as usize);
        if let Some(fat) = le32(d, 0x4c) {
            let base = (fat as usize + 1).saturating_mul(ssz);
            if base + ssz <= d.len() {
                for k in 0..(n_field / 2).max(2) {
                    let mut m = d.clone();
                    for _ in 0..1 + rng.below(6) {
                        let i = rng.below((ssz / 4) as u64) as usize;
                        let tgt: u32 = match rng.below(4) { 0 => i as u32, 1 => 0, 2 => rng.below(i as u64 + 1) as u32, _ => rng.below((ssz / 4) as u64) as u32 };
                        m[base + 4 * i..base + 4 * i + 4].copy_from_slice(&tgt.to_le_bytes());
                    }
                    v.push(Input { label: format!("{}|fat-rewire#{}", name, k), class: "graph-rewire", data: m, max_exports: None });
                }
            }
        }
    }
    // ELF: cross references between sections (sh_link / sh_info) rewired
    for (name, d) in samples.iter().filter(|(_, d)| d.starts_with(b"\x7fELF") && d.len() > 0x40 && d[4] == 2 && d[5] == 1) {
        let shoff = u64::from_le_bytes(d[0x28..0x30].try_into().unwrap()) as usize;
        let shnum = le16(d, 0x3c).unwrap_or(0) as usize;
        if shnum == 0 || shoff.saturating_add(64 * shnum) > d.len() { continue; }
        for k in 0..(n_field / 2).max(2) {
            let mut m = d.clone();
            for _ in 0..1 + rng.below(4) {
                let s0 = rng.below(shnum as u64) as usize; let fld = if rng.chance(1, 2) { 0x28 } else { 0x2c };
                let tgt = match rng.below(3) { 0 => s0 as u32, 1 => rng.below(shnum as u64) as u32, _ => shnum as u32 + rng.below(3) as u32 };
                m[shoff + 64 * s0 + fld..shoff + 64 * s0 + fld + 4].copy_from_slice(&tgt.to_le_bytes());
            }
            v.push(Input { label: format!("{}|sh-link-rewire#{}", name, k), class: "graph-rewire", data: m, max_exports: None });
        }
    }
    // many table entries that share one long NUL-terminated name
    for (n, l) in names {
        v.push(Input { label: format!("elf-symbol-names:n={},l={}", n, l), class: "elf-symbol-names", data: elf_names_bomb(*n, *l), max_exports: None });
        v.push(Input { label: format!("macho-fixups-names:n={},l={}", n, l), class: "macho-fixups-names", data: macho_fixups_bomb(*n, *l), max_exports: None });
        v.push(Input { label: format!("macho-symtab-names:n={},l={}", n, l), class: "macho-symtab-names", data: macho_symtab_bomb(*n, *l), max_exports: None });
    }
    v
}

// ---------------------------------------------------------------- parent
struct Kid { child: Child, rx: mpsc::Receiver<String> }
fn spawn_kid() -> Kid {
    let mut child = Command::new(std::env::current_exe().unwrap()).arg("--child").stdin(Stdio::piped()).stdout(Stdio::piped()).stderr(if std::env::var("C11_DIFF").is_ok() { Stdio::inherit() } else { Stdio::null() }).spawn().unwrap();
    let out = child.stdout.take().unwrap();
    let (tx, rx) = mpsc::channel();
    std::thread::spawn(move || { for l in BufReader::new(out).lines() { match l { Ok(l) => { if tx.send(l).is_err() { break; } } Err(_) => break } } });
    Kid { child, rx }
}

#[derive(Default, Clone)]
struct Res { rss_kb: u64, status: String, same2: bool, same3: bool, scan_ok: bool, t_first_us: u128, t_all_us: u128, hash: u64, pe: Option<String>, extra: Vec<String>, detail: String }

fn run_one(kid: &mut Option<Kid>, idx: usize, data: &[u8], limit: Duration) -> Res {
    if kid.is_none() { *kid = Some(spawn_kid()); }
    let k = kid.as_mut().unwrap();
    let mut r = Res::default();
    let sent = { let si = k.child.stdin.as_mut().unwrap(); si.write_all(format!("{} {}\n", idx, data.len()).as_bytes()).and_then(|_| si.write_all(data)).and_then(|_| si.flush()) };
    if sent.is_err() { let _ = k.child.kill(); let _ = k.child.wait(); *kid = None; r.status = "child-gone".into(); return r; }
    let t0 = Instant::now();
    loop {
        let left = limit.checked_sub(t0.elapsed()).unwrap_or(Duration::ZERO);
        match k.rx.recv_timeout(left) {
            Ok(l) => {
                if l.starts_with("PE ") { r.pe = Some(l); }
                else if l.starts_with("OV ") || l.starts_with("ELF ") || l.starts_with("MX ") { r.extra.push(l); }
                else if let Some(rest) = l.strip_prefix(&format!("END {} ", idx)) {
                    let f: Vec<&str> = rest.split(' ').collect();
                    if f[0] == "ok" { r.status = "ok".into(); r.same2 = f[1] == "1"; r.same3 = f[2] == "1"; r.scan_ok = f[3] == "1";
                        r.t_first_us = f[4].parse().unwrap_or(0); r.t_all_us = f[5].parse().unwrap_or(0); r.hash = f[6].parse().unwrap_or(0); r.detail = f.get(8).unwrap_or(&"").to_string(); r.rss_kb = f.get(9).and_then(|x| x.parse().ok()).unwrap_or(0); }
                    else { r.status = "panic".into(); r.detail = f[1..].join(" "); }
                    if r.rss_kb > 128 * 1024 { drop(k.child.stdin.take()); let _ = k.child.wait(); *kid = None; }
                    return r;
                }
            }
            Err(mpsc::RecvTimeoutError::Timeout) => {
                let _ = k.child.kill(); let _ = k.child.wait(); *kid = None;
                r.status = "timeout".into(); r.t_all_us = t0.elapsed().as_micros(); return r;
            }
            Err(mpsc::RecvTimeoutError::Disconnected) => {
                let st = k.child.wait().ok();
                *kid = None;
                r.status = "crash".into(); r.detail = format!("{:?}", st); r.t_all_us = t0.elapsed().as_micros(); return r;
            }
        }
    }
}



// ---------------------------------------------------------------- amplification: N references to ONE large item
/// DEX: one `strlen`-byte string, one type, one proto whose type list has `n_params` entries of that
/// type, `n_methods` method_ids using that proto (every method carries a copy of the whole proto)
fn dex_methods_bomb(n_methods: u32, n_params: u32, strlen: usize) -> Vec<u8> {
    let mut f = vec![0u8; 0x70];
    let string_ids_off = 0x70u32; let type_ids_off = string_ids_off + 4; let proto_ids_off = type_ids_off + 4;
    let method_ids_off = proto_ids_off + 12; let type_list_off = method_ids_off + 8 * n_methods;
    let string_data_off = (type_list_off + 4 + 2 * n_params + 3) & !3;
    f.extend_from_slice(&string_data_off.to_le_bytes());
    f.extend_from_slice(&0u32.to_le_bytes());
    for v in [0u32, 0, type_list_off] { f.extend_from_slice(&v.to_le_bytes()); }
    for _ in 0..n_methods { f.extend_from_slice(&[0u8; 8]); }
    f.extend_from_slice(&n_params.to_le_bytes());
    for _ in 0..n_params { f.extend_from_slice(&0u16.to_le_bytes()); }
    while (f.len() as u32) < string_data_off { f.push(0); }
    f.extend_from_slice(&enc_uleb(strlen as u64));
    f.extend(std::iter::repeat(b'A').take(strlen)); f.push(0);
    let file_size = f.len() as u32;
    f[0..8].copy_from_slice(b"dex\n035\0");
    for (o, v) in [(0x20usize, file_size), (0x24, 0x70), (0x28, 0x12345678), (0x38, 1), (0x3c, string_ids_off), (0x40, 1), (0x44, type_ids_off), (0x48, 1), (0x4c, proto_ids_off), (0x58, n_methods), (0x5c, method_ids_off)] {
        f[o..o + 4].copy_from_slice(&v.to_le_bytes());
    }
    f
}
/// ELF64 with `n` PT_DYNAMIC program headers that all cover the same `m` (tag, value) pairs
fn elf_dynamic_bomb(n: u16, m: usize) -> Vec<u8> {
    let mut f = b"\x7fELF\x02\x01\x01\x00".to_vec(); f.extend_from_slice(&[0u8; 8]);
    for (v, w) in [(2u64, 2), (62, 2), (1, 4), (0, 8), (64, 8), (0, 8), (0, 4), (64, 2), (56, 2), (n as u64, 2), (64, 2), (0, 2), (0, 2)] { f.extend_from_slice(&v.to_le_bytes()[..w]); }
    let dyn_off = 64 + 56 * n as u64;
    for _ in 0..n { f.extend_from_slice(&2u32.to_le_bytes()); f.extend_from_slice(&0u32.to_le_bytes()); for v in [dyn_off, 0, 0, (m * 16) as u64, (m * 16) as u64, 8] { f.extend_from_slice(&v.to_le_bytes()); } }
    for i in 0..m { f.extend_from_slice(&((i + 1) as u64).to_le_bytes()); f.extend_from_slice(&0u64.to_le_bytes()); }
    f
}
/// ZIP with one deflated member `name` that inflates to `mib` MiB of zeros
fn zip_deflate_bomb(name: &[u8], mib: usize) -> Vec<u8> {
    use std::io::Write as _;
    let mut enc = flate2::write::DeflateEncoder::new(Vec::new(), flate2::Compression::default());
    let chunk = vec![0u8; 1 << 20];
    for _ in 0..mib { enc.write_all(&chunk).unwrap(); }
    let body = enc.finish().unwrap();
    let usize_ = (mib as u64) << 20;
    let mut d = vec![];
    d.extend_from_slice(b"PK\x03\x04"); for v in [20u16, 0, 8, 0x6000, 0x5821] { d.extend_from_slice(&v.to_le_bytes()); }
    for v in [0u32, body.len() as u32, usize_ as u32] { d.extend_from_slice(&v.to_le_bytes()); }
    d.extend_from_slice(&(name.len() as u16).to_le_bytes()); d.extend_from_slice(&0u16.to_le_bytes()); d.extend_from_slice(name); d.extend_from_slice(&body);
    let cdo = d.len() as u32;
    d.extend_from_slice(b"PK\x01\x02"); for v in [0x031eu16, 20, 0, 8, 0x6000, 0x5821] { d.extend_from_slice(&v.to_le_bytes()); }
    for v in [0u32, body.len() as u32, usize_ as u32] { d.extend_from_slice(&v.to_le_bytes()); }
    for v in [name.len() as u16, 0, 0, 0, 0] { d.extend_from_slice(&v.to_le_bytes()); }
    d.extend_from_slice(&0u32.to_le_bytes()); d.extend_from_slice(&0u32.to_le_bytes()); d.extend_from_slice(name);
    let cdl = d.len() as u32 - cdo;
    d.extend_from_slice(b"PK\x05\x06"); for v in [0u16, 0, 1, 1] { d.extend_from_slice(&v.to_le_bytes()); }
    d.extend_from_slice(&cdl.to_le_bytes()); d.extend_from_slice(&cdo.to_le_bytes()); d.extend_from_slice(&0u16.to_le_bytes());
    d
}
/// OLE/CF (512-byte sectors) whose directory chain runs through `n` sectors: FAT entry i -> i + 1
fn olecf_long_directory_chain(n: usize) -> Vec<u8> {
    let per = 128usize; // FAT entries per sector
    let nfat = (n + per - 1) / per + 1;
    let total = nfat + n;
    let mut d = vec![0u8; 512 * (1 + total)];
    d[..8].copy_from_slice(&[0xd0, 0xcf, 0x11, 0xe0, 0xa1, 0xb1, 0x1a, 0xe1]);
    for (o, v) in [(0x18usize, 0x3eu16), (0x1a, 3), (0x1c, 0xfffe), (0x1e, 9), (0x20, 6)] { d[o..o + 2].copy_from_slice(&v.to_le_bytes()); }
    for (o, v) in [(0x2cusize, nfat as u32), (0x30, nfat as u32), (0x38, 0x1000), (0x3c, 0xffff_fffe), (0x40, 0), (0x44, 0xffff_fffe), (0x48, 0)] { d[o..o + 4].copy_from_slice(&v.to_le_bytes()); }
    for i in 0..109 { let v: u32 = if i < nfat { i as u32 } else { 0xffff_ffff }; d[0x4c + 4 * i..0x50 + 4 * i].copy_from_slice(&v.to_le_bytes()); }
    let fat = |d: &mut Vec<u8>, i: usize, v: u32| { let o = 512 + 4 * i; if o + 4 <= 512 * (1 + nfat.min(109)) { d[o..o + 4].copy_from_slice(&v.to_le_bytes()); } };
    for i in 0..nfat { fat(&mut d, i, 0xffff_fffd); }
    for i in 0..n { let s = nfat + i; fat(&mut d, s, if i + 1 < n { (s + 1) as u32 } else { 0xffff_fffe }); }
    // root entry in the first directory sector
    let r = 512 * (1 + nfat);
    for (i, c) in "Root Entry".encode_utf16().enumerate() { d[r + 2 * i..r + 2 * i + 2].copy_from_slice(&c.to_le_bytes()); }
    d[r + 0x40..r + 0x42].copy_from_slice(&22u16.to_le_bytes()); d[r + 0x42] = 5; d[r + 0x43] = 1;
    for o in [0x44usize, 0x48, 0x4c] { d[r + o..r + o + 4].copy_from_slice(&0xffff_ffffu32.to_le_bytes()); }
    d[r + 0x74..r + 0x78].copy_from_slice(&0xffff_fffeu32.to_le_bytes());
    d
}
fn amplification_inputs(big: bool) -> Vec<Input> {
    let mut v = vec![];
    let mut add = |label: String, class: &'static str, data: Vec<u8>| v.push(Input { label, class, data, max_exports: None });
    for (m, p, l) in if big { vec![(50u32, 16u32, 4000usize), (200, 255, 60_000), (2000, 255, 20_000), (400, 64, 200_000)] } else { vec![(50, 16, 4000), (120, 255, 30_000)] } {
        add(format!("dex-methods:methods={},params={},string={}", m, p, l), "amplification:dex-methods-share-one-proto", dex_methods_bomb(m, p, l));
    }
    for (n, m) in if big { vec![(8u16, 100usize), (400, 2000), (1000, 5000), (2000, 20_000)] } else { vec![(8, 100), (400, 2000), (1500, 12_000)] } {
        add(format!("elf-pt-dynamic:headers={},pairs={}", n, m), "amplification:elf-pt-dynamic-share-one-table", elf_dynamic_bomb(n, m));
    }
    for mib in if big { vec![4usize, 512, 1024] } else { vec![4, 512] } {
        add(format!("zip-deflate:vbaProject.bin={}MiB", mib), "amplification:zip-deflated-member", zip_deflate_bomb(b"word/vbaProject.bin", mib));
    }
    for n in if big { vec![2000usize, 13_000] } else { vec![2000] } { add(format!("olecf-directory-chain:sectors={}", n), "amplification:olecf-directory-chain", olecf_long_directory_chain(n)); }
    add("macho-fixups-names:n=65536,l=4095".into(), "amplification:macho-fixups-share-one-name", macho_fixups_bomb(65536, 4095));
    // (a symtab entry is 16 bytes and a name at most 4096: 256 x, the factor the memory bound allows; not an input here)
    add("elf-symbol-names:n=65536,l=4095".into(), "amplification:elf-symbols-share-one-name", elf_names_bomb(65536, 4095));
    v
}

// ---------------------------------------------------------------- boundary sweeps
/// one mutation of a carrier: the field at `off` (width `w`) set to `val`; w = 0 is the carrier itself
#[derive(Clone, Default)]
struct Mutn { off: usize, w: usize, be: bool, val: u64, del: (usize, usize), cut: usize, what: String, pre: Vec<(usize, usize, bool, u64)> }
impl Mutn {
    fn value(off: usize, w: usize, be: bool, val: u64, what: &str) -> Mutn { Mutn { off, w, be, val, what: what.to_string(), ..Default::default() } }
    fn apply(&self, d: &[u8]) -> Vec<u8> {
        let mut v = d.to_vec();
        for (o, w, be, val) in &self.pre { fields::wr(&mut v, *o, *w, *be, *val); }
        if self.w > 0 { fields::wr(&mut v, self.off, self.w, self.be, self.val); }
        if self.del.0 < self.del.1 { v.drain(self.del.0..self.del.1); }
        if self.cut > 0 { v.truncate(self.cut); }
        v
    }
    fn describe(&self) -> String {
        let mut t = if self.w > 0 { format!("{}@{:#x}/{}={:#x}", self.what, self.off, self.w, self.val) } else { self.what.clone() };
        if self.del.0 < self.del.1 { t.push_str(&format!(" delete[{:#x}..{:#x})", self.del.0, self.del.1)); }
        if self.cut > 0 { t.push_str(&format!(" keep[..{:#x})", self.cut)); }
        for (o, w, _, val) in &self.pre { t.push_str(&format!(" with@{:#x}/{}={:#x}", o, w, val)); }
        t
    }
}
struct Carrier { label: String, fmt: String, mode: &'static str, data: std::sync::Arc<Vec<u8>>, muts: Vec<Mutn> }
#[derive(Default)]
struct SweepRes { done: usize, fails: Vec<(usize, String, String)>, max_us: u128, rss_kb: u64 }

fn run_sweep(kid: &mut Option<Kid>, idx: usize, c: &Carrier, limit: Duration) -> SweepRes {
    let mut res = SweepRes::default();
    let mut from = 0usize;
    while from < c.muts.len() {
        if kid.is_none() { *kid = Some(spawn_kid()); }
        let k = kid.as_mut().unwrap();
        let part = &c.muts[from..];
        let mut msg = format!("SWEEP {} {} {}\n", idx, c.data.len(), part.len()).into_bytes();
        msg.extend_from_slice(&c.data);
        for m in part {
            let mut line = format!("{} {} {} {} {} {} {}", m.off, m.w, m.be as u8, m.val, m.del.0, m.del.1, m.cut);
            for (o, w, be, val) in &m.pre { line.push_str(&format!(" {} {} {} {}", o, w, *be as u8, val)); }
            line.push('\n'); msg.extend_from_slice(line.as_bytes());
        }
        // written from a thread: the child answers while it is still reading
        let mut si = k.child.stdin.take().unwrap();
        let wt = std::thread::spawn(move || { let r = si.write_all(&msg).and_then(|_| si.flush()); (si, r) });
        let mut at = 0usize; let mut ended = false; let mut broke: Option<&str> = None;
        loop {
            match k.rx.recv_timeout(limit) {
                Ok(l) => {
                    let f: Vec<&str> = l.split(' ').collect();
                    if f[0] == "AT" && f.len() == 3 { at = f[2].parse().unwrap_or(at); }
                    else if f[0] == "SWFAIL" && f.len() >= 5 { res.fails.push((from + f[2].parse::<usize>().unwrap_or(0), f[3].to_string(), f[4..].join(" "))); }
                    else if f[0] == "SWEND" && f.len() >= 7 { res.max_us = res.max_us.max(f[5].parse().unwrap_or(0)); res.rss_kb = res.rss_kb.max(f[6].parse().unwrap_or(0)); ended = true; break; }
                }
                Err(mpsc::RecvTimeoutError::Timeout) => { broke = Some("timeout"); break; }
                Err(mpsc::RecvTimeoutError::Disconnected) => { broke = Some("crash"); break; }
            }
        }
        if ended {
            if let Ok((si, _)) = wt.join() { k.child.stdin = Some(si); }
            res.done = c.muts.len();
            if res.rss_kb > 128 * 1024 { drop(k.child.stdin.take()); let _ = k.child.wait(); *kid = None; }
            break;
        }
        // the child hangs or died in mutation `at`: record it, replace the child, go on with the rest
        let _ = k.child.kill(); let _ = k.child.wait(); let _ = wt.join(); *kid = None;
        res.fails.push((from + at, broke.unwrap_or("crash").to_string(), String::new()));
        from += at + 1; res.done = from;
    }
    res
}

/// a small archive made here: two stored members, an extra field, comments
fn synth_zip() -> Vec<u8> {
    let mut d = vec![]; let mut cd = vec![]; let mut n = 0u16;
    for (name, body, extra) in [(&b"a.txt"[..], &b"hello world"[..], &[0x55u8, 0x54, 5, 0, 1, 0, 0, 0, 0][..]), (&b"dir/b.bin"[..], &[0u8, 1, 2, 3, 4, 5, 6, 7][..], &[][..])] {
        let lho = d.len() as u32;
        d.extend_from_slice(b"PK\x03\x04"); for v in [20u16, 0, 0, 0x6000, 0x5821] { d.extend_from_slice(&v.to_le_bytes()); }
        for v in [0x1234_5678u32, body.len() as u32, body.len() as u32] { d.extend_from_slice(&v.to_le_bytes()); }
        d.extend_from_slice(&(name.len() as u16).to_le_bytes()); d.extend_from_slice(&(extra.len() as u16).to_le_bytes());
        d.extend_from_slice(name); d.extend_from_slice(extra); d.extend_from_slice(body);
        cd.extend_from_slice(b"PK\x01\x02"); for v in [0x031eu16, 20, 0, 0, 0x6000, 0x5821] { cd.extend_from_slice(&v.to_le_bytes()); }
        for v in [0x1234_5678u32, body.len() as u32, body.len() as u32] { cd.extend_from_slice(&v.to_le_bytes()); }
        for v in [name.len() as u16, extra.len() as u16, 2, 0, 0] { cd.extend_from_slice(&v.to_le_bytes()); }
        cd.extend_from_slice(&0x81a4_0000u32.to_le_bytes()); cd.extend_from_slice(&lho.to_le_bytes());
        cd.extend_from_slice(name); cd.extend_from_slice(extra); cd.extend_from_slice(b"cm");
        n += 1;
    }
    let cdo = d.len() as u32; d.extend_from_slice(&cd);
    d.extend_from_slice(b"PK\x05\x06"); for v in [0u16, 0, n, n] { d.extend_from_slice(&v.to_le_bytes()); }
    d.extend_from_slice(&(cd.len() as u32).to_le_bytes()); d.extend_from_slice(&cdo.to_le_bytes()); d.extend_from_slice(&7u16.to_le_bytes()); d.extend_from_slice(b"archive");
    d
}

/// mutations of the STRUCTURE around the located fields and tags (values are swept elsewhere):
/// (1) the file ends at / in the middle of / 0..3 bytes behind every field;
/// (2) a structure ends there: every size field is set so that its structure ends at / in / behind every field inside it;
/// (3) the next structure starts there: for every pointer field, the bytes between a preceding field (or tag) and
///     the pointer's target are deleted and the pointer is adjusted, so that the target starts right behind that field.
fn structural_mutations(d: &[u8], found: &fields::Found, wanted: &dyn Fn(&str) -> bool, muts: &mut Vec<Mutn>) {
    let len = d.len();
    let ends = |f: &fields::Field| -> Vec<usize> { let (o, w) = (f.off, f.w as usize); let mut v = vec![o, o + w, o + w + 1, o + w + 2, o + w + 3]; if w >= 2 { v.push(o + w / 2); } v };
    let mut seen = std::collections::HashSet::new();
    for f in found.fields.iter().filter(|f| wanted(&f.what)) {
        for c in ends(f) { if c > 0 && c < len && seen.insert(c) { muts.push(Mutn { cut: c, what: format!("file-ends-at:{}", f.what), ..Default::default() }); } }
    }
    for s in &found.sized {
        let cur = fields::rd(d, s.off, s.w as usize, s.be).unwrap_or(0) as usize;
        let what = found.fields.iter().find(|f| f.off == s.off).map(|f| f.what.clone()).unwrap_or_default();
        // a (size field, inner field) pair is wanted when either of them is of a kind not covered by an earlier carrier
        let end = s.start.saturating_add(cur);
        let mut vals = std::collections::BTreeSet::new();
        for f in found.fields.iter().filter(|f| f.off >= s.start && f.off < end.saturating_add(8) && (wanted(&what) || wanted(&f.what))).take(48) { for c in ends(f) { if c >= s.start { vals.insert((c - s.start) as u64); } } }
        let max = if s.w >= 8 { u64::MAX } else { (1u64 << (8 * s.w)) - 1 };
        for v in vals { if v != cur as u64 && v <= max { muts.push(Mutn::value(s.off, s.w as usize, s.be, v, &format!("structure-ends-at-a-field:{}", what))); } }
    }
    for p in &found.ptrs {
        let cur = fields::rd(d, p.off, p.w as usize, p.be).unwrap_or(0);
        let t = p.target;
        let mut cuts = std::collections::BTreeSet::new();
        if wanted(&p.what) { for k in 1..=8usize { if t > k { cuts.insert(t - k); } } }
        for f in found.fields.iter().filter(|f| f.off + (f.w as usize) <= t && f.off + 4096 >= t && (wanted(&p.what) || wanted(&f.what))) { for c in ends(f) { cuts.insert(c); } }
        let mut n = 0;
        for c in cuts.into_iter().rev() {
            // the deleted range must not contain the pointer itself and must stay inside what the pointer's mapping covers
            if c >= t || c < p.min_cut.max(1) || (p.off < t && p.off + p.w as usize > c) { continue; }
            let delta = (t - c) as u64;
            if cur < delta { continue; }
            muts.push(Mutn { off: p.off, w: p.w as usize, be: p.be, val: cur - delta, del: (c, t), cut: 0, what: format!("target-moved-behind-a-field:{}", p.what), pre: vec![] });
            n += 1; if n >= 48 { break; }
        }
    }
}

/// fields that exist only under a condition on another field: the condition is set first (`Switch`), the readers
/// run again on the result, and what they find there is swept: fields at new places with all boundary values,
/// the other hot fields (whose meaning may have changed) with the reduced set
fn switch_mutations(d: &[u8], found: &fields::Found, wanted: &dyn Fn(&str) -> bool, muts: &mut Vec<Mutn>) {
    let base: std::collections::HashSet<(usize, u8)> = found.fields.iter().map(|f| (f.off, f.w)).collect();
    let mut total = 0usize;
    for sw in found.switches.iter().filter(|s| wanted(&s.what)) {
        let pre: Vec<(usize, usize, bool, u64)> = sw.writes.iter().map(|(o, w, be, v)| (*o, *w as usize, *be, *v)).collect();
        let mut copy = d.to_vec();
        for (o, w, be, v) in &pre { fields::wr(&mut copy, *o, *w, *be, *v); }
        muts.push(Mutn { what: sw.what.clone(), pre: pre.clone(), ..Default::default() });
        let f2 = fields::find(&copy);
        let (mut n, mut old) = (0usize, 0usize);
        for f in &f2.fields {
            if pre.iter().any(|(o, w, _, _)| f.off < o + w && *o < f.off + f.w as usize) { continue; }
            let is_new = !base.contains(&(f.off, f.w));
            if !is_new { if !f.hot || old >= 64 { continue; } old += 1; }
            let cur = fields::rd(&copy, f.off, f.w as usize, f.be).unwrap_or(0);
            for val in fields::values(f, cur, d.len(), &f2.dict, is_new && f.hot) {
                muts.push(Mutn { off: f.off, w: f.w as usize, be: f.be, val, what: format!("{}+{}", sw.what, f.what), pre: pre.clone(), ..Default::default() });
                n += 1;
            }
            if n >= 1500 { break; }
        }
        total += n; if total >= 8000 { break; }
    }
}

/// a zip64 archive made here: one stored member whose sizes and offsets live in zip64 extra fields, zip64 end of
/// central directory record and locator, all-ones markers in the classic records
fn synth_zip64() -> Vec<u8> {
    let name = b"big.bin"; let body = b"0123456789abcdef";
    let mut d = vec![];
    d.extend_from_slice(b"PK\x03\x04"); for v in [45u16, 0, 0, 0x6000, 0x5821] { d.extend_from_slice(&v.to_le_bytes()); }
    for v in [0x1234_5678u32, 0xffff_ffff, 0xffff_ffff] { d.extend_from_slice(&v.to_le_bytes()); }
    d.extend_from_slice(&(name.len() as u16).to_le_bytes()); d.extend_from_slice(&20u16.to_le_bytes()); d.extend_from_slice(name);
    d.extend_from_slice(&1u16.to_le_bytes()); d.extend_from_slice(&16u16.to_le_bytes()); for v in [body.len() as u64, body.len() as u64] { d.extend_from_slice(&v.to_le_bytes()); }
    d.extend_from_slice(body);
    let cdo = d.len() as u64;
    d.extend_from_slice(b"PK\x01\x02"); for v in [0x032du16, 45, 0, 0, 0x6000, 0x5821] { d.extend_from_slice(&v.to_le_bytes()); }
    for v in [0x1234_5678u32, 0xffff_ffff, 0xffff_ffff] { d.extend_from_slice(&v.to_le_bytes()); }
    for v in [name.len() as u16, 28, 0, 0xffff, 0] { d.extend_from_slice(&v.to_le_bytes()); }
    d.extend_from_slice(&0x81a4_0000u32.to_le_bytes()); d.extend_from_slice(&0xffff_ffffu32.to_le_bytes()); d.extend_from_slice(name);
    d.extend_from_slice(&1u16.to_le_bytes()); d.extend_from_slice(&24u16.to_le_bytes()); for v in [body.len() as u64, body.len() as u64, 0u64] { d.extend_from_slice(&v.to_le_bytes()); }
    let cdl = d.len() as u64 - cdo;
    let z64 = d.len() as u64;
    d.extend_from_slice(b"PK\x06\x06"); d.extend_from_slice(&44u64.to_le_bytes()); for v in [45u16, 45] { d.extend_from_slice(&v.to_le_bytes()); }
    for v in [0u32, 0] { d.extend_from_slice(&v.to_le_bytes()); } for v in [1u64, 1, cdl, cdo] { d.extend_from_slice(&v.to_le_bytes()); }
    d.extend_from_slice(b"PK\x06\x07"); d.extend_from_slice(&0u32.to_le_bytes()); d.extend_from_slice(&z64.to_le_bytes()); d.extend_from_slice(&1u32.to_le_bytes());
    d.extend_from_slice(b"PK\x05\x06"); for v in [0xffffu16, 0xffff, 0xffff, 0xffff] { d.extend_from_slice(&v.to_le_bytes()); }
    for v in [0xffff_ffffu32, 0xffff_ffff] { d.extend_from_slice(&v.to_le_bytes()); } d.extend_from_slice(&0u16.to_le_bytes());
    d
}

/// carriers for the boundary sweeps.  `all`: every repository sample as it is (time and memory bound on the
/// samples themselves).  `structured`: per format, samples chosen so that every kind of field the readers of
/// c11/fields.rs know is present in at least one of them; every such field is set to every boundary value.
/// `exhaustive`: small samples, every offset as u16 and u32.
fn build_carriers(all: &[(String, Vec<u8>)], rng: &mut Rng, per_dir: usize, small: usize, budget: usize) -> Vec<Carrier> {
    let mut v: Vec<Carrier> = vec![];
    let mut samples: Vec<(String, std::sync::Arc<Vec<u8>>)> = all.iter().map(|(n, d)| (n.clone(), std::sync::Arc::new(d.clone()))).collect();
    samples.push(("synthetic/zip".to_string(), std::sync::Arc::new(synth_zip())));
    samples.push(("synthetic/zip64".to_string(), std::sync::Arc::new(synth_zip64())));
    for (n, d) in &samples { v.push(Carrier { label: n.clone(), fmt: "any".into(), mode: "sample", data: d.clone(), muts: vec![Mutn::value(0, 0, false, 0, "unmodified")] }); }
    // structured: greedy cover of the field kinds per directory, smallest samples first
    let mut by_dir: std::collections::BTreeMap<String, Vec<usize>> = Default::default();
    for (i, (n, _)) in samples.iter().enumerate() { by_dir.entry(n.split('/').next().unwrap_or("").to_string()).or_default().push(i); }
    let mut structured: Vec<Carrier> = vec![];
    for (_dir, mut ix) in by_dir {
        ix.sort_by_key(|i| samples[*i].1.len());
        let mut covered: std::collections::HashSet<String> = Default::default(); let mut taken = 0;
        for i in ix {
            let (n, d) = &samples[i];
            if d.len() > 600_000 || taken >= per_dir { continue; }
            let found = fields::find(d);
            let news = found.fields.iter().filter(|f| !covered.contains(&f.what)).count() + found.switches.iter().filter(|s| !covered.contains(&s.what)).count();
            if news == 0 { continue; }
            // a first carrier gets all its fields, later ones only the kinds of field not seen yet
            let use_all = taken == 0;
            let mut muts = vec![];
            for f in found.fields.iter().filter(|f| use_all || !covered.contains(&f.what)) {
                let cur = fields::rd(d, f.off, f.w as usize, f.be).unwrap_or(0);
                for val in fields::values(f, cur, d.len(), &found.dict, f.hot) { muts.push(Mutn::value(f.off, f.w as usize, f.be, val, &f.what)); }
            }
            structural_mutations(d, &found, &|w: &str| use_all || !covered.contains(w), &mut muts);
            switch_mutations(d, &found, &|w: &str| use_all || !covered.contains(w), &mut muts);
            for sw in &found.switches { covered.insert(sw.what.clone()); }
            for f in &found.fields { covered.insert(f.what.clone()); }
            structured.push(Carrier { label: n.clone(), fmt: found.fmt.to_string(), mode: "structured", data: d.clone(), muts });
            taken += 1;
        }
    }
    // exhaustive: every offset of the small samples
    let mut exhaustive: Vec<Carrier> = vec![];
    for (n, d) in samples.iter().filter(|(_, d)| d.len() >= 16 && d.len() <= small) {
        let fmt = fields::find(d).fmt.to_string();
        let mut muts = vec![];
        for off in 0..d.len() {
            for w in [2usize, 4] {
                if off + w > d.len() { continue; }
                let f = fields::Field { off, w: w as u8, be: false, what: format!("offset.u{}", 8 * w), hot: false };
                let cur = fields::rd(d, off, w, false).unwrap_or(0);
                for val in fields::values(&f, cur, d.len(), &[], false) { muts.push(Mutn::value(off, w, false, val, &f.what)); }
            }
        }
        exhaustive.push(Carrier { label: n.clone(), fmt, mode: "exhaustive", data: d.clone(), muts });
    }
    // the budget: structured mutations are all kept unless they alone exceed it; the exhaustive ones are sampled
    let ns: usize = structured.iter().map(|c| c.muts.len()).sum();
    let ne: usize = exhaustive.iter().map(|c| c.muts.len()).sum();
    if budget > 0 {
        if ns > budget * 3 / 4 { let keep = (budget * 3 / 4) as u64; for c in structured.iter_mut() { c.muts.retain(|_| rng.below(ns as u64) < keep); } }
        let left = budget.saturating_sub(structured.iter().map(|c| c.muts.len()).sum::<usize>()) as u64;
        if (ne as u64) > left { for c in exhaustive.iter_mut() { c.muts.retain(|_| rng.below(ne as u64) < left); } }
    }
    v.extend(structured); v.extend(exhaustive);
    v
}

// ---------------------------------------------------------------- arithmetic cores through the hook
fn enc_uleb(mut n: u64) -> Vec<u8> { let mut v = vec![]; loop { let b = (n & 0x7f) as u8; n >>= 7; if n == 0 { v.push(b); break; } v.push(b | 0x80); } v }
fn enc_sleb(mut n: i64) -> Vec<u8> { let mut v = vec![]; loop { let b = (n & 0x7f) as u8; n >>= 7; if (n == 0 && b & 0x40 == 0) || (n == -1 && b & 0x40 != 0) { v.push(b); break; } v.push(b | 0x80); } v }
fn interesting_u64(rng: &mut Rng) -> u64 {
    match rng.below(6) { 0 => rng.below(300), 1 => 1u64 << rng.below(64), 2 => (1u64 << rng.below(64)).wrapping_sub(1), 3 => u64::MAX - rng.below(3), 4 => rng.next() >> rng.below(64), _ => rng.next() }
}
fn rand_bytes(rng: &mut Rng, max: u64) -> Vec<u8> {
    let n = rng.below(max + 1) as usize;
    let style = rng.below(3);
    (0..n).map(|_| match style { 0 => rng.below(256) as u8, 1 => 0x80 | rng.below(128) as u8, _ => *rng.pick(&[0u8, 1, 0x7f, 0x80, 0xff, 0x40, 0xc0, 0xbf, 0xdf, 0xe0]) }).collect()
}
fn core_cases(rng: &mut Rng, n: usize, shards: &mut Shards, stats: &mut Stats) {
    use yara_x::verif_c11 as hk;
    let z = |b: &[u8]| format!("{}%Z", coq_list(b, |x| format!("{}", x)));
    let lres = |r: Result<(i128, usize), &'static str>| match r { Ok((v, c)) => format!("(LOk {} {})", coq_z(v), coq_nat(c)), Err("TooLarge") => "LErrTooLarge".to_string(), Err(_) => "LErrEof".to_string() };
    for i in 0..n {
        let (case, core, desc): (String, &str, String) = match i % 8 {
            0 => { let mut b = if rng.chance(1, 2) { enc_uleb(interesting_u64(rng)) } else { rand_bytes(rng, 13) }; if rng.chance(1, 3) { b.extend(rand_bytes(rng, 3)); }
                   let r = hk::uleb128(&b).map(|(v, c)| (v as i128, c)); (format!("KUleb {} {}", z(&b), lres(r)), "uleb128", format!("{} -> {:?}", hex(&b), r)) }
            1 => { let mut b = if rng.chance(1, 2) { enc_sleb(interesting_u64(rng) as i64) } else { rand_bytes(rng, 13) }; if rng.chance(1, 3) { b.extend(rand_bytes(rng, 3)); }
                   let r = hk::sleb128(&b).map(|(v, c)| (v as i128, c)); (format!("KSleb {} {}", z(&b), lres(r)), "sleb128", format!("{} -> {:?}", hex(&b), r)) }
            2 => { let b = rand_bytes(rng, 6); let r = hk::dotnet::var_uint(&b);
                   (format!("KVarU {} {}", z(&b), coq_option(&r, |(v, c)| format!("({}, {})", coq_z(*v as i128), coq_nat(*c)))), "var_uint", format!("{} -> {:?}", hex(&b), r)) }
            3 => { let b = rand_bytes(rng, 6); let r = hk::dotnet::var_sint(&b);
                   (format!("KVarS {} {}", z(&b), coq_option(&r, |(v, c)| format!("({}, {})", coq_z(*v as i128), coq_nat(*c)))), "var_sint", format!("{} -> {:?}", hex(&b), r)) }
            4 => { let nt = 1 + rng.below(22) as usize;
                   let rows = match rng.below(5) { 0 => rng.below(100) as usize, 1 => (1usize << (16 - rng.below(6))) - 1 + rng.below(3) as usize, 2 => 15000, 3 => 65535 + rng.below(3) as usize, _ => rng.below(70000) as usize };
                   let b = rand_bytes(rng, 5); let r = hk::dotnet::coded_index(nt, rows, &b);
                   (format!("KCoded {} {} {} {}", coq_z(nt as i128), coq_z(rows as i128), z(&b), coq_option(&r, |(c, t, x)| format!("({}, {}, {})", coq_nat(*c), coq_z(*t as i128), coq_z(*x as i128)))),
                    "dotnet_coded_index", format!("ntables={} rows={} {} -> {:?}", nt, rows, hex(&b), r)) }
            5 => { let rows = *rng.pick(&[0usize, 1, 100, 65534, 65535, 65536, 65537, 1 << 20]); let b = rand_bytes(rng, 5); let r = hk::dotnet::table_index(rows, &b);
                   (format!("KTblIdx {} {} {}", coq_z(rows as i128), z(&b), coq_option(&r, |(c, x)| format!("({}, {})", coq_nat(*c), coq_z(*x as i128)))),
                    "dotnet_table_index", format!("rows={} {} -> {:?}", rows, hex(&b), r)) }
            _ => { let sl = if rng.chance(1, 2) { 2usize } else { 4 };
                   let total = rng.below(40) as usize;
                   let mut b: Vec<u8> = (0..total).map(|_| rng.below(256) as u8).collect();
                   let size: u32 = match rng.below(5) { 0 => total as u32, 1 => (total as u32).wrapping_add(1), 2 => rng.below(6) as u32, 3 => total.saturating_sub(1) as u32, _ => rng.below(70000) as u32 };
                   if b.len() >= sl { if sl == 2 { b[..2].copy_from_slice(&(size as u16).to_le_bytes()); } else { b[..4].copy_from_slice(&size.to_le_bytes()); } }
                   let r = hk::lnk::length_data(sl, &b);
                   let obs = match r { Ok(nb) => format!("(Some (Cores.LTake {}))", coq_z(nb as i128)), Err("TooLarge") => "(Some Cores.LTooLarge)".to_string(), Err("Incomplete") => "(Some Cores.LIncomplete)".to_string(), Err(_) => "None".to_string() };
                   (format!("KLnk {} {} {}", coq_z(sl as i128), z(&b), obs), "lnk_length_data", format!("size_len={} {} -> {:?}", sl, hex(&b), r)) }
        };
        stats.inc(&format!("core:{}", core));
        shards.push(case, format!("{{\"kind\":\"core\",\"core\":\"{}\",\"case\":{}}}", core, json_str(&desc)));
    }
}

fn main() {
    let args: Vec<String> = std::env::args().skip(1).collect();
    if arg_flag(&args, "--child") { std::process::exit(child()); }
    std::process::exit(run(&args));
}

fn read_samples(dir: &Path, max_size: usize, max_n: usize, rng: &mut Rng) -> Vec<(String, Vec<u8>)> {
    let mut files: Vec<PathBuf> = vec![];
    let mut stack = vec![dir.to_path_buf()];
    while let Some(d) = stack.pop() {
        if let Ok(rd) = std::fs::read_dir(&d) { for e in rd.flatten() { let p = e.path(); if p.is_dir() { stack.push(p) } else { files.push(p) } } }
    }
    files.sort();
    let mut all: Vec<(String, Vec<u8>)> = files.iter().filter_map(|p| std::fs::read(p).ok().map(|d| (p.strip_prefix(dir).unwrap().to_string_lossy().to_string(), d))).filter(|(_, d)| d.len() <= max_size).collect();
    // keep every format represented: round-robin by top-level directory
    if all.len() > max_n {
        let mut by: std::collections::BTreeMap<String, Vec<(String, Vec<u8>)>> = Default::default();
        for (n, d) in all.drain(..) { by.entry(n.split('/').next().unwrap_or("").to_string()).or_default().push((n, d)); }
        for v in by.values_mut() { for i in (1..v.len()).rev() { let j = rng.below(i as u64 + 1) as usize; v.swap(i, j); } }
        let mut out = vec![];
        'o: loop { let mut any = false; for v in by.values_mut() { if let Some(x) = v.pop() { out.push(x); any = true; if out.len() >= max_n { break 'o; } } } if !any { break; } }
        out.sort_by(|a, b| a.0.cmp(&b.0));
        all = out;
    }
    all
}

fn run(args: &[String]) -> i32 {
    if let Some(dir) = arg_val(args, "--fields-report") {
        // which kinds of field the readers of c11/fields.rs find in which sample
        let mut r = Rng::new(1);
        for (n, d) in read_samples(Path::new(&dir), usize::MAX, usize::MAX, &mut r) {
            let f = fields::find(&d);
            let mut kinds: std::collections::BTreeMap<String, usize> = Default::default();
            for x in &f.fields { *kinds.entry(x.what.clone()).or_default() += 1; }
            println!("{} {} len={} fields={} dict={:?} :: {}", f.fmt, n, d.len(), f.fields.len(), f.dict, kinds.iter().map(|(k, v)| format!("{}x{}", k, v)).collect::<Vec<_>>().join(" "));
        }
        return 0;
    }
    let seed = arg_u64(args, "--seed", 1);
    let out_dir = arg_val(args, "--out").expect("--out");
    let sdir = arg_val(args, "--samples").expect("--samples");
    let max_samples = arg_u64(args, "--max-samples", 30) as usize;
    let max_size = arg_u64(args, "--max-size", 400_000) as usize;
    let n_trunc = arg_u64(args, "--trunc", 6) as usize;
    let n_field = arg_u64(args, "--fields", 8) as usize;
    let limit_ms = arg_u64(args, "--limit-ms", 20_000);
    let n_cores = arg_u64(args, "--cores", 600) as usize;
    let bomb: Vec<usize> = arg_val(args, "--bomb").unwrap_or_else(|| "32,64,128".into()).split(',').filter_map(|x| x.parse().ok()).collect();
    let prelude = "From Coq Require Import List NArith ZArith Bool.\nFrom YV Require Import Modules.Rva Modules.Leb Modules.Cores Modules.ModCheck.\nImport ListNotations.\n";
    let mut shards = Shards::new(Path::new(&out_dir), prelude, 100);
    let mut rng = Rng::new(seed);
    let mut stats = Stats::default();
    let samples = read_samples(Path::new(&sdir), max_size, max_samples, &mut rng);
    if samples.is_empty() { eprintln!("c11: no samples under {}", sdir); return 2; }
    let names: Vec<(usize, usize)> = arg_val(args, "--names").unwrap_or_else(|| "200:2000,3000:80000".into()).split(',').filter_map(|x| x.split_once(':')).filter_map(|(a, b)| Some((a.parse().ok()?, b.parse().ok()?))).collect();
    let corpus = build_corpus(&samples, &mut rng, n_trunc, n_field, &bomb, &names);
    let mut kid: Option<Kid> = None;
    let mut distinct = std::collections::HashSet::new();
    let mut sample_lines = vec![];
    let mut bomb_times: Vec<(usize, u128)> = vec![];
    for (idx, inp) in corpus.iter().enumerate() {
        let r = run_one(&mut kid, idx, &inp.data, Duration::from_millis(limit_ms));
        stats.inc(&format!("class:{}", inp.class));
        stats.inc(&format!("status:{}", r.status));
        // wall time of the first invocation: generous affine bound in the input size (supporting test)
        let bound_us: u128 = 4_000_000 + 60 * inp.data.len() as u128;
        // resident memory growth of the first invocation (its result is still alive): affine bound as well
        let bound_kb: u64 = 256 * 1024 + (256 * inp.data.len() as u64) / 1024;
        let mem_ok = r.rss_kb <= bound_kb;
        let time_ok = r.status == "ok" && r.t_first_us <= bound_us && mem_ok;
        let det = r.status == "ok" && r.same2 && r.same3 && r.scan_ok;
        if r.status == "ok" && !det { stats.inc("nondeterministic"); }
        if r.status == "ok" && !time_ok { stats.inc("over_time_bound"); }
        if inp.class == "self-referential-table" { bomb_times.push((inp.data.len(), if r.status == "ok" { r.t_first_us } else { limit_ms as u128 * 1000 })); }
        distinct.insert(r.hash ^ fnv64(inp.label.as_bytes()));
        let fail = if r.status != "ok" { r.status.clone() } else if !det { "nondeterministic".into() } else if !mem_ok { "memory".into() } else if !time_ok { "slow".into() } else { String::new() };
        if r.status == "ok" && !mem_ok { stats.inc("over_memory_bound"); }
        let replay = format!("{{\"kind\":\"run\",\"index\":{},\"label\":{},\"class\":\"{}\",\"len\":{},\"status\":\"{}\",\"fail\":\"{}\",\"same_second_call\":{},\"same_other_thread\":{},\"scan_ok\":{},\"t_first_us\":{},\"bound_us\":{},\"rss_growth_kb\":{},\"rss_bound_kb\":{},\"detail\":{},\"data_hex_prefix\":\"{}\"}}",
            idx, json_str(&inp.label), inp.class, inp.data.len(), r.status, fail, r.same2, r.same3, r.scan_ok, r.t_first_us, bound_us, r.rss_kb, bound_kb, json_str(&r.detail), hex(&inp.data[..inp.data.len().min(64)]));
        if !fail.is_empty() {
            // keep the input for replay
            let p = Path::new(&out_dir).join(format!("failing_{}.bin", idx));
            let _ = std::fs::write(&p, &inp.data);
        }
        if sample_lines.len() < 3 && idx % 211 == 7 { sample_lines.push(replay.clone()); }
        shards.push(format!("KRun {} {} {}", coq_bool(r.status == "ok"), coq_bool(det || r.status != "ok"), coq_bool(time_ok || r.status != "ok")), replay);
        if let Some(maxe) = inp.max_exports {
            let n: usize = r.extra.iter().find(|l| l.starts_with("MX ")).and_then(|l| l.split(' ').nth(2).and_then(|x| x.parse().ok())).unwrap_or(0);
            stats.inc("count:macho_exports_vs_trie_nodes");
            if n > maxe { stats.inc("count:more_exports_than_trie_nodes"); }
            shards.push(format!("KCount {} {}", coq_z(maxe as i128), coq_z(n as i128)),
                format!("{{\"kind\":\"count\",\"class\":\"{}\",\"index\":{},\"label\":{},\"trie_nodes\":{},\"exports\":{},\"status\":\"{}\",\"data_hex\":\"{}\"}}", inp.class, idx, json_str(&inp.label), maxe, n, r.status, hex(&inp.data[..inp.data.len().min(400)])));
        }
        for l in &r.extra {
            let f: Vec<&str> = l.split(' ').collect();
            if f[0] == "OV" && f.len() >= 6 {
                let secs: Vec<(i128, i128)> = f[5].split(',').filter(|x| !x.is_empty()).map(|p| { let (a, b) = p.split_once(':').unwrap(); (a.parse().unwrap(), b.parse().unwrap()) }).collect();
                stats.inc("core:pe_overlay");
                shards.push(format!("KOverlay {} {} {} {}", coq_list(&secs, |(o, z)| format!("({}, {})", coq_z(*o), coq_z(*z))), coq_z(f[2].parse().unwrap()), coq_z(f[3].parse().unwrap()), coq_z(f[4].parse().unwrap())),
                    format!("{{\"kind\":\"core\",\"core\":\"pe_overlay\",\"index\":{},\"label\":{},\"observed\":{}}}", idx, json_str(&inp.label), json_str(l)));
            } else if f[0] == "ELF" && f.len() >= 7 {
                let segs: Vec<Vec<i128>> = f[5].split(',').filter(|x| !x.is_empty()).map(|p| p.split(':').map(|x| x.parse().unwrap()).collect()).collect();
                let secs: Vec<Vec<i128>> = f[6].split(',').filter(|x| !x.is_empty()).map(|p| p.split(':').map(|x| x.parse::<i64>().map(|v| v as i128).or_else(|_| x.parse::<i128>()).unwrap()).collect()).collect();
                let obs: Option<i128> = if f[4] == "-" { None } else { Some(f[4].parse().unwrap()) };
                stats.inc("core:elf_rva_to_offset");
                shards.push(format!("KElf {} {} {} {} {}", coq_bool(f[2] == "1"),
                        coq_list(&segs, |s| format!("mkPhdr {} {} {}", coq_z(s[0]), coq_z(s[1]), coq_z(s[2]))),
                        coq_list(&secs, |s| format!("mkShdr {} {} {} {}", coq_z(s[0] & 0xffffffff), coq_z(s[1]), coq_z(s[2]), coq_z(s[3]))),
                        coq_z(f[3].parse().unwrap()), coq_option(&obs, |x| coq_z(*x))),
                    format!("{{\"kind\":\"core\",\"core\":\"elf_rva_to_offset\",\"index\":{},\"label\":{},\"observed\":{}}}", idx, json_str(&inp.label), json_str(l)));
            }
        }
        if let Some(pl) = &r.pe {
            // PE idx fa sa sections pairs
            let f: Vec<&str> = pl.split(' ').collect();
            if f.len() >= 6 && !f[5].is_empty() {
                let secs: Vec<Vec<i128>> = f[4].split(',').map(|s| s.split(':').map(|x| x.parse().unwrap()).collect()).collect();
                let pairs: Vec<(i128, Option<i128>)> = f[5].split(',').map(|p| { let (a, b) = p.split_once(':').unwrap(); (a.parse().unwrap(), if b == "-" { None } else { Some(b.parse().unwrap()) }) }).collect();
                stats.add("rva_pairs", pairs.len() as u64);
                let case = format!("KRva {} {} {} {}", coq_list(&secs, |s| format!("mkSection {} {} {} {}", coq_z(s[0]), coq_z(s[1]), coq_z(s[2]), coq_z(s[3]))),
                    coq_z(f[2].parse().unwrap()), coq_z(f[3].parse().unwrap()), coq_list(&pairs, |(r, o)| format!("({}, {})", coq_z(*r), coq_option(o, |x| coq_z(*x)))));
                let rj = format!("{{\"kind\":\"rva\",\"index\":{},\"label\":{},\"observed\":{}}}", idx, json_str(&inp.label), json_str(pl));
                shards.push(case, rj);
            }
        }
    }
    // boundary sweeps (own PRNG stream, so that the corpus above does not depend on the sweep options)
    let sweep_budget = arg_u64(args, "--sweep-budget", 40_000) as usize;
    if sweep_budget > 0 {
        let mut srng = Rng::new(seed ^ 0x5eed_5eed);
        let every = read_samples(Path::new(&sdir), usize::MAX, usize::MAX, &mut srng);
        let carriers = build_carriers(&every, &mut srng, arg_u64(args, "--sweep-per-dir", 3) as usize, arg_u64(args, "--sweep-small", 1200) as usize, sweep_budget);
        let t_sweeps = Instant::now();
        for (ci, c) in carriers.iter().enumerate() {
            let idx = corpus.len() + ci;
            if c.muts.is_empty() { continue; }
            let mut r = run_sweep(&mut kid, idx, c, Duration::from_millis(limit_ms));
            let n = c.muts.len();
            // a slow unmodified sample gets a second chance (the machine is shared): the faster run counts
            if c.mode == "sample" && r.fails.is_empty() && r.max_us > 300_000 + 3 * c.data.len() as u128 {
                stats.inc("sweep:sample:retried");
                let r2 = run_sweep(&mut kid, idx, c, Duration::from_millis(limit_ms));
                if !r2.fails.is_empty() || r2.max_us < r.max_us { r = r2; }
            }
            stats.add(&format!("sweep:{}:mutations", c.mode), n as u64);
            stats.inc(&format!("sweep:{}:carriers", c.mode));
            if c.mode != "sample" { stats.add(&format!("sweep:format:{}", c.fmt), n as u64); }
            // the repository samples themselves: a tighter bound than for arbitrary bytes
            let bound_us: u128 = if c.mode == "sample" { 300_000 + 3 * c.data.len() as u128 } else { 4_000_000 + 60 * c.data.len() as u128 };
            let bound_kb: u64 = 256 * 1024 + (256 * c.data.len() as u64) / 1024;
            let mut fails = r.fails.clone();
            if fails.is_empty() && r.max_us > bound_us { fails.push((0, "slow".into(), format!("{}", r.max_us))); }
            if fails.is_empty() && r.rss_kb > bound_kb { fails.push((0, "memory".into(), format!("{}", r.rss_kb))); }
            let n_bad = fails.len().min(n);
            distinct.insert(fnv64(c.label.as_bytes()) ^ n as u64);
            let first = fails.first().map(|(k, kind, det)| { let m = &c.muts[(*k).min(n - 1)]; format!("{} {} {}", m.describe(), kind, det) }).unwrap_or_default();
            shards.push(format!("KSweep {} {} {}", coq_z(n as i128), coq_z(r.done as i128), coq_z((n - n_bad) as i128)),
                format!("{{\"kind\":\"sweep\",\"index\":{},\"label\":{},\"mode\":\"{}\",\"format\":\"{}\",\"len\":{},\"mutations\":{},\"failures\":{},\"first_failure\":{},\"max_us\":{},\"bound_us\":{},\"rss_growth_kb\":{}}}",
                    idx, json_str(&c.label), c.mode, c.fmt, c.data.len(), n, fails.len(), json_str(&first), r.max_us, bound_us, r.rss_kb));
            // every failing mutation is a case of its own (the input is kept)
            let mut kinds = std::collections::HashSet::new();
            for (k, kind, det) in fails.iter() {
                let m = &c.muts[(*k).min(n - 1)];
                stats.inc(&format!("sweep:fail:{}", kind));
                if !kinds.insert(format!("{}:{}", m.what, kind)) || kinds.len() > 12 { continue; }
                let d = m.apply(&c.data);
                let fidx = idx * 1000 + kinds.len();
                let _ = std::fs::write(Path::new(&out_dir).join(format!("failing_{}.bin", fidx)), &d);
                let class = if c.mode == "sample" { "repository-sample".to_string() } else { format!("boundary:{}:{}", c.fmt, m.what) };
                shards.push(format!("KRun {} true {}", coq_bool(kind == "slow" || kind == "memory"), coq_bool(kind != "slow" && kind != "memory")),
                    format!("{{\"kind\":\"run\",\"index\":{},\"label\":{},\"class\":\"{}\",\"len\":{},\"status\":\"{}\",\"fail\":\"{}\",\"field\":\"{}\",\"offset\":{},\"width\":{},\"big_endian\":{},\"value\":{},\"detail\":{},\"data_hex_prefix\":\"{}\"}}",
                        fidx, json_str(&format!("{}|{}", c.label, m.describe())), class, d.len(), kind, kind, m.what, m.off, m.w, m.be, m.val, json_str(det), hex(&d[..d.len().min(64)])));
            }
        }
        stats.add("sweep:wall_ms", t_sweeps.elapsed().as_millis() as u64);
    }
    core_cases(&mut rng, n_cores, &mut shards, &mut stats);
    shards.flush();
    if let Some(mut k) = kid { drop(k.child.stdin.take()); let _ = k.child.wait(); }
    let bt = bomb_times.iter().map(|(l, t)| format!("[{},{}]", l, t)).collect::<Vec<_>>().join(",");
    println!("{{\"evaluations\":{},\"distinct_nontrivial\":{},\"shards\":{},\"distribution\":{},\"bomb_times_us\":[{}],\"samples\":[{}]}}",
        shards.total, distinct.len(), shards.shard_count, stats.json(), bt, sample_lines.join(","));
    0
}
