//! C12: module data seen by rule conditions equals the module's output.
//!
//! For synthetic test_proto2 / test_proto3 messages (boundary values, built by
//! reflection on the module's own descriptor, supplied through
//! `Scanner::set_module_output`) and for the output that built-in modules compute for
//! sample files: the descriptor and the message are written as Coq terms
//! (Types/StructModel.v), and for every field path a set of rule conditions
//! (`defined p`, `p == v`, `p.len() == n`, `for any/all x in p`, map lookups) is
//! compiled and evaluated; the observed verdicts are compared in Coq with the model.
use protobuf::reflect::{FieldDescriptor, MessageDescriptor, ReflectValueBox, ReflectValueRef, RuntimeFieldType, RuntimeType, Syntax};
use protobuf::MessageDyn;
use std::collections::HashMap;
use std::path::Path;
use verif_harness::util::*;

// ------------------------------------------------------------------ options (yara.proto)
/// (yara.field_options) = extension 51504 of FieldOptions:
/// { name = 1 (string), ignore = 2 (bool), acl = 3, lowercase = 4 (bool), fmt = 5 (string), deprecation_notice = 6 }
#[derive(Default, Clone)]
struct FOpts { name: Option<String>, ignore: bool, acl: bool, lowercase: bool, fmt: Option<String>, deprecated: bool }
fn fopts(fd: &FieldDescriptor) -> FOpts {
    let mut o = FOpts::default();
    let proto = fd.proto();
    if let Some(opts) = proto.options.as_ref() {
        for (num, v) in opts.special_fields.unknown_fields().iter() {
            if num != 51504 { continue; }
            if let protobuf::UnknownValueRef::LengthDelimited(bytes) = v {
                let mut is = protobuf::CodedInputStream::from_bytes(bytes);
                while let Ok(Some(tag)) = is.read_raw_tag_or_eof() {
                    let (f, wt) = (tag >> 3, tag & 7);
                    match (f, wt) {
                        (1, 2) => { o.name = is.read_string().ok(); }
                        (2, 0) => { o.ignore = is.read_bool().unwrap_or(false); }
                        (3, 2) => { o.acl = true; let _ = is.read_bytes(); }
                        (4, 0) => { o.lowercase = is.read_bool().unwrap_or(false); }
                        (5, 2) => { o.fmt = is.read_string().ok(); }
                        (6, 2) => { o.deprecated = true; let _ = is.read_bytes(); }
                        (_, 0) => { let _ = is.read_raw_varint64(); }
                        (_, 1) => { let _ = is.read_fixed64(); }
                        (_, 2) => { let _ = is.read_bytes(); }
                        (_, 5) => { let _ = is.read_fixed32(); }
                        _ => break,
                    }
                }
            }
        }
    }
    o
}
fn field_options(fd: &FieldDescriptor) -> (Option<String>, bool) { let o = fopts(fd); (o.name, o.ignore) }
/// the field carries an option that must not affect the value (everything but name / ignore / acl)
fn annotated(fd: &FieldDescriptor) -> bool { let o = fopts(fd); o.lowercase || o.fmt.is_some() || o.deprecated }
fn yara_name(fd: &FieldDescriptor) -> String { field_options(fd).0.unwrap_or_else(|| fd.name().to_string()) }
fn ignored(fd: &FieldDescriptor) -> bool { field_options(fd).1 }

// ------------------------------------------------------------------ Coq terms
struct Interner(HashMap<Vec<u8>, u64>, Vec<Vec<u8>>);
impl Interner {
    fn new() -> Self { let mut m = HashMap::new(); m.insert(vec![], 0); Interner(m, vec![vec![]]) }
    fn id(&mut self, s: &[u8]) -> u64 {
        if let Some(i) = self.0.get(s) { return *i; }
        let i = self.1.len() as u64;
        self.0.insert(s.to_vec(), i); self.1.push(s.to_vec()); i
    }
}

/// a field name, numbered in Coq through the name table generated from the .proto sources
fn coq_name(n: &str) -> String { format!("(nm \"{}\")", n.replace('"', "\"\"")) }

fn coq_rt(rt: &RuntimeType, it: &mut Interner, depth: usize) -> String {
    match rt {
        RuntimeType::I32 => "TInt I32".into(), RuntimeType::I64 => "TInt I64".into(),
        RuntimeType::U32 => "TInt U32".into(), RuntimeType::U64 => "TInt U64".into(),
        RuntimeType::Enum(_) => "TInt IEnum".into(),
        RuntimeType::F32 | RuntimeType::F64 => "TFloat".into(),
        RuntimeType::Bool => "TBool".into(),
        RuntimeType::String | RuntimeType::VecU8 => "TStr".into(),
        RuntimeType::Message(md) => coq_msg_ty(md, it, depth + 1),
    }
}
fn coq_kty(rt: &RuntimeType) -> String {
    match rt {
        RuntimeType::I32 => "KInt I32".into(), RuntimeType::I64 => "KInt I64".into(),
        RuntimeType::U32 => "KInt U32".into(), RuntimeType::U64 => "KInt U64".into(),
        _ => "KStr".into(),
    }
}
fn coq_msg_ty(md: &MessageDescriptor, it: &mut Interner, depth: usize) -> String {
    assert!(depth < 12, "descriptor too deep (recursive type?)");
    let syn = if md.file_descriptor().syntax() == Syntax::Proto3 { "Proto3" } else { "Proto2" };
    let fields: Vec<String> = md.fields().map(|fd| {
        let t = match fd.runtime_field_type() {
            RuntimeFieldType::Singular(rt) => coq_rt(&rt, it, depth),
            RuntimeFieldType::Repeated(rt) => format!("TArr ({})", coq_rt(&rt, it, depth)),
            RuntimeFieldType::Map(k, v) => format!("TMap ({}) ({})", coq_kty(&k), coq_rt(&v, it, depth)),
        };
        format!("FD {} {} {} ({})", coq_name(&yara_name(&fd)), coq_n(fd.number() as u64), coq_bool(ignored(&fd)), t)
    }).collect();
    format!("TMsg {} [{}] []", syn, fields.join("; "))
}

fn coq_rv(v: &ReflectValueRef, it: &mut Interner) -> String {
    match v {
        ReflectValueRef::U32(x) => format!("VInt {}", coq_z(*x as i128)),
        ReflectValueRef::U64(x) => format!("VInt {}", coq_z(*x as i128)),
        ReflectValueRef::I32(x) => format!("VInt {}", coq_z(*x as i128)),
        ReflectValueRef::I64(x) => format!("VInt {}", coq_z(*x as i128)),
        ReflectValueRef::Enum(_, n) => format!("VInt {}", coq_z(*n as i128)),
        ReflectValueRef::F32(x) => format!("VFloat {}", coq_z((*x as f64).to_bits() as i128)),
        ReflectValueRef::F64(x) => format!("VFloat {}", coq_z(x.to_bits() as i128)),
        ReflectValueRef::Bool(b) => format!("VBool {}", coq_bool(*b)),
        ReflectValueRef::String(s) => format!("VStr {}", coq_n(it.id(s.as_bytes()))),
        ReflectValueRef::Bytes(b) => format!("VStr {}", coq_n(it.id(b))),
        ReflectValueRef::Message(m) => coq_msg(&**m, it),
    }
}
/// the content of a message as reflection shows it (the same calls structure.rs makes)
fn coq_msg(msg: &dyn MessageDyn, it: &mut Interner) -> String {
    let md = msg.descriptor_dyn();
    let mut fs = vec![];
    for fd in md.fields() {
        match fd.runtime_field_type() {
            RuntimeFieldType::Singular(_) => { if let Some(v) = fd.get_singular(msg) { fs.push(format!("({}, {})", coq_n(fd.number() as u64), coq_rv(&v, it))); } }
            RuntimeFieldType::Repeated(_) => {
                let items: Vec<String> = fd.get_repeated(msg).into_iter().map(|v| coq_rv(&v, it)).collect();
                fs.push(format!("({}, VArr [{}])", coq_n(fd.number() as u64), items.join("; ")));
            }
            RuntimeFieldType::Map(_, _) => {
                let items: Vec<String> = fd.get_map(msg).into_iter().map(|(k, v)| format!("({}, {})", coq_rv(&k, it), coq_rv(&v, it))).collect();
                fs.push(format!("({}, VMap [{}])", coq_n(fd.number() as u64), items.join("; ")));
            }
        }
    }
    format!("(VMsg [{}])", fs.join("; "))
}

// ------------------------------------------------------------------ queries
#[derive(Clone, Debug, PartialEq)]
enum Sc { I(i64), F(f64), B(bool), S(Vec<u8>) }
#[derive(Clone, Debug)]
enum Step { Field(String), Index(i64), KeyI(i64), KeyS(Vec<u8>) }
#[derive(Clone, Debug)]
enum Query {
    Defined(Vec<Step>), Eq(Vec<Step>, Sc), Len(Vec<Step>, i64),
    Any(Vec<Step>, Vec<Step>, Sc), All(Vec<Step>, Vec<Step>, Sc),
    MapAny(Vec<Step>, Step, Vec<Step>, Sc),
    /// conditions that read the exact bytes of a string
    StrLen(Vec<Step>, i64), Contains(Vec<Step>, Vec<u8>), StartsWith(Vec<Step>, Vec<u8>), EndsWith(Vec<Step>, Vec<u8>),
    /// a module function whose result is the value of a field of the output message:
    /// (text of the call, the field it must agree with, literal; None = `defined <call>`)
    Func(String, Vec<Step>, Option<Sc>),
    /// for <quantifier> x in <array> : (x<sub> == lit)
    For(Quant, Vec<Step>, Vec<Step>, Sc),
    /// for <quantifier> k, v in <map> : (v<sub> == lit); the map's keys as reflection shows them
    MapFor(Quant, Vec<Step>, Vec<Step>, Vec<Step>, Sc),
    /// contexts in which undefined, false and true differ
    Not(Box<Query>), IsDefined(Box<Query>), OrFalse(Box<Query>), AndTrue(Box<Query>),
}
#[derive(Clone, Copy, Debug)]
enum Quant { Any, All, None, N(i64), Pct(i64) }
impl Quant {
    fn text(&self) -> String { match self { Quant::Any => "any".into(), Quant::All => "all".into(), Quant::None => "none".into(), Quant::N(c) => format!("{}", c), Quant::Pct(p) => format!("{}%", p) } }
    fn coq(&self) -> String { match self { Quant::Any => "QtAny".into(), Quant::All => "QtAll".into(), Quant::None => "QtNone".into(), Quant::N(c) => format!("(QtN {})", coq_z(*c as i128)), Quant::Pct(p) => format!("(QtPct {})", coq_z(*p as i128)) } }
}

fn str_lit(b: &[u8]) -> String {
    let mut s = String::from("\"");
    for &c in b {
        if c == b'"' || c == b'\\' { s.push('\\'); s.push(c as char); }
        else if (0x20..0x7f).contains(&c) { s.push(c as char); }
        else { s.push_str(&format!("\\x{:02x}", c)); }
    }
    s.push('"'); s
}
fn int_lit(i: i64) -> String { if i == i64::MIN { "(-9223372036854775807 - 1)".into() } else { format!("{}", i) } }
fn path_text(module: &str, p: &[Step]) -> String {
    let mut s = module.to_string();
    for st in p { s.push_str(&step_text(st)); }
    s
}
fn step_text(st: &Step) -> String {
    match st { Step::Field(n) => format!(".{}", n), Step::Index(i) => format!("[{}]", i), Step::KeyI(k) => format!("[{}]", int_lit(*k)), Step::KeyS(k) => format!("[{}]", str_lit(k)) }
}
fn sub_text(var: &str, p: &[Step]) -> String { let mut s = var.to_string(); for st in p { s.push_str(&step_text(st)); } s }
fn eq_text(lhs: &str, l: &Sc) -> String {
    match l {
        Sc::I(i) => format!("{} == {}", lhs, int_lit(*i)),
        Sc::F(f) => format!("{} == {:?}", lhs, f),
        Sc::B(true) => lhs.to_string(),
        Sc::B(false) => format!("not {}", lhs),
        Sc::S(s) => format!("{} == {}", lhs, str_lit(s)),
    }
}
fn query_text(module: &str, q: &Query) -> String {
    match q {
        Query::Defined(p) => format!("defined {}", path_text(module, p)),
        Query::Eq(p, l) => eq_text(&path_text(module, p), l),
        Query::Len(p, n) => format!("{}.len() == {}", path_text(module, p), n),
        Query::Any(p, sub, l) => format!("for any x in {} : ({})", path_text(module, p), eq_text(&sub_text("x", sub), l)),
        Query::All(p, sub, l) => format!("for all x in {} : ({})", path_text(module, p), eq_text(&sub_text("x", sub), l)),
        Query::StrLen(p, n) => format!("{}.len() == {}", path_text(module, p), n),
        Query::Contains(p, x) => format!("{} contains {}", path_text(module, p), str_lit(x)),
        Query::StartsWith(p, x) => format!("{} startswith {}", path_text(module, p), str_lit(x)),
        Query::EndsWith(p, x) => format!("{} endswith {}", path_text(module, p), str_lit(x)),
        Query::For(qt, p, sub, l) => format!("for {} x in {} : ({})", qt.text(), path_text(module, p), eq_text(&sub_text("x", sub), l)),
        Query::MapFor(qt, p, _, sub, l) => format!("for {} k, v in {} : ({})", qt.text(), path_text(module, p), eq_text(&sub_text("v", sub), l)),
        Query::Not(q) => format!("not ({})", query_text(module, q)),
        Query::IsDefined(q) => format!("defined ({})", query_text(module, q)),
        Query::OrFalse(q) => format!("(({}) or false)", query_text(module, q)),
        Query::AndTrue(q) => format!("(({}) and true)", query_text(module, q)),
        Query::Func(call, _, Some(l)) => eq_text(call, l),
        Query::Func(call, _, None) => format!("defined {}", call),
        Query::MapAny(p, k, sub, l) => format!("for any k, v in {} : (k == {} and {})", path_text(module, p),
            match k { Step::KeyI(i) => int_lit(*i), Step::KeyS(s) => str_lit(s), _ => unreachable!() }, eq_text(&sub_text("v", sub), l)),
    }
}
fn coq_steps(p: &[Step], it: &mut Interner) -> String {
    let v: Vec<String> = p.iter().map(|s| coq_step(s, it)).collect();
    format!("[{}]", v.join("; "))
}
fn coq_step(s: &Step, it: &mut Interner) -> String {
    match s {
        Step::Field(n) => format!("SField {}", coq_name(n)),
        Step::Index(i) => format!("SIndex {}", coq_z(*i as i128)),
        Step::KeyI(k) => format!("SKey (VInt {})", coq_z(*k as i128)),
        Step::KeyS(k) => format!("SKey (VStr {})", coq_n(it.id(k))),
    }
}
fn coq_lit(l: &Sc, it: &mut Interner) -> String {
    match l {
        Sc::I(i) => format!("(LI {})", coq_z(*i as i128)), Sc::F(f) => format!("(LF {})", coq_z(f.to_bits() as i128)),
        Sc::B(b) => format!("(LB {})", coq_bool(*b)), Sc::S(s) => format!("(LS {})", coq_n(it.id(s))),
    }
}
/// the keys (as conditions see them) of the map a path leads to in this message; no such map = no keys
fn map_keys_at(msg: &dyn MessageDyn, p: &[Step]) -> Vec<Step> {
    let md = msg.descriptor_dyn();
    let Some(Step::Field(name)) = p.first() else { return vec![] };
    let Some(fd) = md.fields().find(|f| !ignored(f) && &yara_name(f) == name) else { return vec![] };
    let key_of = |k: &ReflectValueRef| match scalar_of(k) { Some(Sc::I(i)) => Some(Step::KeyI(i)), Some(Sc::S(s)) => Some(Step::KeyS(s)), _ => None };
    match fd.runtime_field_type() {
        RuntimeFieldType::Map(_, _) => {
            let m = fd.get_map(msg);
            if p.len() == 1 { return (&m).into_iter().filter_map(|(k, _)| key_of(&k)).collect(); }
            let want = &p[1];
            for (k, v) in &m {
                let same = match (key_of(&k), want) { (Some(Step::KeyI(a)), Step::KeyI(b)) => a == *b, (Some(Step::KeyS(a)), Step::KeyS(b)) => &a == b, _ => false };
                if same { if let ReflectValueRef::Message(sub) = v { return map_keys_at(&*sub, &p[2..]); } }
            }
            vec![]
        }
        RuntimeFieldType::Repeated(_) => {
            if let Some(Step::Index(i)) = p.get(1) {
                if *i >= 0 { if let Some(ReflectValueRef::Message(sub)) = fd.get_repeated(msg).into_iter().nth(*i as usize) { return map_keys_at(&*sub, &p[2..]); } }
            }
            vec![]
        }
        RuntimeFieldType::Singular(_) => match fd.get_singular(msg) { Some(ReflectValueRef::Message(sub)) => map_keys_at(&*sub, &p[1..]), _ => vec![] },
    }
}
/// a shared query specialised to the message of one scan (the key lists of map loops)
fn for_message(q: &Query, msg: &dyn MessageDyn) -> Query {
    match q {
        Query::MapFor(qt, p, _, sub, l) => Query::MapFor(*qt, p.clone(), map_keys_at(msg, p), sub.clone(), l.clone()),
        Query::Not(x) => Query::Not(Box::new(for_message(x, msg))), Query::IsDefined(x) => Query::IsDefined(Box::new(for_message(x, msg))),
        Query::OrFalse(x) => Query::OrFalse(Box::new(for_message(x, msg))), Query::AndTrue(x) => Query::AndTrue(Box::new(for_message(x, msg))),
        other => other.clone(),
    }
}

fn coq_query(q: &Query, it: &mut Interner) -> String {
    match q {
        Query::Defined(p) => format!("QDefined {}", coq_steps(p, it)),
        Query::Eq(p, l) => format!("QEq {} {}", coq_steps(p, it), coq_lit(l, it)),
        Query::Len(p, n) => format!("QLen {} {}", coq_steps(p, it), coq_z(*n as i128)),
        Query::Any(p, s, l) => format!("QAny {} {} {}", coq_steps(p, it), coq_steps(s, it), coq_lit(l, it)),
        Query::All(p, s, l) => format!("QAll {} {} {}", coq_steps(p, it), coq_steps(s, it), coq_lit(l, it)),
        Query::StrLen(p, n) => format!("QStrLen {} {}", coq_steps(p, it), coq_z(*n as i128)),
        Query::Contains(p, x) => format!("QContains {} {}", coq_steps(p, it), coq_bytes(x)),
        Query::StartsWith(p, x) => format!("QStartsWith {} {}", coq_steps(p, it), coq_bytes(x)),
        Query::EndsWith(p, x) => format!("QEndsWith {} {}", coq_steps(p, it), coq_bytes(x)),
        Query::For(qt, p, sub, l) => format!("QFor {} {} {} {}", qt.coq(), coq_steps(p, it), coq_steps(sub, it), coq_lit(l, it)),
        Query::MapFor(qt, p, keys, sub, l) => {
            let ks: Vec<String> = keys.iter().map(|k| match k { Step::KeyI(i) => format!("VInt {}", coq_z(*i as i128)), Step::KeyS(b) => format!("VStr {}", coq_n(it.id(b))), _ => unreachable!() }).collect();
            format!("QMapFor {} {} [{}] {} {}", qt.coq(), coq_steps(p, it), ks.join("; "), coq_steps(sub, it), coq_lit(l, it))
        }
        Query::Not(q) => format!("QNot ({})", coq_query(q, it)),
        Query::IsDefined(q) => format!("QIsDefined ({})", coq_query(q, it)),
        Query::OrFalse(q) => format!("QOrFalse ({})", coq_query(q, it)),
        Query::AndTrue(q) => format!("QAndTrue ({})", coq_query(q, it)),
        Query::Func(_, p, Some(l)) => format!("QEq {} {}", coq_steps(p, it), coq_lit(l, it)),
        Query::Func(_, p, None) => format!("QDefined {}", coq_steps(p, it)),
        Query::MapAny(p, k, s, l) => {
            let kv = match k { Step::KeyI(i) => format!("(VInt {})", coq_z(*i as i128)), Step::KeyS(b) => format!("(VStr {})", coq_n(it.id(b))), _ => unreachable!() };
            format!("QMapAny {} {} {} {}", coq_steps(p, it), kv, coq_steps(s, it), coq_lit(l, it))
        }
    }
}

/// the scalar a condition is expected to see for a reflected value (only used to CHOOSE
/// literals; the expected verdict comes from the Coq model)
fn scalar_of(v: &ReflectValueRef) -> Option<Sc> {
    Some(match v {
        ReflectValueRef::U32(x) => Sc::I(*x as i64), ReflectValueRef::U64(x) => Sc::I(*x as i64),
        ReflectValueRef::I32(x) => Sc::I(*x as i64), ReflectValueRef::I64(x) => Sc::I(*x),
        ReflectValueRef::Enum(_, n) => Sc::I(*n as i64),
        ReflectValueRef::F32(x) => Sc::F(*x as f64), ReflectValueRef::F64(x) => Sc::F(*x),
        ReflectValueRef::Bool(b) => Sc::B(*b),
        ReflectValueRef::String(s) => Sc::S(s.as_bytes().to_vec()), ReflectValueRef::Bytes(b) => Sc::S(b.to_vec()),
        ReflectValueRef::Message(_) => return None,
    })
}
fn default_of(rt: &RuntimeType) -> Option<Sc> {
    Some(match rt {
        RuntimeType::I32 | RuntimeType::I64 | RuntimeType::U32 | RuntimeType::U64 | RuntimeType::Enum(_) => Sc::I(0),
        RuntimeType::F32 | RuntimeType::F64 => Sc::F(0.0), RuntimeType::Bool => Sc::B(false),
        RuntimeType::String | RuntimeType::VecU8 => Sc::S(vec![]), RuntimeType::Message(_) => return None,
    })
}
fn other_of(l: &Sc) -> Sc {
    match l { Sc::I(i) => Sc::I(i.wrapping_add(1)), Sc::F(f) => Sc::F(*f + 1.0), Sc::B(b) => Sc::B(!*b), Sc::S(s) => { let mut t = s.clone(); t.push(b'x'); Sc::S(t) } }
}
fn usable(l: &Sc) -> bool { match l { Sc::F(f) => f.is_finite() && !(*f == 0.0 && f.is_sign_negative()) && f.abs() < 1e15 && (f.abs() > 1e-5 || *f == 0.0), _ => true } }

fn swapcase(b: &[u8]) -> Vec<u8> { b.iter().map(|c| if c.is_ascii_uppercase() { c.to_ascii_lowercase() } else if c.is_ascii_lowercase() { c.to_ascii_uppercase() } else { *c }).collect() }
/// conditions that distinguish "the bytes are passed through unchanged" from case changes,
/// trimming, truncation at NUL, and lossy re-encoding
fn string_queries(p: &[Step], b: &[u8], out: &mut Vec<Query>) {
    if b.len() > 64 { return; }
    let n = b.len() as i64;
    out.push(Query::StrLen(p.to_vec(), n));
    out.push(Query::StrLen(p.to_vec(), n + 1));
    if b.is_empty() { return; }
    // a needle around the first "interesting" byte (upper case, NUL, space, non-ASCII), else the middle
    let pos = b.iter().position(|c| c.is_ascii_uppercase() || *c == 0 || *c == b' ' || *c >= 0x80).unwrap_or(b.len() / 2);
    let lo = pos.saturating_sub(1);
    let hi = (pos + 2).min(b.len());
    let needle = b[lo..hi].to_vec();
    out.push(Query::Contains(p.to_vec(), needle.clone()));
    let sw = swapcase(&needle);
    if sw != needle { out.push(Query::Contains(p.to_vec(), sw)); }
    let k = b.len().min(3);
    out.push(Query::StartsWith(p.to_vec(), b[..k].to_vec()));
    out.push(Query::EndsWith(p.to_vec(), b[b.len() - k..].to_vec()));
    let sws = swapcase(&b[..k]);
    if sws != b[..k] { out.push(Query::StartsWith(p.to_vec(), sws)); }
    // the whole value in the other case must not compare equal
    let sw_all = swapcase(b);
    if sw_all != b { out.push(Query::Eq(p.to_vec(), Sc::S(sw_all))); out.push(Query::Eq(p.to_vec(), Sc::S(b.to_ascii_lowercase()))); }
    // trimmed / truncated-at-NUL variants must not compare equal either
    let trimmed: Vec<u8> = String::from_utf8_lossy(b).trim().as_bytes().to_vec();
    if trimmed != b { out.push(Query::Eq(p.to_vec(), Sc::S(trimmed))); }
    if let Some(z) = b.iter().position(|c| *c == 0) { out.push(Query::Eq(p.to_vec(), Sc::S(b[..z].to_vec()))); }
}

fn leaf_queries(p: &[Step], v: Option<Sc>, rt: &RuntimeType, out: &mut Vec<Query>) {
    out.push(Query::Defined(p.to_vec()));
    match v {
        Some(l) => {
            if usable(&l) { out.push(Query::Eq(p.to_vec(), l.clone())); out.push(Query::Eq(p.to_vec(), other_of(&l))); }
            if let Sc::S(b) = &l { string_queries(p, b, out); }
        }
        None => { if let Some(d) = default_of(rt) { out.push(Query::Eq(p.to_vec(), d)); } }
    }
}

/// every observable path of a message (present or absent), depth-limited
/// every quantifier over a collection, each in a context where undefined / false / true differ;
/// `empty`: the collection has no items (the zero-iteration case: all contexts are generated)
fn loop_queries(mk: &dyn Fn(Quant) -> Query, empty: bool, rng: &mut Rng, out: &mut Vec<Query>) {
    for qt in [Quant::Any, Quant::All, Quant::None, Quant::N(2), Quant::Pct(50)] {
        let q = mk(qt);
        if empty || matches!(qt, Quant::Any) {
            out.push(q.clone());
            out.push(Query::Not(Box::new(q.clone())));
            out.push(Query::IsDefined(Box::new(q.clone())));
            if empty && matches!(qt, Quant::Any | Quant::None) { out.push(Query::Not(Box::new(Query::OrFalse(Box::new(q.clone()))))); out.push(Query::AndTrue(Box::new(Query::Not(Box::new(q))))); }
        } else {
            out.push(match rng.below(5) { 0 => q, 1 => Query::Not(Box::new(q)), 2 => Query::IsDefined(Box::new(q)), 3 => Query::Not(Box::new(Query::OrFalse(Box::new(q)))), _ => Query::AndTrue(Box::new(q)) });
        }
    }
}
fn first_scalar_field(md: &MessageDescriptor) -> Option<FieldDescriptor> {
    md.fields().find(|f| !ignored(f) && !fopts(f).acl && matches!(f.runtime_field_type(), RuntimeFieldType::Singular(t) if !matches!(t, RuntimeType::Message(_))))
}

fn enumerate(md: &MessageDescriptor, msg: Option<&dyn MessageDyn>, prefix: &[Step], depth: usize, rng: &mut Rng, out: &mut Vec<Query>, tmpl: &mut Vec<Query>) {
    if depth > 3 { return; }
    for fd in md.fields() {
        if ignored(&fd) { continue; }
        let mut p = prefix.to_vec();
        p.push(Step::Field(yara_name(&fd)));
        match fd.runtime_field_type() {
            RuntimeFieldType::Singular(rt) => {
                let v = msg.and_then(|m| fd.get_singular(m));
                match &rt {
                    RuntimeType::Message(sub) => {
                        let m: Option<&dyn MessageDyn> = match &v { Some(ReflectValueRef::Message(m)) => Some(&**m), _ => None };
                        enumerate(sub, m, &p, depth + 1, rng, out, tmpl);
                    }
                    _ => leaf_queries(&p, v.as_ref().and_then(scalar_of), &rt, out),
                }
            }
            RuntimeFieldType::Repeated(rt) => {
                let items: Vec<ReflectValueRef> = msg.map(|m| fd.get_repeated(m).into_iter().collect()).unwrap_or_default();
                let n = items.len() as i64;
                if msg.is_none() && matches!(rt, RuntimeType::Message(_)) {
                    // a repeated message field of an ABSENT message (the shape of a repaired defect: the
                    // scan-time array used to hold a template item); these queries form a case of their own
                    tmpl.push(Query::Len(p.clone(), 0)); tmpl.push(Query::Len(p.clone(), 1));
                    if let RuntimeType::Message(sub) = &rt {
                        if let Some(sf) = sub.fields().find(|f| !ignored(f) && matches!(f.runtime_field_type(), RuntimeFieldType::Singular(t) if !matches!(t, RuntimeType::Message(_)))) {
                            let mut q = p.clone(); q.push(Step::Index(0)); q.push(Step::Field(yara_name(&sf)));
                            tmpl.push(Query::Defined(q));
                            if let (RuntimeFieldType::Singular(st), true) = (sf.runtime_field_type(), true) {
                                if let Some(l) = default_of(&st) {
                                    let (pp, ss) = (p.clone(), vec![Step::Field(yara_name(&sf))]);
                                    loop_queries(&|qt| Query::For(qt, pp.clone(), ss.clone(), l.clone()), true, rng, tmpl);
                                }
                            }
                        }
                    }
                    continue;
                }
                out.push(Query::Len(p.clone(), n)); out.push(Query::Len(p.clone(), n + 1));
                let mut idxs = vec![0i64, n - 1, n, n + 7];
                if n > 2 { idxs.push(rng.range(1, n - 1)); }
                idxs.sort(); idxs.dedup();
                for i in idxs {
                    if i < 0 { continue; }
                    let mut q = p.clone(); q.push(Step::Index(i));
                    let item = items.get(i as usize);
                    match &rt {
                        RuntimeType::Message(sub) => {
                            let m: Option<&dyn MessageDyn> = match item { Some(ReflectValueRef::Message(m)) => Some(&**m), _ => None };
                            if m.is_some() || depth < 2 { enumerate(sub, m, &q, depth + 1, rng, out, tmpl); }
                        }
                        _ => leaf_queries(&q, item.and_then(scalar_of), &rt, out),
                    }
                }
                // iteration: every quantifier, also (and above all) over a collection without items
                let (sub, lit): (Vec<Step>, Option<Sc>) = match &rt {
                    RuntimeType::Message(subm) => match first_scalar_field(subm) {
                        Some(sf) => {
                            let from_item = match items.first() { Some(ReflectValueRef::Message(m)) => sf.get_singular(&**m).as_ref().and_then(scalar_of), _ => None };
                            let dflt = match sf.runtime_field_type() { RuntimeFieldType::Singular(t) => default_of(&t), _ => None };
                            (vec![Step::Field(yara_name(&sf))], from_item.or(dflt))
                        }
                        None => (vec![], None),
                    },
                    _ => (vec![], items.first().and_then(scalar_of).or(default_of(&rt))),
                };
                if let Some(l) = lit {
                    if usable(&l) {
                        let (pp, ss) = (p.clone(), sub.clone());
                        loop_queries(&|qt| Query::For(qt, pp.clone(), ss.clone(), l.clone()), items.is_empty(), rng, out);
                        out.push(Query::Any(p.clone(), sub.clone(), l.clone()));
                        out.push(Query::All(p.clone(), sub.clone(), l.clone()));
                        out.push(Query::Any(p.clone(), sub.clone(), other_of(&l)));
                        if sub.is_empty() { if let Some(last) = items.last().and_then(scalar_of) { if usable(&last) { out.push(Query::All(p.clone(), vec![], last)); } } }
                    }
                }
            }
            RuntimeFieldType::Map(kt, vt) => {
                let mref = msg.map(|m| fd.get_map(m));
                let entries: Vec<(ReflectValueRef, ReflectValueRef)> = match &mref { Some(r) => r.into_iter().collect(), None => vec![] };
                if msg.is_some() { out.push(Query::Len(p.clone(), entries.len() as i64)); out.push(Query::Len(p.clone(), entries.len() as i64 + 1)); }
                {
                    let key_of = |k: &ReflectValueRef| match scalar_of(k) { Some(Sc::I(i)) => Some(Step::KeyI(i)), Some(Sc::S(s)) => Some(Step::KeyS(s)), _ => None };
                    let all_keys: Vec<Step> = entries.iter().filter_map(|(k, _)| key_of(k)).collect();
                    let (sub, lit): (Vec<Step>, Option<Sc>) = match &vt {
                        RuntimeType::Message(subm) => match first_scalar_field(subm) {
                            Some(sf) => {
                                let from_item = match entries.first() { Some((_, ReflectValueRef::Message(m))) => sf.get_singular(&**m).as_ref().and_then(scalar_of), _ => None };
                                let dflt = match sf.runtime_field_type() { RuntimeFieldType::Singular(t) => default_of(&t), _ => None };
                                (vec![Step::Field(yara_name(&sf))], from_item.or(dflt))
                            }
                            None => (vec![], None),
                        },
                        _ => (vec![], entries.first().and_then(|(_, v)| scalar_of(v)).or(default_of(&vt))),
                    };
                    if let (Some(l), true) = (lit, all_keys.len() == entries.len() && msg.is_some()) {
                        if usable(&l) {
                            let (pp, ss, kk) = (p.clone(), sub.clone(), all_keys.clone());
                            loop_queries(&|qt| Query::MapFor(qt, pp.clone(), kk.clone(), ss.clone(), l.clone()), entries.is_empty(), rng, out);
                        }
                    }
                }
                let key_step = |k: &ReflectValueRef| match scalar_of(k) { Some(Sc::I(i)) => Some(Step::KeyI(i)), Some(Sc::S(s)) => Some(Step::KeyS(s)), _ => None };
                let mut keys: Vec<(Step, Option<&ReflectValueRef>)> = entries.iter().filter_map(|(k, v)| key_step(k).map(|s| (s, Some(v)))).collect();
                if keys.len() > 3 { let i = rng.below(keys.len() as u64 - 1) as usize; keys = vec![keys[0].clone(), keys[i + 1].clone()]; }
                keys.push((match kt { RuntimeType::String => Step::KeyS(b"no such key".to_vec()), _ => Step::KeyI(424242) }, None));
                for (ks, v) in keys {
                    let mut q = p.clone(); q.push(ks.clone());
                    match &vt {
                        RuntimeType::Message(sub) => {
                            let m: Option<&dyn MessageDyn> = match v { Some(ReflectValueRef::Message(m)) => Some(&**m), _ => None };
                            if m.is_some() { enumerate(sub, m, &q, depth + 1, rng, out, tmpl); }
                            else if let Some(sf) = sub.fields().find(|f| !ignored(f)) { let mut q2 = q.clone(); q2.push(Step::Field(yara_name(&sf))); if !matches!(sf.runtime_field_type(), RuntimeFieldType::Singular(RuntimeType::Message(_))) && matches!(sf.runtime_field_type(), RuntimeFieldType::Singular(_)) { out.push(Query::Defined(q2)); } }
                        }
                        _ => {
                            let sv = v.and_then(scalar_of);
                            leaf_queries(&q, sv.clone(), &vt, out);
                            if let Some(l) = sv { if usable(&l) { out.push(Query::MapAny(p.clone(), ks.clone(), vec![], l.clone())); out.push(Query::MapAny(p.clone(), ks.clone(), vec![], other_of(&l))); } }
                        }
                    }
                }
            }
        }
    }
}

// ------------------------------------------------------------------ synthetic messages
fn gen_scalar(rt: &RuntimeType, rng: &mut Rng) -> ReflectValueBox {
    match rt {
        RuntimeType::I32 => ReflectValueBox::I32(*rng.pick(&[0, 1, -1, i32::MIN, i32::MAX, 12345, -77])),
        RuntimeType::I64 => ReflectValueBox::I64(*rng.pick(&[0, 1, -1, i64::MIN, i64::MAX, 1 << 40, -99])),
        RuntimeType::U32 => ReflectValueBox::U32(*rng.pick(&[0, 1, u32::MAX, 0x8000_0000, 7])),
        RuntimeType::U64 => ReflectValueBox::U64(*rng.pick(&[0, 1, u64::MAX, 1 << 63, (1 << 63) - 1, 5])),
        RuntimeType::F32 => ReflectValueBox::F32(*rng.pick(&[0.0f32, 1.0, -1.5, 0.1, 16777216.0, 3.25])),
        RuntimeType::F64 => ReflectValueBox::F64(*rng.pick(&[0.0f64, 1.0, -2.5, 0.1, 1e10, 0.001, 123456.789])),
        RuntimeType::Bool => ReflectValueBox::Bool(rng.chance(1, 2)),
        RuntimeType::String => ReflectValueBox::String(match rng.below(12) {
            0 => String::new(), 1 => "foo".into(), 2 => "a\"b\\c".into(), 3 => "x".repeat(300), 4 => "\u{fc}\u{f1}\u{ed} \u{4e2d}".into(),
            5 => "with\0nul".into(), 6 => "FooBar".into(), 7 => "  Padded Value \t".into(), 8 => "MiXeD\0CaSe".into(), 9 => "UPPER lower \u{c4}\u{d6}".into(),
            10 => "Trailing\0".into(), _ => format!("S{}x", rng.below(1000)) }),
        RuntimeType::VecU8 => ReflectValueBox::Bytes(match rng.below(8) {
            0 => vec![], 1 => vec![0, 1, 0xff, 0], 2 => b"bytes".to_vec(), 3 => (0..=255u8).collect(), 4 => b"AbC\xff\xfeDe".to_vec(),
            5 => b" \tBytes With Space \n".to_vec(), 6 => b"\xc3\x28 Invalid UTF8 \xa0\xa1".to_vec(), _ => vec![rng.below(256) as u8; 3] }),
        RuntimeType::Enum(e) => { let vals: Vec<i32> = e.values().map(|v| v.value()).collect(); ReflectValueBox::Enum(e.clone(), *rng.pick(&vals)) }
        RuntimeType::Message(md) => ReflectValueBox::Message(gen_msg(md, rng, 1)),
    }
}
fn gen_key(rt: &RuntimeType, rng: &mut Rng, k: usize) -> ReflectValueBox {
    match rt {
        RuntimeType::I32 => ReflectValueBox::I32(*rng.pick(&[0, -1, i32::MAX]) + k as i32 * 3 % 1000),
        RuntimeType::I64 => ReflectValueBox::I64(match k { 0 => *rng.pick(&[0, -1, i64::MIN, i64::MAX]), _ => k as i64 * 1000 + rng.below(999) as i64 }),
        RuntimeType::U32 => ReflectValueBox::U32(k as u32 * 10 + rng.below(9) as u32),
        RuntimeType::U64 => ReflectValueBox::U64(match k { 0 => *rng.pick(&[0, u64::MAX, 1 << 63]), _ => k as u64 * 10 }),
        _ => ReflectValueBox::String(match k { 0 => (*rng.pick(&["", "foo", "k\"q", "\u{fc}"])).to_string(), _ => format!("key{}", k) }),
    }
}
fn gen_msg(md: &MessageDescriptor, rng: &mut Rng, depth: usize) -> Box<dyn MessageDyn> {
    let mut msg = md.new_instance();
    let p_set = 3 + rng.below(6); // per message: sparse .. dense
    for fd in md.fields() {
        match fd.runtime_field_type() {
            RuntimeFieldType::Singular(rt) => {
                if matches!(rt, RuntimeType::Message(_)) && depth > 2 { continue; }
                if fd.is_required() || annotated(&fd) || rng.chance(p_set, 10) { fd.set_singular_field(&mut *msg, gen_scalar(&rt, rng)); }
            }
            RuntimeFieldType::Repeated(rt) => {
                if matches!(rt, RuntimeType::Message(_)) && depth > 2 { continue; }
                let n = *rng.pick(&[0usize, 0, 1, 2, 3, 6]);
                let mut r = fd.mut_repeated(&mut *msg);
                for _ in 0..n { r.push(gen_scalar(&rt, rng)); }
            }
            RuntimeFieldType::Map(kt, vt) => {
                let n = *rng.pick(&[0usize, 1, 2, 4]);
                let mut m = fd.mut_map(&mut *msg);
                for k in 0..n { m.insert(gen_key(&kt, rng, k), gen_scalar(&vt, rng)); }
            }
        }
    }
    msg
}

// ------------------------------------------------------------------ field indexes from the IR
#[derive(Clone)]
struct IrBuf(std::sync::Arc<std::sync::Mutex<Vec<u8>>>);
impl std::io::Write for IrBuf {
    fn write(&mut self, b: &[u8]) -> std::io::Result<usize> { self.0.lock().unwrap().extend_from_slice(b); Ok(b.len()) }
    fn flush(&mut self) -> std::io::Result<()> { Ok(()) }
}
/// the `index` of every `SYMBOL Field { index: N, is_root: false, .. }` of an IR dump, in order
fn ir_field_indexes(ir: &str) -> Vec<usize> {
    let mut v = vec![];
    for line in ir.lines() {
        if let Some(p) = line.find("SYMBOL Field { index: ") {
            let rest = &line[p + "SYMBOL Field { index: ".len()..];
            let num: String = rest.chars().take_while(|c| c.is_ascii_digit()).collect();
            if rest.contains("is_root: false") { if let Ok(n) = num.parse() { v.push(n); } }
        }
    }
    v
}

// ------------------------------------------------------------------ one case
struct CaseOut { label: String, coq: String, json: String, queries: usize, skipped: usize, kinds: Vec<&'static str>, true_verdicts: usize }

/// canonical text of a message (map entries sorted), to compare what ScanResults hands back with what was supplied
fn canon(msg: &dyn MessageDyn) -> String {
    fn val(v: &ReflectValueRef) -> String {
        match v {
            ReflectValueRef::Message(m) => canon(&**m),
            ReflectValueRef::F32(x) => format!("f32:{:08x}", x.to_bits()),
            ReflectValueRef::F64(x) => format!("f64:{:016x}", x.to_bits()),
            ReflectValueRef::String(s) => format!("s:{}", hex(s.as_bytes())),
            ReflectValueRef::Bytes(b) => format!("b:{}", hex(b)),
            ReflectValueRef::Enum(_, n) => format!("e:{}", n),
            other => format!("{:?}", other),
        }
    }
    let md = msg.descriptor_dyn();
    let mut out = vec![];
    for fd in md.fields() {
        match fd.runtime_field_type() {
            RuntimeFieldType::Singular(_) => if let Some(v) = fd.get_singular(msg) { out.push(format!("{}={}", fd.number(), val(&v))); },
            RuntimeFieldType::Repeated(_) => out.push(format!("{}=[{}]", fd.number(), fd.get_repeated(msg).into_iter().map(|v| val(&v)).collect::<Vec<_>>().join(","))),
            RuntimeFieldType::Map(_, _) => { let mut e: Vec<String> = fd.get_map(msg).into_iter().map(|(k, v)| format!("{}:{}", val(&k), val(&v))).collect(); e.sort(); out.push(format!("{}={{{}}}", fd.number(), e.join(","))); }
        }
    }
    format!("{{{}}}", out.join(";"))
}

/// how the module output reaches the scanner in one scan of a sequence
enum Supply { Computed, Boxed(Box<dyn MessageDyn>), Raw(Box<dyn MessageDyn>) }

/// conditions calling module functions that read the output message (ctx.module_output::<T>()):
/// their verdicts with computed and with supplied output must agree
fn function_conditions(module: &str) -> Vec<&'static str> {
    match module {
        "pe" => vec!["pe.is_32bit()", "pe.is_64bit()", "pe.is_dll()", "defined pe.is_dll()", "pe.section_index(\".text\") >= 0", "defined pe.section_index(0)",
                     "defined pe.rva_to_offset(4096)", "pe.imports(\"kernel32.dll\")", "pe.imports(pe.IMPORT_ANY, \"kernel32.dll\", \"ExitProcess\") >= 0",
                     "pe.exports(\"DllMain\")", "pe.locale(0x0409)", "pe.language(9)", "defined pe.rich_signature.toolid(1)", "pe.rich_signature.version(1) >= 0",
                     "defined pe.import_rva(\"kernel32.dll\", \"ExitProcess\")"],
        "elf" => vec!["defined elf.import_md5()", "defined elf.telfhash()", "elf.import_md5() == \"\""],
        "macho" => vec!["defined macho.file_index_for_arch(7)", "macho.has_dylib(\"/usr/lib/libSystem.B.dylib\")", "macho.has_rpath(\"@loader_path/../lib\")",
                        "macho.has_entitlement(\"com.apple.security.get-task-allow\")", "macho.has_import(\"_printf\")", "macho.has_export(\"_main\")",
                        "defined macho.dylib_hash()", "defined macho.entitlement_hash()", "defined macho.import_hash()", "defined macho.export_hash()"],
        "dex" => vec!["dex.contains_string(\"a\")", "dex.contains_method(\"<init>\")", "dex.contains_class(\"Ljava/lang/Object;\")", "defined dex.checksum()", "defined dex.signature()"],
        "crx" => vec!["defined crx.permhash()", "crx.permhash() == \"\""],
        _ => vec![],
    }
}

/// One compiler, one scanner, a sequence of scans of `data`, each with its own way of providing the
/// module output.  One case per scan: the message that scan must observe, every query's verdict,
/// the field indexes of the compiled rules, function verdict pairs and the ScanResults view.
fn run_steps(module: &str, md: &MessageDescriptor, data: &[u8], steps: Vec<(Supply, String)>, rng: &mut Rng, max_q: usize, template: bool, with_functions: bool) -> Result<Vec<CaseOut>, String> {
    // queries: over every message that will be observed (for a computed step: the module's own output)
    let own: Option<Box<dyn MessageDyn>> = {
        let rules = yara_x::compile(format!("import \"{}\" rule x {{ condition: true }}", module).as_str()).map_err(|e| e.to_string())?;
        let mut sc = yara_x::Scanner::new(&rules);
        let r = sc.scan(data).map_err(|e| format!("scan: {e}"))?;
        r.module_output(module).map(|m| m.clone_box())
    };
    let mut queries: Vec<Query> = vec![];
    let mut seen = std::collections::HashSet::new();
    for (sup, _) in &steps {
        let m: Option<&dyn MessageDyn> = match sup { Supply::Computed => own.as_deref(), Supply::Boxed(m) | Supply::Raw(m) => Some(&**m) };
        let Some(m) = m else { continue };
        let (mut q, mut t) = (vec![], vec![]);
        enumerate(md, Some(m), &[], 0, rng, &mut q, &mut t);
        if template { q = t; }
        if module == "test_proto2" && !template {
            // test_proto2.get_foo() returns string_foo of the output message
            let p = vec![Step::Field("string_foo".into())];
            let v = md.field_by_name("string_foo").and_then(|fd| fd.get_singular(m)).as_ref().and_then(scalar_of);
            q.push(Query::Func("test_proto2.get_foo()".into(), p.clone(), None));
            if let Some(l) = v { q.push(Query::Func("test_proto2.get_foo()".into(), p.clone(), Some(l.clone()))); q.push(Query::Func("test_proto2.get_foo()".into(), p.clone(), Some(other_of(&l)))); }
        }
        // the loop / context queries have a budget of their own so that plain field reads do not crowd them out
        let is_loop = |x: &Query| matches!(x, Query::For(..) | Query::MapFor(..) | Query::Not(_) | Query::IsDefined(_) | Query::OrFalse(_) | Query::AndTrue(_));
        let (mut loops, mut q): (Vec<Query>, Vec<Query>) = q.into_iter().partition(is_loop);
        let budget = max_q / steps.len().max(1) + 1;
        while q.len() > budget { let i = rng.below(q.len() as u64) as usize; q.swap_remove(i); }
        while loops.len() > budget / 2 + 10 { let i = rng.below(loops.len() as u64) as usize; loops.swap_remove(i); }
        q.extend(loops);
        for x in q { let key = query_text(module, &x); if seen.insert(key) { queries.push(x); } }
    }
    if queries.is_empty() { return Ok(vec![]); }
    let mut comp = yara_x::Compiler::new();
    let ir = IrBuf(Default::default());
    comp.set_ir_writer(ir.clone());
    let mut accepted: Vec<(usize, String, Option<Vec<usize>>)> = vec![];
    let mut skipped = 0usize;
    let mut first_skip = String::new();
    // the module is imported once, twice or three times: from several namespaces, from several sources
    // of one namespace, and twice in one source; it must still be ONE module with ONE output per scan
    let n_ns = 1 + rng.below(3) as usize;
    let per_ns = queries.len() / n_ns + 1;
    for (i, q) in queries.iter().enumerate() {
        if n_ns > 1 && i % per_ns == 0 { comp.new_namespace(&format!("ns{}", i / per_ns)); }
        let text = query_text(module, q);
        let dup = if i % 7 == 3 { format!("import \"{}\"\n", module) } else { String::new() };
        let src = format!("{}import \"{}\"\nrule q{} {{ condition: {} }}", dup, module, i, text);
        ir.0.lock().unwrap().clear();
        match comp.add_source(src.as_str()) {
            Ok(_) => {
                let dump = String::from_utf8_lossy(&ir.0.lock().unwrap()).into_owned();
                let idx = if matches!(q, Query::Func(..)) { None } else { Some(ir_field_indexes(&dump)) };
                accepted.push((i, text, idx));
            }
            Err(e) => { skipped += 1; if first_skip.is_empty() { first_skip = format!("{} :: {}", text, e.to_string().lines().next().unwrap_or("")); } }
        }
    }
    let mut funcs: Vec<(usize, &'static str)> = vec![];
    if with_functions {
        for (k, cond) in function_conditions(module).into_iter().enumerate() {
            let src = format!("import \"{}\"\nrule f{} {{ condition: {} }}", module, k, cond);
            if comp.add_source(src.as_str()).is_ok() { funcs.push((k, cond)); }
        }
    }
    let rules = comp.build();
    // Rules::imports(): every imported module once
    let imports: Vec<String> = rules.imports().map(|m| m.to_string()).collect();
    let imports_ok = imports == vec![module.to_string()];
    // function verdicts with the output computed by the module (fresh scanner)
    let computed_funcs: std::collections::HashSet<String> = if funcs.is_empty() { Default::default() } else {
        let mut sc0 = yara_x::Scanner::new(&rules);
        let r = sc0.scan(data).map_err(|e| format!("scan: {e}"))?;
        let matched: std::collections::HashSet<String> = r.matching_rules().map(|r| r.identifier().to_string()).collect();
        matched
    };
    let mut sc = yara_x::Scanner::new(&rules);
    let mut outs = vec![];
    let n_steps = steps.len();
    for (k, (sup, label)) in steps.into_iter().enumerate() {
        let (expected, how): (Option<Box<dyn MessageDyn>>, &str) = match sup {
            Supply::Computed => (None, "computed"),
            Supply::Boxed(m) => { sc.set_module_output(m.clone_box()).map_err(|e| format!("set_module_output: {e}"))?; (Some(m), "set_module_output") }
            Supply::Raw(m) => { let b = m.write_to_bytes_dyn().map_err(|e| e.to_string())?; sc.set_module_output_raw(module, &b).map_err(|e| format!("set_module_output_raw: {e}"))?; (Some(m), "set_module_output_raw") }
        };
        let res = sc.scan(data).map_err(|e| format!("scan: {e}"))?;
        let matched: std::collections::HashSet<String> = res.matching_rules().map(|r| r.identifier().to_string()).collect();
        let view = res.module_output(module).map(|m| m.clone_box());
        let listed = res.module_outputs().any(|(name, _)| name == module);
        // the message this scan must observe
        let msg: Box<dyn MessageDyn> = match (&expected, &view) { (Some(m), _) => m.clone_box(), (None, Some(v)) => v.clone_box(), (None, None) => continue };
        let mut views = vec![imports_ok];
        if expected.is_some() {
            // the public view of the results is the supplied message
            views.push(view.as_ref().map_or(false, |v| canon(&**v) == canon(&*msg)));
            views.push(listed);
        } else { views.push(listed); }
        let mut it = Interner::new();
        let ty = coq_msg_ty(md, &mut it, 0);
        let val = coq_msg(&*msg, &mut it);
        let (mut qs, mut jq, mut kinds, mut trues) = (vec![], vec![], vec![], 0);
        for (i, text, idx) in &accepted {
            let v = matched.contains(&format!("q{}", i));
            if v { trues += 1; }
            qs.push(format!("({}, {}, {})", coq_query(&for_message(&queries[*i], &*msg), &mut it), coq_bool(v),
                match idx { Some(l) => format!("Some {}", coq_list(l, |x| coq_nat(*x))), None => "None".into() }));
            jq.push(format!("[{},{},{}]", json_str(text), v, match idx { Some(l) => format!("{:?}", l), None => "null".into() }));
            kinds.push(match &queries[*i] { Query::Defined(_) => "q:defined", Query::Eq(..) => "q:eq", Query::Len(..) => "q:len", Query::Any(..) => "q:for-any", Query::All(..) => "q:for-all",
                Query::MapAny(..) => "q:map-for-any", Query::StrLen(..) => "q:string-len", Query::Contains(..) => "q:contains", Query::StartsWith(..) => "q:startswith", Query::EndsWith(..) => "q:endswith", Query::Func(..) => "q:function",
                Query::For(..) => "q:for-quantifier", Query::MapFor(..) => "q:map-for-quantifier", Query::Not(_) => "q:not(..)", Query::IsDefined(_) => "q:defined(..)", Query::OrFalse(_) | Query::AndTrue(_) => "q:or/and-context" });
        }
        let mut pairs = vec![];
        let mut jp = vec![];
        if expected.is_some() {
            for (fk, cond) in &funcs {
                let name = format!("f{}", fk);
                let (c, s2) = (computed_funcs.contains(&name), matched.contains(&name));
                // comparable only if the supplied message IS the module's own output for this data
                if own.as_ref().map_or(false, |o| canon(&**o) == canon(&*msg)) { pairs.push(format!("({}, {})", coq_bool(c), coq_bool(s2))); jp.push(format!("[{},{},{}]", json_str(cond), c, s2)); kinds.push("q:function-pair"); }
            }
        }
        let strs: Vec<String> = it.1.iter().enumerate().map(|(i, b)| format!("({}, {})", coq_n(i as u64), coq_bytes(b))).collect();
        let coq = format!("mk \"{}\" (fun nm => ({}, {}, [{}], [{}], [{}], [{}]))", module, ty, val, strs.join("; "), qs.join("; "), pairs.join("; "),
            views.iter().map(|b| coq_bool(*b).to_string()).collect::<Vec<_>>().join("; "));
        let label = if n_steps > 1 { format!("{}:scan{}:{}", label, k + 1, how) } else { label };
        let json = format!("{{\"label\":{},\"module\":{},\"how\":{},\"scan_in_sequence\":{},\"data_hex\":\"{}\",\"message_hex\":\"{}\",\"skipped\":{},\"first_skipped\":{},\"namespaces\":{},\"imports\":{:?},\"views\":{:?},\"function_pairs\":[{}],\"queries\":[{}]}}",
            json_str(&label), json_str(module), json_str(how), k + 1, if data.len() <= 4096 { hex(data) } else { String::from("(large)") },
            hex(&msg.write_to_bytes_dyn().unwrap_or_default()), skipped, json_str(&first_skip), n_ns, imports, views, jp.join(","), jq.join(","));
        outs.push(CaseOut { label, coq, json, queries: accepted.len() + pairs.len(), skipped, kinds, true_verdicts: trues });
    }
    Ok(outs)
}

/// In block scanning mode no module produces output: every array and map of the module is empty and
/// every field undefined, for a block scanner created with blocks::Scanner::new as for one converted
/// from a regular scanner (before and after that scanner has scanned a file).  One condition per
/// repeated / map field of the root message (len() == 0, for any, defined [0]); the verdicts of the
/// fresh scanner are paired with those of the converted ones.
fn block_scanner_case(module: &str, label: &str, rng: &mut Rng) -> Result<Vec<CaseOut>, String> {
    let md = module_descriptor(module);
    let mut conds: Vec<String> = vec![];
    for fd in md.fields() {
        if ignored(&fd) || fopts(&fd).acl { continue; }
        let p = format!("{}.{}", module, yara_name(&fd));
        match fd.runtime_field_type() {
            RuntimeFieldType::Repeated(_) => { conds.push(format!("{}.len() == 0", p)); conds.push(format!("for any x in {} : (true)", p)); conds.push(format!("not (for any x in {} : (true))", p)); }
            RuntimeFieldType::Map(_, _) => { conds.push(format!("{}.len() == 0", p)); conds.push(format!("for any k, v in {} : (true)", p)); }
            RuntimeFieldType::Singular(RuntimeType::Message(sub)) => {
                for f2 in sub.fields() { if !ignored(&f2) { if let RuntimeFieldType::Repeated(_) = f2.runtime_field_type() { conds.push(format!("{}.{}.len() == 0", p, yara_name(&f2))); } } }
            }
            RuntimeFieldType::Singular(_) => { if rng.chance(1, 4) { conds.push(format!("defined {}", p)); } }
        }
    }
    let mut comp = yara_x::Compiler::new();
    let mut kept = vec![];
    for (i, c) in conds.iter().enumerate() {
        if comp.add_source(format!("import \"{}\"\nrule b{} {{ condition: {} }}", module, i, c).as_str()).is_ok() { kept.push((i, c.clone())); }
    }
    if kept.is_empty() { return Ok(vec![]); }
    let rules = comp.build();
    let data = b"MZ not really an executable, just some data";
    let verdicts = |mut s: yara_x::blocks::Scanner| -> Result<std::collections::HashSet<String>, String> {
        s.scan(0, data).map_err(|e| e.to_string())?;
        let r = s.finish().map_err(|e| e.to_string())?;
        let v: std::collections::HashSet<String> = r.matching_rules().map(|r| r.identifier().to_string()).collect();
        Ok(v)
    };
    let fresh = verdicts(yara_x::blocks::Scanner::new(&rules))?;
    let converted = verdicts(yara_x::Scanner::new(&rules).into())?;
    let converted_after_scan = { let mut s0 = yara_x::Scanner::new(&rules); let _ = s0.scan(data); verdicts(s0.into())? };
    let (mut pairs, mut jp, mut kinds) = (vec![], vec![], vec![]);
    for (i, c) in &kept {
        let n = format!("b{}", i);
        for (other, how) in [(&converted, "converted"), (&converted_after_scan, "converted after a scan")] {
            pairs.push(format!("({}, {})", coq_bool(fresh.contains(&n)), coq_bool(other.contains(&n))));
            jp.push(format!("[{},{},{},{}]", json_str(c), json_str(how), fresh.contains(&n), other.contains(&n)));
            kinds.push("q:block-scanner-pair");
        }
    }
    let mut it = Interner::new();
    let ty = coq_msg_ty(&md, &mut it, 0);
    let coq = format!("mk \"{}\" (fun nm => ({}, (VMsg []), [], [], [{}], []))", module, ty, pairs.join("; "));
    let json = format!("{{\"label\":{},\"module\":{},\"message_hex\":\"\",\"views\":[],\"queries\":[],\"function_pairs\":[],\"block_scanner_pairs\":[{}]}}", json_str(label), json_str(module), jp.join(","));
    Ok(vec![CaseOut { label: label.to_string(), coq, json, queries: pairs.len(), skipped: conds.len() - kept.len(), kinds, true_verdicts: 0 }])
}

fn module_descriptor(module: &str) -> MessageDescriptor {
    let rules = yara_x::compile(format!("import \"{}\" rule x {{ condition: true }}", module).as_str()).unwrap();
    let mut sc = yara_x::Scanner::new(&rules);
    let res = sc.scan(b"").unwrap();
    res.module_output(module).expect("module output").descriptor_dyn()
}

// ------------------------------------------------------------------ driver
#[derive(Clone)]
enum Job { Builtin { module: String, path: std::path::PathBuf, supply: bool, absent_arrays: bool }, Synthetic(usize), BlockScanners(&'static str) }

fn jobs(samples: &Option<String>, n: usize) -> Vec<Job> {
    let mut v = vec![];
    if let Some(dir) = samples {
        let mut files: Vec<(String, std::path::PathBuf)> = vec![];
        if let Ok(rd) = std::fs::read_dir(dir) {
            for m in rd.flatten() {
                if let Ok(r2) = std::fs::read_dir(m.path()) {
                    for f in r2.flatten() { files.push((m.file_name().to_string_lossy().to_string(), f.path())); }
                }
            }
        }
        files.sort();
        for (module, path) in files {
            for (supply, absent_arrays) in [(false, false), (true, false), (false, true)] {
                v.push(Job::Builtin { module: module.clone(), path: path.clone(), supply, absent_arrays });
            }
        }
    }
    // block scanning: no module produces output, whichever way the block scanner was obtained
    for m in ["test_proto2", "pe", "elf", "macho", "dotnet", "lnk"] { v.push(Job::BlockScanners(m)); }
    for i in 0..n { v.push(Job::Synthetic(i)); }
    v
}

fn emit(line: String) {
    use std::io::Write;
    let out = std::io::stdout();
    let mut l = out.lock();
    let _ = l.write_all(line.as_bytes());
    let _ = l.write_all(b"\n");
    let _ = l.flush();
}

fn job_label(j: &Job) -> String {
    match j {
        Job::Builtin { module, path, supply, absent_arrays } => format!("{} {}",
            if *absent_arrays { format!("absent-message-array:{}", module) } else { format!("builtin:{}:{}", module, if *supply { "supplied" } else { "computed" }) },
            path.file_name().unwrap().to_string_lossy()),
        Job::BlockScanners(m) => format!("block-scanner:fresh-vs-converted:{}", m),
        Job::Synthetic(i) => format!("synthetic:{} #{}", if i % 4 == 3 { "test_proto3" } else { "test_proto2" }, i),
    }
}

/// A panic inside a host function called from WASM aborts the process: the cases run in
/// a child process (batches); the parent names the case that killed the child.
fn child(args: &[String]) -> i32 {
    let seed = arg_u64(args, "--seed", 1);
    let n = arg_u64(args, "--n", 40) as usize;
    let max_q = arg_u64(args, "--max-queries", 220) as usize;
    let from = arg_u64(args, "--from", 0) as usize;
    let samples = arg_val(args, "--samples");
    unsafe { libc::alarm(3000); }
    std::panic::set_hook(Box::new(|info| { emit(format!("P\tpanic: {}", info.to_string().replace(['\n', '\t'], " "))); }));
    let all = jobs(&samples, n);
    let d2 = module_descriptor("test_proto2");
    let d3 = module_descriptor("test_proto3");
    for (idx, job) in all.iter().enumerate().skip(from) {
        let mut rng = Rng::new(seed.wrapping_mul(0x9E37_79B9).wrapping_add(idx as u64 * 7919 + 1));
        let label = job_label(job);
        emit(format!("B\t{}\t{}", idx, label));
        let res: Result<Vec<CaseOut>, String> = match job {
            Job::Builtin { module, path, supply, absent_arrays } => {
                let data = match std::fs::read(path) { Ok(d) => d, Err(_) => { emit(format!("N\t{}\tunreadable", idx)); continue; } };
                let rules = match yara_x::compile(format!("import \"{}\" rule x {{ condition: true }}", module).as_str()) { Ok(r) => r, Err(e) => { eprintln!("c12: module {module}: {e}"); return 2; } };
                let mut sc = yara_x::Scanner::new(&rules);
                let res = match sc.scan(data.as_slice()) { Ok(r) => r, Err(e) => { emit(format!("N\t{}\tscan error {}", idx, e.to_string().replace(['\n', '\t'], " "))); continue; } };
                let Some(outp) = res.module_output(module) else { emit(format!("N\t{}\tbuiltin:no-output", idx)); continue; };
                let msg = outp.clone_box();
                if msg.compute_size_dyn() > 60_000 { emit(format!("N\t{}\tbuiltin:output-too-large-skipped", idx)); continue; }
                let md = msg.descriptor_dyn();
                let lab = label.split(' ').next().unwrap().to_string();
                let steps = if *supply {
                    // supplied, then computed, then supplied again through the other entry point
                    vec![(Supply::Boxed(msg.clone_box()), lab.clone()), (Supply::Computed, lab.clone()), (Supply::Raw(msg.clone_box()), lab.clone())]
                } else { vec![(Supply::Computed, lab.clone())] };
                run_steps(module, &md, &data, steps, &mut rng, max_q, *absent_arrays, *supply)
            }
            Job::BlockScanners(module) => block_scanner_case(module, &label, &mut rng),
            Job::Synthetic(i) => {
                let (module, md) = if i % 4 == 3 { ("test_proto3", &d3) } else { ("test_proto2", &d2) };
                let mut mk_msg = |rng: &mut Rng, empty: bool| {
                    let mut msg = if empty { md.new_instance() } else { gen_msg(md, rng, 0) };
                    // proto2 required fields must be set (the scanner asserts is_initialized in debug builds)
                    for fd in md.fields() { if fd.is_required() && !fd.has_field(&*msg) { if let RuntimeFieldType::Singular(rt) = fd.runtime_field_type() { fd.set_singular_field(&mut *msg, gen_scalar(&rt, rng)); } } }
                    msg
                };
                let m1 = mk_msg(&mut rng, *i < 2);
                let m3 = mk_msg(&mut rng, false);
                let lab = label.split(' ').next().unwrap().to_string();
                // supplied, then not supplied (the module's own output must show), then a different message supplied
                let steps = if i % 2 == 0 { vec![(Supply::Boxed(m1), lab.clone()), (Supply::Computed, lab.clone()), (Supply::Raw(m3), lab.clone())] }
                            else { vec![(Supply::Raw(m1), lab.clone()), (Supply::Computed, lab.clone()), (Supply::Boxed(m3), lab.clone())] };
                run_steps(module, md, b"", steps, &mut rng, max_q, false, false)
            }
        };
        match res {
            Ok(cases) if cases.is_empty() => emit(format!("N\t{}\tnothing-to-ask", idx)),
            Ok(cases) => {
                let last = cases.len() - 1;
                for (ci, c) in cases.into_iter().enumerate() {
                    let mut kc: std::collections::BTreeMap<&str, usize> = Default::default();
                    for k in &c.kinds { *kc.entry(k).or_default() += 1; }
                    let kinds = kc.iter().map(|(k, v)| format!("{}={}", k, v)).collect::<Vec<_>>().join(",");
                    // `E` closes the job, `C` is one more case of the same job
                    emit(format!("{}\t{}\t{}\t{}\t{}\t{}\t{}\t{}\t{}", if ci == last { "E" } else { "C" }, idx, c.label, c.queries, c.skipped, c.true_verdicts, kinds, c.coq, c.json));
                }
            }
            Err(e) => { eprintln!("c12: {label}: {e}"); return 2; }
        }
    }
    0
}

fn main() {
    let args: Vec<String> = std::env::args().skip(1).collect();
    if arg_flag(&args, "--child") { std::process::exit(child(&args)); }
    std::process::exit(run(&args));
}

pub fn run(args: &[String]) -> i32 {
    use std::io::BufRead;
    use std::process::{Command, Stdio};
    let seed = arg_u64(args, "--seed", 1);
    let n = arg_u64(args, "--n", 40) as usize;
    let max_q = arg_u64(args, "--max-queries", 220);
    let out = arg_val(args, "--out").expect("--out");
    let samples = arg_val(args, "--samples");
    let prelude = "From Coq Require Import List NArith ZArith Bool String.\nFrom YV Require Import Types.StructModel Types.StructCheck.\nImport ListNotations.\nLocal Open Scope string_scope.\n";
    let mut shards = Shards::new(Path::new(&out), prelude, 6);
    let mut stats = Stats::default();
    let mut total_q = 0u64;
    let mut distinct = std::collections::HashSet::new();
    let mut sample_json: Vec<String> = vec![];
    let total = jobs(&samples, n).len();
    let mut next = 0usize;
    while next < total {
        let mut cmd = Command::new(std::env::current_exe().unwrap());
        cmd.args(["--child", "--seed", &seed.to_string(), "--n", &n.to_string(), "--max-queries", &max_q.to_string(), "--from", &next.to_string()]);
        if let Some(s) = &samples { cmd.args(["--samples", s]); }
        let mut ch = match cmd.stdout(Stdio::piped()).stderr(Stdio::inherit()).spawn() { Ok(c) => c, Err(e) => { eprintln!("c12: cannot spawn child: {e}"); return 2; } };
        let rd = std::io::BufReader::new(ch.stdout.take().unwrap());
        let mut cur: Option<(usize, String)> = None;
        let mut trace: Vec<String> = vec![];
        let start = next;
        for line in rd.lines() {
            let line = match line { Ok(l) => l, Err(_) => break };
            let f: Vec<&str> = line.splitn(9, '\t').collect();
            match f[0] {
                "B" if f.len() >= 3 => { cur = Some((f[1].parse().unwrap_or(usize::MAX), f[2].to_string())); trace.clear(); }
                "P" => trace.push(f[1..].join(" ")),
                "N" if f.len() >= 3 => { stats.inc(&format!("skipped:{}", f[2].split(' ').take(2).collect::<Vec<_>>().join(" "))); cur = None; next = f[1].parse::<usize>().unwrap_or(next) + 1; }
                "E" | "C" if f.len() >= 9 => {
                    let idx: usize = f[1].parse().unwrap_or(usize::MAX);
                    stats.inc(f[2]);
                    let q: u64 = f[3].parse().unwrap_or(0);
                    stats.add("queries", q);
                    stats.add("queries_rejected_by_compiler", f[4].parse().unwrap_or(0));
                    stats.add("verdict_true", f[5].parse().unwrap_or(0));
                    for kv in f[6].split(',') { if let Some((k, v)) = kv.split_once('=') { stats.add(k, v.parse().unwrap_or(0)); } }
                    total_q += q;
                    { use std::hash::{Hash, Hasher}; let mut h = std::collections::hash_map::DefaultHasher::new(); f[7].hash(&mut h); distinct.insert(h.finish()); }
                    if sample_json.len() < 2 && f[8].len() < 20000 { sample_json.push(f[8].to_string()); }
                    shards.push(f[7].to_string(), f[8].to_string());
                    if f[0] == "E" { cur = None; next = idx + 1; }
                }
                _ => {}
            }
        }
        let status = ch.wait().map(|s| format!("{:?}", s)).unwrap_or_else(|e| e.to_string());
        if let Some((idx, label)) = cur {
            {
                // the child died inside this case: a case on which model, specification and implementation disagree
                stats.inc("CRASHED");
                let json = format!("{{\"label\":{},\"index\":{},\"seed\":{},\"crashed\":true,\"exit\":{},\"trace\":[{}]}}", json_str(&label), idx, seed, json_str(&status),
                    trace.iter().map(|t| json_str(t)).collect::<Vec<_>>().join(","));
                shards.push("mkCase \"\" (TInt I64) (VInt 0) [] [(QDefined [], false, None)] [] []".to_string(), json);
                next = idx + 1;
            }
        } else if next == start {
            eprintln!("c12: child made no progress from case {} (exit {})", next, status);
            return 2;
        }
    }
    shards.flush();
    println!("{{\"evaluations\":{},\"distinct_nontrivial\":{},\"messages\":{},\"shards\":{},\"distribution\":{},\"samples\":[{}]}}",
        total_q, distinct.len(), shards.total, shards.shard_count, stats.json(), sample_json.join(","));
    0
}
