//! C13: N threads performing seeded random sequences of Scanner::new / scan /
//! drop on shared `Rules`, plus Compiler::build and Rules::deserialize_from,
//! with and without timeouts; every result is compared with the same
//! operation executed sequentially (oracle computed before or after the
//! concurrent phase in a single thread).  Every session runs in a fresh child
//! process so that the process-wide engine and heartbeat thread are
//! uninitialised; in "cold" sessions their first use happens inside the
//! concurrent phase (all threads start with deserialize/build behind a
//! barrier, the first timeout scans race for INIT_HEARTBEAT).
//! Histories are written as Coq cases for Conc/InterleaveCheck.v.
use std::collections::{BTreeMap, HashSet};
use std::io::Read;
use std::panic::AssertUnwindSafe;
use std::path::Path;
use std::process::{Command, Stdio};
use std::sync::Barrier;
use std::time::{Duration, Instant};
use verif_harness::util::*;

const SLOW_RULE: &str = "rule slow { condition: for any i in (0..4000000000) : (i == 3999999999 and filesize == 123456) }\n";

struct Session { src_a: String, variants: Vec<String>, src_b: String, bufs: Vec<Vec<u8>>, has_math: bool }

fn gen_session(seed: u64) -> Session {
    let mut rng = Rng::new(seed ^ 0xC13);
    let pool: Vec<String> = vec![
        "rule a0 { strings: $a = \"TOK0_\" condition: $a }".into(),
        "rule a1 { strings: $a = /TOK1_[0-9]+/ condition: #a > 1 }".into(),
        "rule a2 { strings: $h = { 54 4F 4B 32 5F ?? 3? } condition: $h }".into(),
        "rule a3 { condition: filesize > 100 and uint8(0) == 0x41 }".into(),
        "rule a4 { strings: $a = \"aaaa\" condition: #a > 10 }".into(),
        "rule a5 { strings: $a = \"tok5_\" nocase wide ascii condition: $a in (0..filesize) }".into(),
        "rule a6 { strings: $a = \"TOK6_\" xor condition: $a }".into(),
        "rule a7 { strings: $a = /T[A-Z]K7_.{0,8}end/ condition: $a }".into(),
        "rule a8 { condition: for any i in (0..200) : (uint8(i) == 0x5f) }".into(),
        "private rule a9 { strings: $a = \"TOK9_\" condition: $a }".into(),
    ];
    let mut src_a = String::new();
    // the hash module keeps thread-local caches: use it when it is compiled in
    let has_hash = yara_x::Compiler::new().add_source("import \"hash\" rule t { condition: hash.crc32(0, 1) == 0 }").is_ok();
    if has_hash {
        src_a.push_str("import \"hash\"\n");
        src_a.push_str("rule h0 { condition: hash.crc32(0, filesize) % 3 == 1 }\n");
        src_a.push_str("rule h1 { condition: filesize > 8 and hash.md5(0, 8) == hash.md5(0, 8) and hash.sha256(0, filesize) != \"\" }\n");
    }
    // the math module caches byte distributions of ranges >= 4096 bytes per thread
    let has_math = yara_x::Compiler::new().add_source("import \"math\" rule t { condition: math.entropy(0, 1) >= 0.0 }").is_ok();
    if has_math {
        src_a.push_str("import \"math\"\n");
        src_a.push_str("rule m0 { condition: math.entropy(0, filesize) < 1.0 }\n");
        src_a.push_str("rule m1 { condition: math.entropy(0, filesize) > 6.5 }\n");
        src_a.push_str("rule m2 { condition: math.mean(0, filesize) > 90.0 and math.deviation(0, filesize, 97.0) < 1.0 }\n");
    }
    for r in &pool { if rng.chance(3, 4) { src_a.push_str(r); src_a.push('\n'); } }
    if !src_a.contains("rule a") { src_a.push_str(&pool[0]); src_a.push('\n'); }
    let variants = (0..3).map(|k| format!("{}rule extra{} {{ strings: $e = \"TOK{}_\" condition: $e and filesize > {} }}\n", src_a, k, k, 10 * k)).collect();
    let src_b = format!("{}rule b_fast {{ strings: $a = \"TOK0_\" condition: $a }}\n", SLOW_RULE);
    let mut bufs = vec![];
    for i in 0..6 {
        let mut b = Vec::new();
        if rng.chance(1, 3) { b.push(0x41); }
        let parts = if i == 5 { 3000 } else { 2 + rng.below(60) };
        for _ in 0..parts {
            match rng.below(7) {
                0 => b.extend_from_slice(format!("TOK{}_{}", rng.below(10), rng.below(100)).as_bytes()),
                1 => b.extend_from_slice(format!("tok5_{}", rng.below(9)).as_bytes()),
                2 => { for c in b"TOK6_" { b.push(c ^ 0x21); } }
                3 => b.extend_from_slice(b"TAK7_xyzend"),
                4 => { for _ in 0..rng.below(80) { b.push(b'a'); } }
                5 => { for _ in 0..rng.below(40) { b.push(rng.below(256) as u8); } }
                _ => { let w: Vec<u8> = "TOK0_".encode_utf16().flat_map(|u| u.to_le_bytes()).collect(); b.extend_from_slice(&w); }
            }
            b.push(b' ');
        }
        bufs.push(b);
    }
    // three buffers of the SAME size (8192) and different content: the cache key of the math module is (start, end)
    bufs.push(vec![0u8; 8192]);
    bufs.push((0..8192u32).map(|i| (i * 7 + i / 256) as u8).collect());
    bufs.push(vec![b'a'; 8192]);
    Session { src_a, variants, src_b, bufs, has_math }
}

fn compile(src: &str) -> yara_x::Rules {
    let mut c = yara_x::Compiler::new();
    c.add_source(src).expect("generated source must compile");
    c.build()
}

fn dump(r: &yara_x::ScanResults) -> String {
    let mut rules: Vec<String> = vec![];
    for m in r.matching_rules().include_private(true) {
        let mut pats = vec![];
        for p in m.patterns().include_private(true) {
            let ms: Vec<String> = p.matches().map(|x| format!("{}+{}{}", x.range().start, x.range().len(),
                x.xor_key().map_or(String::new(), |k| format!("^{}", k)))).collect();
            pats.push(format!("{}[{}]", p.identifier(), ms.join(",")));
        }
        rules.push(format!("{}:{}({})", m.namespace(), m.identifier(), pats.join(" ")));
    }
    rules.sort();
    let mut non: Vec<String> = r.non_matching_rules().include_private(true).map(|m| m.identifier().to_string()).collect();
    non.sort();
    format!("M {} | N {}", rules.join(" "), non.join(" "))
}

#[derive(Clone, Debug)]
enum Op {
    New,
    /// `which`: one of the TWO scanners each thread alternates between; `supply_math`: the output of the math module is
    /// supplied by the user (its main function, which clears the thread-local cache, does not run)
    ScanFast { buf: usize, set_timeout_ms: Option<u64>, which: usize, supply_math: bool },
    ScanSlow { timeout_ms: u64 },
    Build { variant: usize, buf: usize },
    Deser { buf: usize },
}

fn gen_ops(rng: &mut Rng, nbufs: usize, allow_slow: bool, first_is_timeout_scan: bool) -> Vec<Op> {
    let n = 5 + rng.below(14) as usize;
    let mut ops = vec![];
    if first_is_timeout_scan { ops.push(Op::New); ops.push(Op::ScanFast { buf: rng.below(nbufs as u64) as usize, set_timeout_ms: Some(100_000), which: 0, supply_math: false }); }
    // two scanners alternating on this thread over same-sized buffers, module output supplied (thread-local caches)
    for (k, b) in [nbufs - 3, nbufs - 2, nbufs - 1, nbufs - 3].iter().enumerate() { ops.push(Op::ScanFast { buf: *b, set_timeout_ms: None, which: k % 2, supply_math: true }); }
    let slow_at = if allow_slow { Some(rng.below(n as u64) as usize) } else { None };
    for k in 0..n {
        if Some(k) == slow_at { ops.push(Op::ScanSlow { timeout_ms: if rng.chance(1, 3) { 1500 } else { 300 } }); continue; }
        ops.push(match rng.below(12) {
            0 | 1 => Op::New,
            2 => Op::Build { variant: rng.below(3) as usize, buf: rng.below(nbufs as u64) as usize },
            3 => Op::Deser { buf: rng.below(nbufs as u64) as usize },
            _ => Op::ScanFast { buf: rng.below(nbufs as u64) as usize, set_timeout_ms: match rng.below(20) {
                0 => Some(200), 1 => Some(2500), 2 => Some(1_000_000), _ => None }, which: rng.below(2) as usize, supply_math: rng.chance(1, 3) },
        });
    }
    ops
}

#[derive(Clone, Debug)]
struct Rec { thread: usize, kind: &'static str, engine: bool, timeout_secs: Option<u64>, class: &'static str,
             dump: Option<String>, key: Option<(usize, usize)>, slow: bool, ms: u64 }

fn secs_of(ms: u64) -> u64 { (Duration::from_millis(ms).as_secs_f32().ceil()) as u64 }

fn scan_rec(thread: usize, kind: &'static str, sc: &mut yara_x::Scanner, data: &[u8], timeout_secs: Option<u64>, key: Option<(usize, usize)>, slow: bool) -> Rec {
    let t0 = Instant::now();
    let r = catch(AssertUnwindSafe(|| match sc.scan(data) {
        Ok(res) => ("done", Some(dump(&res))),
        Err(yara_x::ScanError::Timeout) => ("timeout", None),
        Err(_) => ("error", None),
    }));
    let ms = t0.elapsed().as_millis() as u64;
    let (class, d) = r.unwrap_or(("panic", None));
    Rec { thread, kind, engine: false, timeout_secs, class, dump: d, key, slow, ms }
}

fn run_thread(thread: usize, ops: &[Op], rules_a: &yara_x::Rules, rules_b: &yara_x::Rules, bytes_a: &[u8], sess: &Session) -> Vec<Rec> {
    let mut recs = vec![];
    let mut scanners: [Option<yara_x::Scanner>; 2] = [None, None];
    let mut cur_timeouts: [Option<u64>; 2] = [None, None];
    for op in ops {
        match op {
            Op::New => {
                let t0 = Instant::now();
                for w in 0..2 { drop(scanners[w].take()); cur_timeouts[w] = None; }
                scanners[0] = Some(yara_x::Scanner::new(rules_a));
                recs.push(Rec { thread, kind: "new", engine: true, timeout_secs: None, class: "done", dump: None, key: None, slow: false, ms: t0.elapsed().as_millis() as u64 });
            }
            Op::ScanFast { buf, set_timeout_ms, which, supply_math } => {
                if scanners[*which].is_none() {
                    scanners[*which] = Some(yara_x::Scanner::new(rules_a)); cur_timeouts[*which] = None;
                    recs.push(Rec { thread, kind: "new", engine: true, timeout_secs: None, class: "done", dump: None, key: None, slow: false, ms: 0 });
                }
                let sc = scanners[*which].as_mut().unwrap();
                if let Some(ms) = set_timeout_ms { sc.set_timeout(Duration::from_millis(*ms)); cur_timeouts[*which] = Some(secs_of(*ms)); }
                let supplied = *supply_math && sess.has_math && sc.set_module_output_raw("math", &[]).is_ok();
                recs.push(scan_rec(thread, if supplied { "scan_math_output_supplied" } else { "scan" }, sc, &sess.bufs[*buf], cur_timeouts[*which], Some((0, *buf)), false));
            }
            Op::ScanSlow { timeout_ms } => {
                let mut sc = yara_x::Scanner::new(rules_b);
                sc.set_timeout(Duration::from_millis(*timeout_ms));
                recs.push(Rec { thread, kind: "new", engine: true, timeout_secs: None, class: "done", dump: None, key: None, slow: false, ms: 0 });
                recs.push(scan_rec(thread, "scan_slow", &mut sc, &sess.bufs[0], Some(secs_of(*timeout_ms)), None, true));
            }
            Op::Build { variant, buf } => {
                let t0 = Instant::now();
                let built = catch(AssertUnwindSafe(|| compile(&sess.variants[*variant])));
                let ms = t0.elapsed().as_millis() as u64;
                match built {
                    Ok(rules) => {
                        recs.push(Rec { thread, kind: "build", engine: true, timeout_secs: None, class: "done", dump: None, key: None, slow: false, ms });
                        let mut sc = yara_x::Scanner::new(&rules);
                        recs.push(scan_rec(thread, "scan_built", &mut sc, &sess.bufs[*buf], None, Some((1 + *variant, *buf)), false));
                    }
                    Err(_) => recs.push(Rec { thread, kind: "build", engine: true, timeout_secs: None, class: "panic", dump: None, key: None, slow: false, ms }),
                }
            }
            Op::Deser { buf } => {
                let t0 = Instant::now();
                let de = catch(AssertUnwindSafe(|| yara_x::Rules::deserialize_from(bytes_a)));
                let ms = t0.elapsed().as_millis() as u64;
                match de {
                    Ok(Ok(rules)) => {
                        recs.push(Rec { thread, kind: "deserialize", engine: true, timeout_secs: None, class: "done", dump: None, key: None, slow: false, ms });
                        let mut sc = yara_x::Scanner::new(&rules);
                        recs.push(scan_rec(thread, "scan_deserialized", &mut sc, &sess.bufs[*buf], None, Some((0, *buf)), false));
                    }
                    Ok(Err(_)) => recs.push(Rec { thread, kind: "deserialize", engine: true, timeout_secs: None, class: "error", dump: None, key: None, slow: false, ms }),
                    Err(_) => recs.push(Rec { thread, kind: "deserialize", engine: true, timeout_secs: None, class: "panic", dump: None, key: None, slow: false, ms }),
                }
            }
        }
    }
    recs
}

fn oracle(sess: &Session) -> BTreeMap<(usize, usize), String> {
    let mut m = BTreeMap::new();
    let mut sets = vec![compile(&sess.src_a)];
    for v in &sess.variants { sets.push(compile(v)); }
    for (k, rules) in sets.iter().enumerate() {
        for (b, data) in sess.bufs.iter().enumerate() {
            let mut sc = yara_x::Scanner::new(rules);
            let r = sc.scan(data).expect("sequential scan");
            m.insert((k, b), dump(&r));
        }
    }
    m
}

/// Deterministic session (no wall-clock margins on the scanners under test): scanner A is made to
/// time out in its PATTERN SEARCH `DET_K` times through the tick hook (`Scanner::verif_timeout_at_poll`:
/// at A's 2nd poll -- the first deadline poll of ac_search_loop -- the hook does what the heartbeat
/// thread does until A's own 1 s deadline has passed) while scanner B, on another thread, with a
/// timeout of DET_K + DET_MARGIN seconds, evaluates a condition loop.  Simulated ticks seen by B:
/// DET_K; real ones: the wall time of the session (<< DET_MARGIN): B's own deadline cannot pass and
/// B must complete with its solo result.  (If a scanner-side timeout path advanced the engine-wide
/// epoch, B's epoch deadline would arrive after DET_K more "ticks".)
const DET_K: u64 = 400;
const DET_MARGIN: u64 = 300;

fn det_child() -> i32 {
    quiet_panics();
    let mut c = yara_x::Compiler::new();
    c.define_global("iterations", 1_i64).unwrap();
    c.add_source("rule search_heavy { strings: $a = \"abcd\" condition: $a }\nrule eval_heavy { condition: filesize < 100 and for all i in (0..iterations) : ( i + filesize != 3 ) }\n").unwrap();
    let rules = c.build();
    let expected = |r: &yara_x::ScanResults| -> bool {
        let m: Vec<String> = r.matching_rules().map(|x| x.identifier().to_string()).collect();
        m == vec!["eval_heavy".to_string()]
    };
    let t_start = Instant::now();
    let mut out: Vec<String> = vec![];
    let mut push = |t: usize, kind: &str, engine: bool, to: Option<u64>, class: &str, eq: bool, ms: u64| {
        out.push(format!("{{\"t\":{},\"k\":\"{}\",\"e\":{},\"to\":{},\"c\":\"{}\",\"eq\":{},\"ms\":{},\"key\":null,\"got\":null}}",
            t, kind, engine, to.map_or("null".to_string(), |s| s.to_string()), class, eq, ms));
    };
    let b_timeout = DET_K + DET_MARGIN;
    let data_a: Vec<u8> = b"abcd ".iter().cycle().take(1000).cloned().collect();
    let b_started = std::sync::atomic::AtomicBool::new(false);
    let b_done = std::sync::atomic::AtomicBool::new(false);
    let (mut fired, mut during) = (0u64, 0u64);
    let mut a_recs: Vec<(&'static str, u64)> = vec![];
    let mut b_rec: (&'static str, bool, u64) = ("error", false, 0);
    let mut b_cal: (&'static str, bool, u64) = ("error", false, 0);
    let mut iterations: i64 = 0;
    let rules = &rules;
    std::thread::scope(|s| {
        let hb = s.spawn(|| {
            // B alone, no timeout: calibrate the loop to about 2.5 s (a Scanner cannot move between threads)
            let mut b = yara_x::Scanner::new(rules);
            let probe: i64 = 20_000_000;
            b.set_global("iterations", probe).unwrap();
            let t0 = Instant::now();
            let (cls, eq) = match b.scan(b"small") { Ok(r) => ("done", expected(&r)), Err(yara_x::ScanError::Timeout) => ("timeout", true), Err(_) => ("error", false) };
            let el = t0.elapsed();
            let cal = (cls, eq, el.as_millis() as u64);
            let per_iter = el.as_secs_f64() / probe as f64;
            let iterations = ((2.5 / per_iter.max(1e-10)) as i64).clamp(1_000_000, 3_000_000_000);
            b.set_global("iterations", iterations).unwrap();
            b.set_timeout(Duration::from_secs(b_timeout));
            b_started.store(true, std::sync::atomic::Ordering::SeqCst);
            let t0 = Instant::now();
            let r = catch(AssertUnwindSafe(|| match b.scan(b"small") { Ok(r) => ("done", expected(&r)), Err(yara_x::ScanError::Timeout) => ("timeout", true), Err(_) => ("error", false) }));
            b_done.store(true, std::sync::atomic::Ordering::SeqCst);
            let (c, e) = r.unwrap_or(("panic", false));
            (cal, iterations, (c, e, t0.elapsed().as_millis() as u64))
        });
        let ha = s.spawn(|| {
            while !b_started.load(std::sync::atomic::Ordering::SeqCst) { std::thread::yield_now(); }
            std::thread::sleep(Duration::from_millis(40));
            let (mut fired, mut during) = (0u64, 0u64);
            let mut recs = vec![];
            for _ in 0..DET_K {
                let mut a = yara_x::Scanner::new(rules);
                a.set_timeout(Duration::from_secs(1));
                yara_x::Scanner::verif_timeout_at_poll(Some(2));
                let t0 = Instant::now();
                let cls = match catch(AssertUnwindSafe(|| a.scan(&data_a).map(|_| ()))) {
                    Ok(Ok(())) => "done", Ok(Err(yara_x::ScanError::Timeout)) => "timeout", Ok(Err(_)) => "error", Err(_) => "panic" };
                let ms = t0.elapsed().as_millis() as u64;
                if yara_x::Scanner::verif_timeout_fired() { fired += 1; }
                yara_x::Scanner::verif_timeout_at_poll(None);
                if !b_done.load(std::sync::atomic::Ordering::SeqCst) { during += 1; }
                recs.push((cls, ms));
            }
            (fired, during, recs)
        });
        match hb.join() { Ok((cal, it, rec)) => { b_cal = cal; iterations = it; b_rec = rec; } Err(_) => { b_done.store(true, std::sync::atomic::Ordering::SeqCst); b_started.store(true, std::sync::atomic::Ordering::SeqCst); } }
        if let Ok((f, d, r)) = ha.join() { fired = f; during = d; a_recs = r; }
    });
    for (cls, ms) in &a_recs {
        push(0, "new", true, None, "done", true, 0);
        // a completed A scan (the hook did not fire) has no oracle here: it is reported as different
        push(0, "scan_search_timeout", false, Some(1), cls, *cls == "timeout", *ms);
    }
    push(1, "new", true, None, "done", true, 0);
    push(1, "scan_calibrate", false, None, b_cal.0, b_cal.1, b_cal.2);
    push(1, "scan_long_condition", false, Some(b_timeout), b_rec.0, b_rec.1, b_rec.2);
    println!("{{\"wall_ms\":{},\"sim_ticks\":{},\"det\":{{\"a_timeouts_fired\":{},\"a_timeouts_while_b_ran\":{},\"b_iterations\":{},\"b_timeout_s\":{}}},\"ops\":[{}]}}",
        t_start.elapsed().as_millis(), fired, fired, during, iterations, b_timeout, out.join(","));
    0
}

/// the concurrent session; prints one JSON line
fn child(args: &[String]) -> i32 {
    if arg_u64(args, "--det", 0) == 1 { return det_child(); }
    quiet_panics();
    let seed = arg_u64(args, "--seed", 1);
    let n = arg_u64(args, "--threads", 4) as usize;
    let cold = arg_u64(args, "--cold", 0) == 1;
    let n_slow = arg_u64(args, "--slow", 0) as usize;
    let bytes_a = std::fs::read(arg_val(args, "--bytes-a").unwrap()).unwrap();
    let bytes_b = std::fs::read(arg_val(args, "--bytes-b").unwrap()).unwrap();
    let sess = gen_session(seed);
    let mut rng = Rng::new(seed);
    let plans: Vec<Vec<Op>> = (0..n).map(|t| { let mut r = rng.fork(); gen_ops(&mut r, sess.bufs.len(), t < n_slow, cold && t % 2 == 1) }).collect();

    let mut oracle_map = if cold { None } else { Some(oracle(&sess)) };
    let t_start = Instant::now();
    let mut recs: Vec<Rec> = vec![];
    // phase 1 (cold): the first use of the process-wide engine happens here, in all threads at once
    let (rules_a, rules_b) = if cold {
        let barrier = Barrier::new(n);
        let mut built: Vec<(Option<yara_x::Rules>, Rec)> = std::thread::scope(|s| {
            let hs: Vec<_> = (0..n).map(|t| { let (barrier, sess, bytes_a) = (&barrier, &sess, &bytes_a); s.spawn(move || {
                barrier.wait();
                let t0 = Instant::now();
                let r = catch(AssertUnwindSafe(|| if t % 2 == 0 { yara_x::Rules::deserialize_from(bytes_a.as_slice()).ok() } else { Some(compile(&sess.src_a)) }));
                let ms = t0.elapsed().as_millis() as u64;
                let (rules, class) = match r { Ok(Some(x)) => (Some(x), "done"), Ok(None) => (None, "error"), Err(_) => (None, "panic") };
                (rules, Rec { thread: t, kind: if t % 2 == 0 { "deserialize" } else { "build" }, engine: true, timeout_secs: None, class, dump: None, key: None, slow: false, ms })
            }) }).collect();
            hs.into_iter().map(|h| h.join().unwrap()).collect()
        });
        // every thread's rules must behave like the oracle: scan buffer 0 with each (sequentially, still before any timeout)
        let mut first = None;
        for (rules, rec) in built.drain(..) {
            let t = rec.thread;
            recs.push(rec);
            if let Some(r) = rules {
                let mut sc = yara_x::Scanner::new(&r);
                recs.push(scan_rec(t, "scan_first_use", &mut sc, &sess.bufs[0], None, Some((0, 0)), false));
                drop(sc);
                if first.is_none() { first = Some(r); }
            }
        }
        match (first, yara_x::Rules::deserialize_from(bytes_b.as_slice())) {
            (Some(a), Ok(b)) => (a, b),
            _ => { println!("{{\"error\":\"phase 1 produced no rules\"}}"); return 0; }
        }
    } else {
        (compile(&sess.src_a), compile(&sess.src_b))
    };
    // phase 2: random operation sequences on the shared rules
    {
        let barrier = Barrier::new(n);
        let all: Vec<Vec<Rec>> = std::thread::scope(|s| {
            let hs: Vec<_> = (0..n).map(|t| { let (barrier, sess, bytes_a, ra, rb, plan) = (&barrier, &sess, &bytes_a, &rules_a, &rules_b, &plans[t]); s.spawn(move || {
                barrier.wait();
                run_thread(t, plan, ra, rb, bytes_a, sess)
            }) }).collect();
            hs.into_iter().map(|h| h.join().unwrap_or_default()).collect()
        });
        for v in all { recs.extend(v); }
    }
    let wall_ms = t_start.elapsed().as_millis() as u64;
    if oracle_map.is_none() { oracle_map = Some(oracle(&sess)); }
    let om = oracle_map.unwrap();
    let mut out = vec![];
    for r in &recs {
        let eq = match (&r.dump, &r.key) {
            (Some(d), Some(k)) => om.get(k).map_or(false, |o| o == d),
            (Some(_), None) => !r.slow,   // a completed slow scan has no oracle: not expected
            (None, _) => true,
        };
        out.push(format!("{{\"t\":{},\"k\":\"{}\",\"e\":{},\"to\":{},\"c\":\"{}\",\"eq\":{},\"ms\":{},\"key\":{},\"got\":{}}}",
            r.thread, r.kind, r.engine, r.timeout_secs.map_or("null".to_string(), |s| s.to_string()), r.class, eq, r.ms,
            r.key.map_or("null".to_string(), |k| format!("[{},{}]", k.0, k.1)),
            if eq { "null".to_string() } else { json_str(&r.dump.clone().unwrap_or_default().chars().take(300).collect::<String>()) }));
    }
    println!("{{\"wall_ms\":{},\"ops\":[{}]}}", wall_ms, out.join(","));
    0
}

fn main() {
    let args: Vec<String> = std::env::args().skip(1).collect();
    if arg_flag(&args, "--child") { std::process::exit(child(&args)); }
    std::process::exit(run(&args));
}

fn run(args: &[String]) -> i32 {
    let seed = arg_u64(args, "--seed", 1);
    let n = arg_u64(args, "--n", 12) as usize;
    let out = arg_val(args, "--out").expect("--out");
    let prelude = "From Coq Require Import List NArith ZArith Bool.\nFrom YV Require Import Conc.Interleave Conc.InterleaveCheck.\nImport ListNotations.\n";
    let mut shards = Shards::new(Path::new(&out), prelude, 4);
    let work = Path::new(&out).join("work");
    let _ = std::fs::remove_dir_all(&work);
    std::fs::create_dir_all(&work).unwrap();
    let mut rng = Rng::new(seed);
    let mut stats = Stats::default();
    let mut distinct = HashSet::new();
    let mut samples: Vec<String> = vec![];
    let ncpu = std::thread::available_parallelism().map(usize::from).unwrap_or(8).min(16).max(2);
    for k in 0..n {
        let sseed = rng.next() & 0xffff_ffff_ffff;
        // the first session of every run is the deterministic one (regression corpus)
        let det = k == 0 && !arg_flag(args, "--no-det");
        let threads = if det { 2 } else { match rng.below(4) { 0 => 2 + rng.below(3) as usize, 1 => ncpu, _ => 2 + rng.below(ncpu as u64 - 1) as usize } };
        let cold = rng.chance(1, 2) && !det;
        // slow scans cost up to 2 s of wall time each (they run in parallel): in most sessions, on a few threads
        let n_slow = if rng.chance(3, 4) { 1 + rng.below(3.min(threads as u64)) as usize } else { 0 };
        let sess = gen_session(sseed);
        let pa = work.join(format!("a{}.yarc", k));
        let pb = work.join(format!("b{}.yarc", k));
        std::fs::write(&pa, compile(&sess.src_a).serialize().unwrap()).unwrap();
        std::fs::write(&pb, compile(&sess.src_b).serialize().unwrap()).unwrap();
        let mut ch = Command::new(std::env::current_exe().unwrap())
            .args(["--child", "--seed", &sseed.to_string(), "--threads", &threads.to_string(), "--cold", if cold { "1" } else { "0" },
                   "--det", if det { "1" } else { "0" }, "--slow", &n_slow.to_string(), "--bytes-a", pa.to_str().unwrap(), "--bytes-b", pb.to_str().unwrap()])
            .stdin(Stdio::null()).stdout(Stdio::piped()).stderr(Stdio::piped()).spawn().expect("spawn child");
        let mut so = ch.stdout.take().unwrap();
        let mut se = ch.stderr.take().unwrap();
        let t1 = std::thread::spawn(move || { let mut b = String::new(); let _ = so.read_to_string(&mut b); b });
        let t2 = std::thread::spawn(move || { let mut b = String::new(); let _ = se.read_to_string(&mut b); b });
        let t0 = Instant::now();
        let mut killed = false;
        let status = loop {
            match ch.try_wait().unwrap() {
                Some(st) => break st.code(),
                None => { if t0.elapsed() > Duration::from_secs(if det { 240 } else { 90 }) { killed = true; let _ = ch.kill(); let _ = ch.wait(); break None; } std::thread::sleep(Duration::from_millis(5)); }
            }
        };
        let stdout = t1.join().unwrap();
        let stderr = t2.join().unwrap();
        let _ = std::fs::remove_file(&pa); let _ = std::fs::remove_file(&pb);
        let parsed: Option<serde_json::Value> = stdout.lines().rev().find(|l| l.starts_with('{')).and_then(|l| serde_json::from_str(l).ok());
        let ok = status == Some(0) && !killed && parsed.as_ref().map_or(false, |v| v.get("ops").is_some());
        stats.inc("sessions");
        stats.inc(if det { "sessions_deterministic_tick_hook" } else if cold { "sessions_cold_first_use_concurrent" } else { "sessions_warm" });
        stats.inc(&format!("threads_{}", match threads { 2..=4 => "2-4", 5..=8 => "5-8", _ => "9-16" }));
        let mut coq_ops = vec![];
        let mut wall_ms = 0u64;
        let mut sim_ticks = 0u64;
        let mut bad: Vec<String> = vec![];
        if let Some(v) = &parsed {
            wall_ms = v.get("wall_ms").and_then(|x| x.as_u64()).unwrap_or(0);
            sim_ticks = v.get("sim_ticks").and_then(|x| x.as_u64()).unwrap_or(0);
            if let Some(d) = v.get("det") {
                stats.add("det_a_search_timeouts", d["a_timeouts_fired"].as_u64().unwrap_or(0));
                stats.add("det_a_search_timeouts_while_b_ran", d["a_timeouts_while_b_ran"].as_u64().unwrap_or(0));
                stats.add("det_b_timeout_s", d["b_timeout_s"].as_u64().unwrap_or(0));
            }
            for o in v.get("ops").and_then(|x| x.as_array()).cloned().unwrap_or_default() {
                let t = o["t"].as_u64().unwrap_or(0);
                let kind = o["k"].as_str().unwrap_or("?").to_string();
                let engine = o["e"].as_bool().unwrap_or(false);
                let to = o["to"].as_u64();
                let class = o["c"].as_str().unwrap_or("?").to_string();
                let eq = o["eq"].as_bool().unwrap_or(false);
                let ms = o["ms"].as_u64().unwrap_or(0);
                stats.inc(&format!("op_{}", kind));
                stats.inc(&format!("class_{}", class));
                if !engine { stats.inc(if to.is_some() { "scans_with_timeout" } else { "scans_without_timeout" }); }
                if class == "timeout" { stats.inc(if kind == "scan_slow" { "timeouts_slow_rule" } else { "timeouts_fast_scan" }); }
                let cls = match class.as_str() { "done" => "CDone", "timeout" => "CTimeout", _ => "CError" };
                if class == "timeout" && to.is_none() { bad.push(format!("timeout-without-deadline:{}", kind)); }
                else if class == "timeout" && to.map_or(false, |s| s.min(315_360_000) > wall_ms / 1000 + 1 + sim_ticks) { bad.push(format!("timeout-before-own-deadline:{}", kind)); }
                else if class != "done" && class != "timeout" { bad.push(format!("{}:{}", class, kind)); }
                else if class == "done" && !eq { bad.push(format!("differs-from-sequential:{}", kind)); }
                coq_ops.push(format!("mkOp {} {} {} {} {} {}", coq_nat(t as usize), if engine { "KEngine" } else { "KScan" },
                    coq_option(&to, |s| coq_n(*s)), cls, coq_bool(eq), coq_n(ms)));
            }
        }
        if !ok { bad.push(if killed { "child-hung".into() } else { format!("child-crashed:{}", status.map_or("signal".to_string(), |c| c.to_string())) }); }
        bad.sort(); bad.dedup();
        if !bad.is_empty() { stats.inc("sessions_with_anomaly"); }
        distinct.insert((sseed, threads, cold));
        let case = format!("mkCase {} [{}] {} {} {} {}", coq_nat(threads), coq_ops.join("; "), coq_n(wall_ms), coq_n(sim_ticks), coq_bool(ok), coq_n(sseed));
        let replay = format!("{{\"session\":{},\"seed\":{},\"session_seed\":{},\"threads\":{},\"cold\":{},\"slow_threads\":{},\"wall_ms\":{},\"child_status\":{},\"killed\":{},\"class\":{},\"rules_a\":{},\"stderr_head\":{},\"deterministic\":{},\"sim_ticks\":{},\"replay\":\"c13 --child --det {} --seed {} --threads {} --cold {} --slow {} --bytes-a <serialize(rules_a)> --bytes-b <serialize(slow rules)>\",\"ops\":{}}}",
            k, seed, sseed, threads, cold, n_slow, wall_ms, status.map_or("null".to_string(), |c| c.to_string()), killed,
            json_str(&if bad.is_empty() { "ok".to_string() } else { bad.join("+") }), json_str(&sess.src_a),
            json_str(&stderr.chars().take(600).collect::<String>()), det, sim_ticks, if det { 1 } else { 0 }, sseed, threads, if cold { 1 } else { 0 }, n_slow,
            parsed.as_ref().and_then(|v| v.get("ops")).map_or("[]".to_string(), |o| {
                // keep the replay small: anomalous operations in full, the rest summarised
                let arr = o.as_array().cloned().unwrap_or_default();
                let anomalous: Vec<String> = arr.iter().filter(|x| (x["c"] != "done" && x["k"] != "scan_search_timeout") || x["eq"] == false).take(30).map(|x| x.to_string()).collect();
                format!("{{\"count\":{},\"not_done_or_different\":[{}]}}", arr.len(), anomalous.join(","))
            }));
        if samples.len() < 2 { samples.push(replay.clone()); }
        shards.push(case, replay);
    }
    shards.flush();
    let _ = std::fs::remove_dir_all(&work);
    println!("{{\"evaluations\":{},\"distinct_nontrivial\":{},\"shards\":{},\"distribution\":{},\"samples\":[{}]}}",
        shards.total, distinct.len(), shards.shard_count, stats.json(), samples.join(","));
    0
}
