//! C13: N threads performing seeded random sequences of Scanner::new / scan /
//! drop on shared `Rules`, plus Compiler::build and Rules::deserialize_from,
//! with and without timeouts; every result is compared with the same
//! operation executed sequentially (oracle computed before or after the
//! concurrent phase in a single thread).  Every session runs in a fresh child
//! process so that the process-wide engine and heartbeat thread are
//! uninitialised; in "cold" sessions their first use happens inside the
//! concurrent phase (all threads start with deserialize/build behind a
//! barrier, the first timeout scans race for INIT_HEARTBEAT).
//! Histories are written as Coq cases for Conc/InterleaveCheck.v.
use std::collections::{BTreeMap, HashSet};
use std::io::Read;
use std::panic::AssertUnwindSafe;
use std::path::Path;
use std::process::{Command, Stdio};
use std::sync::Barrier;
use std::time::{Duration, Instant};
use verif_harness::util::*;

const SLOW_RULE: &str = "rule slow { condition: for any i in (0..4000000000) : (i == 3999999999 and filesize == 123456) }\n";

struct Session { src_a: String, variants: Vec<String>, src_b: String, bufs: Vec<Vec<u8>> }

fn gen_session(seed: u64) -> Session {
    let mut rng = Rng::new(seed ^ 0xC13);
    let pool: Vec<String> = vec![
        "rule a0 { strings: $a = \"TOK0_\" condition: $a }".into(),
        "rule a1 { strings: $a = /TOK1_[0-9]+/ condition: #a > 1 }".into(),
        "rule a2 { strings: $h = { 54 4F 4B 32 5F ?? 3? } condition: $h }".into(),
        "rule a3 { condition: filesize > 100 and uint8(0) == 0x41 }".into(),
        "rule a4 { strings: $a = \"aaaa\" condition: #a > 10 }".into(),
        "rule a5 { strings: $a = \"tok5_\" nocase wide ascii condition: $a in (0..filesize) }".into(),
        "rule a6 { strings: $a = \"TOK6_\" xor condition: $a }".into(),
        "rule a7 { strings: $a = /T[A-Z]K7_.{0,8}end/ condition: $a }".into(),
        "rule a8 { condition: for any i in (0..200) : (uint8(i) == 0x5f) }".into(),
        "private rule a9 { strings: $a = \"TOK9_\" condition: $a }".into(),
    ];
    let mut src_a = String::new();
    // the hash module keeps thread-local caches: use it when it is compiled in
    let has_hash = yara_x::Compiler::new().add_source("import \"hash\" rule t { condition: hash.crc32(0, 1) == 0 }").is_ok();
    if has_hash {
        src_a.push_str("import \"hash\"\n");
        src_a.push_str("rule h0 { condition: hash.crc32(0, filesize) % 3 == 1 }\n");
        src_a.push_str("rule h1 { condition: filesize > 8 and hash.md5(0, 8) == hash.md5(0, 8) and hash.sha256(0, filesize) != \"\" }\n");
    }
    for r in &pool { if rng.chance(3, 4) { src_a.push_str(r); src_a.push('\n'); } }
    if !src_a.contains("rule a") { src_a.push_str(&pool[0]); src_a.push('\n'); }
    let variants = (0..3).map(|k| format!("{}rule extra{} {{ strings: $e = \"TOK{}_\" condition: $e and filesize > {} }}\n", src_a, k, k, 10 * k)).collect();
    let src_b = format!("{}rule b_fast {{ strings: $a = \"TOK0_\" condition: $a }}\n", SLOW_RULE);
    let mut bufs = vec![];
    for i in 0..6 {
        let mut b = Vec::new();
        if rng.chance(1, 3) { b.push(0x41); }
        let parts = if i == 5 { 3000 } else { 2 + rng.below(60) };
        for _ in 0..parts {
            match rng.below(7) {
                0 => b.extend_from_slice(format!("TOK{}_{}", rng.below(10), rng.below(100)).as_bytes()),
                1 => b.extend_from_slice(format!("tok5_{}", rng.below(9)).as_bytes()),
                2 => { for c in b"TOK6_" { b.push(c ^ 0x21); } }
                3 => b.extend_from_slice(b"TAK7_xyzend"),
                4 => { for _ in 0..rng.below(80) { b.push(b'a'); } }
                5 => { for _ in 0..rng.below(40) { b.push(rng.below(256) as u8); } }
                _ => { let w: Vec<u8> = "TOK0_".encode_utf16().flat_map(|u| u.to_le_bytes()).collect(); b.extend_from_slice(&w); }
            }
            b.push(b' ');
        }
        bufs.push(b);
    }
    Session { src_a, variants, src_b, bufs }
}

fn compile(src: &str) -> yara_x::Rules {
    let mut c = yara_x::Compiler::new();
    c.add_source(src).expect("generated source must compile");
    c.build()
}

fn dump(r: &yara_x::ScanResults) -> String {
    let mut rules: Vec<String> = vec![];
    for m in r.matching_rules().include_private(true) {
        let mut pats = vec![];
        for p in m.patterns().include_private(true) {
            let ms: Vec<String> = p.matches().map(|x| format!("{}+{}{}", x.range().start, x.range().len(),
                x.xor_key().map_or(String::new(), |k| format!("^{}", k)))).collect();
            pats.push(format!("{}[{}]", p.identifier(), ms.join(",")));
        }
        rules.push(format!("{}:{}({})", m.namespace(), m.identifier(), pats.join(" ")));
    }
    rules.sort();
    let mut non: Vec<String> = r.non_matching_rules().include_private(true).map(|m| m.identifier().to_string()).collect();
    non.sort();
    format!("M {} | N {}", rules.join(" "), non.join(" "))
}

#[derive(Clone, Debug)]
enum Op {
    New,
    ScanFast { buf: usize, set_timeout_ms: Option<u64> },
    ScanSlow { timeout_ms: u64 },
    Build { variant: usize, buf: usize },
    Deser { buf: usize },
}

fn gen_ops(rng: &mut Rng, nbufs: usize, allow_slow: bool, first_is_timeout_scan: bool) -> Vec<Op> {
    let n = 5 + rng.below(14) as usize;
    let mut ops = vec![];
    if first_is_timeout_scan { ops.push(Op::New); ops.push(Op::ScanFast { buf: rng.below(nbufs as u64) as usize, set_timeout_ms: Some(100_000) }); }
    let slow_at = if allow_slow { Some(rng.below(n as u64) as usize) } else { None };
    for k in 0..n {
        if Some(k) == slow_at { ops.push(Op::ScanSlow { timeout_ms: if rng.chance(1, 3) { 1500 } else { 300 } }); continue; }
        ops.push(match rng.below(12) {
            0 | 1 => Op::New,
            2 => Op::Build { variant: rng.below(3) as usize, buf: rng.below(nbufs as u64) as usize },
            3 => Op::Deser { buf: rng.below(nbufs as u64) as usize },
            _ => Op::ScanFast { buf: rng.below(nbufs as u64) as usize, set_timeout_ms: match rng.below(20) {
                0 => Some(200), 1 => Some(2500), 2 => Some(1_000_000), _ => None } },
        });
    }
    ops
}

#[derive(Clone, Debug)]
struct Rec { thread: usize, kind: &'static str, engine: bool, timeout_secs: Option<u64>, class: &'static str,
             dump: Option<String>, key: Option<(usize, usize)>, slow: bool, ms: u64 }

fn secs_of(ms: u64) -> u64 { (Duration::from_millis(ms).as_secs_f32().ceil()) as u64 }

fn scan_rec(thread: usize, kind: &'static str, sc: &mut yara_x::Scanner, data: &[u8], timeout_secs: Option<u64>, key: Option<(usize, usize)>, slow: bool) -> Rec {
    let t0 = Instant::now();
    let r = catch(AssertUnwindSafe(|| match sc.scan(data) {
        Ok(res) => ("done", Some(dump(&res))),
        Err(yara_x::ScanError::Timeout) => ("timeout", None),
        Err(_) => ("error", None),
    }));
    let ms = t0.elapsed().as_millis() as u64;
    let (class, d) = r.unwrap_or(("panic", None));
    Rec { thread, kind, engine: false, timeout_secs, class, dump: d, key, slow, ms }
}

fn run_thread(thread: usize, ops: &[Op], rules_a: &yara_x::Rules, rules_b: &yara_x::Rules, bytes_a: &[u8], sess: &Session) -> Vec<Rec> {
    let mut recs = vec![];
    let mut scanner: Option<yara_x::Scanner> = None;
    let mut cur_timeout: Option<u64> = None;
    for op in ops {
        match op {
            Op::New => {
                let t0 = Instant::now();
                drop(scanner.take());
                scanner = Some(yara_x::Scanner::new(rules_a));
                cur_timeout = None;
                recs.push(Rec { thread, kind: "new", engine: true, timeout_secs: None, class: "done", dump: None, key: None, slow: false, ms: t0.elapsed().as_millis() as u64 });
            }
            Op::ScanFast { buf, set_timeout_ms } => {
                if scanner.is_none() {
                    scanner = Some(yara_x::Scanner::new(rules_a)); cur_timeout = None;
                    recs.push(Rec { thread, kind: "new", engine: true, timeout_secs: None, class: "done", dump: None, key: None, slow: false, ms: 0 });
                }
                let sc = scanner.as_mut().unwrap();
                if let Some(ms) = set_timeout_ms { sc.set_timeout(Duration::from_millis(*ms)); cur_timeout = Some(secs_of(*ms)); }
                recs.push(scan_rec(thread, "scan", sc, &sess.bufs[*buf], cur_timeout, Some((0, *buf)), false));
            }
            Op::ScanSlow { timeout_ms } => {
                let mut sc = yara_x::Scanner::new(rules_b);
                sc.set_timeout(Duration::from_millis(*timeout_ms));
                recs.push(Rec { thread, kind: "new", engine: true, timeout_secs: None, class: "done", dump: None, key: None, slow: false, ms: 0 });
                recs.push(scan_rec(thread, "scan_slow", &mut sc, &sess.bufs[0], Some(secs_of(*timeout_ms)), None, true));
            }
            Op::Build { variant, buf } => {
                let t0 = Instant::now();
                let built = catch(AssertUnwindSafe(|| compile(&sess.variants[*variant])));
                let ms = t0.elapsed().as_millis() as u64;
                match built {
                    Ok(rules) => {
                        recs.push(Rec { thread, kind: "build", engine: true, timeout_secs: None, class: "done", dump: None, key: None, slow: false, ms });
                        let mut sc = yara_x::Scanner::new(&rules);
                        recs.push(scan_rec(thread, "scan_built", &mut sc, &sess.bufs[*buf], None, Some((1 + *variant, *buf)), false));
                    }
                    Err(_) => recs.push(Rec { thread, kind: "build", engine: true, timeout_secs: None, class: "panic", dump: None, key: None, slow: false, ms }),
                }
            }
            Op::Deser { buf } => {
                let t0 = Instant::now();
                let de = catch(AssertUnwindSafe(|| yara_x::Rules::deserialize_from(bytes_a)));
                let ms = t0.elapsed().as_millis() as u64;
                match de {
                    Ok(Ok(rules)) => {
                        recs.push(Rec { thread, kind: "deserialize", engine: true, timeout_secs: None, class: "done", dump: None, key: None, slow: false, ms });
                        let mut sc = yara_x::Scanner::new(&rules);
                        recs.push(scan_rec(thread, "scan_deserialized", &mut sc, &sess.bufs[*buf], None, Some((0, *buf)), false));
                    }
                    Ok(Err(_)) => recs.push(Rec { thread, kind: "deserialize", engine: true, timeout_secs: None, class: "error", dump: None, key: None, slow: false, ms }),
                    Err(_) => recs.push(Rec { thread, kind: "deserialize", engine: true, timeout_secs: None, class: "panic", dump: None, key: None, slow: false, ms }),
                }
            }
        }
    }
    recs
}

fn oracle(sess: &Session) -> BTreeMap<(usize, usize), String> {
    let mut m = BTreeMap::new();
    let mut sets = vec![compile(&sess.src_a)];
    for v in &sess.variants { sets.push(compile(v)); }
    for (k, rules) in sets.iter().enumerate() {
        for (b, data) in sess.bufs.iter().enumerate() {
            let mut sc = yara_x::Scanner::new(rules);
            let r = sc.scan(data).expect("sequential scan");
            m.insert((k, b), dump(&r));
        }
    }
    m
}

/// the concurrent session; prints one JSON line
fn child(args: &[String]) -> i32 {
    quiet_panics();
    let seed = arg_u64(args, "--seed", 1);
    let n = arg_u64(args, "--threads", 4) as usize;
    let cold = arg_u64(args, "--cold", 0) == 1;
    let n_slow = arg_u64(args, "--slow", 0) as usize;
    let bytes_a = std::fs::read(arg_val(args, "--bytes-a").unwrap()).unwrap();
    let bytes_b = std::fs::read(arg_val(args, "--bytes-b").unwrap()).unwrap();
    let sess = gen_session(seed);
    let mut rng = Rng::new(seed);
    let plans: Vec<Vec<Op>> = (0..n).map(|t| { let mut r = rng.fork(); gen_ops(&mut r, sess.bufs.len(), t < n_slow, cold && t % 2 == 1) }).collect();

    let mut oracle_map = if cold { None } else { Some(oracle(&sess)) };
    let t_start = Instant::now();
    let mut recs: Vec<Rec> = vec![];
    // phase 1 (cold): the first use of the process-wide engine happens here, in all threads at once
    let (rules_a, rules_b) = if cold {
        let barrier = Barrier::new(n);
        let mut built: Vec<(Option<yara_x::Rules>, Rec)> = std::thread::scope(|s| {
            let hs: Vec<_> = (0..n).map(|t| { let (barrier, sess, bytes_a) = (&barrier, &sess, &bytes_a); s.spawn(move || {
                barrier.wait();
                let t0 = Instant::now();
                let r = catch(AssertUnwindSafe(|| if t % 2 == 0 { yara_x::Rules::deserialize_from(bytes_a.as_slice()).ok() } else { Some(compile(&sess.src_a)) }));
                let ms = t0.elapsed().as_millis() as u64;
                let (rules, class) = match r { Ok(Some(x)) => (Some(x), "done"), Ok(None) => (None, "error"), Err(_) => (None, "panic") };
                (rules, Rec { thread: t, kind: if t % 2 == 0 { "deserialize" } else { "build" }, engine: true, timeout_secs: None, class, dump: None, key: None, slow: false, ms })
            }) }).collect();
            hs.into_iter().map(|h| h.join().unwrap()).collect()
        });
        // every thread's rules must behave like the oracle: scan buffer 0 with each (sequentially, still before any timeout)
        let mut first = None;
        for (rules, rec) in built.drain(..) {
            let t = rec.thread;
            recs.push(rec);
            if let Some(r) = rules {
                let mut sc = yara_x::Scanner::new(&r);
                recs.push(scan_rec(t, "scan_first_use", &mut sc, &sess.bufs[0], None, Some((0, 0)), false));
                drop(sc);
                if first.is_none() { first = Some(r); }
            }
        }
        match (first, yara_x::Rules::deserialize_from(bytes_b.as_slice())) {
            (Some(a), Ok(b)) => (a, b),
            _ => { println!("{{\"error\":\"phase 1 produced no rules\"}}"); return 0; }
        }
    } else {
        (compile(&sess.src_a), compile(&sess.src_b))
    };
    // phase 2: random operation sequences on the shared rules
    {
        let barrier = Barrier::new(n);
        let all: Vec<Vec<Rec>> = std::thread::scope(|s| {
            let hs: Vec<_> = (0..n).map(|t| { let (barrier, sess, bytes_a, ra, rb, plan) = (&barrier, &sess, &bytes_a, &rules_a, &rules_b, &plans[t]); s.spawn(move || {
                barrier.wait();
                run_thread(t, plan, ra, rb, bytes_a, sess)
            }) }).collect();
            hs.into_iter().map(|h| h.join().unwrap_or_default()).collect()
        });
        for v in all { recs.extend(v); }
    }
    let wall_ms = t_start.elapsed().as_millis() as u64;
    if oracle_map.is_none() { oracle_map = Some(oracle(&sess)); }
    let om = oracle_map.unwrap();
    let mut out = vec![];
    for r in &recs {
        let eq = match (&r.dump, &r.key) {
            (Some(d), Some(k)) => om.get(k).map_or(false, |o| o == d),
            (Some(_), None) => !r.slow,   // a completed slow scan has no oracle: not expected
            (None, _) => true,
        };
        out.push(format!("{{\"t\":{},\"k\":\"{}\",\"e\":{},\"to\":{},\"c\":\"{}\",\"eq\":{},\"ms\":{},\"key\":{},\"got\":{}}}",
            r.thread, r.kind, r.engine, r.timeout_secs.map_or("null".to_string(), |s| s.to_string()), r.class, eq, r.ms,
            r.key.map_or("null".to_string(), |k| format!("[{},{}]", k.0, k.1)),
            if eq { "null".to_string() } else { json_str(&r.dump.clone().unwrap_or_default().chars().take(300).collect::<String>()) }));
    }
    println!("{{\"wall_ms\":{},\"ops\":[{}]}}", wall_ms, out.join(","));
    0
}

fn main() {
    let args: Vec<String> = std::env::args().skip(1).collect();
    if arg_flag(&args, "--child") { std::process::exit(child(&args)); }
    std::process::exit(run(&args));
}

fn run(args: &[String]) -> i32 {
    let seed = arg_u64(args, "--seed", 1);
    let n = arg_u64(args, "--n", 12) as usize;
    let out = arg_val(args, "--out").expect("--out");
    let prelude = "From Coq Require Import List NArith ZArith Bool.\nFrom YV Require Import Conc.Interleave Conc.InterleaveCheck.\nImport ListNotations.\n";
    let mut shards = Shards::new(Path::new(&out), prelude, 4);
    let work = Path::new(&out).join("work");
    let _ = std::fs::remove_dir_all(&work);
    std::fs::create_dir_all(&work).unwrap();
    let mut rng = Rng::new(seed);
    let mut stats = Stats::default();
    let mut distinct = HashSet::new();
    let mut samples: Vec<String> = vec![];
    let ncpu = std::thread::available_parallelism().map(usize::from).unwrap_or(8).min(16).max(2);
    for k in 0..n {
        let sseed = rng.next() & 0xffff_ffff_ffff;
        let threads = match rng.below(4) { 0 => 2 + rng.below(3) as usize, 1 => ncpu, _ => 2 + rng.below(ncpu as u64 - 1) as usize };
        let cold = rng.chance(1, 2);
        // slow scans cost up to 2 s of wall time each (they run in parallel): in most sessions, on a few threads
        let n_slow = if rng.chance(3, 4) { 1 + rng.below(3.min(threads as u64)) as usize } else { 0 };
        let sess = gen_session(sseed);
        let pa = work.join(format!("a{}.yarc", k));
        let pb = work.join(format!("b{}.yarc", k));
        std::fs::write(&pa, compile(&sess.src_a).serialize().unwrap()).unwrap();
        std::fs::write(&pb, compile(&sess.src_b).serialize().unwrap()).unwrap();
        let mut ch = Command::new(std::env::current_exe().unwrap())
            .args(["--child", "--seed", &sseed.to_string(), "--threads", &threads.to_string(), "--cold", if cold { "1" } else { "0" },
                   "--slow", &n_slow.to_string(), "--bytes-a", pa.to_str().unwrap(), "--bytes-b", pb.to_str().unwrap()])
            .stdin(Stdio::null()).stdout(Stdio::piped()).stderr(Stdio::piped()).spawn().expect("spawn child");
        let mut so = ch.stdout.take().unwrap();
        let mut se = ch.stderr.take().unwrap();
        let t1 = std::thread::spawn(move || { let mut b = String::new(); let _ = so.read_to_string(&mut b); b });
        let t2 = std::thread::spawn(move || { let mut b = String::new(); let _ = se.read_to_string(&mut b); b });
        let t0 = Instant::now();
        let mut killed = false;
        let status = loop {
            match ch.try_wait().unwrap() {
                Some(st) => break st.code(),
                None => { if t0.elapsed() > Duration::from_secs(90) { killed = true; let _ = ch.kill(); let _ = ch.wait(); break None; } std::thread::sleep(Duration::from_millis(5)); }
            }
        };
        let stdout = t1.join().unwrap();
        let stderr = t2.join().unwrap();
        let _ = std::fs::remove_file(&pa); let _ = std::fs::remove_file(&pb);
        let parsed: Option<serde_json::Value> = stdout.lines().rev().find(|l| l.starts_with('{')).and_then(|l| serde_json::from_str(l).ok());
        let ok = status == Some(0) && !killed && parsed.as_ref().map_or(false, |v| v.get("ops").is_some());
        stats.inc("sessions");
        stats.inc(if cold { "sessions_cold_first_use_concurrent" } else { "sessions_warm" });
        stats.inc(&format!("threads_{}", match threads { 2..=4 => "2-4", 5..=8 => "5-8", _ => "9-16" }));
        let mut coq_ops = vec![];
        let mut wall_ms = 0u64;
        let mut bad: Vec<String> = vec![];
        if let Some(v) = &parsed {
            wall_ms = v.get("wall_ms").and_then(|x| x.as_u64()).unwrap_or(0);
            for o in v.get("ops").and_then(|x| x.as_array()).cloned().unwrap_or_default() {
                let t = o["t"].as_u64().unwrap_or(0);
                let kind = o["k"].as_str().unwrap_or("?").to_string();
                let engine = o["e"].as_bool().unwrap_or(false);
                let to = o["to"].as_u64();
                let class = o["c"].as_str().unwrap_or("?").to_string();
                let eq = o["eq"].as_bool().unwrap_or(false);
                let ms = o["ms"].as_u64().unwrap_or(0);
                stats.inc(&format!("op_{}", kind));
                stats.inc(&format!("class_{}", class));
                if !engine { stats.inc(if to.is_some() { "scans_with_timeout" } else { "scans_without_timeout" }); }
                if class == "timeout" { stats.inc(if kind == "scan_slow" { "timeouts_slow_rule" } else { "timeouts_fast_scan" }); }
                let cls = match class.as_str() { "done" => "CDone", "timeout" => "CTimeout", _ => "CError" };
                if class == "timeout" && to.is_none() { bad.push(format!("timeout-without-deadline:{}", kind)); }
                else if class != "done" && class != "timeout" { bad.push(format!("{}:{}", class, kind)); }
                else if class == "done" && !eq { bad.push(format!("differs-from-sequential:{}", kind)); }
                coq_ops.push(format!("mkOp {} {} {} {} {} {}", coq_nat(t as usize), if engine { "KEngine" } else { "KScan" },
                    coq_option(&to, |s| coq_n(*s)), cls, coq_bool(eq), coq_n(ms)));
            }
        }
        if !ok { bad.push(if killed { "child-hung".into() } else { format!("child-crashed:{}", status.map_or("signal".to_string(), |c| c.to_string())) }); }
        bad.sort(); bad.dedup();
        if !bad.is_empty() { stats.inc("sessions_with_anomaly"); }
        distinct.insert((sseed, threads, cold));
        let case = format!("mkCase {} [{}] {} {} {}", coq_nat(threads), coq_ops.join("; "), coq_n(wall_ms), coq_bool(ok), coq_n(sseed));
        let replay = format!("{{\"session\":{},\"seed\":{},\"session_seed\":{},\"threads\":{},\"cold\":{},\"slow_threads\":{},\"wall_ms\":{},\"child_status\":{},\"killed\":{},\"class\":{},\"rules_a\":{},\"stderr_head\":{},\"replay\":\"c13 --child --seed {} --threads {} --cold {} --slow {} --bytes-a <serialize(rules_a)> --bytes-b <serialize(slow rules)>\",\"ops\":{}}}",
            k, seed, sseed, threads, cold, n_slow, wall_ms, status.map_or("null".to_string(), |c| c.to_string()), killed,
            json_str(&if bad.is_empty() { "ok".to_string() } else { bad.join("+") }), json_str(&sess.src_a),
            json_str(&stderr.chars().take(600).collect::<String>()), sseed, threads, if cold { 1 } else { 0 }, n_slow,
            parsed.as_ref().and_then(|v| v.get("ops")).map_or("[]".to_string(), |o| {
                // keep the replay small: anomalous operations in full, the rest summarised
                let arr = o.as_array().cloned().unwrap_or_default();
                let anomalous: Vec<String> = arr.iter().filter(|x| x["c"] != "done" || x["eq"] == false).take(30).map(|x| x.to_string()).collect();
                format!("{{\"count\":{},\"not_done_or_different\":[{}]}}", arr.len(), anomalous.join(","))
            }));
        if samples.len() < 2 { samples.push(replay.clone()); }
        shards.push(case, replay);
    }
    shards.flush();
    let _ = std::fs::remove_dir_all(&work);
    println!("{{\"evaluations\":{},\"distinct_nontrivial\":{},\"shards\":{},\"distribution\":{},\"samples\":[{}]}}",
        shards.total, distinct.len(), shards.shard_count, stats.json(), samples.join(","));
    0
}
