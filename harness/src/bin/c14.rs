//! C14: block scanning equals scanning each block on its own.
//! Pattern-only rule sets x partitions of a generated virtual file into
//! blocks (any order, gaps, overlaps with consistent data, empty and repeated
//! blocks, cuts through matches, three context sizes, fresh and used
//! scanners) vs yara_x::Scanner::scan on every block alone.
use std::panic::AssertUnwindSafe;
use std::path::Path;
use verif_harness::util::*;

struct Pat { def: &'static str, inst: fn(&mut Rng) -> Vec<u8> }

fn xored(rng: &mut Rng) -> Vec<u8> { let k = 1 + rng.below(200) as u8; b"secret".iter().map(|b| b ^ k).collect() }
fn chain(rng: &mut Rng) -> Vec<u8> {
    // a jump is split into chained sub-patterns when max - min > 200: gaps inside and just outside [0-300]
    let gap = if rng.chance(1, 4) { rng.below(8) as usize } else { 40 + rng.below(275) as usize };
    let mut v = b"ABC".to_vec(); v.extend((0..gap).map(|i| b"mnopqrstuv"[i % 10])); v.extend_from_slice(b"DEF"); v
}
const POOL: &[Pat] = &[
    Pat { def: "\"abc\"", inst: |_| b"abc".to_vec() },
    Pat { def: "\"ab\"", inst: |r| if r.chance(1, 2) { b"abab".to_vec() } else { b"ab".to_vec() } },
    Pat { def: "\"HeLLo\" nocase", inst: |r| if r.chance(1, 2) { b"hello".to_vec() } else { b"HELLO".to_vec() } },
    Pat { def: "\"wide\" wide", inst: |_| b"w\0i\0d\0e\0".to_vec() },
    Pat { def: "\"word\" fullword", inst: |r| match r.below(3) { 0 => b" word ".to_vec(), 1 => b"xword ".to_vec(), _ => b"word".to_vec() } },
    Pat { def: "\"secret\" xor", inst: xored },
    Pat { def: "{ 61 62 [2-4] 63 64 }", inst: |r| { let mut v = b"ab".to_vec(); v.extend(std::iter::repeat(b'_').take(1 + r.below(5) as usize)); v.extend_from_slice(b"cd"); v } },
    Pat { def: "{ 41 42 43 [0-300] 44 45 46 }", inst: chain },
    Pat { def: "/a+b/", inst: |r| { let mut v = vec![b'a'; 1 + r.below(6) as usize]; v.push(b'b'); v } },
    Pat { def: "/x[0-9]{2,5}/", inst: |r| { let mut v = vec![b'x']; v.extend((0..1 + r.below(7)).map(|i| b'0' + (i % 10) as u8)); v } },
    Pat { def: "/\\bfoo\\b/", inst: |r| match r.below(3) { 0 => b" foo ".to_vec(), 1 => b"zfoo ".to_vec(), _ => b"foo".to_vec() } },
    Pat { def: "{ 4D 5A ?? 00 }", inst: |r| vec![0x4d, 0x5a, r.below(256) as u8, 0] },
    Pat { def: "\"base\" base64", inst: |_| b"YmFzZQ".to_vec() },
    // greedy / variable-length patterns: a block that ends inside an occurrence sees a shorter match at the same start
    Pat { def: "/abc+/", inst: |r| { let mut v = b"ab".to_vec(); v.extend(std::iter::repeat(b'c').take(1 + r.below(6) as usize)); v } },
    Pat { def: "/foo(barbaz|bar)/", inst: |r| if r.chance(2, 3) { b"foobarbaz".to_vec() } else { b"foobar".to_vec() } },
    Pat { def: "/w[0-9]*/", inst: |r| { let mut v = vec![b'w']; v.extend((0..r.below(8)).map(|i| b'0' + (i % 10) as u8)); v } },
    Pat { def: "/Q.*Z/", inst: |r| { let mut v = vec![b'Q']; v.extend((0..r.below(6)).map(|i| b"Z-=Z+"[(i % 5) as usize])); v.push(b'Z'); v } },
    Pat { def: "/KLM.{0,300}NOP/", inst: |r| { let gap = if r.chance(1, 4) { r.below(6) as usize } else { 30 + r.below(285) as usize }; let mut v = b"KLM".to_vec(); v.extend((0..gap).map(|i| b"ghijlqrstu"[i % 10])); v.extend_from_slice(b"NOP"); v } },
    Pat { def: "{ 41 41 [1-4] 42 }", inst: |r| { let mut v = b"AA".to_vec(); v.extend(std::iter::repeat(b'B').take(2 + r.below(4) as usize)); v } },
];
/// patterns of POOL whose occurrences can be found shorter in a block that ends inside them: (index, shortest prefix that matches)
const GREEDY: &[(usize, usize)] = &[(9, 3), (13, 3), (14, 6), (15, 1), (16, 2), (18, 4)];

/// rule `$a <where> and $b`: (kind 0 `at 0` | 1 `at n` | 2 `in (0..n)`, n, $a's literal, index of the plain rule that has $b's pattern)
type Hdr = (u8, u64, Vec<u8>, usize);

type Forced = (Vec<usize>, Vec<u8>, Vec<(usize, usize)>, usize, Vec<(u64, Vec<u8>, bool)>);

/// Directed scenario: an occurrence of a greedy pattern straddles the END of one block (which sees a shorter
/// match at the same start) and lies inside another, overlapping block with a different base (which sees the
/// longer one); unrelated occurrences at higher (and lower) offsets are found in further blocks; any delivery order.
fn gen_straddle(rng: &mut Rng) -> Forced {
    let (pi, min_len) = *rng.pick(GREEDY);
    let mut chosen = vec![pi];
    if rng.chance(1, 3) { let o = rng.below(POOL.len() as u64) as usize; if o != pi { chosen.push(o); } }
    let flen = 80 + rng.below(160) as usize;
    let mut file: Vec<u8> = (0..flen).map(|_| b"ghijlnopqrstuy  ._"[rng.below(18) as usize]).collect();
    // the straddled occurrence: retry until it is longer than the shortest match
    let mut inst = (POOL[pi].inst)(rng);
    for _ in 0..8 { if inst.len() > min_len { break; } inst = (POOL[pi].inst)(rng); }
    let p1 = 12 + rng.below(30) as usize;
    file[p1..p1 + inst.len()].copy_from_slice(&inst);
    let end1 = p1 + inst.len();
    // unrelated occurrences: one or two after it, sometimes one before it
    let mut others: Vec<(usize, usize)> = vec![];
    let mut at = end1 + 3 + rng.below(12) as usize;
    for _ in 0..(1 + rng.below(2)) {
        let o = (POOL[pi].inst)(rng);
        if at + o.len() + 2 >= flen { break; }
        file[at..at + o.len()].copy_from_slice(&o); others.push((at, at + o.len()));
        at += o.len() + 3 + rng.below(15) as usize;
    }
    if rng.chance(1, 3) { let o = (POOL[pi].inst)(rng); if o.len() + 2 < p1 { file[1..1 + o.len()].copy_from_slice(&o); others.push((1, 1 + o.len())); } }
    // block A ends inside the occurrence (at least the shortest match is visible), block B contains it entirely
    let cut = if inst.len() > min_len { p1 + min_len + rng.below((inst.len() - min_len) as u64) as usize } else { end1 };
    let a0 = p1 - rng.below(p1.min(10) as u64 + 1) as usize;
    let mut b0 = p1 - rng.below(p1.min(12) as u64 + 1) as usize;
    if b0 == a0 { b0 = if b0 > 0 { b0 - 1 } else { p1.min(1) } }
    let bend = (end1 + rng.below(20) as usize).min(flen);
    let mut blocks = vec![(a0, cut - a0), (b0, bend - b0)];
    for (s0, e0) in &others {
        let base = s0 - rng.below((*s0).min(4) as u64 + 1) as usize;
        blocks.push((base, (e0 + rng.below(4) as usize).min(flen) - base));
    }
    if rng.chance(1, 4) { blocks.push((0, flen)); }             // the whole file too
    if rng.chance(1, 4) { blocks.push((a0, 0)); }
    for i in (1..blocks.len()).rev() { let j = rng.below(i as u64 + 1) as usize; blocks.swap(i, j); }
    (chosen, file, blocks, *rng.pick(&[0usize, 0, 2, 16]), vec![])
}

/// Directed scenario for chained patterns (pieces separated by a gap of more than 200 bytes): the whole occurrence
/// inside a block whose base is not 0, blocks that contain only the head / only the tail / end inside the gap,
/// sometimes the whole file too; any delivery order.  A chain never completes across blocks.
fn gen_chain(rng: &mut Rng) -> Forced {
    let pi = *rng.pick(&[7usize, 17]);
    let mut chosen = vec![pi];
    if rng.chance(1, 3) { chosen.push(*rng.pick(&[0usize, 1, 13])); }
    let inst = (POOL[pi].inst)(rng);
    let p = 3 + rng.below(40) as usize;
    let flen = p + inst.len() + 5 + rng.below(60) as usize;
    let mut file: Vec<u8> = (0..flen).map(|_| b"ghijlqrstuy  ._"[rng.below(15) as usize]).collect();
    file[p..p + inst.len()].copy_from_slice(&inst);
    let end = p + inst.len();
    let b0 = 1 + rng.below(p as u64) as usize;                       // 1 ..= p: a base that is not 0
    let mut blocks = vec![(b0, (end + rng.below((flen - end) as u64 + 1) as usize) - b0)];
    let mid = p + 3 + rng.below((inst.len() - 6) as u64) as usize;    // inside the gap
    if rng.chance(2, 3) { let b = rng.below(p as u64 + 1) as usize; blocks.push((b, mid - b)); }   // head only
    if rng.chance(2, 3) { blocks.push((mid, flen - mid)); }                                         // tail only
    if rng.chance(1, 4) { blocks.push((0, flen)); }
    if rng.chance(1, 4) { blocks.push((p, inst.len())); }                                           // exactly the occurrence
    for i in (1..blocks.len()).rev() { let j = rng.below(i as u64 + 1) as usize; blocks.swap(i, j); }
    (chosen, file, blocks, *rng.pick(&[0usize, 0, 3, 16]), vec![])
}

/// MatchList::add driven through the hook: offsets drawn from a small range so that starts collide
fn match_list_cases(rng: &mut Rng, n: usize, shards: &mut Shards, stats: &mut Stats) {
    for i in 0..n {
        let len = 2 + rng.below(9) as usize;
        let adds: Vec<(usize, usize, usize, bool)> = (0..len).map(|_| {
            let base = rng.below(12) as usize;
            let start = base + rng.below(12) as usize;
            let end = start + 1 + rng.below(6) as usize;
            (base, start, end, rng.chance(2, 3))
        }).collect();
        let fin = yara_x::Scanner::verif_match_list_with_base(&adds);
        stats.inc("match_list_cases");
        if adds.iter().enumerate().any(|(j, a)| adds[..j].iter().any(|b| b.1 == a.1 && b.0 != a.0 && a.2 > b.2 && a.3)) { stats.inc("match_list_longer_same_start_other_base"); }
        let case = format!("mkCase [] 0%N [] [] [] [] [] [] [({}, {})] []",
            coq_list(&adds, |a| format!("({}, {}, {}, {})", coq_n(a.0 as u64), coq_n(a.1 as u64), coq_n(a.2 as u64), coq_bool(a.3))),
            coq_list(&fin, |m| format!("({}, {}, {})", coq_n(m.0 as u64), coq_n(m.1 as u64), coq_n(m.2 as u64))));
        shards.push(case, format!("{{\"match_list\":true,\"index\":{},\"adds_base_start_end_replace\":{},\"final_base_start_end\":{}}}", i, json_str(&format!("{:?}", adds)), json_str(&format!("{:?}", fin))));
    }
}

#[derive(Clone, Debug)]
enum Derived { At(u64), In(u64, u64), CountGe(u64) }

type M = (u64, u64, u64);

struct BlkMatch { m: M, data: Vec<u8>, ctx: Vec<u8>, rel: u64 }

fn collect_ref(r: &yara_x::ScanResults, npat: usize) -> Vec<Vec<M>> {
    let mut out = vec![vec![]; npat];
    for rule in r.matching_rules() {
        let id = rule.identifier();
        if let Some(i) = id.strip_prefix("p").and_then(|s| s.parse::<usize>().ok()) {
            for p in rule.patterns() { for m in p.matches() { out[i].push((m.range().start as u64, m.range().len() as u64, m.xor_key().map_or(0, |k| k as u64 + 1))); } }
        }
    }
    out
}

const WHOLE: &str = r#"
import "hash"
import "pe"
import "math"
import "test_proto2"
rule w0 { condition: defined filesize }
rule w1 { condition: defined uint8(0) }
rule w2 { condition: defined hash.md5(0, 3) }
rule w3 { condition: defined pe.is_pe }
rule w4 { condition: defined math.entropy(0, 8) }
rule w5 { condition: test_proto2.array_struct.len() >= 1 or defined test_proto2.array_struct[0].nested_int64_one }
"#;
const NOTIONS: [&str; 6] = ["filesize", "uintN", "hash", "module-fields", "math", "module-struct-arrays"];
const HISTORIES: [&str; 3] = ["fresh-block-scanner-fresh-thread", "converted-after-contiguous-scan", "other-scanner-scanned-on-thread"];

/// whole-file notions in block mode after three histories (each on its own thread)
fn whole_file_cases(shards: &mut Shards, stats: &mut Stats) {
    let rules = yara_x::compile(WHOLE).unwrap();
    for h in 0..3usize {
        for (data, blk) in [(&b"12345"[..], &b"abc"[..]), (&b"MZ and more data 0123456789"[..], &b"12345"[..])] {
            let defined: Vec<bool> = std::thread::scope(|sc| sc.spawn(|| {
                let mut bs = match h {
                    0 => yara_x::blocks::Scanner::new(&rules),
                    1 => { let mut c = yara_x::Scanner::new(&rules); let _ = c.scan(data); yara_x::blocks::Scanner::from(c) }
                    _ => { let mut c = yara_x::Scanner::new(&rules); let _ = c.scan(data); drop(c); yara_x::blocks::Scanner::new(&rules) }
                };
                bs.scan(0, blk).unwrap();
                let r = bs.finish().unwrap();
                let m: Vec<String> = r.matching_rules().map(|r| r.identifier().to_string()).collect();
                (0..6).map(|i| m.contains(&format!("w{}", i))).collect()
            }).join().unwrap());
            for (notion, d) in defined.iter().enumerate() {
                stats.inc("whole_file_cases");
                if *d { stats.inc(&format!("whole_file_defined_{}_{}", NOTIONS[notion], HISTORIES[h])); }
                let case = format!("mkCase [] 0%N [] [] [] [] [({}, {}, {})] [] [] []", coq_n(h as u64), coq_n(notion as u64), coq_bool(*d));
                let replay = format!("{{\"whole_file\":true,\"rules_source\":{},\"history\":\"{}\",\"previous_file_hex\":\"{}\",\"block_hex\":\"{}\",\"notion\":\"{}\",\"defined_in_block_mode\":{}}}",
                    json_str(WHOLE), HISTORIES[h], hex(data), hex(blk), NOTIONS[notion], d);
                shards.push(case, replay);
            }
        }
    }
}

fn main() { let args: Vec<String> = std::env::args().skip(1).collect(); std::process::exit(run(&args)); }

pub fn run(args: &[String]) -> i32 {
    let seed = arg_u64(args, "--seed", 1);
    let n = arg_u64(args, "--n", 400) as usize;
    let out = arg_val(args, "--out").expect("--out");
    quiet_panics();
    let prelude = "From Coq Require Import List NArith ZArith Bool.\nFrom YV Require Import Pat.Blocks Pat.BlocksCheck.\nImport ListNotations.\n";
    let mut shards = Shards::new(Path::new(&out), prelude, 40);
    let mut rng = Rng::new(seed);
    let mut stats = Stats::default();
    let mut distinct = std::collections::HashSet::new();
    let mut samples: Vec<String> = vec![];
    let mut idx = 0;
    whole_file_cases(&mut shards, &mut stats);
    match_list_cases(&mut rng, (n / 4).max(40), &mut shards, &mut stats);
    // minimised past failures run first: (patterns, file, blocks, context size)
    let mut corpus: Vec<Forced> = vec![
        // a greedy regexp cut by the edge of the first of two overlapping blocks: the later block extends the match
        (vec![9], b"ghijklmnopqrstux01234yz ghijklmnopqr".to_vec(), vec![(0, 20), (9, 27)], 0, vec![]),
        (vec![9], b"ghijklmnopqrstux01234yz ghijklmnopqr".to_vec(), vec![(9, 27), (0, 20)], 0, vec![]),
        (vec![9, 0], b"ghijklmnopqrstux01234yz abc ghijklmn".to_vec(), vec![(0, 20), (9, 27)], 16, vec![]),
        // a second, shorter block at the base of an earlier one (used to trip a debug assertion)
        (vec![0], b"Lorem abc dolor".to_vec(), vec![(0, 15), (0, 5)], 0, vec![]),
        (vec![0, 1], b"Lorem abc dolor abab".to_vec(), vec![(0, 20), (0, 0), (0, 8)], 3, vec![]),
        // no block at all (finish() used to panic)
        (vec![0, 1], b"Lorem abc dolor abab".to_vec(), vec![], 0, vec![]),
        // thorough seed 1 #912: Match::data() panics (unwrap on None) after overlapping blocks
        // chained patterns (jump range > 200) entirely inside a block whose base is not 0
        (vec![7], { let mut v = b"ghijkABC".to_vec(); v.extend(std::iter::repeat(b'.').take(250)); v.extend_from_slice(b"DEFghij"); v }, vec![(3, 262), (0, 100), (150, 115)], 0, vec![]),
        (vec![17], { let mut v = b"ghijkKLM".to_vec(); v.extend(std::iter::repeat(b'.').take(120)); v.extend_from_slice(b"NOPgh NOP"); v }, vec![(5, 130), (2, 131)], 3, vec![]),
        (vec![9, 8, 2], b" _op s.q js sjpzx01234ivjk.prqkyizpzp iyumm. g tgj_hritgrty_qrtyt hthvksvlmjkmvjy gqhynmiz ngoo.nsz_  ihk.v vuutaaabyt.m _kio.hhsklh_h tvztjh.jqlrmyyl pjgrlhku_x01".to_vec(), vec![(0, 20), (9, 119), (128, 3), (139, 24), (34, 0)], 16, vec![]),
        // the same start found again LONGER in a later overlapping block with another base while a higher-offset match is
        // already listed (binary-search arm of MatchList::add): /abc+/ with (10,"abc") (20,"abc") (8,"..abccc")
        (vec![13], b"........abccc.......abc.....".to_vec(), vec![(10, 3), (20, 3), (8, 7)], 0, vec![]),
        (vec![13], b"........abccc.......abc.....".to_vec(), vec![(10, 3), (20, 3), (8, 7)], 2, vec![]),
        (vec![13], b"........abccc.......abc.....".to_vec(), vec![(20, 3), (10, 3), (8, 7)], 0, vec![]),
        (vec![14], b"..foobarbaz....foobar.......".to_vec(), vec![(2, 6), (14, 8), (0, 12)], 0, vec![]),
        // a pattern anchored at 4: a block whose base is past the anchor and that begins with the literal
        // (a subtraction saturating at 0 would report a match at the block's base)
        (vec![1], b"ghijabc klm abc nopq abcab".to_vec(), vec![(0, 12), (12, 14)], 0, vec![(4, b"abc".to_vec(), true)]),
        (vec![1], b"abc hijabc abcab".to_vec(), vec![(11, 5), (4, 7), (0, 4)], 3, vec![(0, b"abc".to_vec(), true), (7, b"abc".to_vec(), true)]),
        // base == N, base == N + 1, base < N < base + len, and the literal cut by the block's end
        (vec![0], b"xxxxabcabc abc".to_vec(), vec![(4, 3), (5, 9), (2, 4), (7, 7)], 0, vec![(4, b"abc".to_vec(), true), (7, b"abc".to_vec(), false)]),
    ];
    // header-constraint rules for corpus cases (keyed by the position of the case, from 1)
    let mut hdr_for: std::collections::HashMap<usize, Vec<Hdr>> = std::collections::HashMap::new();
    {
        let file = b"MZ.. needle .... abc ....".to_vec();
        let mut add = |blocks: Vec<(usize, usize)>, hdrs: Vec<Hdr>, corpus: &mut Vec<Forced>| { corpus.push((vec![0], file.clone(), blocks, 0, vec![])); hdr_for.insert(corpus.len(), hdrs); };
        // `$a at 0 and $b`: $b occurs only in a block whose base is not 0 (a header check applied to that block would disable $b)
        add(vec![(0, 4), (4, 21)], vec![(0, 0, b"MZ".to_vec(), 0)], &mut corpus);
        add(vec![(4, 21), (0, 4)], vec![(0, 0, b"MZ".to_vec(), 0)], &mut corpus);
        add(vec![(0, 25)], vec![(0, 0, b"MZ".to_vec(), 0), (1, 5, b"needle".to_vec(), 0), (2, 8, b"needle".to_vec(), 0)], &mut corpus);
        // the base-0 block does not start with the header / is absent
        add(vec![(2, 23)], vec![(0, 0, b"MZ".to_vec(), 0)], &mut corpus);
        add(vec![(0, 4), (4, 21)], vec![(0, 0, b"ZM".to_vec(), 0)], &mut corpus);
        // a block at base 0 that is shorter than the header, or empty, before the block that contains it
        add(vec![(0, 0), (0, 25)], vec![(0, 0, b"MZ".to_vec(), 0)], &mut corpus);
        add(vec![(0, 1), (0, 2), (2, 23)], vec![(0, 0, b"MZ".to_vec(), 0)], &mut corpus);
        add(vec![(0, 25), (0, 1)], vec![(0, 0, b"MZ".to_vec(), 0)], &mut corpus);
    }
    while shards.total < n {
        idx += 1;
        let from_corpus = !corpus.is_empty();
        let forced = if from_corpus { Some(corpus.remove(0)) } else if rng.chance(1, 3) { stats.inc("straddle_scenarios"); Some(gen_straddle(&mut rng)) }
            else if rng.chance(1, 6) { stats.inc("chain_scenarios"); Some(gen_chain(&mut rng)) } else { None };
        // patterns of this case
        let mut np = 2 + rng.below(4) as usize;
        let mut chosen: Vec<usize> = vec![];
        while chosen.len() < np { let c = rng.below(POOL.len() as u64) as usize; if !chosen.contains(&c) { chosen.push(c); } }
        // the virtual file
        let flen = 120 + rng.below(500) as usize;
        let mut file: Vec<u8> = (0..flen).map(|_| b"ghijklmnopqrstuvyz  ._"[rng.below(22) as usize]).collect();
        let mut inserted = 0;
        for _ in 0..(3 + rng.below(10)) {
            let p = *rng.pick(&chosen);
            let inst = (POOL[p].inst)(&mut rng);
            if inst.len() >= file.len() { continue; }
            let at = if rng.chance(1, 8) { 0 } else if rng.chance(1, 8) { file.len() - inst.len() } else { rng.below((file.len() - inst.len()) as u64) as usize };
            file[at..at + inst.len()].copy_from_slice(&inst); inserted += 1;
        }
        let mut flen = flen;
        if let Some(f) = &forced { chosen = f.0.clone(); np = chosen.len(); file = f.1.clone(); flen = file.len(); }
        // rules: one plain rule per pattern + derived rules using at / in / #
        let mut src = String::new();
        for (i, p) in chosen.iter().enumerate() { src.push_str(&format!("rule p{} {{ strings: $p = {} condition: $p }}\n", i, POOL[*p].def)); }
        let mut derived: Vec<(usize, Derived)> = vec![];
        for d in 0..(1 + rng.below(4)) {
            let i = rng.below(np as u64) as usize;
            let kind = match rng.below(3) {
                0 => Derived::At(rng.below(flen as u64)),
                1 => { let lo = rng.below(flen as u64); Derived::In(lo, lo + rng.below(80)) }
                _ => Derived::CountGe(1 + rng.below(4)),
            };
            let cond = match &kind { Derived::At(k) => format!("$p at {}", k), Derived::In(a, b) => format!("$p in ({}..{})", a, b), Derived::CountGe(c) => format!("#p >= {}", c) };
            src.push_str(&format!("rule d{} {{ strings: $p = {} condition: {} }}\n", d, POOL[chosen[i]].def, cond));
            derived.push((i, kind));
        }
        // rules whose pattern is anchored: `$a at N` is the only use of $a; `or true` / `or $b` lets the rule
        // match for another reason, so that whatever was recorded for $a is reported
        let mut anchored: Vec<(u64, Vec<u8>, bool)> = vec![];
        let mut forced_cuts: Vec<usize> = vec![];
        if let Some(f) = &forced { anchored = f.4.clone(); }
        else if rng.chance(2, 3) {
            for _ in 0..(1 + rng.below(2)) {
                let lit: &[u8] = *rng.pick(&[&b"abc"[..], &b"Lorem"[..], &b"xy"[..], &b"hello"[..]]);
                if lit.len() + 8 >= flen { continue; }
                let n = if rng.chance(2, 3) { *rng.pick(&[0usize, 0, 1, 2, 4, 7]) } else { rng.below((flen - lit.len()) as u64 / 2) as usize };
                // the literal at the anchor (mostly), and copies elsewhere at which blocks will start
                if rng.chance(3, 4) { file[n..n + lit.len()].copy_from_slice(lit); }
                for _ in 0..(1 + rng.below(3)) {
                    let at = n + 1 + rng.below((flen - lit.len() - n - 1) as u64 + 1) as usize;
                    if at + lit.len() <= flen { file[at..at + lit.len()].copy_from_slice(lit); forced_cuts.push(at); }
                }
                // blocks with base == N, base == N + 1, base < N < base + len
                if rng.chance(1, 2) { forced_cuts.push(n); }
                if rng.chance(1, 3) { forced_cuts.push(n + 1); }
                if rng.chance(1, 3) && n > 0 { forced_cuts.push(n - 1); }
                anchored.push((n as u64, lit.to_vec(), rng.chance(1, 2)));
            }
        }
        for (k, (n, lit, or_true)) in anchored.iter().enumerate() {
            src.push_str(&format!("rule a{} {{ strings: $a = \"{}\" $b = \"ij\" condition: $a at {} or {} }}\n", k, String::from_utf8_lossy(lit), n, if *or_true { "$b or true" } else { "$b" }));
        }
        // rules `$a at 0 / at n / in (0..n) and $b` where $b is the pattern of one of the plain rules: the conditions
        // from which the compiler derives header constraints and fixed-offset checks
        let mut hdrs: Vec<Hdr> = vec![];
        let mut short_header_block: Option<usize> = None;
        if from_corpus { if let Some(h) = hdr_for.get(&idx) { hdrs = h.clone(); } }
        else if forced.is_none() && rng.chance(1, 2) {
            for _ in 0..(1 + rng.below(2)) {
                let lit: &[u8] = *rng.pick(&[&b"MZ"[..], &b"abc"[..], &b"Lorem"[..], &b"\x7fELF"[..]]);
                let kind = *rng.pick(&[0u8, 0, 1, 2]);
                let n = match kind { 0 => 0, 1 => 1 + rng.below(9) as usize, _ => rng.below(40) as usize };
                let at = match kind { 2 => rng.below(n as u64 + 4) as usize, _ => n };
                if rng.chance(2, 3) && at + lit.len() < flen { file[at..at + lit.len()].copy_from_slice(lit); }
                if rng.chance(1, 2) { forced_cuts.push(at + lit.len()); }
                if rng.chance(1, 3) { forced_cuts.push(at + 1); }
                if kind == 0 && rng.chance(1, 4) { short_header_block = Some(rng.below(lit.len() as u64) as usize); }
                hdrs.push((kind, n as u64, lit.to_vec(), rng.below(np as u64) as usize));
            }
        }
        for (k, (kind, n, lit, j)) in hdrs.iter().enumerate() {
            let lit_src: String = lit.iter().map(|b| if b.is_ascii_alphanumeric() { (*b as char).to_string() } else { format!("\\x{:02x}", b) }).collect();
            let wh = match kind { 0 => "$a at 0".to_string(), 1 => format!("$a at {}", n), _ => format!("$a in (0..{})", n) };
            src.push_str(&format!("rule h{} {{ strings: $a = \"{}\" $b = {} condition: {} and $b }}\n", k, lit_src, POOL[chosen[*j]].def, wh));
        }
        let rules = match yara_x::compile(src.as_str()) { Ok(r) => r, Err(e) => { eprintln!("c14: generator produced a rejected source: {e}\n{src}"); return 2; } };
        // blocks: cut the file, then drop / extend / add empty / repeat / shuffle
        let mut cuts: Vec<usize> = (0..rng.below(6)).map(|_| rng.below(flen as u64 + 1) as usize).collect();
        cuts.extend(forced_cuts.iter().copied().filter(|c| *c <= flen));
        cuts.push(0); cuts.push(flen); cuts.sort(); cuts.dedup();
        let mut blocks: Vec<(usize, usize)> = vec![];
        for w in cuts.windows(2) {
            if rng.chance(1, 8) { stats.inc("gap"); continue; }
            let ext = if rng.chance(1, 4) { stats.inc("overlap"); rng.below(12) as usize } else { 0 };
            blocks.push((w[0], (w[1] + ext).min(flen) - w[0]));
        }
        if rng.chance(1, 4) && !blocks.is_empty() { let b = *rng.pick(&blocks); blocks.push(b); stats.inc("repeated_block"); }
        if rng.chance(1, 3) {
            // an empty block anywhere, also at the base of another block
            let base = if rng.chance(1, 3) && !blocks.is_empty() { rng.pick(&blocks).0 } else { rng.below(flen as u64 + 1) as usize };
            blocks.push((base, 0)); stats.inc("empty_block");
        }
        if rng.chance(1, 4) && !blocks.is_empty() {
            // a shorter or longer block at the base of another one (consistent data: slices of the same file)
            let b = *rng.pick(&blocks);
            let len = rng.below((flen - b.0) as u64 + 1) as usize;
            blocks.push((b.0, len)); stats.inc("same_base_block");
        }
        if rng.chance(1, 4) && flen > 40 {
            // a block overlapping its neighbours anywhere (cuts greedy matches differently than they do)
            let base = rng.below(flen as u64 - 20) as usize;
            let len = 1 + rng.below((flen - base) as u64) as usize;
            blocks.push((base, len)); stats.inc("overlapping_block");
        }
        if rng.chance(1, 2) { for i in (1..blocks.len()).rev() { let j = rng.below(i as u64 + 1) as usize; blocks.swap(i, j); } stats.inc("shuffled"); }
        let mut ctx = *rng.pick(&[0usize, 0, 3, 16]);
        let mut used = rng.below(3);
        if let Some(f) = &forced { blocks = f.2.clone(); ctx = f.3; if from_corpus { used = 0; } }
        if let Some(len) = short_header_block {
            // a block at base 0 that is shorter than the header (or empty), somewhere in the delivery order
            let at = rng.below(blocks.len() as u64 + 1) as usize;
            blocks.insert(at, (0, len.min(flen))); stats.inc("short_block_at_base_0");
        }

        // per-block reference
        let mut per_block: Vec<Vec<Vec<M>>> = vec![];
        {
            let mut s = yara_x::Scanner::new(&rules);
            s.match_context_size(ctx);
            for (base, len) in &blocks {
                let r = s.scan(&file[*base..*base + *len]).unwrap();
                per_block.push(collect_ref(&r, np));
            }
        }
        // the block scanner
        let res = catch(AssertUnwindSafe(|| {
            let mut bs = match used {
                1 => { let mut c = yara_x::Scanner::new(&rules); let _ = c.scan(&file); yara_x::blocks::Scanner::from(c) }
                _ => yara_x::blocks::Scanner::new(&rules),
            };
            bs.match_context_size(ctx);
            if used == 2 { let _ = bs.scan(0, &file[..flen / 2]); let _ = bs.finish(); }
            for (base, len) in &blocks { bs.scan(*base, &file[*base..*base + *len]).unwrap(); }
            let r = bs.finish().unwrap();
            let mut out: Vec<Vec<BlkMatch>> = (0..np).map(|_| vec![]).collect();
            let mut verdicts: Vec<bool> = vec![false; derived.len()];
            let mut anch: Vec<Option<Vec<BlkMatch>>> = (0..anchored.len()).map(|_| None).collect();
            let mut hres: Vec<Option<Vec<u64>>> = (0..hdrs.len()).map(|_| None).collect();
            for rule in r.matching_rules() {
                let id = rule.identifier();
                if let Some(i) = id.strip_prefix("h").and_then(|s| s.parse::<usize>().ok()) {
                    let mut v = vec![];
                    for p in rule.patterns().filter(|p| p.identifier() == "$b") { for m in p.matches() { let _ = (m.data(), m.data_with_context()); v.push(m.range().start as u64); } }
                    hres[i] = Some(v);
                    continue;
                }
                if let Some(i) = id.strip_prefix("a").and_then(|s| s.parse::<usize>().ok()) {
                    let mut v = vec![];
                    for p in rule.patterns().filter(|p| p.identifier() == "$a") { for m in p.matches() {
                        let (c, rg) = m.data_with_context();
                        v.push(BlkMatch { m: (m.range().start as u64, m.range().len() as u64, m.xor_key().map_or(0, |k| k as u64 + 1)), data: m.data().to_vec(), ctx: c.to_vec(), rel: rg.start as u64 });
                    } }
                    anch[i] = Some(v);
                    continue;
                }
                if let Some(i) = id.strip_prefix("p").and_then(|s| s.parse::<usize>().ok()) {
                    for p in rule.patterns() { for m in p.matches() {
                        let (c, rg) = m.data_with_context();
                        out[i].push(BlkMatch { m: (m.range().start as u64, m.range().len() as u64, m.xor_key().map_or(0, |k| k as u64 + 1)), data: m.data().to_vec(), ctx: c.to_vec(), rel: rg.start as u64 });
                    } }
                } else if let Some(i) = id.strip_prefix("d").and_then(|s| s.parse::<usize>().ok()) { verdicts[i] = true; }
            }
            (out, verdicts, anch, hres)
        }));
        let (block_res, verdicts, anch, hres) = match res { Ok(x) => x, Err(e) => {
            // a panic is a violation of its own: write a case that fails S (no block results, all per-block results lost)
            stats.inc("block_scanner_panicked");
            let case = format!("mkCase {} {} {} {} {} [(0%N, DCountGe 0%N, false)] [] [] [] []", coq_bytes(&file), coq_n(ctx as u64), coq_list(&blocks, |b| format!("({}, {})", coq_n(b.0 as u64), coq_n(b.1 as u64))),
                coq_list(&per_block, |pb| coq_list(pb, |ms| coq_list(ms, |m| format!("({},{},{})%N", m.0, m.1, m.2)))), coq_list(&vec![0; np], |_| "[]".to_string()));
            shards.push(case, format!("{{\"index\":{},\"panic\":{},\"rules_source\":{},\"file_hex\":\"{}\",\"blocks\":{},\"context_size\":{},\"scanner\":{}}}", idx, json_str(&e), json_str(&src), hex(&file), json_str(&format!("{:?}", blocks)), ctx, used));
            continue;
        } };
        stats.inc("cases");
        stats.inc(&format!("scanner_{}", ["fresh", "converted_from_used_scanner", "reused_block_scanner"][used as usize]));
        stats.add("blocks", blocks.len() as u64);
        stats.add("matches_reported", block_res.iter().map(|v| v.len() as u64).sum());
        stats.add("instances_inserted", inserted);
        // matches cut by a block edge: found in the whole file but in no block
        if block_res.iter().all(|v| v.is_empty()) { stats.inc("no_match_at_all"); }
        for p in &chosen { stats.inc(&format!("pattern_{}", POOL[*p].def.chars().take(14).collect::<String>())); }
        distinct.insert(format!("{:?}{:?}{}", chosen, blocks, hex(&file[..20.min(file.len())])));

        let coq_bm = |b: &BlkMatch| format!("(({},{},{})%N, {}, {}, {})", b.m.0, b.m.1, b.m.2, coq_bytes(&b.data), coq_bytes(&b.ctx), coq_n(b.rel));
        let coq_anch = coq_list(&anchored.iter().zip(anch.iter()).collect::<Vec<_>>(), |((n, lit, _), res)| format!("({}, {}, {}, {})", coq_n(*n), coq_bytes(lit),
            coq_bool(res.is_some()), coq_list(res.as_deref().unwrap_or(&[]), |b| coq_bm(b))));
        if !anchored.is_empty() { stats.inc("cases_with_anchored_patterns"); }
        {   // a start reported with different lengths by two blocks with different bases
            let mut seen = false;
            for (bi, pb) in per_block.iter().enumerate() { for (bj, pc) in per_block.iter().enumerate() { if bi < bj && blocks[bi].0 != blocks[bj].0 {
                for p in 0..np { for m in &pb[p] { for m2 in &pc[p] { if m.0 + blocks[bi].0 as u64 == m2.0 + blocks[bj].0 as u64 && m.1 != m2.1 { seen = true; } } } }
            } } }
            if seen { stats.inc("same_start_different_length_in_two_blocks"); }
        }
        for ((n, lit, _), res) in anchored.iter().zip(anch.iter()) {
            if blocks.iter().any(|b| b.0 as u64 > *n && file[b.0..b.0 + b.1].starts_with(lit)) { stats.inc("anchored_block_past_anchor_starts_with_literal"); }
            if blocks.iter().any(|b| b.0 as u64 == *n) { stats.inc("anchored_block_at_anchor"); }
            if res.as_ref().map_or(false, |v| !v.is_empty()) { stats.inc("anchored_match_reported"); }
        }
        // what the rule must do, computed from the file and the delivered blocks (used for the classification of a failure only)
        let lit_at = |lit: &[u8], p: usize| p + lit.len() <= file.len() && &file[p..p + lit.len()] == lit && blocks.iter().any(|b| b.0 <= p && p + lit.len() <= b.0 + b.1);
        let mut hdr_notes: Vec<String> = vec![];
        for ((kind, n, lit, j), r) in hdrs.iter().zip(hres.iter()) {
            let a_ok = match kind { 0 => lit_at(lit, 0), 1 => lit_at(lit, *n as usize), _ => (0..=*n as usize).any(|p| lit_at(lit, p)) };
            let expected = a_ok && !block_res[*j].is_empty();
            let short = *kind == 0 && blocks.iter().any(|b| b.0 == 0 && b.1 < lit.len());
            stats.inc(&format!("header_rule_kind{}_{}", kind, if expected { "must_match" } else { "must_not_match" }));
            if *kind == 0 && blocks.iter().any(|b| b.0 != 0 && !file[b.0..b.0 + b.1].starts_with(lit)) && expected { stats.inc("header_rule_must_match_with_nonzero_base_block_not_starting_with_header"); }
            hdr_notes.push(format!("{{\"kind\":{},\"n\":{},\"literal_hex\":\"{}\",\"b_pattern_of_rule\":\"p{}\",\"matched\":{},\"expected\":{},\"base0_block_shorter_than_header\":{}}}", kind, n, hex(lit), j, r.is_some(), expected, short));
        }
        let coq_hdr = coq_list(&hdrs.iter().zip(hres.iter()).collect::<Vec<_>>(), |((kind, n, lit, j), r)| format!("({}, {}, {}, {}, {}, {})", coq_n(*kind as u64), coq_n(*n), coq_bytes(lit), coq_n(*j as u64),
            coq_bool(r.is_some()), coq_list(r.as_deref().unwrap_or(&[]), |x| coq_n(*x))));
        let case = format!("mkCase {} {} {} {} {} {} [] {} [] {}", coq_bytes(&file), coq_n(ctx as u64),
            coq_list(&blocks, |b| format!("({}, {})", coq_n(b.0 as u64), coq_n(b.1 as u64))),
            coq_list(&per_block, |pb| coq_list(pb, |ms| coq_list(ms, |m| format!("({},{},{})%N", m.0, m.1, m.2)))),
            coq_list(&block_res, |ms| coq_list(ms, |b| format!("(({},{},{})%N, {}, {}, {})", b.m.0, b.m.1, b.m.2, coq_bytes(&b.data), coq_bytes(&b.ctx), coq_n(b.rel)))),
            coq_list(&derived.iter().zip(verdicts.iter()).collect::<Vec<_>>(), |((i, k), v)| format!("({}, {}, {})", coq_n(*i as u64),
                match k { Derived::At(a) => format!("DAt {}", coq_n(*a)), Derived::In(a, b) => format!("DIn {} {}", coq_n(*a), coq_n(*b)), Derived::CountGe(c) => format!("DCountGe {}", coq_n(*c)) }, coq_bool(**v))),
            coq_anch, coq_hdr);
        let replay = format!("{{\"index\":{},\"seed\":{},\"rules_source\":{},\"file_hex\":\"{}\",\"blocks\":{},\"context_size\":{},\"scanner\":\"{}\",\"block_matches\":{},\"per_block_matches\":{},\"derived\":{},\"anchored\":{},\"header_rules\":[{}]}}",
            idx, seed, json_str(&src), hex(&file), json_str(&format!("{:?}", blocks)), ctx, ["fresh", "converted_from_used_scanner", "reused_block_scanner"][used as usize],
            json_str(&format!("{:?}", block_res.iter().map(|v| v.iter().map(|b| b.m).collect::<Vec<_>>()).collect::<Vec<_>>())),
            json_str(&format!("{:?}", per_block)), json_str(&format!("{:?} -> {:?}", derived, verdicts)),
            json_str(&format!("{:?}", anchored.iter().zip(anch.iter()).map(|((n, lit, _), r)| (n, String::from_utf8_lossy(lit).to_string(), r.as_ref().map(|v| v.iter().map(|b| b.m).collect::<Vec<_>>()))).collect::<Vec<_>>())),
            hdr_notes.join(","));
        if samples.len() < 3 && blocks.len() >= 3 { samples.push(replay.clone()); }
        shards.push(case, replay);
    }
    shards.flush();
    println!("{{\"evaluations\":{},\"distinct_nontrivial\":{},\"shards\":{},\"distribution\":{},\"samples\":[{}]}}",
        shards.total, distinct.len(), shards.shard_count, stats.json(), samples.join(","));
    0
}
