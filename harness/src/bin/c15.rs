//! C15: the formatter preserves meaning and is idempotent.
//!
//! Two families of cases are written for Fmt/FmtCheck.v:
//!  * CFmt   - `yara_x_fmt::Formatter::format` run on generated sources under
//!             option combinations (property evaluated on the implementation);
//!  * CProc / CBubble / CCats - the real rule engine, bubble stage and token
//!             categories (through the cfg(yara_x_verif) hook
//!             `yara_x_fmt::verif_fmt`) against the Coq models, on real token
//!             streams and generated rule lists.
use std::collections::HashMap;
use std::panic::AssertUnwindSafe;
use std::path::Path;
use std::sync::mpsc;
use std::time::Duration;
use verif_harness::util::*;
use yara_x_fmt::verif_fmt::{self as hook, VAction, VClass, VCond, VTok};
use yara_x_fmt::{Formatter, Indentation};
use yara_x_parser::cst::{CSTStream, Event, SyntaxKind};
use yara_x_parser::Parser;

// ------------------------------------------------------------------ options
#[derive(Clone, Copy, Debug, PartialEq, Eq, Hash)]
pub struct Opts {
    pub b: [bool; 7],
    /// 0 = tabs, n>0 = Spaces(n-1)
    pub indent: u8,
    pub tab: u8,
}
const INDENTS: [u8; 6] = [3, 5, 2, 1, 9, 0]; // Spaces(2), Spaces(4), Spaces(1), Spaces(0), Spaces(8), Tabs
const TABS: [u8; 4] = [4, 1, 2, 8];

impl Opts {
    pub fn default_opts() -> Opts {
        // Formatter::new()
        Opts { b: [true, true, true, true, false, true, false], indent: 3, tab: 4 }
    }
    pub fn formatter(&self) -> Formatter {
        Formatter::new()
            .align_metadata(self.b[0])
            .align_patterns(self.b[1])
            .indent_section_headers(self.b[2])
            .indent_section_contents(self.b[3])
            .newline_before_curly_brace(self.b[4])
            .empty_line_before_section_header(self.b[5])
            .empty_line_after_section_header(self.b[6])
            .indentation(if self.indent == 0 { Indentation::Tabs } else { Indentation::Spaces(self.indent as usize - 1) })
            .input_tab_size(self.tab as usize)
    }
    pub fn json(&self) -> String {
        format!("{{\"align_metadata\":{},\"align_patterns\":{},\"indent_section_headers\":{},\"indent_section_contents\":{},\"newline_before_curly_brace\":{},\"empty_line_before_section_header\":{},\"empty_line_after_section_header\":{},\"indentation\":\"{}\",\"input_tab_size\":{}}}",
            self.b[0], self.b[1], self.b[2], self.b[3], self.b[4], self.b[5], self.b[6],
            if self.indent == 0 { "tabs".to_string() } else { format!("spaces({})", self.indent - 1) }, self.tab)
    }
    fn factor(&self, i: usize) -> u8 { if i < 7 { self.b[i] as u8 } else if i == 7 { self.indent } else { self.tab } }
    pub fn from_code(code: u64) -> Opts {
        let mut b = [false; 7];
        for (i, x) in b.iter_mut().enumerate() { *x = (code >> i) & 1 == 1; }
        Opts { b, indent: INDENTS[((code >> 7) % 6) as usize], tab: TABS[((code >> 10) % 4) as usize] }
    }
}

/// Covering array of strength 2 over 7 booleans x 6 indentations x 4 tab sizes
/// (greedy; deterministic).
pub fn covering_array() -> Vec<Opts> {
    let mut rng = Rng::new(0xC15);
    let nvals = |i: usize| -> Vec<u8> { if i < 7 { vec![0, 1] } else if i == 7 { INDENTS.to_vec() } else { TABS.to_vec() } };
    let mut uncovered = std::collections::HashSet::new();
    for i in 0..9 { for j in (i + 1)..9 { for a in nvals(i) { for b in nvals(j) { uncovered.insert((i, a, j, b)); } } } }
    let mut rows = vec![Opts::default_opts()];
    let cover = |o: &Opts, unc: &mut std::collections::HashSet<(usize, u8, usize, u8)>| {
        for i in 0..9 { for j in (i + 1)..9 { unc.remove(&(i, o.factor(i), j, o.factor(j))); } }
    };
    cover(&rows[0], &mut uncovered);
    while !uncovered.is_empty() {
        let mut best = None; let mut best_n = 0;
        for _ in 0..60 {
            let c = Opts::from_code(rng.next());
            let mut n = 0;
            for i in 0..9 { for j in (i + 1)..9 { if uncovered.contains(&(i, c.factor(i), j, c.factor(j))) { n += 1; } } }
            if n > best_n { best_n = n; best = Some(c); }
        }
        if let Some(c) = best { cover(&c, &mut uncovered); rows.push(c); }
    }
    rows
}

// ------------------------------------------------------------------ sources
const WORDS: [&str; 8] = ["alpha", "b", "Zeta_9", "x1", "very_long_identifier_name_to_force_alignment", "pe", "is_ok", "_"];
const COMMENT_TEXTS: [&str; 10] = ["c", "a comment", "ñandú 日本語 ✓", "", " leading", "trailing  ", "x\ty", "TODO: fix", "*", "// nested"];

fn gen_comment(rng: &mut Rng) -> String {
    let t = *rng.pick(&COMMENT_TEXTS);
    match rng.below(6) {
        0 | 1 => format!("// {}\n", t),
        2 => format!("/* {} */", t),
        3 => format!("/*{}*/", t),
        4 => { // multi-line block comment with its own indentation
            let nl = if rng.chance(1, 4) { "\r\n" } else { "\n" };
            let ind = *rng.pick(&["", "  ", "    ", "\t", " \t ", "        "]);
            format!("/* {}{}{} * second{}{} */", t, nl, ind, nl, ind)
        }
        _ => format!("//{}\n", t),
    }
}

const UNICODE_SPACES: [&str; 21] = ["\u{a0}", "\u{a0}", "\u{1680}", "\u{2000}", "\u{2001}", "\u{2002}", "\u{2003}", "\u{2004}", "\u{2005}", "\u{2006}",
    "\u{2007}", "\u{2008}", "\u{2009}", "\u{200a}", "\u{2028}", "\u{2029}", "\u{202f}", "\u{205f}", "\u{3000}", "\u{85}", "\u{feff}"];

fn gen_ws(rng: &mut Rng, style: u64, need: bool) -> String {
    // style 0: tidy, 1: messy, 2: heavily commented, 3: one line, 4: crlf + tabs, 5: Unicode spaces
    let mut s = String::new();
    match style {
        0 => { if need || rng.chance(1, 2) { s.push(' '); } if rng.chance(1, 6) { s.push('\n'); } }
        1 => {
            let n = rng.below(4) + if need { 1 } else { 0 };
            for _ in 0..n { s.push_str(*rng.pick(&[" ", "  ", "\t", "\n", "\n\n", "\n\n\n\n", " \n", "\r\n", "\t \t", "   \n  "])); }
        }
        2 => {
            if rng.chance(1, 2) { s.push_str(*rng.pick(&[" ", "\n", "\n  ", "\t", "  "])); }
            if rng.chance(2, 5) { s.push_str(&gen_comment(rng)); if rng.chance(1, 3) { s.push_str(*rng.pick(&[" ", "\n", "\n    ", "\n\n"])); } if rng.chance(1, 5) { s.push_str(&gen_comment(rng)); } }
            if need && s.is_empty() { s.push(' '); }
        }
        3 => { if need || rng.chance(1, 3) { s.push(' '); } }
        4 => {
            let n = rng.below(3) + if need { 1 } else { 0 };
            for _ in 0..n { s.push_str(*rng.pick(&["\t", "\r\n", "\r\n\t", "\t\t", " ", "\r\n\r\n"])); }
            if rng.chance(1, 10) { s.push_str(&gen_comment(rng)); }
        }
        _ => {
            // Unicode whitespace of every kind between tokens (the tokenizer accepts some of them)
            let n = rng.below(3) + if need { 1 } else { 0 };
            for _ in 0..n {
                if rng.chance(1, 2) { s.push_str(*rng.pick(&UNICODE_SPACES)); } else { s.push_str(*rng.pick(&[" ", "\n", "\t", "  "])); }
            }
            if rng.chance(1, 12) { s.push_str(&gen_comment(rng)); }
        }
    }
    s
}

fn wordy(c: char) -> bool { c.is_alphanumeric() || c == '_' || c == '$' || c == '#' || c == '@' || c == '!' || c == '"' || c == '/' || c == '.' || c == '?' || c == '~' }

/// Joins lexemes with generated separators.
pub fn render(rng: &mut Rng, lex: &[String], style: u64) -> String {
    let mut s = String::new();
    if rng.chance(1, 3) { s.push_str(&gen_ws(rng, style, false)); }
    for (i, l) in lex.iter().enumerate() {
        if i > 0 {
            let a = lex[i - 1].chars().last().unwrap_or(' ');
            let b = l.chars().next().unwrap_or(' ');
            // `-` after a number / before a number must keep its space so that lexing is stable
            let need = (wordy(a) && wordy(b)) || a == '-' || b == '-' || a == '*' || b == '*' || a == '\\' || b == '\\'
                || a == '<' || b == '<' || a == '>' || b == '>' || a == '=' || b == '=' || a == '&' || b == '&'
                || a == '|' || b == '|' || a == '^' || b == '^' || a == '%' || b == '%' || a == '+' || b == '+' || a == '!' ;
            s.push_str(&gen_ws(rng, style, need));
        }
        s.push_str(l);
    }
    s.push_str(&gen_ws(rng, style, false));
    s
}

fn v(xs: &[&str]) -> Vec<String> { xs.iter().map(|x| x.to_string()).collect() }

fn gen_int(rng: &mut Rng, d: u32, pats: &[String]) -> Vec<String> {
    let mut o = vec![];
    match rng.below(if d == 0 { 6 } else { 14 }) {
        0 => o.push(format!("{}", rng.below(1000))),
        1 => o.push(rng.pick(&["0x1F", "10KB", "2MB", "0o17", "0", "1"]).to_string()),
        2 => o.push("filesize".into()),
        3 => o.push(if pats.is_empty() { "entrypoint".into() } else { format!("#{}", rng.pick(pats)) }),
        4 => o.push(if pats.is_empty() { "7".into() } else { format!("@{}", rng.pick(pats)) }),
        5 => { if pats.is_empty() { o.push("3".into()) } else { o.extend(v(&[&format!("!{}", rng.pick(pats)), "[", "1", "]"])); } }
        6 => { o.push(rng.pick(&["uint8", "uint16", "int32be", "uint32"]).to_string()); o.push("(".into()); o.extend(gen_int(rng, d - 1, pats)); o.push(")".into()); }
        7 | 8 => { o.extend(gen_int(rng, d - 1, pats)); o.push(rng.pick(&["+", "-", "*", "\\", "%", "&", "|", "^", "<<", ">>"]).to_string()); o.extend(gen_int(rng, d - 1, pats)); }
        9 => { o.push("-".into()); o.extend(gen_int(rng, d - 1, pats)); }
        10 => { o.push("(".into()); o.extend(gen_int(rng, d - 1, pats)); o.push(")".into()); }
        11 => { o.push("~".into()); o.extend(gen_int(rng, d - 1, pats)); }
        12 => o.extend(v(&["pe", ".", "sections", "[", "0", "]", ".", "raw_data_size"])),
        _ => { o.extend(v(&["math", ".", "abs", "("])); o.extend(gen_int(rng, d - 1, pats)); o.push(")".into()); }
    }
    o
}

fn gen_bool(rng: &mut Rng, d: u32, pats: &[String]) -> Vec<String> {
    let mut o = vec![];
    let pat = |rng: &mut Rng| if pats.is_empty() { "them".to_string() } else { format!("${}", rng.pick(pats)) };
    match rng.below(if d == 0 { 5 } else { 20 }) {
        0 => o.push(rng.pick(&["true", "false"]).to_string()),
        1 | 2 => { if pats.is_empty() { o.push("true".into()) } else { o.push(pat(rng)) } }
        3 => { o.extend(gen_int(rng, 0, pats)); o.push(rng.pick(&["==", "!=", "<", ">", "<=", ">="]).to_string()); o.extend(gen_int(rng, 0, pats)); }
        4 => { o.extend(v(&[*rng.pick(&["all", "any", "none", "2", "50%"]), "of", "them"])); }
        5 => { if pats.is_empty() { o.push("false".into()) } else { o.push(pat(rng)); o.push("at".into()); o.extend(gen_int(rng, d - 1, pats)); } }
        6 => { if pats.is_empty() { o.push("false".into()) } else { o.push(pat(rng)); o.extend(v(&["in", "("])); o.extend(gen_int(rng, 0, pats)); o.push("..".into()); o.extend(gen_int(rng, 0, pats)); o.push(")".into()); } }
        7 | 8 => { o.extend(gen_bool(rng, d - 1, pats)); o.push("and".into()); o.extend(gen_bool(rng, d - 1, pats)); }
        9 | 10 => { o.extend(gen_bool(rng, d - 1, pats)); o.push("or".into()); o.extend(gen_bool(rng, d - 1, pats)); }
        11 => { o.push("not".into()); o.extend(gen_bool(rng, d - 1, pats)); }
        12 => { o.push("(".into()); o.extend(gen_bool(rng, d - 1, pats)); o.push(")".into()); }
        13 => { o.extend(v(&["for", *rng.pick(&["any", "all", "2"]), "i", "in", "(", "0", "..", "3", ")", ":", "("])); o.extend(gen_bool(rng, d - 1, pats)); o.push(")".into()); }
        14 => { o.extend(gen_int(rng, d - 1, pats)); o.push(rng.pick(&["==", "!=", "<", ">="]).to_string()); o.extend(gen_int(rng, d - 1, pats)); }
        15 => { o.extend(v(&[*rng.pick(&["any", "all"]), "of", "("])); if pats.is_empty() { o.push("$a*".into()) } else { for (i, p) in pats.iter().enumerate() { if i > 0 { o.push(",".into()); } o.push(format!("${}{}", p, if rng.chance(1, 4) { "*" } else { "" })); } } o.push(")".into()); }
        16 => { o.extend(v(&["with", "x", "=", "1", ",", "y", "="])); o.extend(gen_int(rng, 0, pats)); o.extend(v(&[":", "("])); o.extend(gen_bool(rng, d - 1, pats)); o.push(")".into()); }
        17 => { o.extend(v(&["pe", ".", "imports", "(", "\"kernel32.dll\"", ",", "\"CreateFileA\"", ")"])); }
        18 => { o.extend(v(&["\"añb\"", *rng.pick(&["contains", "icontains", "startswith", "iequals", "matches"])])); o.push(if o.last().unwrap() == "matches" { "/a.*b/is".into() } else { "\"a\\\"b\"".into() }); }
        _ => { o.push("defined".into()); o.extend(gen_int(rng, d - 1, pats)); }
    }
    o
}

fn gen_hex(rng: &mut Rng) -> Vec<String> {
    let mut o = vec!["{".to_string()];
    let n = if rng.chance(1, 6) { 20 + rng.below(40) } else { 1 + rng.below(8) };
    o.push(format!("{:02X}", rng.below(256)));
    for _ in 0..n {
        match rng.below(12) {
            0 => o.push("??".into()),
            1 => o.push(format!("{:X}?", rng.below(16))),
            2 => o.push(format!("?{:X}", rng.below(16))),
            3 => o.extend(v(&["[", "2", "-", "4", "]"])),
            4 => o.extend(v(&["[", "3", "]"])),
            5 => o.extend(v(&["[", "-", "]"])),
            6 => { o.push("(".into()); o.push(format!("{:02x}", rng.below(256))); o.push("|".into()); o.push(format!("{:02x}", rng.below(256))); o.push(format!("{:02x}", rng.below(256))); o.push(")".into()); }
            7 => o.push(format!("~{:02X}", rng.below(256))),
            _ => o.push(format!("{:02X}", rng.below(256))),
        }
    }
    o.push(format!("{:02X}", rng.below(256)));
    o.push("}".into());
    o
}

pub fn gen_lexemes(rng: &mut Rng) -> Vec<String> {
    let mut o = vec![];
    if rng.chance(2, 3) { o.extend(v(&["import", "\"pe\"", "import", "\"math\""])); }
    for _ in 0..rng.below(2) { o.extend(v(&["import", *rng.pick(&["\"pe\"", "\"math\"", "\"hash\""])])); }
    if rng.chance(1, 8) { o.extend(v(&["include", "\"other.yar\""])); }
    let many = rng.chance(1, 4);
    let nrules = 1 + rng.below(if many { 4 } else { 2 });
    for r in 0..nrules {
        if rng.chance(1, 5) { o.push("global".into()); }
        if rng.chance(1, 5) { o.push("private".into()); }
        o.push("rule".into());
        o.push(format!("{}_{}", rng.pick(&WORDS), r));
        if rng.chance(1, 4) { o.push(":".into()); for _ in 0..(1 + rng.below(3)) { o.push(rng.pick(&WORDS).to_string()); } }
        o.push("{".into());
        if rng.chance(1, 2) {
            o.extend(v(&["meta", ":"]));
            for _ in 0..(1 + rng.below(4)) {
                o.push(rng.pick(&WORDS).to_string()); o.push("=".into());
                o.push(rng.pick(&["\"text\"", "\"ñ\\t\\\"q\\\"\"", "1", "-5", "true", "false", "\"\""]).to_string());
            }
        }
        let mut pats: Vec<String> = vec![];
        if rng.chance(3, 4) {
            o.extend(v(&["strings", ":"]));
            for k in 0..(1 + rng.below(4)) {
                let name = format!("{}{}", rng.pick(&["a", "b", "str", "long_pattern_name"]), k);
                o.push(format!("${}", name)); o.push("=".into());
                match rng.below(4) {
                    0 | 1 => { o.push(rng.pick(&["\"foo\"", "\"a\\\\b\"", "\"x\\x41y\"", "\"ñandú\"", "\"with // not a comment\"", "\"/* neither */\""]).to_string());
                               for _ in 0..rng.below(3) { o.push(rng.pick(&["wide", "ascii", "nocase", "fullword", "private"]).to_string()); }
                               if rng.chance(1, 6) { o.extend(v(&["xor", "(", "1", "-", "20", ")"])); }
                               if rng.chance(1, 8) { o.extend(v(&["base64", "(", "\"!@#$%^&*(){}[].,|ABCDEFGHIJ\\x09LMNOPQRSTUVWXYZabcdefghijklmnopqrstu\"", ")"])); } }
                    2 => o.extend(gen_hex(rng)),
                    _ => { o.push(rng.pick(&["/ab+c/", "/a\\/b/i", "/[a-z]{2,3}/s", "/x|y/ nocase"]).to_string()); if rng.chance(1, 3) { o.push("wide".into()); } }
                }
                pats.push(name);
            }
        }
        o.extend(v(&["condition", ":"]));
        let depth = if rng.chance(1, 5) { 5 } else { 1 + rng.below(3) as u32 };
        o.extend(gen_bool(rng, depth, &pats));
        if !pats.is_empty() && rng.chance(2, 3) { o.extend(v(&["or", "any", "of", "them"])); }
        o.push("}".into());
    }
    o
}

const GARBAGE: [&str; 22] = ["{", "}", "(", ")", "[", "]", "\"", "/*", "*/", "$", "\\", "rule", ":", "@", "ñ", "\u{0}", "=", "condition", "strings", "//", "'", "`"];

pub fn mutate(rng: &mut Rng, lex: &mut Vec<String>) {
    for _ in 0..(1 + rng.below(3)) {
        if lex.is_empty() { return; }
        let i = rng.below(lex.len() as u64) as usize;
        match rng.below(5) {
            0 => { lex.remove(i); }
            1 => { let x = lex[i].clone(); lex.insert(i, x); }
            2 => { let j = rng.below(lex.len() as u64) as usize; lex.swap(i, j); }
            3 => { lex.insert(i, rng.pick(&GARBAGE).to_string()); }
            _ => { lex.truncate(i + 1); }
        }
    }
}

// ------------------------------------------------------------------ observation
pub struct Interner { map: HashMap<Vec<u8>, u64> }
impl Interner {
    pub fn new() -> Self { Interner { map: HashMap::new() } }
    pub fn id(&mut self, b: &[u8]) -> u64 { let n = self.map.len() as u64 + 1; *self.map.entry(b.to_vec()).or_insert(n) }
}

/// Comment text modulo the indentation of continuation lines (and modulo the
/// kind of line break inside the comment).
fn normalize_comment(b: &[u8]) -> Vec<u8> {
    let mut out = vec![];
    for (i, line) in b.split(|c| *c == b'\n').enumerate() {
        let mut l = line;
        if l.last() == Some(&b'\r') { l = &l[..l.len() - 1]; }
        if i > 0 {
            out.push(b'\n');
            while let Some(c) = l.first() { if *c == b' ' || *c == b'\t' { l = &l[1..]; } else { break; } }
        }
        out.extend_from_slice(l);
    }
    out
}

/// Significant tokens of a source: everything the tokenizer yields except
/// whitespace and line breaks; (kind, text).
pub fn significant(src: &[u8]) -> Vec<(SyntaxKind, Vec<u8>)> {
    let mut out = vec![];
    for ev in CSTStream::from(Parser::new(src)) {
        if let Event::Token { kind, span } = ev {
            match kind {
                SyntaxKind::WHITESPACE | SyntaxKind::NEWLINE => {}
                SyntaxKind::COMMENT => out.push((kind, normalize_comment(&src[span.range()]))),
                _ => out.push((kind, src[span.range()].to_vec())),
            }
        }
    }
    out
}

#[derive(Clone, Debug, PartialEq)]
pub enum Outcome { Ok(bool), Err(String), Panic(String), Hang }

/// Runs the formatter in a watchdog thread.
pub fn run_format(src: &[u8], o: &Opts) -> (Outcome, Vec<u8>) {
    let (tx, rx) = mpsc::channel();
    let src = src.to_vec();
    let o = *o;
    std::thread::Builder::new().stack_size(64 << 20).spawn(move || {
        let r = catch(AssertUnwindSafe(|| {
            let mut out = Vec::new();
            let r = o.formatter().format(src.as_slice(), &mut out);
            (r.map_err(|e| e.to_string()), out)
        }));
        let _ = tx.send(r);
    }).unwrap();
    match rx.recv_timeout(Duration::from_secs(20)) {
        Ok(Ok((Ok(m), out))) => (Outcome::Ok(m), out),
        Ok(Ok((Err(e), out))) => (Outcome::Err(e), out),
        Ok(Err(p)) => (Outcome::Panic(p), vec![]),
        Err(_) => (Outcome::Hang, vec![]),
    }
}

/// How a source behaves when compiled: the error codes, or the verdicts and
/// matches of its rules on three fixed buffers.
pub fn behaviour(src: &[u8]) -> String {
    catch(AssertUnwindSafe(|| {
        let mut c = yara_x::Compiler::new();
        let ok = c.add_source(src).is_ok();
        if !ok || !c.errors().is_empty() {
            let mut codes: Vec<String> = c.errors().iter().map(|e| e.code().to_string()).collect();
            codes.sort();
            return format!("errors:{}", codes.join(","));
        }
        let rules = c.build();
        let bufs: [&[u8]; 3] = [b"", b"foo abc x\x41y a\\b with // not a comment \x01\x02\x03 ab+c xy", &[0x4d, 0x5a, 0x90, 0, 3, 0, 0, 0, 0xff, 0xfe, 0x11, 0x22, 0x33, 0x44, 0x55, 0x66]];
        let mut out = String::new();
        for b in bufs {
            let mut s = yara_x::Scanner::new(&rules);
            match s.scan(b) {
                Ok(res) => { let mut v: Vec<String> = res.matching_rules().map(|r| format!("{}{:?}", r.identifier(),
                        r.patterns().map(|p| (p.identifier().to_string(), p.matches().map(|m| m.range()).collect::<Vec<_>>())).collect::<Vec<_>>())).collect(); v.sort(); out.push_str(&v.join(";")); }
                Err(e) => out.push_str(&format!("scan-error:{e}")),
            }
            out.push('|');
        }
        out
    })).unwrap_or_else(|p| format!("panic:{p}"))
}

pub struct FmtObs {
    pub same_behaviour: bool,
    pub in_compiles: bool,
    pub in_sig: Vec<(SyntaxKind, Vec<u8>)>, pub out1: Outcome, pub out1_text: Vec<u8>,
    pub out1_sig: Vec<(SyntaxKind, Vec<u8>)>, pub out2: Outcome, pub out2_text: Vec<u8>,
}

pub fn observe(src: &[u8], o: &Opts) -> FmtObs { observe_with(src, o, true) }

/// `with_behaviour = false` skips the (expensive) compilation of input and output.
pub fn observe_with(src: &[u8], o: &Opts, with_behaviour: bool) -> FmtObs {
    let in_sig = catch(AssertUnwindSafe(|| significant(src))).unwrap_or_default();
    let (out1, out1_text) = run_format(src, o);
    let (out1_sig, out2, out2_text) = if let Outcome::Ok(_) = out1 {
        let s = catch(AssertUnwindSafe(|| significant(&out1_text))).unwrap_or_default();
        let (o2, t2) = run_format(&out1_text, o);
        (s, o2, t2)
    } else { (vec![], Outcome::Ok(false), vec![]) };
    let (same_behaviour, in_compiles) = if !with_behaviour { (true, false) } else if let Outcome::Ok(_) = out1 {
        let b = behaviour(src);
        (src == out1_text.as_slice() || b == behaviour(&out1_text), !b.starts_with("errors:") && !b.starts_with("panic:"))
    } else { (true, false) };
    FmtObs { same_behaviour, in_compiles, in_sig, out1, out1_text, out1_sig, out2, out2_text }
}

/// The clauses of the property that fail on an observation (same definitions as
/// Fmt/FmtCheck.v; used only to name the failing clause in the replay file
/// and to direct the minimiser - the verdict is computed in Coq).
pub fn failing_clauses(src: &[u8], ob: &FmtObs) -> Vec<&'static str> {
    let mut f = vec![];
    match &ob.out1 {
        Outcome::Panic(_) => f.push("panic"),
        Outcome::Hang => f.push("hang"),
        Outcome::Err(_) => { if std::str::from_utf8(src).is_ok() { f.push("unexpected-error"); } }
        Outcome::Ok(m) => {
            if ob.in_sig != ob.out1_sig { f.push("tokens"); }
            if *m != (src != ob.out1_text.as_slice()) { f.push("modified-flag"); }
            if !ob.same_behaviour { f.push("behaviour"); }
            match &ob.out2 {
                Outcome::Ok(m2) => { if ob.out2_text != ob.out1_text || *m2 { f.push("idempotence"); } }
                _ => f.push("idempotence"),
            }
        }
    }
    f
}

fn fails(src: &[u8], o: &Opts, clause: &str) -> bool {
    let ob = observe_with(src, o, clause == "behaviour");
    failing_clauses(src, &ob).contains(&clause)
}

/// Does the parser report a syntax error for this source?
pub fn has_syntax_errors(src: &[u8]) -> bool {
    CSTStream::from(Parser::new(src)).any(|e| matches!(e, Event::Error { .. } | Event::Begin { kind: SyntaxKind::ERROR, .. }))
}

/// Fingerprint of a failing case: the failing clause, whether the source is
/// syntactically valid, and for idempotence failures the known shape.
pub fn classify(src: &[u8], o: &Opts, clause: &str) -> String {
    if clause == "panic" || clause == "unexpected-error" {
        // caused by Unicode whitespace? (does it disappear when every Unicode space is replaced by ' ')
        let mut cand: Vec<u8> = Vec::with_capacity(src.len());
        let mut i = 0;
        'outer: while i < src.len() {
            for u in UNICODE_SPACES.iter() { let b = u.as_bytes(); if src[i..].starts_with(b) { cand.push(b' '); i += b.len(); continue 'outer; } }
            cand.push(src[i]); i += 1;
        }
        if cand != src && !fails(&cand, o, clause) { return format!("{}:unicode-whitespace", clause); }
    }
    let valid = if has_syntax_errors(src) { "invalid-source" } else { "valid-source" };
    if clause == "idempotence" { classify_idempotence(src, o) }
    else if clause == "tokens" {
        let ob = observe_with(src, o, false);
        let (a, b) = (&ob.in_sig, &ob.out1_sig);
        let n = a.len();
        let ext = n > 0 && n == b.len() && a[..n - 1] == b[..n - 1] && a[n - 1].0 == b[n - 1].0 && b[n - 1].1.starts_with(&a[n - 1].1)
            && b[n - 1].1[a[n - 1].1.len()..].iter().all(|c| c.is_ascii_whitespace());
        // where the two token sequences first differ
        let first = a.iter().zip(b.iter()).position(|(x, y)| x != y).unwrap_or(a.len().min(b.len()));
        let kind = a.get(first).map(|t| format!("{:?}", t.0)).unwrap_or_else(|| "END".into());
        let grows = match (a.get(first), b.get(first)) { (Some(x), Some(y)) => x.0 == y.0 && y.1.starts_with(&x.1), _ => false };
        // the KINDS of earlier tokens can differ as a consequence (the parser reads `%` differently once
        // the text after it changed): look at the first token whose TEXT differs
        let first_text = a.iter().zip(b.iter()).position(|(x, y)| x.1 != y.1);
        let (grows, kind) = match first_text.and_then(|i| Some((a.get(i)?, b.get(i)?))) {
            Some((x, y)) if first_text != Some(first) && format!("{:?}", x.0) == "UNKNOWN" && x.0 == y.0 && y.1.starts_with(&x.1) && y.1.len() > x.1.len() => (true, "UNKNOWN".to_string()),
            _ => (grows, kind) };
        format!("tokens:{}:{}", valid, if ext { "last-token-extended-by-appended-line-break".to_string() }
            else if grows && kind == "UNKNOWN" { "unterminated-token-absorbs-following-text-after-line-join".to_string() } else { format!("other:first-difference-at-{}", kind) })
    }
    else { format!("{}:{}", clause, valid) }
}

fn fails_as(src: &[u8], o: &Opts, clause: &str, class: &str) -> bool {
    fails(src, o, clause) && classify(src, o, clause) == class
}

/// Greedy minimisation of a failing source (lines, then tokens, then characters
/// of comments/whitespace) keeping the same clause failing under the same options.
pub fn minimise(src: &[u8], o: &Opts, clause: &'static str, class: &str) -> Vec<u8> { minimise_with(src, o, clause, class, 1500) }

pub fn minimise_with(src: &[u8], o: &Opts, clause: &'static str, class: &str, budget: i32) -> Vec<u8> {
    let mut cur = src.to_vec();
    let mut budget = budget;
    let token_spans = |s: &[u8]| -> Vec<std::ops::Range<usize>> {
        CSTStream::from(Parser::new(s)).filter_map(|e| if let Event::Token { span, .. } = e { Some(span.range()) } else { None }).collect()
    };
    // delta debugging over the tokens of the CST (whitespace and comments included)
    let mut chunk = (token_spans(&cur).len() / 2).max(1);
    while budget > 0 {
        let spans = token_spans(&cur);
        let mut i = 0;
        let mut removed = false;
        while i < spans.len() && budget > 0 {
            let j = (i + chunk).min(spans.len());
            let (a, b) = (spans[i].start, spans[j - 1].end);
            let mut cand = cur[..a].to_vec(); cand.extend_from_slice(&cur[b..]);
            budget -= 1;
            if cand.len() < cur.len() && fails_as(&cand, o, clause, class) { cur = cand; removed = true; break; }
            i += chunk;
        }
        if !removed { if chunk == 1 { break; } chunk = (chunk / 2).max(1); }
    }
    cur
}

/// Significant tokens with their spans.
fn sig_spans(src: &[u8]) -> Vec<(SyntaxKind, std::ops::Range<usize>)> {
    CSTStream::from(Parser::new(src)).filter_map(|e| match e {
        Event::Token { kind, span } if kind != SyntaxKind::WHITESPACE && kind != SyntaxKind::NEWLINE => Some((kind, span.range())),
        _ => None }).collect()
}

/// Coarse description of a token for fingerprints.
fn describe(kind: SyntaxKind, text: &[u8]) -> String {
    match kind {
        SyntaxKind::COMMENT => if text.starts_with(b"/*") { if text.contains(&b'\n') { "/*multi-line*/".into() } else { "/*block*/".into() } } else { "//line".into() },
        SyntaxKind::IDENT => "IDENT".into(),
        SyntaxKind::PATTERN_IDENT | SyntaxKind::PATTERN_COUNT | SyntaxKind::PATTERN_OFFSET | SyntaxKind::PATTERN_LENGTH => "PATTERN".into(),
        _ => {
            let t = String::from_utf8_lossy(text).to_string();
            if t.len() <= 10 && t.chars().all(|c| c.is_ascii_punctuation() || c.is_ascii_lowercase()) && !t.contains('"') && !t.contains('/') { t } else { "LIT".into() }
        }
    }
}

/// Where and how the second pass differs from the first. The description is
/// meant to pin down the INPUT CLASS of a failure, so that a new failure is
/// not taken for a recorded one:
///  * a change of the whitespace next to a comment (taken as the cause even when
///    an earlier gap changes too): what changes (line break added / removed,
///    spaces added / removed), on which side of the comment, the kind of comment,
///    where the comment stands on its line in the first output (first on the
///    line or after code; followed by code / by a comment / last on the line) and
///    what is on the other side of the gap;
///  * a change of the text of a comment: whether the line that changes is blank;
///    else where the comment stands;
///  * a change next to (or inside) the text of a syntax-error node;
///  * anything else: the coarse kinds of the tokens around the first changed gap.
/// a comment between the `=` and the `{` of a hex pattern (`$a = /* c */ { .. }`): the first pass
/// puts that comment on its own line, the second takes the line break after it for one INSIDE the
/// pattern, treats the pattern as multi-line and breaks the line before its `}`
pub const HEX_CLOSE: &str = "hex-pattern-with-comment-before-opening-brace:line-break-added-before-closing-brace";

pub fn diff_fingerprint(p1: &[u8], p2: &[u8]) -> String {
    let (a, b) = (sig_spans(p1), sig_spans(p2));
    if a.len() != b.len() { return "token-count-changes".into(); }
    let gap_of = |src: &[u8], spans: &[(SyntaxKind, std::ops::Range<usize>)], i: usize| -> Vec<u8> {
        let start = if i == 0 { 0 } else { spans[i - 1].1.end };
        let end = if i == spans.len() { src.len() } else { spans[i].1.start };
        src[start..end].to_vec()
    };
    let n = a.len();
    let nl = |g: &[u8]| g.iter().filter(|c| **c == b'\n').count();
    let is_comment = |j: isize| j >= 0 && (j as usize) < n && a[j as usize].0 == SyntaxKind::COMMENT;
    let coarse = |j: isize| -> String {
        if j < 0 { return "START".into(); } if j as usize >= n { return "END".into(); }
        let (k, r) = &a[j as usize]; let t = &p1[r.clone()];
        match k {
            SyntaxKind::COMMENT => "COMMENT".into(),
            SyntaxKind::IDENT => "IDENT".into(),
            SyntaxKind::PATTERN_IDENT | SyntaxKind::PATTERN_COUNT | SyntaxKind::PATTERN_OFFSET | SyntaxKind::PATTERN_LENGTH => "PATTERN".into(),
            _ => { let s = String::from_utf8_lossy(t).to_string();
                   if s.len() <= 2 && s.chars().all(|c| c.is_ascii_punctuation()) && !s.contains('"') && !s.contains('/') { s }
                   else if s.len() <= 12 && s.chars().all(|c| c.is_ascii_lowercase()) { "KEYWORD".into() } else { "LITERAL".into() } }
        }
    };
    // syntax-error nodes of the first output
    let error_spans: Vec<std::ops::Range<usize>> = CSTStream::from(Parser::new(p1)).filter_map(|e| match e {
        Event::Begin { kind: SyntaxKind::ERROR, span } => Some(span.range()), _ => None }).collect();
    let touches_error = |i: usize| -> bool {
        let start = if i == 0 { 0 } else { a[i - 1].1.end };
        let end = if i == n { p1.len() } else { a[i].1.start };
        error_spans.iter().any(|e| e.start <= end && start <= e.end)
    };
    let change_of = |g1: &[u8], g2: &[u8]| -> &'static str {
        if nl(g1) < nl(g2) { "line-break-added" } else if nl(g1) > nl(g2) { "line-break-removed" }
        else if g2.len() > g1.len() { "spaces-added" } else if g2.len() < g1.len() { "spaces-removed" } else { "spaces-replaced" } };
    let comment_kind = |j: usize| -> &'static str { if p1[a[j].1.clone()].starts_with(b"/*") { "block" } else { "line" } };
    let line_position = |j: usize| -> String {
        let before = gap_of(p1, &a, j); let after = gap_of(p1, &a, j + 1);
        let first = j == 0 || nl(&before) > 0;
        let follow = if j + 1 >= n || nl(&after) > 0 { "last-on-line" } else if is_comment(j as isize + 1) { "followed-by-comment" } else { "followed-by-code" };
        format!("{}+{}", if first { "first-on-line" } else { "after-code" }, follow) };
    // is token i the closing brace of a hex pattern whose opening brace has a comment in front of it?
    let hex_close = |i: usize| -> bool {
        if !(i < n && &p1[a[i].1.clone()] == b"}") { return false; }
        let mut j = i; let mut open = None;
        while j > 0 { j -= 1; let t = &p1[a[j].1.clone()]; if t == b"{" { open = Some(j); break; } if t == b"}" { break; } }
        match open { None => false, Some(o) => {
            let mut k = o; let mut comment = false;
            while k > 0 && is_comment(k as isize - 1) { k -= 1; comment = true; }
            comment && k > 0 && &p1[a[k - 1].1.clone()] == b"=" } }
    };
    let mut first_other: Option<String> = None;
    let mut first_error: Option<String> = None;
    for i in 0..=n {
        let (g1, g2) = (gap_of(p1, &a, i), gap_of(p2, &b, i));
        if g1 != g2 {
            let change = change_of(&g1, &g2);
            if is_comment(i as isize - 1) || is_comment(i as isize) {
                let (side, cj, other) = if is_comment(i as isize - 1) { ("after", i - 1, coarse(i as isize)) } else { ("before", i, coarse(i as isize - 1)) };
                let other = match other.as_str() { "COMMENT" | "START" | "END" => other, _ => "CODE".to_string() };
                let mut fp = format!("next-to-comment:{}-{}-{}-comment:{}:other-side-{}", change, side, comment_kind(cj), line_position(cj), other);
                if change == "line-break-added" && side == "after" && other != "END" {
                    // what the comment follows: `condition:` / `strings:` / `meta:`, `{`, another comment, ...
                    let prev = if cj == 0 { "START".to_string() } else {
                        let t = String::from_utf8_lossy(&p1[a[cj - 1].1.clone()]).to_string();
                        if a[cj - 1].0 == SyntaxKind::COMMENT { "comment".into() }
                        else if t == ":" && cj >= 2 { format!("{}:", String::from_utf8_lossy(&p1[a[cj - 2].1.clone()]).chars().filter(|c| c.is_ascii_lowercase()).take(12).collect::<String>()) }
                        else if t == "{" || t == "}" || t == "(" || t == "=" { t } else { coarse(cj as isize - 1).to_lowercase() } };
                    fp.push_str(&format!(":follows-{}", prev));
                    // the closing brace of a hex pattern whose opening brace has a comment in front
                    // of it (`$a = /* c */ { .. }`): the first pass puts that comment on its own
                    // line, the second takes the line break after it for one INSIDE the pattern
                    if hex_close(i) { return HEX_CLOSE.to_string(); }
                }
                if change.starts_with("spaces-") {
                    // alignment of comments: are tabs involved, and is there another comment earlier on the comment's line
                    let tabs = g1.contains(&b'\t') || g2.contains(&b'\t');
                    let mut earlier = false; let mut j = cj;
                    while j > 0 && nl(&gap_of(p1, &a, j)) == 0 { j -= 1; if is_comment(j as isize) { earlier = true; break; } }
                    fp.push_str(&format!(":{}:{}", if tabs { "tabs-in-the-gap" } else { "no-tabs-in-the-gap" }, if earlier { "another-comment-earlier-on-the-line" } else { "only-comment-on-the-line" }));
                }
                if touches_error(i) { fp.push_str(":next-to-syntax-error"); }
                return fp;
            }
            if change == "line-break-added" && hex_close(i) { return HEX_CLOSE.to_string(); }
            if touches_error(i) { if first_error.is_none() { first_error = Some("next-to-the-text-of-a-syntax-error".to_string()); } }
            else if first_other.is_none() { first_other = Some(format!("other:{}:after[{}]-before[{}]", change, coarse(i as isize - 1), coarse(i as isize))); }
        }
        if i < n && p1[a[i].1.clone()] != p2[b[i].1.clone()] {
            if a[i].0 == SyntaxKind::COMMENT {
                let (t1, t2) = (&p1[a[i].1.clone()], &p2[b[i].1.clone()]);
                let l1: Vec<&[u8]> = t1.split(|c| *c == b'\n').collect(); let l2: Vec<&[u8]> = t2.split(|c| *c == b'\n').collect();
                let k = l1.iter().zip(l2.iter()).position(|(x, y)| x != y).unwrap_or(0);
                let blank = |l: &[u8]| l.iter().all(|c| *c == b' ' || *c == b'\t' || *c == b'\r');
                // the lines of a comment move with the column of the comment: when the layout already
                // changed earlier (away from comments and syntax errors), that change is the one to describe
                if let Some(o) = &first_other { return o.clone(); }
                return if k < l1.len() && k < l2.len() && blank(l1[k]) && blank(l2[k]) { "comment-text:blank-line-inside-comment-changes".into() }
                       else {
                           let mut earlier = false; let mut non_ascii = false; let mut j = i;
                           while j > 0 && nl(&gap_of(p1, &a, j)) == 0 { j -= 1; if is_comment(j as isize) { earlier = true; } if !p1[a[j].1.clone()].is_ascii() { non_ascii = true; } }
                           format!("comment-text:continuation-lines-reindented:{}:{}:{}", line_position(i),
                               if earlier { "another-comment-earlier-on-the-line" } else { "no-other-comment-earlier-on-the-line" },
                               if non_ascii { "non-ascii-text-earlier-on-the-line" } else { "ascii-only-earlier-on-the-line" })
                       };
            }
            return format!("token-text-changes[{}]", coarse(i as isize));
        }
    }
    if let Some(e) = first_error { return e; }
    if let Some(o) = first_other { return o; }
    "no-difference-found".into()
}

/// The recorded input classes of idempotence failures around comments: a
/// detailed description (see [diff_fingerprint]) is mapped to the class it
/// belongs to; a description that belongs to none is kept in full, so that it
/// is reported as something new.
pub fn idempotence_family(fp: &str) -> Option<&'static str> {
    if fp.starts_with("comment-text:blank-line") { return Some("comment-text:blank-line-inside-comment-changes"); }
    // recorded only for a comment that follows ANOTHER COMMENT on its line (write_to does not count an
    // earlier comment when it indents the continuation lines, the comment stage does when it strips them)
    if fp.starts_with("comment-text:continuation-lines-reindented") {
        return if fp.contains(":after-code+") && fp.contains(":another-comment-earlier-on-the-line:") { Some("comment-text:continuation-lines-reindented:comment-follows-another-comment-on-its-line") } else { None };
    }
    let p: Vec<&str> = fp.split(':').collect();
    if p.len() < 4 || p[0] != "next-to-comment" { return None; }
    let (what, pos, other) = (p[1], p[2], p[3]);
    let (change, side, kind) = if let Some((c, k)) = what.split_once("-after-") { (c, "after", k) } else if let Some((c, k)) = what.split_once("-before-") { (c, "before", k) } else { return None; };
    let block = kind.starts_with("block");
    let spaces = change.starts_with("spaces-");
    let tabs = p.get(4) == Some(&"tabs-in-the-gap");
    let earlier = p.get(5) == Some(&"another-comment-earlier-on-the-line");
    match (change, side) {
        ("line-break-added", "after") if other == "other-side-END" => Some("next-to-comment:line-break-added-after-the-last-comment-of-the-file"),
        // a block comment that the first pass leaves first on its line with something after it: recorded
        // for the places where the unchanged formatter does that
        ("line-break-added", "after") if block && pos == "first-on-line+followed-by-code" => match p.get(4) {
            Some(&"follows-comment") => Some("next-to-comment:line-break-added-after-block-comment-first-on-its-line-followed-by-code:after-another-comment"),
            Some(&"follows-condition") => Some("next-to-comment:line-break-added-after-block-comment-first-on-its-line-followed-by-code:after-condition-colon"),
            Some(&"follows-{") => Some("next-to-comment:line-break-added-after-block-comment-first-on-its-line-followed-by-code:after-opening-brace"),
            _ => None },
        ("line-break-added", "after") if block && pos == "first-on-line+followed-by-comment" => match p.get(4) {
            Some(&"follows-strings") | Some(&"follows-meta") | Some(&"follows-condition") | Some(&"follows-{") =>
                Some("next-to-comment:line-break-added-after-block-comment-first-on-its-line-followed-by-comment:after-section-colon-or-brace"),
            _ => None },
        ("line-break-added", "after") if !block && pos == "first-on-line+last-on-line" && other == "other-side-CODE" => Some("next-to-comment:empty-line-added-after-a-line-comment-on-its-own-line"),
        ("line-break-added", "before") if pos == "first-on-line+last-on-line" && other == "other-side-CODE" => Some("next-to-comment:empty-line-added-before-a-comment-on-its-own-line"),
        ("line-break-removed", "after") if pos == "after-code+last-on-line" => Some("next-to-comment:empty-line-removed-after-a-tail-comment"),
        (_, "before") if spaces && pos == "after-code+last-on-line" && other == "other-side-CODE" => Some("next-to-comment:spaces-before-a-tail-comment-change"),
        (_, "before") if spaces && pos == "first-on-line+last-on-line" && other == "other-side-CODE" => Some("next-to-comment:indentation-of-a-comment-on-its-own-line-changes"),
        (_, "after") if spaces && pos == "first-on-line+last-on-line" => Some("next-to-comment:indentation-of-the-line-after-a-comment-on-its-own-line-changes"),
        (_, "after") if spaces && block && pos == "after-code+followed-by-comment" && other == "other-side-COMMENT" => Some("next-to-comment:space-between-two-comments-on-a-line-changes"),
        (_, "after") if spaces && pos == "after-code+last-on-line" && other == "other-side-CODE" => Some("next-to-comment:indentation-of-the-code-line-after-a-tail-comment-changes"),
        // a comment line that follows a tail comment: recorded are (1) it loses its alignment when the
        // tail comment's line holds another comment and no tabs are involved, (2) it gains alignment
        (_, "after") if spaces && pos == "after-code+last-on-line" && other == "other-side-COMMENT" => {
            if change == "spaces-removed" && !tabs && earlier { Some("next-to-comment:comment-line-after-a-tail-comment-loses-alignment:line-with-several-comments-no-tabs") }
            else if change == "spaces-added" { Some("next-to-comment:comment-line-after-a-tail-comment-gets-aligned-with-it") }
            else { None }
        }
        _ => None,
    }
}

/// Fingerprint of an idempotence failure.
/// The defect of DESIGN.md section 7 #15 -- a `/* */` comment between
/// `condition:` and the first term of the condition -- is recognised by
/// removing exactly those comments and observing that the failure disappears;
/// every other failure is described by [diff_fingerprint]; when the change is
/// neither next to a comment nor next to a syntax error but disappears when
/// every comment is replaced by a space, that is said too.
pub fn classify_idempotence(src: &[u8], o: &Opts) -> String {
    let valid = if has_syntax_errors(src) { "invalid-source" } else { "valid-source" };
    let mut prev2: Option<Vec<u8>> = None; let mut prev1: Option<Vec<u8>> = None;
    let mut cuts: Vec<std::ops::Range<usize>> = vec![];
    for (kind, span) in sig_spans(src) {
        let text = &src[span.clone()];
        if kind == SyntaxKind::COMMENT {
            if text.starts_with(b"/*") && prev1.as_deref() == Some(b":") && prev2.as_deref() == Some(b"condition") { cuts.push(span); }
        } else { prev2 = prev1.take(); prev1 = Some(text.to_vec()); }
    }
    if !cuts.is_empty() && valid == "valid-source" {
        let mut cand = vec![]; let mut at = 0;
        for c in &cuts { cand.extend_from_slice(&src[at..c.start]); cand.push(b' '); at = c.end; }
        cand.extend_from_slice(&src[at..]);
        if !fails(&cand, o, "idempotence") { return "idempotence:block-comment-before-first-condition-term".into(); }
    }
    let ob = observe_with(src, o, false);
    let fp = diff_fingerprint(&ob.out1_text, &ob.out2_text);
    if fp == HEX_CLOSE { return format!("idempotence:{}", HEX_CLOSE); }
    // the mechanisms around comments are the same in sources with and without syntax errors
    if fp.starts_with("next-to-comment:") || fp.starts_with("comment-text:") {
        return match idempotence_family(&fp) {
            Some(f) => format!("idempotence:{}", f),
            // none of the recorded places around comments, but right at the text of a syntax error
            None if fp.ends_with(":next-to-syntax-error") => "idempotence:invalid-source:next-to-the-text-of-a-syntax-error".to_string(),
            None => format!("idempotence:{}", fp) };
    }
    if fp.starts_with("other:") {
        let spans: Vec<std::ops::Range<usize>> = sig_spans(src).into_iter().filter(|(k, _)| *k == SyntaxKind::COMMENT).map(|(_, r)| r).collect();
        if !spans.is_empty() {
            let mut cand = vec![]; let mut at = 0;
            for c in &spans { cand.extend_from_slice(&src[at..c.start]); cand.push(b' '); at = c.end; }
            cand.extend_from_slice(&src[at..]);
            if has_syntax_errors(&cand) == (valid == "invalid-source") && !fails(&cand, o, "idempotence") {
                return format!("idempotence:{}:caused-by-a-comment-elsewhere:{}", valid, &fp["other:".len()..]);
            }
        }
    }
    format!("idempotence:{}:{}", valid, fp)
}

// ------------------------------------------------------------------ Coq printers
fn coq_tok(t: &VTok, _it: &mut Interner) -> String {
    let b = |s: &Vec<u8>| format!("[{}]", s.iter().map(|x| x.to_string()).collect::<Vec<_>>().join(";"));
    let lines = |l: &Vec<Vec<u8>>| format!("[{}]", l.iter().map(|x| b(x)).collect::<Vec<_>>().join(";"));
    match t {
        VTok::None => "TNone".into(),
        VTok::Begin(k) => format!("TBegin {}", *k as u16),
        VTok::End(k) => format!("TEnd {}", *k as u16),
        VTok::Indentation(n) => format!("TIndentation ({})%Z", n),
        VTok::BlockBegin => "TBlockBegin".into(),
        VTok::BlockEnd => "TBlockEnd".into(),
        VTok::AlignmentBlockBegin => "TAlignmentBlockBegin".into(),
        VTok::AlignmentBlockEnd => "TAlignmentBlockEnd".into(),
        VTok::AlignmentMarker => "TAlignmentMarker".into(),
        VTok::Whitespace => "TWhitespace".into(),
        VTok::Tab => "TTab".into(),
        VTok::Comment(s) => format!("TComment {}", b(s)),
        VTok::BlockComment(l) => format!("TBlockComment {}", lines(l)),
        VTok::HeadComment(l) => format!("THeadComment {}", lines(l)),
        VTok::TailComment(l) => format!("TTailComment {}", lines(l)),
        VTok::InlineComment(l) => format!("TInlineComment {}", lines(l)),
        VTok::Newline => "TNewline".into(),
        VTok::Identifier(s) => format!("TIdentifier {}", b(s)),
        VTok::Keyword(s) => format!("TKeyword {}", b(s)),
        VTok::Punctuation(s) => format!("TPunctuation {}", b(s)),
        VTok::Literal(s) => format!("TLiteral {}", b(s)),
        VTok::LGrouping(s) => format!("TLGrouping {}", b(s)),
        VTok::RGrouping(s) => format!("TRGrouping {}", b(s)),
    }
}
fn coq_toks(ts: &[VTok], it: &mut Interner) -> String {
    let mut s = String::from("[");
    for (i, t) in ts.iter().enumerate() { if i > 0 { s.push_str("; "); } s.push_str(&coq_tok(t, it)); }
    s.push(']'); s
}
fn coq_idx(n: i8) -> &'static str { match n { 1 => "P1", 2 => "P2", 3 => "P3", -1 => "M1", -2 => "M2", _ => "M3" } }
fn coq_cond(c: &VCond, it: &mut Interner) -> String {
    match c {
        VCond::True => "CTrue".into(),
        VCond::Is(n, m) => format!("(CIs {} {})", coq_idx(*n), m),
        VCond::IsNot(n, m) => format!("(CIsNot {} {})", coq_idx(*n), m),
        VCond::Eq(n, t) => format!("(CEq {} ({}))", coq_idx(*n), coq_tok(t, it)),
        VCond::Neq(n, t) => format!("(CNeq {} ({}))", coq_idx(*n), coq_tok(t, it)),
        VCond::InRule(k, d) => format!("(CInRule {} {})", *k as u16, coq_bool(*d)),
        VCond::And(a, b) => format!("(CAnd {} {})", coq_cond(a, it), coq_cond(b, it)),
        VCond::Or(a, b) => format!("(COr {} {})", coq_cond(a, it), coq_cond(b, it)),
        VCond::Not(a) => format!("(CNot {})", coq_cond(a, it)),
    }
}
fn coq_action(a: &VAction, it: &mut Interner) -> String {
    match a {
        VAction::Drop => "ADrop".into(),
        VAction::Copy => "ACopy".into(),
        VAction::Insert(ts) => format!("(AInsert {})", coq_toks(ts, it)),
        VAction::Swap(i, j) => format!("(ASwap Q{} Q{})", i, j),
    }
}
const CTORS: [&str; 23] = ["KNone", "KBegin", "KEnd", "KIndentation", "KBlockBegin", "KBlockEnd", "KAlignmentBlockBegin",
    "KAlignmentBlockEnd", "KAlignmentMarker", "KWhitespace", "KTab", "KComment", "KBlockComment", "KHeadComment",
    "KTailComment", "KInlineComment", "KNewline", "KIdentifier", "KKeyword", "KPunctuation", "KLiteral", "KLGrouping", "KRGrouping"];
fn coq_class(c: &VClass) -> String {
    let mut v: Vec<String> = c.ctors.iter().map(|k| format!("KCtor {}", CTORS[*k as usize])).collect();
    v.extend(c.cats.iter().map(|m| format!("KCat {}", m)));
    format!("[{}]", v.join("; "))
}

fn coq_sig(s: &[(SyntaxKind, Vec<u8>)], it: &mut Interner) -> String {
    let mut x = String::from("[");
    for (i, (k, t)) in s.iter().enumerate() { if i > 0 { x.push_str("; "); } x.push_str(&format!("({}, {})", *k as u16, it.id(t))); }
    x.push(']'); x
}
fn coq_rules(rules: &[(VCond, VAction)], it: &mut Interner) -> String {
    let mut x = String::from("[");
    for (i, (c, a)) in rules.iter().enumerate() { if i > 0 { x.push_str("; "); } x.push_str(&format!("({}, {})", coq_cond(c, it), coq_action(a, it))); }
    x.push(']'); x
}

// ------------------------------------------------------------------ engine cases
const MASKS: [u32; 14] = [1, 0x17E /*CONTROL*/, 0x200, 0x400, 0x800, 0x3F000 /*TEXT*/, 0x2000, 0x4000, 0x1000, 0xA00, 0x80, 0x10000, 0x20000, 0x2 | 0x4];

fn gen_cond(rng: &mut Rng, d: u32, pool: &[VTok], kinds: &[SyntaxKind]) -> VCond {
    let idx = |rng: &mut Rng| *rng.pick(&[1i8, 1, 1, 2, 3, -1, -1, -2, -3]);
    let mask = |rng: &mut Rng| if rng.chance(1, 8) { (rng.next() & 0x3FFFF) as u32 } else { *rng.pick(&MASKS) };
    match rng.below(if d == 0 { 6 } else { 10 }) {
        0 | 1 => VCond::Is(idx(rng), mask(rng)),
        2 => VCond::IsNot(idx(rng), mask(rng)),
        3 => VCond::Eq(idx(rng), rng.pick(pool).clone()),
        4 => VCond::Neq(idx(rng), rng.pick(pool).clone()),
        5 => if kinds.is_empty() || rng.chance(1, 10) { VCond::True } else { { let k = *rng.pick(kinds); VCond::InRule(k, rng.chance(1, 2)) } },
        6 | 7 => VCond::And(Box::new(gen_cond(rng, d - 1, pool, kinds)), Box::new(gen_cond(rng, d - 1, pool, kinds))),
        8 => VCond::Or(Box::new(gen_cond(rng, d - 1, pool, kinds)), Box::new(gen_cond(rng, d - 1, pool, kinds))),
        _ => VCond::Not(Box::new(gen_cond(rng, d - 1, pool, kinds))),
    }
}

fn gen_action(rng: &mut Rng, kinds: &[SyntaxKind]) -> VAction {
    match rng.below(10) {
        0 | 1 | 2 => VAction::Drop,
        3 => VAction::Copy,
        4 => VAction::Insert(vec![VTok::Newline]),
        5 => VAction::Insert(vec![VTok::Whitespace]),
        6 => VAction::Insert(vec![VTok::Newline, VTok::Newline]),
        7 => VAction::Insert(vec![VTok::Indentation(if rng.chance(1, 2) { 1 } else { -1 })]),
        8 => VAction::Insert(vec![rng.pick(&[VTok::AlignmentMarker, VTok::AlignmentBlockBegin, VTok::AlignmentBlockEnd, VTok::Tab, VTok::None]).clone()]),
        _ => if kinds.is_empty() { VAction::Copy } else {
            let k = *rng.pick(kinds);
            VAction::Insert(vec![if rng.chance(1, 2) { VTok::Begin(k) } else { VTok::End(k) }])
        },
    }
}

/// Conditions in the style of the real pipeline, so that rules fire often:
/// `token(1) is X && token(-1) is not Y` etc.
fn gen_rule(rng: &mut Rng, pool: &[VTok], kinds: &[SyntaxKind]) -> (VCond, VAction) {
    let a = gen_action(rng, kinds);
    let c = match (&a, rng.below(6)) {
        (VAction::Insert(ts), 0..=4) => {
            // guarded insertion: does not fire again right after itself
            let guard = VCond::Neq(-1, ts.last().unwrap().clone());
            VCond::And(Box::new(gen_cond(rng, 1, pool, kinds)), Box::new(guard))
        }
        (VAction::Insert(_), _) => gen_cond(rng, 2, pool, kinds), // may loop: output is cut at the limit
        _ => gen_cond(rng, 2, pool, kinds),
    };
    (c, a)
}

/// A valid source whose lines carry tail comments that are continued on the
/// following lines by comments starting in the same column (tabs count `tab`
/// columns), in the meta, strings and condition sections.
fn aligned_comment_source(rng: &mut Rng, tab: usize) -> String {
    let width = |s: &str| -> usize { s.chars().map(|c| if c == '\t' { tab } else { 1 }).sum() };
    let ws = |rng: &mut Rng, col: usize| -> String {
        let max_tabs = if tab == 0 { 2 } else { col / tab };
        let tabs = if max_tabs == 0 { 0 } else { rng.below(max_tabs as u64 + 1) as usize };
        let spaces = col.saturating_sub(tabs * tab);
        if rng.chance(1, 4) { format!("{}{}", " ".repeat(spaces), "\t".repeat(tabs)) } else { format!("{}{}", "\t".repeat(tabs), " ".repeat(spaces)) }
    };
    let mut out = String::new();
    let line = |rng: &mut Rng, out: &mut String, indent: &str, code: &str| {
        out.push_str(indent); out.push_str(code);
        if rng.chance(2, 3) {
            let gap = *rng.pick(&["  ", " ", "\t", "    "]);
            out.push_str(gap);
            let col = width(indent) + width(code) + width(gap);
            if rng.chance(1, 4) {
                // a multi-line block comment after the code, continuation lines indented beyond its start
                let k = 1 + rng.below(4) as usize;
                out.push_str(&format!("/* l1\n{}l2\n{}l3 */\n", " ".repeat(col + k), ws(rng, col + k)));
                return;
            }
            out.push_str(*rng.pick(&["// a", "// first", "/* a */"]));
            for _ in 0..(1 + rng.below(2)) {
                out.push('\n');
                let c = match rng.below(6) { 0 => col + 1, 1 => col.saturating_sub(1), _ => col };
                out.push_str(&ws(rng, c));
                out.push_str(*rng.pick(&["// b", "// continued", "// c"]));
            }
        }
        out.push('\n');
    };
    let ind1 = *rng.pick(&["\t", "  ", "    ", ""]);
    let ind2 = *rng.pick(&["\t\t", "    ", "\t  ", "      "]);
    out.push_str("rule aligned {\n");
    if rng.chance(1, 4) { out.push_str(ind1); out.push_str("meta: /* c */ author = \"ñ\" n = 1\n"); }
    else if rng.chance(1, 2) { line(rng, &mut out, ind1, "meta:"); line(rng, &mut out, ind2, "author = \"ñandú\""); line(rng, &mut out, ind2, "n = 1"); }
    if rng.chance(1, 3) {
        // section header, a block comment and the first definition on one line
        out.push_str(ind1); out.push_str(*rng.pick(&["strings: /* c */ $a = \"abc\" $b = \"ñññ 日本\"\n", "strings:/* c */$a = \"abc\"\n" ]));
        if rng.chance(1, 2) { line(rng, &mut out, ind2, "$b = \"ñññ 日本\""); } else { line(rng, &mut out, ind2, "$b = { 01 02 03 }"); }
    }
    else if rng.chance(1, 2) { line(rng, &mut out, ind1, "strings:"); line(rng, &mut out, ind2, "$a = \"ñññ 日本\""); line(rng, &mut out, ind2, "$b = { 01 02 03 }"); }
    else if rng.chance(2, 3) { line(rng, &mut out, ind1, "strings:"); line(rng, &mut out, ind2, "$a = \"abc\""); line(rng, &mut out, ind2, "$b = { 01 02 03 }"); }
    else { line(rng, &mut out, ind1, "strings:"); line(rng, &mut out, ind2, "$a = \"abc\""); line(rng, &mut out, ind2, "$b = /x+/"); }
    line(rng, &mut out, ind1, "condition:");
    line(rng, &mut out, ind2, "$a and");
    line(rng, &mut out, ind2, "(true or");
    line(rng, &mut out, ind2, " $b)");
    out.push_str("}\n");
    out
}

/// Whitespace tokens (tabs and spaces, in some order) whose width is `col`
/// when a tab counts `tab` columns.
fn ws_of_width(rng: &mut Rng, col: usize, tab: usize) -> Vec<VTok> {
    let mut v = vec![];
    let max_tabs = if tab == 0 { 3 } else { col / tab };
    let tabs = if max_tabs == 0 { 0 } else { rng.below(max_tabs as u64 + 1) as usize };
    let spaces = col.saturating_sub(tabs * tab);
    match rng.below(3) {
        0 => { for _ in 0..tabs { v.push(VTok::Tab); } for _ in 0..spaces { v.push(VTok::Whitespace); } }
        1 => { for _ in 0..spaces { v.push(VTok::Whitespace); } for _ in 0..tabs { v.push(VTok::Tab); } }
        _ => { let k = if spaces == 0 { 0 } else { rng.below(spaces as u64 + 1) as usize };
               for _ in 0..k { v.push(VTok::Whitespace); } for _ in 0..tabs { v.push(VTok::Tab); } for _ in k..spaces { v.push(VTok::Whitespace); } }
    }
    v
}

/// Token streams aimed at the column bookkeeping of the comment stage: lines
/// with tab/space indentation, code, a comment, and follow-up comment lines
/// whose whitespace puts them in the same column as the first one (counting a
/// tab as `tab` columns, or as one column, or somewhere else), with more
/// tabs/spaces after the comments.
fn directed_comment_stream(rng: &mut Rng, tab: usize) -> Vec<VTok> {
    let mut v = vec![VTok::Begin(SyntaxKind::SOURCE_FILE)];
    for _ in 0..(1 + rng.below(4)) {
        let mut col = 0usize;           // as CommentProcessor counts it
        let mut col1 = 0usize;          // counting every tab as one column
        for _ in 0..rng.below(3) { v.push(VTok::Tab); col += tab; col1 += 1; }
        for _ in 0..rng.below(4) { v.push(VTok::Whitespace); col += 1; col1 += 1; }
        if rng.chance(3, 4) {
            let n = 1 + rng.below(6) as usize;
            v.push(VTok::Identifier(vec![b'x'; n])); col += n; col1 += n;
            for _ in 0..(1 + rng.below(3)) { v.push(VTok::Whitespace); col += 1; col1 += 1; }
            if rng.chance(1, 4) { v.push(VTok::Tab); col += tab; col1 += 1; }
        }
        let first: &[u8] = *rng.pick(&[b"// a".as_slice(), b"// first comment", b"/* a */", b"/* a\n\t   b */"]);
        v.push(VTok::Comment(first.to_vec()));
        if rng.chance(1, 3) { v.push(VTok::Whitespace); v.push(VTok::Tab); }
        for _ in 0..(1 + rng.below(3)) {
            v.push(VTok::Newline);
            let target = match rng.below(5) { 0 | 1 => col, 2 => col1, 3 => col + 1, _ => rng.below(12) as usize };
            v.extend(ws_of_width(rng, target, tab));
            v.push(VTok::Comment(rng.pick(&[b"// b".as_slice(), b"// c", b"/* d */"]).to_vec()));
            if rng.chance(1, 4) { v.push(VTok::Tab); }
        }
        if rng.chance(1, 2) { v.push(VTok::Newline); }
        if rng.chance(1, 3) { v.push(VTok::Newline); }
        if rng.chance(1, 2) { v.push(VTok::Keyword(b"rule".to_vec())); v.push(VTok::Newline); }
    }
    v.push(VTok::End(SyntaxKind::SOURCE_FILE));
    v
}

fn small_source(rng: &mut Rng) -> String {
    let mut lex = vec![];
    if rng.chance(1, 3) { lex.extend(v(&["import", "\"pe\""])); }
    lex.extend(v(&["rule", "r"]));
    if rng.chance(1, 3) { lex.extend(v(&[":", "t1", "t2"])); }
    lex.push("{".into());
    if rng.chance(1, 3) { lex.extend(v(&["meta", ":", "a", "=", "1"])); }
    let mut pats = vec![];
    if rng.chance(1, 2) { lex.extend(v(&["strings", ":", "$a", "=", "\"x\""])); pats.push("a".to_string());
        if rng.chance(1, 3) { lex.extend(v(&["$h", "=", "{", "01", "??", "[", "1", "-", "2", "]", "02", "}"])); pats.push("h".to_string()); } }
    lex.extend(v(&["condition", ":"]));
    lex.extend(gen_bool(rng, 1, &pats));
    lex.push("}".into());
    if rng.chance(1, 6) { mutate(rng, &mut lex); }
    let style = rng.below(5);
    render(rng, &lex, style)
}

fn main() { let args: Vec<String> = std::env::args().skip(1).collect(); std::process::exit(run(&args)); }

fn fmt_outcome_coq(o: &Outcome) -> String {
    match o { Outcome::Ok(m) => format!("(FOk {})", coq_bool(*m)), Outcome::Err(_) => "FErr".into(), Outcome::Panic(_) => "FPanic".into(), Outcome::Hang => "FHang".into() }
}

/// corpus of minimised past failures / directed cases (run first)
fn corpus() -> Vec<(String, Opts)> {
    let d = Opts::default_opts();
    vec![
        // DESIGN.md section 7 #15
        ("rule a {\n  strings:\n    $a = \"x\"\n    $b = \"y\"\n  condition: /* c3 */ $a and // c4\n $b\n}\n".to_string(), d),
        ("rule t { condition: true }".to_string(), d),
        // Unicode whitespace: NBSP is whitespace for the tokenizer (Tokens::next reached unreachable!()), U+2028 is not
        ("rule t {\u{a0}condition:\u{2003}true }".to_string(), d),
        ("rule t {\u{2028}condition: true }".to_string(), d),
        ("".to_string(), d),
        ("// only a comment".to_string(), d),
        ("rule t {\r\n\tcondition:\r\n\t\ttrue\r\n}\r\n".to_string(), d),
        ("import \"pe\" import \"math\" rule a { condition: true } rule b { condition: false }".to_string(), d),
        ("rule h { strings: $h = { 01 02 // c\n 03 [2-4] ( 04 | 05 ) } condition: $h }".to_string(), d),
    ]
}

pub fn run(args: &[String]) -> i32 {
    quiet_panics();
    if let Some(p) = arg_val(args, "--probe") { return probe(&p); }
    let seed = arg_u64(args, "--seed", 1);
    let n_fmt = arg_u64(args, "--n", 1200) as usize;
    let n_proc = arg_u64(args, "--n-proc", 400) as usize;
    let opts_per_source = arg_u64(args, "--opts", 2) as usize;
    let behaviour_every = arg_u64(args, "--behaviour-every", 1).max(1) as usize;
    let out = arg_val(args, "--out").expect("--out");
    let prelude = "From Coq Require Import List NArith ZArith Bool.\nFrom YV Require Import Fmt.Tokens Gen.FmtCats Fmt.Processor Fmt.Bubble Fmt.Stages Fmt.FmtCheck.\nImport ListNotations.\nLocal Open Scope N_scope.\n";
    let mut shards = Shards::new(Path::new(&out), prelude, 150);
    let mut rng = Rng::new(seed);
    let mut stats = Stats::default();
    let mut distinct = std::collections::HashSet::new();
    let mut samples: Vec<String> = vec![];
    let ca = covering_array();
    stats.add("covering_array_rows", ca.len() as u64);
    let mut ca_next = 0usize;
    let mut hangs = 0;
    let mut minimised_classes = std::collections::HashSet::new();

    // ---------------- the property on the implementation
    let mut pending: Vec<(String, Opts)> = corpus();
    pending.reverse();
    let mut n_cases = 0usize;
    let mut index = 0usize;
    while n_cases < n_fmt {
        let (src_bytes, opt_list, kind): (Vec<u8>, Vec<Opts>, &str) = if let Some((s, o)) = pending.pop() {
            (s.into_bytes(), vec![o], "corpus")
        } else if rng.chance(1, 14) {
            // tail comments continued by aligned comment lines, tab/space indentation; formatted with
            // the tab size the alignment was made for, mostly with Indentation::Tabs
            let mut o = ca[ca_next % ca.len()]; ca_next += 1;
            o.tab = *rng.pick(&TABS);
            if rng.chance(2, 3) { o.indent = 0; }
            (aligned_comment_source(&mut rng, o.tab as usize).into_bytes(), vec![o], "aligned-comments")
        } else {
            let mut lex = gen_lexemes(&mut rng);
            let style = if rng.chance(1, 12) { 5 } else { rng.below(5) };
            let class = rng.below(10);
            let kind = if class < 7 { "valid" } else if class < 9 { mutate(&mut rng, &mut lex); "token-mutation" } else { "byte-mutation" };
            let mut text = render(&mut rng, &lex, style).into_bytes();
            if kind == "byte-mutation" && !text.is_empty() {
                for _ in 0..(1 + rng.below(3)) {
                    let i = rng.below(text.len() as u64) as usize;
                    match rng.below(4) { 0 => { text.insert(i, 0xFF); } 1 => { text.insert(i, 0xC3); } 2 => { text.truncate(i); if text.is_empty() { break; } } _ => { text[i] = (rng.below(256)) as u8; } }
                }
            }
            let mut ol = vec![];
            for _ in 0..opts_per_source { ol.push(ca[ca_next % ca.len()]); ca_next += 1; }
            if rng.chance(1, 10) { ol.push(Opts::from_code(rng.next())); }
            stats.inc(&format!("style_{}", style));
            (text, ol, kind)
        };
        let utf8 = std::str::from_utf8(&src_bytes).is_ok();
        stats.inc(&format!("source_{}", kind));
        if has_syntax_errors(&src_bytes) {
            stats.inc(&format!("source_{}_with_syntax_errors", kind));
            if kind == "valid" && arg_flag(args, "--dump-invalid") {
                for e in CSTStream::from(Parser::new(src_bytes.as_slice())) { if let Event::Error { message, span } = e {
                    eprintln!("INVALID: {} at {:?}: ...{}", message, span, String::from_utf8_lossy(&src_bytes[span.start().saturating_sub(30)..(span.end() + 10).min(src_bytes.len())]).replace('\n', " ")); break; } }
            }
        }
        if src_bytes.windows(2).any(|w| w == b"/*") || src_bytes.windows(2).any(|w| w == b"//") { stats.inc("source_has_comment"); }
        if src_bytes.contains(&b'\t') { stats.inc("source_has_tab"); }
        if src_bytes.windows(2).any(|w| w == b"\r\n") { stats.inc("source_has_crlf"); }
        if !src_bytes.is_ascii() { stats.inc("source_non_ascii"); }
        distinct.insert(src_bytes.clone());
        for o in opt_list {
            index += 1;
            let ob = observe_with(&src_bytes, &o, index % behaviour_every == 0);
            let mut it = Interner::new();
            let failing = failing_clauses(&src_bytes, &ob);
            if ob.in_compiles { stats.inc("behaviour_compared_on_compiling_source"); }
            match &ob.out1 { Outcome::Ok(m) => { stats.inc("fmt_ok"); if *m { stats.inc("fmt_modified"); } else { stats.inc("fmt_unmodified"); } }
                             Outcome::Err(_) => stats.inc("fmt_err"), Outcome::Panic(_) => stats.inc("fmt_panic"), Outcome::Hang => { stats.inc("fmt_hang"); hangs += 1; } }
            if hangs > 3 { eprintln!("c15: too many hangs, stopping"); break; }
            let mut class = String::new();
            let mut minimal: Option<Vec<u8>> = None;
            if !failing.is_empty() {
                for f in &failing { stats.inc(&format!("impl_fails_{}", f)); }
                let clause = failing[0];
                class = classify(&src_bytes, &o, clause);
                let first = minimised_classes.insert(class.clone());
                let m = if first && src_bytes.len() < 4000 { minimise(&src_bytes, &o, clause, &class) } else { src_bytes.clone() };
                // the class is that of the FIRST failing clause; further failing clauses are listed
                minimal = Some(m);
            }
            let in_id = it.id(&[b"T:".as_slice(), &src_bytes].concat());
            let in_sig = coq_sig(&ob.in_sig, &mut it);
            let out1_id = it.id(&[b"T:".as_slice(), &ob.out1_text].concat());
            let out1_sig = coq_sig(&ob.out1_sig, &mut it);
            let out2_id = it.id(&[b"T:".as_slice(), &ob.out2_text].concat());
            let case = format!("CFmt (mkFmt {} {} {} {} {} {} {} {} {})", in_id, coq_bool(utf8), in_sig, fmt_outcome_coq(&ob.out1), out1_id, out1_sig, fmt_outcome_coq(&ob.out2), out2_id, coq_bool(ob.same_behaviour));
            let mut replay = format!("{{\"index\":{},\"kind\":\"fmt\",\"source_hex\":\"{}\",\"source\":{},\"options\":{},\"outcome\":{},\"failing_clauses\":{},\"class\":{}",
                index, hex(&src_bytes), json_str(&String::from_utf8_lossy(&src_bytes)), o.json(), json_str(&format!("{:?}", ob.out1)),
                format!("[{}]", failing.iter().map(|f| json_str(f)).collect::<Vec<_>>().join(",")), json_str(&class));
            if let Some(m) = &minimal {
                let mo = observe(m, &o);
                replay.push_str(&format!(",\"minimised_source\":{},\"minimised_pass1\":{},\"minimised_pass2\":{}",
                    json_str(&String::from_utf8_lossy(m)), json_str(&String::from_utf8_lossy(&mo.out1_text)), json_str(&String::from_utf8_lossy(&mo.out2_text))));
            }
            replay.push('}');
            if samples.len() < 2 && kind == "valid" && src_bytes.len() < 600 { samples.push(replay.clone()); }
            shards.push(case, replay);
            n_cases += 1;
        }
        if hangs > 3 { break; }
    }

    // ---------------- engine correspondence (hook)
    let mut n_k = 0usize;
    while n_k < n_proc {
        let src = small_source(&mut rng);
        let toks = match catch(AssertUnwindSafe(|| hook::tokens_of(src.as_bytes()))) { Ok(t) => t, Err(_) => continue };
        // stream variants: as produced from the CST, or after the real whitespace-dropping stage
        let mut stream = toks.clone();
        if rng.chance(1, 2) {
            let rules = vec![(VCond::Is(1, 0x200), VAction::Drop)];
            if let Ok((o, _)) = catch(AssertUnwindSafe(|| hook::run_processor(1, &rules, &toks, 100000))) { stream = o; }
        }
        if stream.len() > 160 { stream.truncate(160); }       // an unbalanced suffix is a feature
        if rng.chance(1, 12) && !stream.is_empty() { let i = rng.below(stream.len() as u64) as usize; stream.remove(i); }
        let mut kinds: Vec<SyntaxKind> = stream.iter().filter_map(|t| if let VTok::Begin(k) = t { Some(*k) } else { None }).collect();
        kinds.sort(); kinds.dedup();
        let mut pool: Vec<VTok> = stream.iter().filter(|_| rng.chance(1, 4)).cloned().collect();
        pool.extend([VTok::Newline, VTok::Whitespace, VTok::Punctuation(b"{".to_vec()), VTok::Punctuation(b":".to_vec()), VTok::None, VTok::Indentation(-1), VTok::AlignmentMarker]);
        let mut it = Interner::new();
        match rng.below(10) {
            0 => { // categories
                let l: Vec<String> = stream.iter().map(|t| format!("({}, {})", coq_tok(t, &mut it), t.category_bits())).collect();
                shards.push(format!("CCats [{}]", l.join("; ")), format!("{{\"kind\":\"categories\",\"source\":{}}}", json_str(&src)));
                stats.inc("k_categories");
            }
            1 | 2 => { // bubble
                let mk = |rng: &mut Rng| { let mut c = VClass::default();
                    for _ in 0..(1 + rng.below(2)) { if rng.chance(1, 2) { c.ctors.push(*rng.pick(&[1u8, 2, 16, 14, 9, 3, 12, 18, 19])); } else { c.cats.push(*rng.pick(&MASKS)); } } c };
                let (air, water) = (mk(&mut rng), mk(&mut rng));
                let res = catch(AssertUnwindSafe(|| hook::run_bubble(&air, &water, &stream))).ok();
                if res.is_none() { stats.inc("k_bubble_panic"); }
                let case = format!("CBubble {} {} {} {}", coq_class(&air), coq_class(&water), coq_toks(&stream, &mut it), match &res { None => "None".to_string(), Some(r) => format!("(Some {})", coq_toks(r, &mut it)) });
                shards.push(case, format!("{{\"kind\":\"bubble\",\"source\":{},\"air\":{},\"water\":{}}}", json_str(&src), json_str(&format!("{:?}", air)), json_str(&format!("{:?}", water))));
                stats.inc("k_bubble");
            }
            _ => {
                let pt = *rng.pick(&[1u32, 1, 0x17E, 0x17E, 0x400, 0xA00, 0x800, 0x17E | 0x400]);
                let nrules = 1 + rng.below(4) as usize;
                let rules: Vec<(VCond, VAction)> = (0..nrules).map(|_| gen_rule(&mut rng, &pool, &kinds)).collect();
                let limit = 2 * stream.len() + 20;
                let res = catch(AssertUnwindSafe(|| hook::run_processor(pt, &rules, &stream, limit))).ok();
                match &res { None => stats.inc("k_proc_panic"), Some((_, true)) => stats.inc("k_proc_truncated"),
                              Some((o, false)) => { if *o == stream { stats.inc("k_proc_identity") } else { stats.inc("k_proc_changed") } } }
                let coq_rules = coq_rules(&rules, &mut it);
                let case = format!("CProc {} {} {} {}%nat {}", pt, coq_rules, coq_toks(&stream, &mut it), limit,
                    match &res { None => "None".to_string(), Some((o, t)) => format!("(Some ({}, {}))", coq_toks(o, &mut it), coq_bool(*t)) });
                shards.push(case, format!("{{\"kind\":\"processor\",\"source\":{},\"passthrough\":{},\"rules\":{}}}", json_str(&src), pt, json_str(&format!("{:?}", rules))));
                stats.inc("k_processor");
            }
        }
        n_k += 1;
    }
    // ---------------- the real `yr fmt` on temporary files against the model of cli/src/commands/fmt.rs
    if let Some(yr) = arg_val(args, "--yr") {
        let n_yr = arg_u64(args, "--n-yr", 30) as usize;
        let dir = Path::new(&out).join("yr_fmt_tmp");
        for inv in 0..n_yr {
            let _ = std::fs::remove_dir_all(&dir); std::fs::create_dir_all(&dir).unwrap();
            let mut o = ca[(inv * 7 + 3) % ca.len()];
            if o.indent == 1 { o.indent = 3; }            // Spaces(0) cannot be written in the configuration file
            let check = rng.chance(1, 4);
            let nfiles = 1 + rng.below(3) as usize;
            let mut files: Vec<(std::path::PathBuf, Vec<u8>)> = vec![];
            for k in 0..nfiles {
                let mut lex = gen_lexemes(&mut rng);
                if rng.chance(1, 10) { mutate(&mut rng, &mut lex); }
                let mut text = match rng.below(6) {
                    // already formatted: must not be rewritten
                    0 => { let t = render(&mut rng, &lex, 0).into_bytes(); let (oc, f) = run_format(&t, &o); if let Outcome::Ok(_) = oc { let (oc2, f2) = run_format(&f, &o); if let Outcome::Ok(_) = oc2 { f2 } else { f } } else { t } }
                    // output much shorter than the input: deep indentation, trailing spaces, blank lines
                    1 | 2 => { let t = render(&mut rng, &lex, 1); t.replace('\n', "   \n\n\n            ").into_bytes() }
                    // output longer than the input
                    3 => render(&mut rng, &lex, 3).into_bytes(),
                    4 => aligned_comment_source(&mut rng, o.tab as usize).into_bytes(),
                    _ => { let st = rng.below(5); render(&mut rng, &lex, st).into_bytes() }
                };
                if rng.chance(1, 25) && !text.is_empty() { let i = rng.below(text.len() as u64) as usize; text.insert(i, 0xFF); }
                let p = dir.join(format!("f{}.{}", k, if rng.chance(1, 3) { "yara" } else { "yar" }));
                std::fs::write(&p, &text).unwrap();
                let _ = std::fs::File::options().write(true).open(&p).and_then(|f| f.set_modified(std::time::UNIX_EPOCH + Duration::from_secs(1_000_000_000)));
                files.push((p, text));
            }
            let cfg = dir.join("cfg.toml");
            std::fs::write(&cfg, format!("[fmt.rule]\nindent_section_headers = {}\nindent_section_contents = {}\nindent_spaces = {}\nnewline_before_curly_brace = {}\nempty_line_before_section_header = {}\nempty_line_after_section_header = {}\n[fmt.meta]\nalign_values = {}\n[fmt.patterns]\nalign_values = {}\n",
                o.b[2], o.b[3], if o.indent == 0 { 0 } else { o.indent - 1 }, o.b[4], o.b[5], o.b[6], o.b[0], o.b[1])).unwrap();
            let mut cmd = std::process::Command::new(&yr);
            cmd.arg("--config").arg(&cfg).arg("fmt").arg("-t").arg(o.tab.to_string());
            if check { cmd.arg("--check"); }
            for (p, _) in &files { cmd.arg(p); }
            let status = match cmd.env("RUST_BACKTRACE", "0").stdout(std::process::Stdio::null()).stderr(std::process::Stdio::null()).status() { Ok(s) => s, Err(e) => { eprintln!("c15: cannot run {yr}: {e}"); break; } };
            let exit = status.code().unwrap_or(255) as u64;
            let mut coq_files = vec![]; let mut rj = vec![];
            let (mut shorter, mut longer, mut same) = (0, 0, 0);
            for (p, text) in &files {
                let (oc, lib_out) = run_format(text, &o);
                let after = std::fs::read(p).unwrap_or_default();
                let rewritten = std::fs::metadata(p).and_then(|m| m.modified()).map(|t| t != std::time::UNIX_EPOCH + Duration::from_secs(1_000_000_000)).unwrap_or(true);
                if let Outcome::Ok(m) = &oc { if !*m { same += 1 } else if lib_out.len() < text.len() { shorter += 1 } else { longer += 1 } }
                coq_files.push(format!("mkYrFile {} {} {} {} {}", coq_bytes(text), fmt_outcome_coq(&oc), coq_bytes(&lib_out), coq_bytes(&after), coq_bool(rewritten)));
                rj.push(format!("{{\"input\":{},\"library\":{},\"library_output\":{},\"file_after\":{},\"rewritten\":{}}}", json_str(&String::from_utf8_lossy(text)), json_str(&format!("{:?}", oc)),
                    json_str(&String::from_utf8_lossy(&lib_out)), json_str(&String::from_utf8_lossy(&after)), rewritten));
            }
            stats.inc("k_yr_fmt_invocations"); if check { stats.inc("k_yr_fmt_check_mode"); }
            stats.add("k_yr_fmt_files_output_shorter", shorter); stats.add("k_yr_fmt_files_output_longer_or_equal_length", longer); stats.add("k_yr_fmt_files_unmodified", same);
            if exit != 0 { stats.inc("k_yr_fmt_exit_nonzero"); }
            shards.push(format!("CYr {} [{}] {}", coq_bool(check), coq_files.join("; "), exit),
                format!("{{\"kind\":\"yr-fmt\",\"class\":\"yr-fmt:file-after-differs-from-formatter-output\",\"check_mode\":{},\"options\":{},\"exit\":{},\"files\":[{}]}}", check, o.json(), exit, rj.join(",")));
        }
        let _ = std::fs::remove_dir_all(&dir);
    }

    // ---------------- the five hand-written stages (hook) against Fmt/Stages.v
    let n_stage = arg_u64(args, "--n-stage", (n_proc as u64) / 2) as usize;
    let mut n_s = 0usize;
    while n_s < n_stage {
        let src = if rng.chance(1, 2) { small_source(&mut rng) } else {
            let mut lex = gen_lexemes(&mut rng); if rng.chance(1, 8) { mutate(&mut rng, &mut lex); }
            let style = *rng.pick(&[1u64, 2, 2, 2, 4, 0]); render(&mut rng, &lex, style) };
        let mut toks = match catch(AssertUnwindSafe(|| hook::tokens_of(src.as_bytes()))) { Ok(t) => t, Err(_) => continue };
        if toks.len() > 400 { toks.truncate(400); }
        let mut it = Interner::new();
        let which = rng.below(6);
        let tab = *rng.pick(&[4usize, 1, 2, 8, 0]);
        if which == 5 {
            // TokenStream::write_to: streams with typed (multi-line) comments after spaces, tabs, ASCII and non-ASCII text
            let mut v = catch(AssertUnwindSafe(|| hook::run_stage(&hook::VStage::Comments { tab_size: 4 }, &toks))).unwrap_or_else(|_| toks.clone());
            let mut out = vec![];
            for t in v.drain(..) {
                let multi = matches!(&t, VTok::BlockComment(l) | VTok::HeadComment(l) | VTok::TailComment(l) | VTok::InlineComment(l) if l.len() > 1);
                if multi || rng.chance(1, 25) {
                    match rng.below(4) { 0 => out.push(VTok::Literal("\"ñññ 日本\"".as_bytes().to_vec())), 1 => { out.push(VTok::Tab); out.push(VTok::Identifier(b"x".to_vec())); }
                        2 => out.push(VTok::InlineComment(vec![b"/* c */".to_vec()])), _ => {} }
                    if rng.chance(1, 2) { out.push(VTok::Whitespace); out.push(VTok::Whitespace); }
                }
                if rng.chance(1, 40) { out.push(VTok::TailComment(vec![b"// a".to_vec(), "// ñ b".as_bytes().to_vec(), b"// c".to_vec()])); }
                out.push(t);
            }
            if out.len() > 300 { out.truncate(300); }
            let res = catch(AssertUnwindSafe(|| hook::write_tokens(&out))).ok();
            stats.inc("k_write_to");
            let case = format!("CWrite {} {}", coq_toks(&out, &mut it), match &res { None => "None".to_string(), Some(r) => format!("(Some {})", coq_bytes(r)) });
            shards.push(case, format!("{{\"kind\":\"write_to\",\"source\":{}}}", json_str(&src)));
            n_s += 1;
            continue;
        }
        // streams for the later stages: comments typed and original spaces dropped by the real stages
        let prepared = |toks: &Vec<VTok>| -> Vec<VTok> {
            let c = catch(AssertUnwindSafe(|| hook::run_stage(&hook::VStage::Comments { tab_size: 4 }, toks))).unwrap_or_else(|_| toks.clone());
            let rules = vec![(VCond::Is(1, 0x200), VAction::Drop)];
            catch(AssertUnwindSafe(|| hook::run_processor(1, &rules, &c, 100000))).map(|x| x.0).unwrap_or(c)
        };
        let sprinkle = |rng: &mut Rng, v: &mut Vec<VTok>, what: &[VTok], every: u64| {
            let mut i = 0; while i < v.len() { if rng.chance(1, every) { v.insert(i, rng.pick(what).clone()); i += 1; } i += 1; } };
        let (stage, stage_coq, input): (hook::VStage, String, Vec<VTok>) = match which {
            0 => (hook::VStage::Comments { tab_size: tab }, format!("HComments {}%nat", tab), {
                if rng.chance(1, 2) { directed_comment_stream(&mut rng, tab) } else {
                let mut v = toks.clone(); if rng.chance(1, 6) { sprinkle(&mut rng, &mut v, &[VTok::Tab, VTok::Whitespace, VTok::Newline, VTok::Indentation(1)], 9); } v } }),
            1 => (hook::VStage::HexPatterns, "HHex".into(), {
                let mut v = if rng.chance(1, 3) { toks.clone() } else { prepared(&toks) };
                if rng.chance(1, 2) { sprinkle(&mut rng, &mut v, &[VTok::Newline, VTok::Newline, VTok::Begin(SyntaxKind::HEX_PATTERN), VTok::End(SyntaxKind::HEX_PATTERN), VTok::Punctuation(b"{".to_vec()), VTok::Punctuation(b"}".to_vec())], 12); } v }),
            2 => (hook::VStage::Align, "HAlign".into(), {
                let mut v = prepared(&toks);
                let every = 4 + rng.below(10);
                // mostly well-formed blocks: Begin ... Marker ... End, sometimes unbalanced / nested
                let mut out = vec![]; let mut open = false;
                for t in v.drain(..) {
                    if rng.chance(1, every) { if open { out.push(VTok::AlignmentBlockEnd); open = false; } else { out.push(VTok::AlignmentBlockBegin); open = true; } }
                    if open && rng.chance(1, 5) { out.push(VTok::AlignmentMarker); }
                    if rng.chance(1, 60) { out.push(rng.pick(&[VTok::AlignmentBlockBegin, VTok::AlignmentBlockEnd, VTok::AlignmentMarker]).clone()); }
                    if rng.chance(1, 9) { out.push(VTok::Whitespace); }
                    out.push(t);
                }
                if open && rng.chance(3, 4) { out.push(VTok::AlignmentBlockEnd); }
                out }),
            3 => { let sp = *rng.pick(&[Some(2usize), Some(4), Some(0), Some(1), None]);
                (hook::VStage::AddIndentation { spaces: sp }, format!("HIndent {}", match sp { Some(n) => format!("(Some {}%nat)", n), None => "None".into() }), {
                let mut v = prepared(&toks); sprinkle(&mut rng, &mut v, &[VTok::Indentation(1), VTok::Indentation(1), VTok::Indentation(-1), VTok::Indentation(-2), VTok::Indentation(3), VTok::Newline], 6); v }) }
            _ => (hook::VStage::TrailingSpaces, "HTrailing".into(), {
                let mut v = if rng.chance(1, 2) { toks.clone() } else { prepared(&toks) };
                sprinkle(&mut rng, &mut v, &[VTok::Whitespace, VTok::Tab, VTok::Whitespace, VTok::Indentation(1), VTok::AlignmentMarker, VTok::Newline], 5); v }),
        };
        let mut input = input; if input.len() > 300 { input.truncate(300); }
        let res = catch(AssertUnwindSafe(|| hook::run_stage(&stage, &input))).ok();
        stats.inc(&format!("k_stage_{}", match which { 0 => "comments", 1 => "hex_patterns", 2 => "align", 3 => "add_indentation", _ => "trailing_spaces" }));
        match &res { None => stats.inc("k_stage_panic"), Some(o) => if *o != input { stats.inc("k_stage_changed") } else { stats.inc("k_stage_identity") } }
        let case = format!("CStage ({}) {} {}", stage_coq, coq_toks(&input, &mut it), match &res { None => "None".to_string(), Some(r) => format!("(Some {})", coq_toks(r, &mut it)) });
        shards.push(case, format!("{{\"kind\":\"stage\",\"stage\":{},\"source\":{}}}", json_str(&stage_coq), json_str(&src)));
        n_s += 1;
    }
    shards.flush();
    println!("{{\"evaluations\":{},\"distinct_nontrivial\":{},\"shards\":{},\"distribution\":{},\"samples\":[{}]}}",
        shards.total, distinct.len(), shards.shard_count, stats.json(), samples.join(","));
    0
}

/// `--probe <file.json>`: re-run one replay case (source_hex + options) and print what happens.
fn probe(path: &str) -> i32 {
    let d: serde_json::Value = serde_json::from_str(&std::fs::read_to_string(path).unwrap()).unwrap();
    let c = if d.get("case").is_some() { &d["case"] } else { &d };
    let src = unhex(c["source_hex"].as_str().unwrap_or(""));
    let oj = &c["options"];
    let mut o = Opts::default_opts();
    let names = ["align_metadata", "align_patterns", "indent_section_headers", "indent_section_contents", "newline_before_curly_brace", "empty_line_before_section_header", "empty_line_after_section_header"];
    for (i, n) in names.iter().enumerate() { if let Some(b) = oj[*n].as_bool() { o.b[i] = b; } }
    if let Some(s) = oj["indentation"].as_str() { o.indent = if s == "tabs" { 0 } else { s.trim_start_matches("spaces(").trim_end_matches(')').parse::<u8>().unwrap_or(2) + 1 }; }
    if let Some(t) = oj["input_tab_size"].as_u64() { o.tab = t as u8; }
    let ob = observe(&src, &o);
    let f = failing_clauses(&src, &ob);
    println!("options: {}", o.json());
    println!("--- input\n{}", String::from_utf8_lossy(&src));
    println!("--- pass 1 ({:?})\n{}", ob.out1, String::from_utf8_lossy(&ob.out1_text));
    println!("--- pass 2 ({:?})\n{}", ob.out2, String::from_utf8_lossy(&ob.out2_text));
    println!("failing clauses: {:?}", f);
    if f.contains(&"tokens") {
        println!("significant tokens of the input:  {:?}", ob.in_sig.iter().map(|(k, t)| format!("{:?}:{:?}", k, String::from_utf8_lossy(t))).collect::<Vec<_>>());
        println!("significant tokens of the output: {:?}", ob.out1_sig.iter().map(|(k, t)| format!("{:?}:{:?}", k, String::from_utf8_lossy(t))).collect::<Vec<_>>());
    }
    for c in &f { println!("class: {}", classify(&src, &o, c)); }
    if let (Some(b), Some(c)) = (std::env::var("C15_MINIMISE").ok(), f.first()) {
        let class = classify(&src, &o, c);
        let clause: &'static str = match *c { "idempotence" => "idempotence", "tokens" => "tokens", "behaviour" => "behaviour", "panic" => "panic", "hang" => "hang", "modified-flag" => "modified-flag", _ => "unexpected-error" };
        let m = minimise_with(&src, &o, clause, &class, b.parse().unwrap_or(5000));
        let mo = observe(&m, &o);
        println!("--- minimised ({} bytes)\n{:?}\n--- pass 1\n{:?}\n--- pass 2\n{:?}", m.len(), String::from_utf8_lossy(&m), String::from_utf8_lossy(&mo.out1_text), String::from_utf8_lossy(&mo.out2_text));
    }
    if f.is_empty() { 0 } else { 1 }
}
