//! C16: timeouts fire, are contained, and leave the scanner reusable.
//! With the poll-countdown hook the deadline of a scanner is made to pass
//! exactly at the k-th interruption site of a scan, for every k (sampled when
//! a scan has many sites); contiguous and block mode; plus a few runs against
//! the real one-second heartbeat in the thorough tier.
#[path = "../scanx.rs"]
mod scanx;
#[path = "../c04lib.rs"]
mod c04lib;
use c04lib::*;
use scanx::*;
use std::panic::AssertUnwindSafe;
use std::path::Path;
use std::time::{Duration, Instant};
use verif_harness::util::*;

const TIMEOUT_SECS: u64 = 1000;

fn on_thread<T: Send>(f: impl FnOnce() -> T + Send) -> T {
    std::thread::scope(|sc| sc.spawn(f).join().unwrap())
}

/// one scan of `buf` (block mode: scan(0, buf) then finish()); a failed block scan is still finished
fn scan_once<'r>(s: &mut AnyScanner<'r>, buf: &[u8]) -> Outcome {
    match catch(AssertUnwindSafe(|| match s {
        AnyScanner::Contig(sc) => match sc.scan(buf) { Ok(r) => dump_results(&r), Err(e) => err_outcome(&e) },
        AnyScanner::Blocks(sc) => {
            let first = sc.scan(0, buf).map(|_| ()).map_err(|e| err_outcome(&e));
            let fin = match sc.finish() { Ok(r) => dump_results(&r), Err(e) => err_outcome(&e) };
            match (first, fin) {
                // the block scan reported a timeout but finish() returned results: a partial result
                (Err(_), Outcome::Done { rules, module_outputs }) => Outcome::Done { rules, module_outputs },
                (_, o) => o,
            }
        }
        AnyScanner::Gone => Outcome::Panic("gone".into()),
    })) { Ok(o) => o, Err(e) => Outcome::Panic(e) }
}

fn new_scanner<'r>(rules: &'r yara_x::Rules, blocks: bool, timeout: Option<u64>) -> AnyScanner<'r> {
    if blocks {
        let mut s = yara_x::blocks::Scanner::new(rules);
        if let Some(t) = timeout { s.set_timeout(Duration::from_secs(t)); }
        AnyScanner::Blocks(s)
    } else {
        let mut s = yara_x::Scanner::new(rules);
        if let Some(t) = timeout { s.set_timeout(Duration::from_secs(t)); }
        AnyScanner::Contig(s)
    }
}

fn digest_outcome(o: &Outcome) -> u64 {
    let j = format!("{:?}", o); // every field of the dump, match data digests included
    fnv(j.as_bytes()) | ((j.len() as u64 & 0xffff) << 32)
}

fn coq_sites(s: &[u8]) -> String {
    coq_list(s, |c| match c { b's' => "SPoll".to_string(), b'p' => "SHostSearch".to_string(), _ => "SHost".to_string() })
}

/// how the next scan differs from a fresh scanner's: only in Match::data()/context bytes, or in verdicts/ranges
fn diff_kind(a: &Outcome, b: &Outcome) -> &'static str {
    let strip = |o: &Outcome| match o {
        Outcome::Done { rules, module_outputs } => Outcome::Done {
            rules: rules.iter().map(|r| RuleDump { name: r.name.clone(), matched: r.matched,
                pats: r.pats.iter().map(|(n, ms)| (n.clone(), ms.iter().map(|m| (m.0, m.1, m.2, 0, 0, 0)).collect())).collect() }).collect(),
            module_outputs: module_outputs.clone() },
        o => o.clone(),
    };
    if a == b { "same" } else if strip(a) == strip(b) { "match-data-only" } else { "verdicts-or-ranges" }
}

const SLOW: &str = r#"
rule slow_loop { condition: g_slow and for all i in (0..100000000000) : (i >= 0) }
rule fast { strings: $a = "abc" condition: $a }
"#;

pub fn run(args: &[String]) -> i32 {
    let seed = arg_u64(args, "--seed", 1);
    let max_k = arg_u64(args, "--max-k", 24) as usize; // sites sampled per scan
    let real = arg_u64(args, "--real", 0) as usize;    // runs against the real heartbeat
    let out = arg_val(args, "--out").expect("--out");
    let sets = rule_sets();
    let bufs = buffers();
    quiet_panics();
    let prelude = "From Coq Require Import List NArith ZArith Bool.\nFrom YV Require Import Scanner.StateCheck Scanner.TimeoutCheck.\nImport ListNotations.\n";
    let mut shards = Shards::new(Path::new(&out), prelude, 60);
    let mut rng = Rng::new(seed);
    let mut stats = Stats::default();
    let mut samples: Vec<String> = vec![];
    let mut distinct = 0usize;
    let t_enc = TIMEOUT_SECS + 1;

    for (rs, set) in sets.iter().enumerate() {
        for (bi, buf) in bufs.iter().enumerate() {
            for blocks in [false, true] {
                let rules = &set.rules;
                // dry run: sites and the uninterrupted result
                let (base, sites) = on_thread(|| {
                    let mut s = new_scanner(rules, blocks, Some(TIMEOUT_SECS));
                    yara_x::Scanner::verif_record_sites(true);
                    let o = scan_once(&mut s, buf);
                    let t = yara_x::Scanner::verif_take_sites();
                    yara_x::Scanner::verif_record_sites(false);
                    (o, t)
                });
                let nb = &bufs[(bi + 1) % bufs.len()];
                let next_fresh = on_thread(|| { let mut s = new_scanner(rules, blocks, Some(TIMEOUT_SECS)); scan_once(&mut s, nb) });
                let other_base = on_thread(|| { let mut s = new_scanner(rules, false, None); scan_once(&mut s, buf) });
                let p = sites.len();
                stats.inc("scans"); stats.add("sites_total", p as u64);
                stats.add("sites_search_poll", sites.iter().filter(|c| **c == b's').count() as u64);
                // every k when the scan has few sites, otherwise first/last ones + a random sample
                let mut ks: Vec<usize> = (1..=p + 1).collect();
                if ks.len() > max_k {
                    let mut pick: Vec<usize> = vec![1, 2, 3, p.saturating_sub(1).max(1), p.max(1), p + 1];
                    while pick.len() < max_k { pick.push(1 + rng.below(p as u64 + 1) as usize); }
                    pick.sort(); pick.dedup(); ks = pick;
                }
                for k in ks {
                    let (timed, fired, next_used, other) = on_thread(|| {
                        let mut s = new_scanner(rules, blocks, Some(TIMEOUT_SECS));
                        yara_x::Scanner::verif_timeout_at_poll(Some(k as u64));
                        let o = scan_once(&mut s, buf);
                        let fired = yara_x::Scanner::verif_timeout_fired();
                        yara_x::Scanner::verif_timeout_at_poll(None);
                        // the same scanner scans again
                        let next = scan_once(&mut s, nb);
                        // a scanner without timeout on the same thread, after the shared clock was advanced
                        // (run last: a contiguous scan fills the per-thread module caches, which is C04's subject)
                        let mut o2s = new_scanner(rules, false, None);
                        let other = scan_once(&mut o2s, buf);
                        (o, fired, next, other)
                    });
                    distinct += 1;
                    stats.inc(&format!("outcome_{}", timed.tag()));
                    stats.inc(if blocks { "mode_block" } else { "mode_contiguous" });
                    if fired { stats.inc("deadline_made_to_pass"); }
                    let site_kind = if k <= p { match sites[k - 1] { b's' => "search_poll", b'p' => "host_search_entry", _ => "host_call" } } else { "after_last_site" };
                    stats.inc(&format!("expiry_at_{}", site_kind));
                    let case = format!("mkCase {} {} {} ({}) ({}) {} {} {} {} true", coq_sites(&sites), coq_n(k as u64), coq_n(t_enc),
                        timed.coq(), base.coq(), coq_n(digest_outcome(&next_used)), coq_n(digest_outcome(&next_fresh)),
                        coq_n(digest_outcome(&other)), coq_n(digest_outcome(&other_base)));
                    let replay = format!("{{\"ruleset\":{},\"rules_source\":{},\"buffer_hex\":\"{}\",\"buffer_len\":{},\"block_mode\":{},\"sites\":{},\"k\":{},\"site_kind\":\"{}\",\"timeout_secs\":{},\"timed\":{},\"base\":{},\"next_buffer\":{},\"next_used\":{},\"next_fresh\":{},\"next_diff\":\"{}\",\"other\":\"{}\",\"result_part\":\"{}\"}}",
                        json_str(set.name), json_str(&set.source), if buf.len() > 64 { hex(&buf[..64]) } else { hex(buf) }, buf.len(), blocks,
                        json_str(&String::from_utf8_lossy(&sites)), k, site_kind, TIMEOUT_SECS, timed.json(), base.json(), (bi + 1) % bufs.len(),
                        next_used.json(), next_fresh.json(), diff_kind(&next_used, &next_fresh),
                        if other == other_base { "same" } else { "differs" },
                        if matches!(timed, Outcome::Timeout) || timed == base { "ok" } else { "partial-or-wrong" });
                    if samples.len() < 3 && matches!(timed, Outcome::Timeout) && rs == 1 { samples.push(replay.clone()); }
                    shards.push(case, replay);
                }
            }
        }
    }

    // the real heartbeat: 1 s timeout, a condition that loops for minutes
    if real > 0 {
        let mut c = yara_x::Compiler::new();
        c.define_global("g_slow", true).unwrap();
        c.add_source(SLOW).unwrap();
        let rules = c.build();
        for i in 0..real {
            let blocks = i % 2 == 1;
            let (timed, secs, next_used, other) = on_thread(|| {
                let mut s = new_scanner(&rules, blocks, Some(1));
                let t0 = Instant::now();
                let o = scan_once(&mut s, b"xx abc xx");
                let secs = t0.elapsed().as_secs_f64();
                match &mut s { AnyScanner::Contig(x) => { let _ = x.set_global("g_slow", false); } AnyScanner::Blocks(x) => { let _ = x.set_global("g_slow", false); } _ => {} }
                let next = scan_once(&mut s, b"abc");
                let mut o2s = new_scanner(&rules, false, None);
                if let AnyScanner::Contig(x) = &mut o2s { let _ = x.set_global("g_slow", false); }
                let other = scan_once(&mut o2s, b"xx abc xx");
                (o, secs, next, other)
            });
            let next_fresh = on_thread(|| { let mut s = new_scanner(&rules, blocks, Some(1)); match &mut s { AnyScanner::Contig(x) => { let _ = x.set_global("g_slow", false); } AnyScanner::Blocks(x) => { let _ = x.set_global("g_slow", false); } _ => {} } scan_once(&mut s, b"abc") });
            let other_base = on_thread(|| { let mut s = new_scanner(&rules, false, None); if let AnyScanner::Contig(x) = &mut s { let _ = x.set_global("g_slow", false); } scan_once(&mut s, b"xx abc xx") });
            // the heartbeat has a one-second period: the scan must end well within 10 s even on a loaded machine
            let prompt = secs < 10.0 && matches!(timed, Outcome::Timeout);
            stats.inc("real_heartbeat_runs"); distinct += 1;
            let case = format!("mkCase [] 0%N 0%N ({}) OTimeout {} {} {} {} {}", timed.coq(), coq_n(digest_outcome(&next_used)), coq_n(digest_outcome(&next_fresh)),
                coq_n(digest_outcome(&other)), coq_n(digest_outcome(&other_base)), coq_bool(prompt));
            let replay = format!("{{\"real_heartbeat\":true,\"rules_source\":{},\"block_mode\":{},\"timeout_secs\":1,\"wall_secs\":{:.2},\"timed\":{},\"next_used\":{},\"next_fresh\":{},\"next_diff\":\"{}\",\"other\":\"{}\",\"result_part\":\"{}\"}}",
                json_str(SLOW), blocks, secs, timed.json(), next_used.json(), next_fresh.json(), diff_kind(&next_used, &next_fresh),
                if other == other_base { "same" } else { "differs" }, if prompt { "ok" } else { "not-prompt-or-not-timeout" });
            shards.push(case, replay);
        }
    }
    shards.flush();
    println!("{{\"evaluations\":{},\"distinct_nontrivial\":{},\"shards\":{},\"distribution\":{},\"samples\":[{}]}}",
        shards.total, distinct, shards.shard_count, stats.json(), samples.join(","));
    0
}

fn main() { let args: Vec<String> = std::env::args().skip(1).collect(); std::process::exit(run(&args)); }
