//! C17: iterator length traces of MatchingRules / NonMatchingRules / Patterns on
//! generated rule sets, written as Coq cases for Scanner/Tracking.v.
use verif_harness::util::*;
use std::panic::AssertUnwindSafe;
use std::path::Path;

#[derive(Clone, Debug)]
pub enum Cond { Const(bool), Ref { neg: bool, id: usize } }

#[derive(Clone, Debug)]
pub struct RuleSpec {
    pub ns: usize, pub private: bool, pub global: bool, pub cond: Cond,
    /// (private?, occurs in data?) per pattern
    pub pats: Vec<(bool, bool)>,
    /// number of tags and of metadata entries
    pub ntags: usize, pub nmeta: usize,
}

pub fn gen_ruleset(rng: &mut Rng) -> Vec<RuleSpec> {
    let n_ns = 1 + rng.below(4) as usize;
    let mut rules = vec![];
    // probability profile for this rule set, so that some sets are mostly-true,
    // some mostly-false, some have many globals / privates
    let p_true = 1 + rng.below(9);
    let p_priv = rng.below(7);
    let p_glob = rng.below(4);
    for ns in 0..n_ns {
        let big = rng.chance(1, 8); let n_rules = rng.below(if big { 25 } else { 6 }) as usize;
        let first = rules.len();
        for _ in 0..n_rules {
            let id = rules.len();
            let cond = if id > first && rng.chance(1, 3) {
                Cond::Ref { neg: rng.chance(1, 2), id: first + rng.below((id - first) as u64) as usize }
            } else { Cond::Const(rng.chance(p_true, 10)) };
            let npats = if rng.chance(1, 3) { 1 + rng.below(4) as usize } else { 0 };
            let pats = (0..npats).map(|_| (rng.chance(1, 3), rng.chance(1, 2))).collect();
            let (ntags, nmeta) = if rng.chance(1, 2) { (rng.below(4) as usize, rng.below(5) as usize) } else { (0, 0) };
            rules.push(RuleSpec { ns, private: rng.chance(p_priv, 10), global: rng.chance(p_glob, 10), cond, pats, ntags, nmeta });
        }
    }
    rules
}

fn rule_source(id: usize, r: &RuleSpec) -> String {
    let mut s = String::new();
    if r.global { s.push_str("global "); }
    if r.private { s.push_str("private "); }
    let tags = if r.ntags == 0 { String::new() } else { format!(" : {}", (0..r.ntags).map(|k| format!("t{}", k)).collect::<Vec<_>>().join(" ")) };
    s.push_str(&format!("rule r{}{} {{\n", id, tags));
    if r.nmeta > 0 {
        s.push_str("  meta:\n");
        for k in 0..r.nmeta {
            let v = match k % 4 { 0 => format!("{}", k), 1 => "\"text\"".to_string(), 2 => "true".to_string(), _ => "\"\\x00\\x01\"".to_string() };
            s.push_str(&format!("    m{} = {}\n", k, v));
        }
    }
    if !r.pats.is_empty() {
        s.push_str("  strings:\n");
        for (k, (p, occ)) in r.pats.iter().enumerate() {
            // occurring patterns are found in the data as "PAT<rule>_<k>!"; others never occur
            let text = if *occ { format!("PAT{}_{}!", id, k) } else { format!("NOPE{}_{}?", id, k) };
            s.push_str(&format!("    $p{} = \"{}\"{}\n", k, text, if *p { " private" } else { "" }));
        }
    }
    let c = match &r.cond {
        Cond::Const(b) => format!("{}", b),
        Cond::Ref { neg, id } => format!("{}r{}", if *neg { "not " } else { "" }, id),
    };
    // patterns must be used; `(any of them or true)` keeps the verdict
    let used = if r.pats.is_empty() { String::new() } else { " and (any of them or true)".to_string() };
    s.push_str(&format!("  condition:\n    ({}){}\n}}\n", c, used));
    s
}

pub fn data_for(rules: &[RuleSpec]) -> Vec<u8> {
    let mut d = Vec::new();
    for (id, r) in rules.iter().enumerate() {
        for (k, (_, occ)) in r.pats.iter().enumerate() {
            if *occ { d.extend_from_slice(format!("PAT{}_{}! ", id, k).as_bytes()); }
        }
    }
    d.extend_from_slice(b"tail");
    d
}

/// ((len before next, id)*, final len); None = the iterator panicked
type Trace = Option<(Vec<(usize, usize)>, usize)>;

fn rule_id(ident: &str) -> usize { ident[1..].parse().unwrap() }

fn trace_iter<I, T, F>(mut it: I, mut id_of: F) -> Trace
where I: ExactSizeIterator<Item = T>, F: FnMut(&T) -> usize {
    catch(AssertUnwindSafe(move || {
        let mut tr = vec![];
        loop {
            let l = it.len();
            match it.next() { Some(x) => tr.push((l, id_of(&x))), None => return (tr, it.len()) }
        }
    })).ok()
}

/// like trace_iter, but include_private is switched before every len()/next() following `sched`
macro_rules! trace_sched {
    ($it:expr, $sched:expr, $id_of:expr) => {{
        let sched: Vec<bool> = $sched.clone();
        catch(AssertUnwindSafe(move || {
            let mut it = $it;
            let mut tr = vec![];
            let mut k = 0usize;
            loop {
                if k < sched.len() { it = it.include_private(sched[k]); }
                k += 1;
                let l = it.len();
                match it.next() { Some(x) => tr.push((l, $id_of(&x))), None => return (tr, it.len()) }
            }
        })).ok()
    }};
}

pub struct Observed {
    /// traces with include_private switched in the middle of the iteration
    pub m_sw: Trace, pub nm_sw: Trace,
    pub m: [Trace; 2], pub nm: [Trace; 2],
    /// per matching rule: pattern-iterator traces (exclude / include private)
    pub pats: Vec<(usize, [Trace; 2])>,
    /// every other ExactSizeIterator of the results: (expected number of items when the rule set
    /// determines it, trace): tags and metadata of every rule, matches of every pattern, module outputs
    pub others: Vec<(Option<usize>, Trace)>,
    /// what every rule of the results says about itself: (id, private, global, namespace number)
    pub flags: Vec<(usize, bool, bool, usize)>,
    /// a second call of matching_rules() / non_matching_rules() yields the same traces
    pub again_same: bool,
}

pub fn observe(results: &yara_x::ScanResults, sched: &Vec<bool>, specs: &[RuleSpec]) -> Observed {
    let m_sw: Trace = trace_sched!(results.matching_rules(), sched, |r: &yara_x::Rule| rule_id(r.identifier()));
    let nm_sw: Trace = trace_sched!(results.non_matching_rules(), sched, |r: &yara_x::Rule| rule_id(r.identifier()));
    let m0 = trace_iter(results.matching_rules(), |r| rule_id(r.identifier()));
    let m1 = trace_iter(results.matching_rules().include_private(true), |r| rule_id(r.identifier()));
    let n0 = trace_iter(results.non_matching_rules(), |r| rule_id(r.identifier()));
    let n1 = trace_iter(results.non_matching_rules().include_private(true), |r| rule_id(r.identifier()));
    let mut pats = vec![];
    let all_rules: Vec<yara_x::Rule> =
        catch(AssertUnwindSafe(|| results.matching_rules().include_private(true).collect::<Vec<_>>())).unwrap_or_default();
    for r in all_rules {
        let pid = |p: &yara_x::Pattern| p.identifier()[2..].parse::<usize>().unwrap();
        let t0 = trace_iter(r.patterns(), pid);
        let t1 = trace_iter(r.patterns().include_private(true), pid);
        pats.push((rule_id(r.identifier()), [t0, t1]));
    }
    let mut others = vec![];
    let every_rule: Vec<yara_x::Rule> = catch(AssertUnwindSafe(|| results.matching_rules().include_private(true)
        .chain(results.non_matching_rules().include_private(true)).collect::<Vec<_>>())).unwrap_or_default();
    let mut flags = vec![];
    for r in &every_rule {
        let spec = &specs[rule_id(r.identifier())];
        flags.push((rule_id(r.identifier()), r.is_private(), r.is_global(), r.namespace().strip_prefix("ns").and_then(|x| x.parse().ok()).unwrap_or(usize::MAX)));
        // pattern iterators of EVERY rule, matching or not
        let pid = |p: &yara_x::Pattern| p.identifier()[2..].parse::<usize>().unwrap();
        others.push((Some(spec.pats.iter().filter(|p| !p.0).count()), trace_iter(r.patterns(), pid)));
        others.push((Some(spec.pats.len()), trace_iter(r.patterns().include_private(true), pid)));
        let mut k = 0usize;
        others.push((Some(spec.ntags), trace_iter(r.tags(), |_| { k += 1; k - 1 })));
        let mut k = 0usize;
        others.push((Some(spec.nmeta), trace_iter(r.metadata(), |_| { k += 1; k - 1 })));
        // (iterating the patterns may itself panic on an inconsistent rule: then the traces above show it)
        let pats: Vec<yara_x::Pattern> = catch(AssertUnwindSafe(|| r.patterns().include_private(true).collect::<Vec<_>>())).unwrap_or_default();
        for p in pats {
            let mut k = 0usize;
            others.push((None, trace_iter(p.matches(), |_| { k += 1; k - 1 })));
        }
    }
    let mut k = 0usize;
    others.push((None, trace_iter(results.module_outputs(), |_| { k += 1; k - 1 })));
    let again_same = trace_iter(results.matching_rules(), |r| rule_id(r.identifier())) == m0
        && trace_iter(results.non_matching_rules().include_private(true), |r| rule_id(r.identifier())) == n1;
    Observed { m_sw, nm_sw, m: [m0, m1], nm: [n0, n1], pats, others, flags, again_same }
}

fn coq_trace(t: &Trace) -> String {
    coq_option(t, |(tr, fin)| format!("({}, {})",
        coq_list(tr, |(l, id)| format!("({}, {})", coq_z(*l as i128), coq_nat(*id))), coq_z(*fin as i128)))
}

pub fn compile(rules: &[RuleSpec]) -> Result<yara_x::Rules, String> {
    let mut c = yara_x::Compiler::new();
    let mut cur = usize::MAX;
    for (id, r) in rules.iter().enumerate() {
        if r.ns != cur { c.new_namespace(&format!("ns{}", r.ns)); cur = r.ns; }
        // two modules with a main function, so that ScanResults::module_outputs has something to yield
        let src = if id == 0 { format!("import \"test_proto2\"\nimport \"time\"\n{}", rule_source(id, r)) } else { rule_source(id, r) };
        c.add_source(src.as_str()).map_err(|e| e.to_string())?;
    }
    let rules = c.build();
    // every fourth rule set goes through serialize + deserialize: the results of deserialized rules
    // must be as consistent as those of freshly built ones
    if rules_roundtrip(rules.iter().count()) {
        let blob = rules.serialize().map_err(|e| e.to_string())?;
        return yara_x::Rules::deserialize(&blob).map_err(|e| e.to_string());
    }
    Ok(rules)
}

pub fn rules_roundtrip(n_rules: usize) -> bool { n_rules % 4 == 1 }

pub fn full_source(rules: &[RuleSpec]) -> String {
    let mut s = String::new();
    let mut cur = usize::MAX;
    for (id, r) in rules.iter().enumerate() {
        if r.ns != cur { s.push_str(&format!("// namespace ns{}\n", r.ns)); cur = r.ns; }
        s.push_str(&rule_source(id, r));
    }
    s
}

fn corpus() -> Vec<Vec<RuleSpec>> {
    let r = |ns, private, global, b: bool| RuleSpec { ns, private, global, cond: Cond::Const(b), pats: vec![], ntags: 2, nmeta: 3 };
    vec![
        // finding #2 (fixed): private non-global non-matching rule
        vec![r(0, true, false, false), r(0, false, false, false), r(0, false, false, true)],
        // global purge of an earlier private match
        vec![r(0, true, false, true), r(0, false, true, false)],
        vec![r(0, true, false, true), r(0, false, true, false), r(1, true, false, false), r(1, false, false, true)],
    ]
}

fn main() { let args: Vec<String> = std::env::args().skip(1).collect(); std::process::exit(run(&args)); }

pub fn run(args: &[String]) -> i32 {
    quiet_panics();
    let seed = arg_u64(args, "--seed", 1);
    let n = arg_u64(args, "--n", 600) as usize;
    let out = arg_val(args, "--out").expect("--out");
    let prelude = "From Coq Require Import List NArith ZArith Bool.\nFrom YV Require Import Scanner.PrivIter Scanner.Tracking Scanner.TrackingCheck.\nImport ListNotations.\n";
    let mut shards = Shards::new(Path::new(&out), prelude, 150);
    let mut rng = Rng::new(seed);
    let mut stats = Stats::default();
    let mut distinct = std::collections::HashSet::new();
    let mut samples = vec![];
    let mut corpus = corpus();
    let mut i = 0usize;
    while shards.total < n {
        let rules = if !corpus.is_empty() { corpus.remove(0) } else { gen_ruleset(&mut rng) };
        let block_mode = rng.chance(1, 3);
        i += 1;
        let compiled = match compile(&rules) {
            Ok(r) => r,
            Err(e) => { eprintln!("c17: generator produced a rejected source: {e}\n{}", full_source(&rules)); return 2; }
        };
        let data = data_for(&rules);
        let sched: Vec<bool> = (0..rng.below(8)).map(|_| rng.chance(1, 2)).collect();
        let obs = if block_mode {
            let mut s = yara_x::blocks::Scanner::new(&compiled);
            let cut = data.len() / 2;
            s.scan(0, &data[..cut]).unwrap();
            s.scan(cut, &data[cut..]).unwrap();
            let r = s.finish().unwrap();
            observe(&r, &sched, &rules)
        } else {
            let mut s = yara_x::Scanner::new(&compiled);
            let r = s.scan(&data).unwrap();
            observe(&r, &sched, &rules)
        };
        stats.inc("rule_sets");
        stats.inc(&format!("rules_{}", match rules.len() { 0 => "0", 1..=3 => "1-3", 4..=10 => "4-10", _ => "11+" }));
        if rules.iter().any(|r| r.private && !r.global && matches!(r.cond, Cond::Const(false))) { stats.inc("has_private_nonglobal_false"); }
        if rules.iter().any(|r| r.global && matches!(r.cond, Cond::Const(false))) { stats.inc("has_failing_global"); }
        if rules.iter().any(|r| matches!(r.cond, Cond::Ref { .. })) { stats.inc("has_rule_reference"); }
        if rules.iter().any(|r| r.pats.iter().any(|p| p.0)) { stats.inc("has_private_pattern"); }
        if block_mode { stats.inc("block_mode"); }
        if rules_roundtrip(rules.len()) { stats.inc("deserialized_rules"); }
        if obs.m.iter().chain(obs.nm.iter()).any(|t| t.is_none()) { stats.inc("impl_iterator_panicked"); }
        if rules.len() >= 2 { distinct.insert(format!("{:?}", rules)); }

        let coq_rules = coq_list(&rules, |r| format!("mkRule {} {} {}", coq_n(r.ns as u64), coq_bool(r.private), coq_bool(r.global)));
        let coq_conds = coq_list(&rules, |r| match &r.cond {
            Cond::Const(b) => format!("CConst {}", coq_bool(*b)),
            Cond::Ref { neg, id } => format!("CRef {} {}", coq_bool(*neg), coq_nat(*id)) });
        let coq_pats = coq_list(&rules, |r| coq_list(&r.pats, |p| coq_bool(p.0).to_string()));
        let coq_obs_pats = coq_list(&obs.pats, |(id, t)| format!("({}, {}, {})", coq_nat(*id), coq_trace(&t[0]), coq_trace(&t[1])));
        let coq_others = coq_list(&obs.others, |(n, t)| format!("({}, {})", coq_option(n, |x| coq_nat(*x)), coq_trace(t)));
        if obs.others.iter().any(|(_, t)| matches!(t, Some((tr, _)) if tr.len() >= 2)) { stats.inc("has_tags_metadata_or_matches_iterators_with_2+_items"); }
        let coq_flags = coq_list(&obs.flags, |(id, p, g, ns)| format!("({}, {}, {}, {})", coq_nat(*id), coq_bool(*p), coq_bool(*g), coq_n(*ns as u64)));
        if !obs.again_same { stats.inc("second_iteration_differs"); }
        let case = format!("mkCase {} {} {} {} {} {} {} {} {} {} {} {} {} {}", coq_rules, coq_conds, coq_pats,
            coq_trace(&obs.m[0]), coq_trace(&obs.m[1]), coq_trace(&obs.nm[0]), coq_trace(&obs.nm[1]), coq_obs_pats,
            coq_list(&sched, |b| coq_bool(*b).to_string()), coq_trace(&obs.m_sw), coq_trace(&obs.nm_sw), coq_others, coq_flags, coq_bool(obs.again_same));
        if sched.len() >= 2 && sched.windows(2).any(|w| w[0] != w[1]) { stats.inc("include_private_switched_mid_iteration"); }
        let replay = format!("{{\"index\":{},\"block_mode\":{},\"source\":{},\"data_hex\":\"{}\",\"observed\":{}}}",
            i, block_mode, json_str(&full_source(&rules)), hex(&data),
            json_str(&format!("matching={:?}/{:?} non_matching={:?}/{:?} schedule={:?} matching_sw={:?} non_matching_sw={:?} tags_metadata_matches_module_outputs={:?}", obs.m[0], obs.m[1], obs.nm[0], obs.nm[1], sched, obs.m_sw, obs.nm_sw, obs.others)));
        if samples.len() < 3 && rules.len() >= 3 { samples.push(replay.clone()); }
        shards.push(case, replay);
    }
    shards.flush();
    println!("{{\"evaluations\":{},\"distinct_nontrivial\":{},\"shards\":{},\"distribution\":{},\"samples\":[{}]}}",
        shards.total, distinct.len(), shards.shard_count, stats.json(), samples.join(","));
    0
}
