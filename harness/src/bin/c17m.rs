//! C17 (match data part): Match::range / data / data_with_context for every match,
//! in contiguous and block mode, all context sizes, written as Coq cases for
//! Scanner/SnippetsCheck.v.
use std::panic::AssertUnwindSafe;
use std::path::Path;
use verif_harness::util::*;

const TOKENS: [&str; 6] = ["AB", "XYZ", "Q", "ABAB", "MN", "XYZXYZ"];

fn gen_rules(rng: &mut Rng) -> (String, usize) {
    let np = 1 + rng.below(4) as usize;
    let mut s = String::from("rule r {\n  strings:\n");
    let mut uses = vec![];
    let mut chosen = vec![];
    for k in 0..np {
        let mut t = TOKENS[rng.below(TOKENS.len() as u64) as usize];
        while chosen.contains(&t) { t = TOKENS[rng.below(TOKENS.len() as u64) as usize]; }
        chosen.push(t);
        s.push_str(&format!("    $p{} = \"{}\"\n", k, t));
        uses.push(format!("#p{} >= 0", k));
    }
    s.push_str(&format!("  condition:\n    {}\n}}\n", uses.join(" and ")));
    (s, np)
}

fn gen_data(rng: &mut Rng, n: usize) -> Vec<u8> {
    let mut d = vec![];
    while d.len() < n {
        match rng.below(4) {
            0 => d.extend_from_slice(TOKENS[rng.below(TOKENS.len() as u64) as usize].as_bytes()),
            1 => { let k = 1 + rng.below(3); for _ in 0..k { d.push(b'a' + rng.below(26) as u8); } }
            2 => { let k = 1 + rng.below(12); for _ in 0..k { d.push(b'.'); } }
            _ => d.push(rng.below(256) as u8),
        }
    }
    d.truncate(n);
    d
}

struct Obs { rs: usize, re: usize, data: Vec<u8>, ctx: Vec<u8>, rel: (usize, usize) }

fn collect(results: &yara_x::ScanResults) -> Result<Vec<Obs>, String> {
    catch(AssertUnwindSafe(|| {
        let mut v = vec![];
        for r in results.matching_rules() {
            for p in r.patterns() {
                for m in p.matches() {
                    let (c, rel) = m.data_with_context();
                    v.push(Obs { rs: m.range().start, re: m.range().end, data: m.data().to_vec(), ctx: c.to_vec(), rel: (rel.start, rel.end) });
                }
            }
        }
        v
    }))
}

fn main() { let args: Vec<String> = std::env::args().skip(1).collect(); std::process::exit(run(&args)); }

fn run(args: &[String]) -> i32 {
    quiet_panics();
    let seed = arg_u64(args, "--seed", 1);
    let n = arg_u64(args, "--n", 400) as usize;
    let out = arg_val(args, "--out").expect("--out");
    let prelude = "From Coq Require Import List NArith Bool.\nFrom YV Require Import Scanner.Snippets Scanner.SnippetsCheck.\nImport ListNotations.\nLocal Open Scope N_scope.\n";
    let mut shards = Shards::new(Path::new(&out), prelude, 100);
    let mut rng = Rng::new(seed ^ 0x17a);
    let mut stats = Stats::default();
    let mut distinct = std::collections::HashSet::new();
    let mut samples = vec![];
    // corpus: (rules, blocks, ctx, single)
    let mut corpus: Vec<(String, Vec<(usize, Vec<u8>)>, usize, bool)> = vec![
        // three matches whose context windows overlap: 9..10, 12..14, 15..16 with ctx 4
        ("rule r { strings: $a = \"Q\" $b = \"AB\" $c = \"M\" condition: #a >= 0 and #b >= 0 and #c >= 0 }".to_string(),
         vec![(0, b".........Q..AB.M..............".to_vec())], 4, false),
        ("rule r { strings: $a = \"Q\" $b = \"AB\" condition: #a >= 0 and #b >= 0 }".to_string(), vec![(0, b"..Q....AB..".to_vec())], usize::MAX, true),
        ("rule r { strings: $a = \"Q\" $b = \"AB\" condition: #a >= 0 and #b >= 0 }".to_string(), vec![(7, b"..Q..".to_vec()), (12, b"..AB..".to_vec())], usize::MAX, false),
    ];
    while shards.total < n {
        let (src, blocks, ctx, single) = if !corpus.is_empty() { corpus.remove(0) } else {
            let (src, _) = gen_rules(&mut rng);
            let single = rng.chance(1, 3);
            // usize::MAX is the natural way to ask for "all the context there is": no arithmetic on it may overflow
            let ctx = *rng.pick(&[0usize, 0, 1, 2, 3, 4, 5, 8, 16, 1000, usize::MAX, usize::MAX - 1, usize::MAX - 20, usize::MAX / 2 + 1]);
            let total = 8 + rng.below(56) as usize;
            let data = gen_data(&mut rng, total);
            let blocks = if single { vec![(0usize, data)] } else {
                // non-overlapping blocks with optional gaps and an arbitrary first base
                let mut v = vec![];
                let mut base = rng.below(3) as usize * 7;
                let mut i = 0;
                while i < data.len() {
                    let l = 1 + rng.below(24) as usize;
                    let e = (i + l).min(data.len());
                    v.push((base, data[i..e].to_vec()));
                    base += e - i + if rng.chance(1, 4) { rng.below(9) as usize } else { 0 };
                    i = e;
                }
                if rng.chance(1, 5) { v.reverse(); }
                v
            };
            (src, blocks, ctx, single)
        };
        let mut c = yara_x::Compiler::new();
        if let Err(e) = c.add_source(src.as_str()) { eprintln!("c17m: generator produced a rejected source: {e}\n{src}"); return 2; }
        let rules = c.build();
        // max_matches_per_pattern: default, or a small limit (0 and 1 included)
        let limit: Option<usize> = if rng.chance(1, 3) { Some(*rng.pick(&[0usize, 1, 1, 2, 3])) } else { None };
        if let Some(l) = limit { stats.inc(&format!("max_matches_{}", l)); }
        let use_file = single && rng.chance(1, 4);
        let shard_no = shards.total;
        if use_file { stats.inc("scan_file"); }
        // a panic anywhere (scan, finish, reading the match data) becomes an impossible observation with a replay
        let obs = catch(AssertUnwindSafe(|| if single {
            let mut s = yara_x::Scanner::new(&rules);
            s.match_context_size(ctx);
            if let Some(l) = limit { s.max_matches_per_pattern(l); }
            // a quarter of the contiguous scans go through the file-mapping path
            if use_file {
                let path = std::env::temp_dir().join(format!("c17m_{}_{}.bin", std::process::id(), shard_no));
                std::fs::write(&path, &blocks[0].1).unwrap();
                let o = { let r = s.scan_file(&path).unwrap(); collect(&r) };
                let _ = std::fs::remove_file(&path);
                o
            } else {
                let r = s.scan(&blocks[0].1).unwrap();
                collect(&r)
            }
        } else {
            let mut s = yara_x::blocks::Scanner::new(&rules);
            s.match_context_size(ctx);
            if let Some(l) = limit { s.max_matches_per_pattern(l); }
            for (b, d) in &blocks { s.scan(*b, d).unwrap(); }
            let r = s.finish().unwrap();
            collect(&r)
        })).and_then(|x| x);
        let obs = match obs {
            Ok(o) => o,
            Err(e) => {
                // a panic while reading match data is itself a violation: emit a case with an impossible observation
                stats.inc("impl_panicked");
                vec![Obs { rs: usize::MAX >> 8, re: usize::MAX >> 8, data: e.into_bytes(), ctx: vec![], rel: (0, 0) }]
            }
        };
        stats.inc(if single { "single" } else { "blocks" });
        stats.inc(&format!("ctx_{}", ctx));
        stats.add("matches", obs.len() as u64);
        if obs.len() >= 2 { distinct.insert(format!("{:?}{:?}{}", blocks, src, ctx)); }
        // overlapping context windows are the interesting shape
        let mut sorted: Vec<(usize, usize)> = obs.iter().map(|o| (o.rs, o.re)).collect();
        sorted.sort();
        if sorted.windows(2).any(|w| w[1].0 < w[0].1.saturating_add(ctx.saturating_mul(2))) { stats.inc("overlapping_context_windows"); }
        let coq_obs = coq_list(&obs, |o| format!("mkObs {} {} {} {} {} {}", o.rs, o.re, coq_list(&o.data, |b| b.to_string()),
            coq_list(&o.ctx, |b| b.to_string()), o.rel.0, o.rel.1));
        let coq_blocks = coq_list(&blocks, |(b, d)| format!("({}, {})", b, coq_list(d, |x| x.to_string())));
        let case = format!("mkCase {} {} {} {}", ctx, coq_bool(single), coq_blocks, coq_obs);
        let replay = format!("{{\"source\":{},\"single\":{},\"context_size\":{},\"blocks\":[{}],\"observed\":[{}]}}",
            json_str(&src), single, ctx,
            blocks.iter().map(|(b, d)| format!("[{},\"{}\"]", b, hex(d))).collect::<Vec<_>>().join(","),
            obs.iter().map(|o| format!("{{\"range\":[{},{}],\"data\":\"{}\",\"ctx\":\"{}\",\"rel\":[{},{}]}}", o.rs, o.re, hex(&o.data), hex(&o.ctx), o.rel.0, o.rel.1)).collect::<Vec<_>>().join(","));
        if samples.len() < 2 && obs.len() >= 2 { samples.push(replay.clone()); }
        shards.push(case, replay);
    }
    shards.flush();
    println!("{{\"evaluations\":{},\"distinct_nontrivial\":{},\"shards\":{},\"distribution\":{},\"samples\":[{}]}}",
        shards.total, distinct.len(), shards.shard_count, stats.json(), samples.join(","));
    0
}
