//! C18: the real `yr scan` binary over generated directory trees, for thread
//! counts 1..32, text and ndjson output, source rules and `yr compile` +
//! `--compiled-rules`; the output is parsed into a multiset of (file, payload)
//! lines and written, together with the library oracle (every file scanned on
//! its own through the yara_x API in this process) and the single-thread run,
//! as Coq cases for Cli/WalkCheck.v.
//!
//! Streams: stable trees (nested dirs, empty files, many small files, more
//! files than the paths channel holds); trees with entries the scanning user
//! cannot read (chmod 000 files and directories; when running as root `yr` is
//! started as uid 65534); trees from which files are removed while the walk is
//! in progress; file names that are not valid UTF-8 (both output formats print
//! them lossily, U+FFFD; the first tree of every run is of this kind); the abort
//! probe (`--timeout` with a rule that never finishes, capacity+1 / capacity+2
//! files, one worker: must exit).
use std::collections::{BTreeMap, HashMap, HashSet};
use std::ffi::OsString;
use std::fs;
use std::io::Read;
use std::os::unix::ffi::OsStringExt;
use std::os::unix::fs::PermissionsExt;
use std::os::unix::process::CommandExt;
use std::path::{Path, PathBuf};
use std::process::{Command, Stdio};
use std::time::{Duration, Instant};
use verif_harness::util::*;

const UNKNOWN_FILE: u64 = 4_000_000_000;
const UNKNOWN_RULE: u64 = 4_000_000;

// ------------------------------------------------------------------ rules
struct RuleSet { source: String, names: Vec<String> }

fn gen_rules(rng: &mut Rng) -> RuleSet {
    let templates: Vec<Box<dyn Fn(usize) -> String>> = vec![
        Box::new(|k| format!("rule r{k} {{ strings: $a = \"TOK{k}_\" condition: $a }}")),
        Box::new(|k| format!("rule r{k} {{ strings: $a = {{ {} }} condition: $a }}",
            format!("TOK{k}_").bytes().map(|b| format!("{:02x}", b)).collect::<Vec<_>>().join(" "))),
        Box::new(|k| format!("rule r{k} {{ strings: $a = /TOK{k}_[0-9]/ condition: $a }}")),
        Box::new(|k| format!("rule r{k} {{ condition: filesize == 0 }}")),
        Box::new(|k| format!("rule r{k} {{ strings: $a = \"TOK{k}_\" condition: #a >= 2 }}")),
        Box::new(|k| format!("rule r{k} {{ strings: $a = \"tok{k}_\" nocase condition: $a and filesize < 200 }}")),
        Box::new(|k| format!("rule r{k} {{ strings: $a = \"TOK{k}_\" wide ascii condition: $a at 0 }}")),
        Box::new(|k| format!("private rule r{k} {{ strings: $a = \"TOK{k}_\" condition: $a }}")),
        Box::new(|k| format!("rule r{k} {{ condition: filesize > 40 and uint8(0) == 0x54 }}")),
    ];
    let n = 2 + rng.below(9) as usize;
    let mut source = String::new();
    let mut names = vec![];
    for k in 0..n {
        let t = rng.below(templates.len() as u64) as usize;
        source.push_str(&templates[t](k));
        source.push('\n');
        names.push(format!("r{k}"));
    }
    if rng.chance(1, 6) {
        // a rule that matches every file: every file has at least one line
        source.push_str(&format!("rule r{n} {{ condition: true }}\n"));
        names.push(format!("r{n}"));
    }
    RuleSet { source, names }
}

// ------------------------------------------------------------------ trees
#[derive(Clone)]
struct FileSpec {
    rel: Vec<u8>,        // path relative to the root (bytes; '/' separated)
    depth: usize,        // number of directories between the root and the file
    content: Vec<u8>,
    unreadable: bool,    // chmod 000
    hidden_by_dir: bool, // lives under a chmod 000 directory
}

#[derive(Clone, Copy, PartialEq, Eq, Debug)]
enum TreeKind { Stable, Perm, Mutate, NonUtf8, Wild, WildNl }

struct Tree { root: PathBuf, files: Vec<FileSpec>, locked_dirs: Vec<Vec<u8>> }

fn gen_content(rng: &mut Rng, nrules: usize) -> Vec<u8> {
    if rng.chance(3, 20) { return vec![]; }
    let mut c = Vec::new();
    let parts = 1 + rng.below(6);
    for _ in 0..parts {
        match rng.below(5) {
            0 | 1 => {
                let k = rng.below(nrules as u64 + 1);
                c.extend_from_slice(format!("TOK{}_{}", k, rng.below(10)).as_bytes());
            }
            2 => c.extend_from_slice(format!("tok{}_", rng.below(nrules as u64 + 1)).as_bytes()),
            3 => { for _ in 0..rng.below(40) { c.push(b'a' + rng.below(26) as u8); } }
            _ => { for _ in 0..rng.below(120) { c.push(rng.below(256) as u8); } }
        }
        c.push(b' ');
    }
    c
}

fn gen_tree(rng: &mut Rng, root: &Path, kind: TreeKind, nrules: usize, cap: usize) -> Tree {
    let nfiles = if kind == TreeKind::Mutate { cap + 100 + rng.below(500) as usize } else { match rng.below(10) {
        0 if kind == TreeKind::NonUtf8 => 2 + rng.below(6) as usize,
        0 => rng.below(3) as usize,                              // empty / tiny
        1..=5 => 3 + rng.below(40) as usize,
        6 | 7 => 40 + rng.below(100) as usize,
        _ => cap + 2 + rng.below(260) as usize,                  // more than the channel holds
    } };
    // directories: a random forest, depth <= 4
    let mut dirs: Vec<(Vec<u8>, usize)> = vec![(vec![], 0)];
    let ndirs = rng.below(1 + (nfiles as u64 / 4).min(12)) as usize;
    for d in 0..ndirs {
        let (p, depth) = dirs[rng.below(dirs.len() as u64) as usize].clone();
        if depth >= 4 { continue; }
        let mut q = p.clone();
        if !q.is_empty() { q.push(b'/'); }
        q.extend_from_slice(format!("d{}{}", d, if rng.chance(1, 8) { " sp" } else { "" }).as_bytes());
        dirs.push((q, depth + 1));
    }
    if rng.chance(1, 5) && dirs.len() > 1 {
        // an empty directory chain
        let (p, depth) = dirs[dirs.len() - 1].clone();
        if depth < 4 { let mut q = p; q.extend_from_slice(b"/empty"); dirs.push((q, depth + 1)); }
    }
    let mut files = vec![];
    for i in 0..nfiles {
        // the first file of a non-UTF-8 tree always has such a name and lives in the root (in scope for every depth option)
        let wild = kind == TreeKind::Wild || kind == TreeKind::WildNl;
        let forced = (kind == TreeKind::NonUtf8 || wild) && i == 0;
        let (p, depth) = if forced { (vec![], 0) } else { dirs[rng.below(dirs.len() as u64) as usize].clone() };
        let mut rel = p.clone();
        if !rel.is_empty() { rel.push(b'/'); }
        let name: Vec<u8> = match (kind, if forced { 0 } else { rng.below(12) }) {
            (TreeKind::NonUtf8, 0..=2) => { let mut n = format!("f{i}_").into_bytes(); n.extend_from_slice(&[0xff, 0xfe, b'x']); n }
            // the "wild" alphabet: leading / trailing blanks, tabs, CR, shell / glob / comment characters, bidi and
            // emoji, long names; a newline only in trees that are scanned in ndjson mode (text lines would be split).
            // The first file of a wild tree has a name that ENDS WITH A SPACE and lives in the root.
            (TreeKind::Wild | TreeKind::WildNl, 0) => format!("f{i} ").into_bytes(),
            (TreeKind::Wild | TreeKind::WildNl, 1) => format!(" f{i}").into_bytes(),
            (TreeKind::Wild | TreeKind::WildNl, 2) => format!("f{i}\t").into_bytes(),
            (TreeKind::Wild | TreeKind::WildNl, 3) => format!("#f{i}").into_bytes(),
            (TreeKind::Wild | TreeKind::WildNl, 4) => format!("f{i}#frag;x*?[a]{{b}}").into_bytes(),
            (TreeKind::Wild | TreeKind::WildNl, 5) => format!("-f{i} -r").into_bytes(),
            (TreeKind::Wild | TreeKind::WildNl, 6) => format!("f{i}\r").into_bytes(),
            (TreeKind::WildNl, 7) => format!("f{i}\nsecond line ").into_bytes(),
            (TreeKind::Wild | TreeKind::WildNl, 8) => format!("f{i}_{}", "L".repeat(200)).into_bytes(),
            (TreeKind::Wild | TreeKind::WildNl, 9) => format!("f{i} \u{202e}\u{1F600}\u{e9} ").into_bytes(),
            (TreeKind::Wild | TreeKind::WildNl, 10) => format!("f{i}\"q'$%:&|;<>()\\").into_bytes(),
            (TreeKind::Wild | TreeKind::WildNl, 11) => format!("  {i}  ").into_bytes(),
            (TreeKind::Stable, 0) => format!("f{i} with space.bin").into_bytes(),
            (TreeKind::Stable, 1) => format!("f{i}-\u{e9}\u{4e2d}.txt").into_bytes(),
            (TreeKind::Stable, 2) => format!(".hidden{i}").into_bytes(),
            _ => format!("f{i}").into_bytes(),
        };
        rel.extend_from_slice(&name);
        files.push(FileSpec { rel, depth, content: gen_content(rng, nrules), unreadable: false, hidden_by_dir: false });
    }
    let mut locked_dirs = vec![];
    if kind == TreeKind::Perm {
        for f in files.iter_mut() { if rng.chance(1, 5) { f.unreadable = true; } }
        if dirs.len() > 1 && rng.chance(1, 2) {
            let (d, _) = dirs[1 + rng.below(dirs.len() as u64 - 1) as usize].clone();
            for f in files.iter_mut() {
                if f.rel.len() > d.len() && f.rel.starts_with(&d) && f.rel[d.len()] == b'/' { f.hidden_by_dir = true; }
            }
            locked_dirs.push(d);
        }
    }
    // write
    let _ = fs::remove_dir_all(root);
    fs::create_dir_all(root).unwrap();
    for (d, _) in &dirs { if !d.is_empty() { fs::create_dir_all(root.join(OsString::from_vec(d.clone()))).unwrap(); } }
    for f in &files {
        let p = root.join(OsString::from_vec(f.rel.clone()));
        fs::write(&p, &f.content).unwrap();
        if f.unreadable { fs::set_permissions(&p, fs::Permissions::from_mode(0o000)).unwrap(); }
    }
    for d in &locked_dirs {
        fs::set_permissions(root.join(OsString::from_vec(d.clone())), fs::Permissions::from_mode(0o000)).unwrap();
    }
    Tree { root: root.into(), files, locked_dirs }
}

fn unlock_tree(t: &Tree) {
    for d in &t.locked_dirs {
        let _ = fs::set_permissions(t.root.join(OsString::from_vec(d.clone())), fs::Permissions::from_mode(0o755));
    }
}

// ------------------------------------------------------------------ running yr
struct RunOut { status: Option<i32>, timed_out: bool, stdout: Vec<u8>, stderr: Vec<u8> }

fn run_cmd(mut cmd: Command, limit: Duration, drop_priv: bool, during: Option<&dyn Fn()>) -> RunOut {
    cmd.stdin(Stdio::null()).stdout(Stdio::piped()).stderr(Stdio::piped());
    if drop_priv {
        unsafe {
            cmd.pre_exec(|| {
                if libc::geteuid() == 0 {
                    libc::setgroups(0, std::ptr::null());
                    if libc::setgid(65534) != 0 || libc::setuid(65534) != 0 {
                        return Err(std::io::Error::last_os_error());
                    }
                }
                Ok(())
            });
        }
    }
    let mut ch = cmd.spawn().expect("spawn yr");
    let mut so = ch.stdout.take().unwrap();
    let mut se = ch.stderr.take().unwrap();
    // `during` runs once the process has produced its first output (the walk is then in progress)
    let started = std::sync::Arc::new(std::sync::atomic::AtomicBool::new(false));
    let st1 = started.clone();
    let t1 = std::thread::spawn(move || {
        let mut b = vec![];
        let mut buf = [0u8; 65536];
        loop {
            match so.read(&mut buf) {
                Ok(0) | Err(_) => break,
                Ok(k) => { st1.store(true, std::sync::atomic::Ordering::SeqCst); b.extend_from_slice(&buf[..k]); }
            }
        }
        st1.store(true, std::sync::atomic::Ordering::SeqCst);
        b
    });
    let t2 = std::thread::spawn(move || { let mut b = vec![]; let _ = se.read_to_end(&mut b); b });
    let t0 = Instant::now();
    if let Some(f) = during {
        while !started.load(std::sync::atomic::Ordering::SeqCst) && t0.elapsed() < limit { std::thread::yield_now(); }
        f();
    }
    let mut timed_out = false;
    let status = loop {
        match ch.try_wait().unwrap() {
            Some(st) => break st.code(),
            None => {
                if t0.elapsed() > limit {
                    timed_out = true;
                    // where is it stuck?  (kept next to the cases for the report; best effort)
                    if let Ok(o) = Command::new("timeout").args(["25", "gdb", "-p", &ch.id().to_string(), "-batch", "-ex", "thread apply all bt 12"])
                        .stdin(Stdio::null()).stderr(Stdio::null()).output() {
                        let _ = fs::OpenOptions::new().create(true).append(true).open("/verif/.cache/c18_timeouts.log").and_then(|mut f| {
                            use std::io::Write;
                            writeln!(f, "==== pid {} timed out after {:?}\n{}", ch.id(), limit, String::from_utf8_lossy(&o.stdout).chars().take(20000).collect::<String>())
                        });
                    }
                    let _ = ch.kill(); let _ = ch.wait(); break None;
                }
                std::thread::sleep(Duration::from_millis(2));
            }
        }
    };
    RunOut { status, timed_out, stdout: t1.join().unwrap(), stderr: t2.join().unwrap() }
}

/// A run that hits the time limit is repeated (up to 3 attempts): only a hang that shows again is
/// reported; a single unexplained stall on a loaded machine is counted in the statistics.
fn run_retry(mk: &dyn Fn() -> Command, limit: Duration, drop_priv: bool, stats: &mut Stats) -> RunOut {
    let mut last = run_cmd(mk(), limit, drop_priv, None);
    for _ in 0..2 {
        if !last.timed_out { return last; }
        stats.inc("runs_hit_time_limit_and_were_repeated");
        last = run_cmd(mk(), limit, drop_priv, None);
    }
    last
}

/// utime+stime of a process in clock ticks
fn cpu_ticks(pid: u32) -> Option<u64> {
    let s = fs::read_to_string(format!("/proc/{}/stat", pid)).ok()?;
    let rest = &s[s.rfind(')')? + 2..];
    let f: Vec<&str> = rest.split(' ').collect();
    Some(f.get(11)?.parse::<u64>().ok()? + f.get(12)?.parse::<u64>().ok()?)
}

#[derive(Clone, Copy, PartialEq, Eq, Debug)]
enum Mode { Text, Ndjson }

struct Parsed { lines: Vec<(u64, u64)>, bad_lines: usize }

fn parse_output(out: &[u8], mode: Mode, path_ids: &HashMap<String, u64>, rule_ids: &HashMap<String, u64>) -> Parsed {
    let text = String::from_utf8_lossy(out);
    let mut lines = vec![];
    let mut bad = 0;
    for l in text.split('\n') {
        if l.is_empty() { continue; }
        match mode {
            Mode::Text => match l.split_once(' ') {
                Some((r, p)) => lines.push((*path_ids.get(p).unwrap_or(&UNKNOWN_FILE), *rule_ids.get(r).unwrap_or(&UNKNOWN_RULE))),
                None => { bad += 1; lines.push((UNKNOWN_FILE, UNKNOWN_RULE)); }
            },
            Mode::Ndjson => match serde_json::from_str::<serde_json::Value>(l) {
                Ok(v) => {
                    let p = v.get("path").and_then(|x| x.as_str()).unwrap_or("");
                    let mut mask = 0u64;
                    let mut ok = true;
                    if let Some(rs) = v.get("rules").and_then(|x| x.as_array()) {
                        for r in rs {
                            match r.get("identifier").and_then(|x| x.as_str()).and_then(|s| rule_ids.get(s)) {
                                Some(id) => { if mask & (1 << id) != 0 { ok = false; } mask |= 1 << id; }
                                None => ok = false,
                            }
                        }
                    } else { ok = false; }
                    lines.push((*path_ids.get(p).unwrap_or(&UNKNOWN_FILE), if ok { mask } else { UNKNOWN_RULE }));
                }
                Err(_) => { bad += 1; lines.push((UNKNOWN_FILE, UNKNOWN_RULE)); }
            },
        }
    }
    lines.sort();
    Parsed { lines, bad_lines: bad }
}

/// files for which a worker reported an error (`error: scanning "<path>": ..`), and the number of other error lines
fn parse_errors(err: &[u8], path_ids: &HashMap<String, u64>) -> (Vec<u64>, usize, usize) {
    let text = String::from_utf8_lossy(err);
    let (mut files, mut other, mut unknown) = (vec![], 0, 0);
    for l in text.split('\n') {
        if !l.starts_with("error: ") { continue; }
        if let Some(rest) = l.strip_prefix("error: scanning \"") {
            if let Some(k) = rest.find("\": ") {
                match path_ids.get(&rest[..k]) { Some(id) => files.push(*id), None => unknown += 1 }
                continue;
            }
        }
        other += 1;
    }
    files.sort();
    (files, other, unknown)
}

fn coq_pairs(v: &[(u64, u64)]) -> String { format!("{}%N", coq_list(v, |(a, b)| format!("({},{})", a, b))) }
fn coq_ns(v: &[u64]) -> String { format!("{}%N", coq_list(v, |a| format!("{}", a))) }

// ------------------------------------------------------------------ oracle
/// per file: ids of the (non-private) matching rules, through the library API, one fresh scanner per file
fn library_oracle(rules: &yara_x::Rules, tree: &Tree, rule_ids: &HashMap<String, u64>) -> Vec<Vec<u64>> {
    tree.files.iter().map(|f| {
        let mut s = yara_x::Scanner::new(rules);
        let r = s.scan(&f.content).expect("library scan");
        let mut ids: Vec<u64> = r.matching_rules().map(|m| rule_ids[m.identifier()]).collect();
        ids.sort();
        ids
    }).collect()
}

fn diff_summary(obs: &[(u64, u64)], exp: &[(u64, u64)]) -> (usize, usize, String) {
    let mut cnt: BTreeMap<(u64, u64), i64> = BTreeMap::new();
    for p in obs { *cnt.entry(*p).or_default() += 1; }
    for p in exp { *cnt.entry(*p).or_default() -= 1; }
    let extra: Vec<_> = cnt.iter().filter(|(_, c)| **c > 0).map(|(p, c)| format!("{}:{}x{}", p.0, p.1, c)).collect();
    let missing: Vec<_> = cnt.iter().filter(|(_, c)| **c < 0).map(|(p, c)| format!("{}:{}x{}", p.0, p.1, -c)).collect();
    (extra.len(), missing.len(), format!("extra[{}] missing[{}]", extra.iter().take(8).cloned().collect::<Vec<_>>().join(","),
        missing.iter().take(8).cloned().collect::<Vec<_>>().join(",")))
}

// ------------------------------------------------------------------ option matrix: source rules vs compiled rules
// "compiled-rules files give the same output as source rules": for every option that changes the results
// or their presentation and is accepted in both modes, `yr scan <opts> rules.yar` and
// `yr compile <compile opts> && yr scan <opts> --compiled-rules rules.yarc` must print the same lines,
// and both must agree with per-file library scans done with the SAME globals and scan options.
#[derive(Clone, Debug)]
enum Val { I(i64), B(bool), S(&'static str), F(f64) }
impl Val {
    fn json(&self) -> String { match self { Val::I(i) => i.to_string(), Val::B(b) => b.to_string(), Val::S(s) => format!("\"{}\"", s), Val::F(f) => format!("{:?}", f) } }
}

const OPT_RULES: &str = r#"rule g_high : t1 { meta: author = "x" n = 3 condition: level >= 5 }
rule g_low : t2 { condition: level < 5 }
rule g_str : t1 t2 { strings: $a = "TOK0_" condition: $a and who == "bob" }
rule g_bool { condition: flag and filesize > 0 }
rule g_float : t2 { condition: ratio > 2.0 }
rule cnt : t1 { strings: $a = "TOK4_" condition: #a >= 2 }
rule plain : t1 { meta: k = true strings: $a = "TOK1_" condition: $a }
private rule priv { condition: level >= 5 }
rule uses_priv : t2 { condition: priv and filesize < 300 }
"#;
const OPT_RULE_NAMES: [&str; 10] = ["g_high", "g_low", "g_str", "g_bool", "g_float", "cnt", "plain", "priv", "uses_priv", "m_math"];

#[derive(Clone, Debug)]
struct Opts {
    threads: usize, ndjson: bool, tag: Option<&'static str>, negate: bool, count: bool, max_matches: Option<usize>,
    print_strings: Option<Option<usize>>, print_meta: bool, print_tags: bool, print_namespace: bool, path_as_namespace: bool,
    skip_larger: Option<u64>, scan_list: bool, ignore_module: bool, depth: Option<usize>, recursive: bool,
    scan_vals: Vec<(&'static str, Val)>, compile_vals: Vec<(&'static str, Val)>,
}

fn gen_vals(rng: &mut Rng) -> Vec<(&'static str, Val)> {
    vec![("level", Val::I(*rng.pick(&[1, 4, 5, 7, -3]))), ("who", Val::S(*rng.pick(&["alice", "bob", ""]))),
         ("flag", Val::B(rng.chance(1, 2))), ("ratio", Val::F(*rng.pick(&[1.5, 2.5, 2.0001, -0.5])))]
}

fn gen_opts(rng: &mut Rng, corpus: bool) -> Opts {
    let scan_vals = gen_vals(rng);
    // compile-time values: usually different from the scan-time ones (every variable, every type)
    let mut compile_vals = if rng.chance(1, 6) && !corpus { scan_vals.clone() } else { gen_vals(rng) };
    if corpus {
        compile_vals = vec![("level", Val::I(1)), ("who", Val::S("alice")), ("flag", Val::B(false)), ("ratio", Val::F(1.5))];
        return Opts { threads: 4, ndjson: false, tag: None, negate: false, count: false, max_matches: None, print_strings: None, print_meta: false,
            print_tags: false, print_namespace: false, path_as_namespace: false, skip_larger: None, scan_list: false, ignore_module: false,
            depth: None, recursive: true,
            scan_vals: vec![("level", Val::I(7)), ("who", Val::S("bob")), ("flag", Val::B(true)), ("ratio", Val::F(2.5))], compile_vals };
    }
    let scan_list = rng.chance(1, 8);
    let (recursive, depth) = match rng.below(6) { 0 => (false, None), 1 => (true, Some(1 + rng.below(2) as usize)), _ => (true, None) };
    Opts {
        threads: match rng.below(5) { 0 => 1, 1 => 2, 2 => 8, 3 => 32, _ => 1 + rng.below(32) as usize },
        ndjson: rng.chance(1, 2), tag: if rng.chance(1, 4) { Some(*rng.pick(&["t1", "t2", "nope"])) } else { None },
        negate: rng.chance(1, 5), count: rng.chance(1, 5),
        max_matches: if rng.chance(1, 4) { Some(*rng.pick(&[1usize, 2, 5])) } else { None },
        print_strings: if rng.chance(1, 4) { Some(if rng.chance(1, 2) { Some(3) } else { None }) } else { None },
        print_meta: rng.chance(1, 4), print_tags: rng.chance(1, 4), print_namespace: rng.chance(1, 3), path_as_namespace: rng.chance(1, 4),
        skip_larger: if rng.chance(1, 5) { Some(*rng.pick(&[0u64, 20, 100, 400])) } else { None },
        scan_list, ignore_module: rng.chance(1, 4), depth, recursive, scan_vals, compile_vals,
    }
}

fn scan_args(o: &Opts) -> Vec<String> {
    let mut a: Vec<String> = vec!["scan".into(), "--threads".into(), o.threads.to_string(), "--disable-console-logs".into()];
    if o.scan_list { a.push("--scan-list".into()); }
    else if o.recursive { a.push(match o.depth { Some(k) => format!("--recursive={}", k), None => "--recursive".into() }); }
    if o.ndjson { a.push("--output-format".into()); a.push("ndjson".into()); }
    if let Some(t) = o.tag { a.push("--tag".into()); a.push(t.into()); }
    if o.negate { a.push("--negate".into()); }
    if o.count { a.push("--count".into()); }
    if let Some(m) = o.max_matches { a.push("--max-matches-per-pattern".into()); a.push(m.to_string()); }
    if let Some(ps) = o.print_strings { a.push(match ps { Some(n) => format!("--print-strings={}", n), None => "--print-strings".into() }); }
    if o.print_meta { a.push("--print-meta".into()); }
    if o.print_tags { a.push("--print-tags".into()); }
    if o.print_namespace { a.push("--print-namespace".into()); }
    if let Some(sz) = o.skip_larger { a.push("--skip-larger".into()); a.push(sz.to_string()); }
    for (n, v) in &o.scan_vals { a.push("--define".into()); a.push(format!("{}={}", n, v.json())); }
    a
}

/// (file, payload) lines of an option run. text: `[ns:]rule [tags] [meta] <path>` (+ lines starting with 0x for
/// --print-strings, ignored), `<path>: N` with --count; ndjson: {"path","rules":[..]} or {"path","count"}.
fn parse_opt_output(out: &[u8], o: &Opts, root_prefix: &str, path_ids: &HashMap<String, u64>, rule_ids: &HashMap<String, u64>) -> Parsed {
    let text = String::from_utf8_lossy(out);
    let mut lines = vec![];
    let mut bad = 0;
    for l in text.split('\n') {
        if l.is_empty() { continue; }
        if o.ndjson {
            match serde_json::from_str::<serde_json::Value>(l) {
                Ok(v) => {
                    let f = *path_ids.get(v.get("path").and_then(|x| x.as_str()).unwrap_or("")).unwrap_or(&UNKNOWN_FILE);
                    if o.count { lines.push((f, v.get("count").and_then(|x| x.as_u64()).unwrap_or(UNKNOWN_RULE))); }
                    else {
                        let mut mask = 0u64; let mut ok = true;
                        match v.get("rules").and_then(|x| x.as_array()) {
                            Some(rs) => for r in rs { match r.get("identifier").and_then(|x| x.as_str()).and_then(|s| rule_ids.get(s)) {
                                Some(id) => { if mask & (1 << id) != 0 { ok = false; } mask |= 1 << id; } None => ok = false } },
                            None => ok = false,
                        }
                        lines.push((f, if ok { mask } else { UNKNOWN_RULE }));
                    }
                }
                Err(_) => { bad += 1; lines.push((UNKNOWN_FILE, UNKNOWN_RULE)); }
            }
        } else if o.count {
            match l.rsplit_once(": ") {
                Some((p, n)) => lines.push((*path_ids.get(p).unwrap_or(&UNKNOWN_FILE), n.parse::<u64>().unwrap_or(UNKNOWN_RULE))),
                None => { bad += 1; lines.push((UNKNOWN_FILE, UNKNOWN_RULE)); }
            }
        } else {
            if l.starts_with("0x") { continue; }       // a match line of --print-strings
            let first = l.split(' ').next().unwrap_or("");
            let rule = first.rsplit(':').next().unwrap_or("");
            match l.find(root_prefix).or_else(|| l.find(" root dir/").map(|k| k + 1)) {
                Some(k) => lines.push((*path_ids.get(&l[k..]).unwrap_or(&UNKNOWN_FILE), *rule_ids.get(rule).unwrap_or(&UNKNOWN_RULE))),
                None => { bad += 1; lines.push((UNKNOWN_FILE, UNKNOWN_RULE)); }
            }
        }
    }
    lines.sort();
    Parsed { lines, bad_lines: bad }
}

fn define_all(c: &mut yara_x::Compiler, vals: &[(&'static str, Val)]) {
    for (n, v) in vals {
        match v { Val::I(i) => { c.define_global(n, *i).unwrap(); } Val::B(b) => { c.define_global(n, *b).unwrap(); }
                  Val::S(s) => { c.define_global(n, *s).unwrap(); } Val::F(f) => { c.define_global(n, *f).unwrap(); } }
    }
}

#[allow(clippy::too_many_arguments)]
fn option_tree(rng: &mut Rng, work: &Path, tree_idx: usize, yr: &str, cap: usize, limit: Duration, seed: u64, has_math: bool, corpus: usize,
               budget: usize, stats: &mut Stats, distinct: &mut HashSet<(usize, usize, bool, bool)>, samples: &mut Vec<String>, shards: &mut Shards) -> usize {
    let tdir = work.join(format!("t{}", tree_idx));
    let root = tdir.join("root dir");
    fs::create_dir_all(&tdir).unwrap();
    let tkind = if corpus == 2 { TreeKind::Wild } else { match rng.below(4) { 0 => TreeKind::Stable, 1 => TreeKind::WildNl, _ => TreeKind::Wild } };
    let mut tree = gen_tree(rng, &root, tkind, 6, cap);
    if tree.files.len() > 160 { // keep option trees small: the subject here is the option plumbing
        for f in tree.files.drain(160..) { let _ = fs::remove_file(root.join(OsString::from_vec(f.rel))); }
    }
    let mut source = String::new();
    if has_math { source.push_str("import \"math\"\n"); }
    source.push_str(OPT_RULES);
    if has_math { source.push_str("rule m_math : t1 { condition: math.abs(-1) == 1 }\n"); }
    let rules_path = tdir.join("rules.yar");
    fs::write(&rules_path, &source).unwrap();
    let compiled_path = tdir.join("rules.yarc");
    let rule_ids: HashMap<String, u64> = OPT_RULE_NAMES.iter().enumerate().map(|(i, n)| (n.to_string(), i as u64)).collect();
    let root_prefix = root.to_string_lossy().to_string();
    let mut path_ids: HashMap<String, u64> = HashMap::new();
    // a scan list may name a file by its absolute path or relative to the working directory of yr (= tdir)
    let rel_prefix = "root dir/".to_string();
    for (i, f) in tree.files.iter().enumerate() {
        path_ids.insert(root.join(OsString::from_vec(f.rel.clone())).to_string_lossy().to_string(), i as u64);
        path_ids.insert(format!("{}{}", rel_prefix, String::from_utf8_lossy(&f.rel)), i as u64);
    }
    let has_newline_name = tree.files.iter().any(|f| f.rel.contains(&b'\n'));
    // cannot be named in a scan list: a name containing a newline, or ending with CR (BufRead::lines strips CR LF)
    let listable = |f: &FileSpec| !f.rel.contains(&b'\n') && !f.rel.ends_with(b"\r");
    stats.inc("trees"); stats.inc("tree_kind_OptionMatrix");
    let mut pushed = 0;
    let nruns = if corpus == 1 { 2 } else if corpus == 2 { 2 } else { 3 };
    for r in 0..nruns {
        if pushed >= budget { break; }
        let mut o = gen_opts(rng, corpus != 0);
        if corpus != 0 && r == 1 { o.ndjson = true; o.threads = 1; }
        if corpus == 2 { o.scan_list = true; o.threads = if r == 0 { 8 } else { 2 }; }
        if has_newline_name { o.ndjson = true; }
        if !has_math { o.ignore_module = false; }
        // ---- library oracle, with the SAME globals and scan options
        let mut comp = yara_x::Compiler::new();
        if o.ignore_module { comp.ignore_module("math"); }
        define_all(&mut comp, &o.scan_vals);
        if let Err(e) = comp.add_source(source.as_str()) { eprintln!("c18: option rules rejected by the library: {e}"); std::process::exit(2); }
        let lib_rules = comp.build();
        let max_depth = if o.scan_list { usize::MAX } else if !o.recursive { 0 } else { o.depth.unwrap_or(1000) };
        let in_scope: Vec<bool> = tree.files.iter().map(|f| f.depth <= max_depth && o.skip_larger.map_or(true, |s| f.content.len() as u64 <= s)).collect();
        // the scan list: one entry per line; (file index, relative?, CRLF ending?) or a junk line
        let mut list_lines: Vec<(Option<usize>, bool, bool)> = vec![];
        if o.scan_list {
            for (i, f) in tree.files.iter().enumerate() {
                if !listable(f) { continue; }
                let times = if rng.chance(1, 10) { 2 } else { 1 };
                for _ in 0..times { list_lines.push((Some(i), rng.chance(2, 5), rng.chance(1, 4))); }
                if rng.chance(1, 10) { list_lines.push((None, rng.chance(1, 2), rng.chance(1, 4))); }   // blank line / missing file
            }
            // Fisher-Yates
            for k in (1..list_lines.len()).rev() { let j = rng.below(k as u64 + 1) as usize; list_lines.swap(k, j); }
        }
        let occurrences: Vec<usize> = if o.scan_list { list_lines.iter().filter_map(|l| l.0).collect() }
                                      else { (0..tree.files.len()).filter(|i| tree.files[*i].depth <= max_depth).collect() };
        let mut tbl: Vec<(u64, Vec<u64>)> = vec![];
        for i in occurrences.iter().cloned() {
            let f = &tree.files[i];
            if !in_scope[i] { continue; }
            let mut sc = yara_x::Scanner::new(&lib_rules);
            if let Some(m) = o.max_matches { sc.max_matches_per_pattern(m); }
            let res = sc.scan(&f.content).expect("library scan");
            let wanted: Vec<yara_x::Rule> = if o.negate { res.non_matching_rules().collect() } else { res.matching_rules().collect() };
            let payloads: Vec<u64> = if o.count { vec![wanted.len() as u64] } else {
                let mut ids: Vec<u64> = wanted.iter().filter(|r| o.tag.map_or(true, |t| r.tags().any(|x| x.identifier() == t))).map(|r| rule_ids[r.identifier()]).collect();
                ids.sort();
                if o.ndjson { vec![ids.iter().fold(0u64, |m, r| m | (1 << r))] } else { ids }
            };
            tbl.push((i as u64, payloads));
        }
        // ---- yr compile with the compile-time values, then both scans
        let mut cc = Command::new(yr);
        cc.arg("compile");
        if o.path_as_namespace { cc.arg("--path-as-namespace"); }
        if o.ignore_module { cc.arg("--ignore-module").arg("math"); }
        for (n, v) in &o.compile_vals { cc.arg("--define").arg(format!("{}={}", n, v.json())); }
        cc.arg("-o").arg(&compiled_path).arg(&rules_path).env("HOME", work);
        let co = run_cmd(cc, limit, false, None);
        if co.status != Some(0) { eprintln!("c18: yr compile (option stream) failed: {}", String::from_utf8_lossy(&co.stderr)); std::process::exit(2); }
        let target: PathBuf = if o.scan_list {
            let lp = tdir.join("list.txt");
            let mut txt: Vec<u8> = vec![];
            for (k, (fi, relative, crlf)) in list_lines.iter().enumerate() {
                match fi {
                    Some(i) => {
                        if *relative { txt.extend_from_slice(rel_prefix.as_bytes()); txt.extend_from_slice(&tree.files[*i].rel); }
                        else { txt.extend_from_slice(root.join(OsString::from_vec(tree.files[*i].rel.clone())).as_os_str().as_encoded_bytes()); }
                    }
                    None => { if *relative { txt.extend_from_slice(format!("{}no-such-file-{}", rel_prefix, k).as_bytes()); } }   // else: a blank line
                }
                if k + 1 < list_lines.len() || rng.chance(1, 2) { if *crlf { txt.push(b'\r'); } txt.push(b'\n'); }
            }
            fs::write(&lp, txt).unwrap();
            stats.add("scan_list_lines", list_lines.len() as u64);
            stats.add("scan_list_lines_relative", list_lines.iter().filter(|l| l.0.is_some() && l.1).count() as u64);
            stats.add("scan_list_lines_crlf", list_lines.iter().filter(|l| l.2).count() as u64);
            stats.add("scan_list_junk_lines", list_lines.iter().filter(|l| l.0.is_none()).count() as u64);
            stats.add("scan_list_names_ending_in_blank", list_lines.iter().filter(|l| l.0.map_or(false, |i| tree.files[i].rel.ends_with(b" ") || tree.files[i].rel.ends_with(b"\t"))).count() as u64);
            lp
        } else { root.clone() };
        let mk_src = || { let mut c = Command::new(yr);
            c.args(scan_args(&o));
            if o.path_as_namespace { c.arg("--path-as-namespace"); }
            if o.ignore_module { c.arg("--ignore-module").arg("math"); }
            c.arg(&rules_path).arg(&target).env("HOME", work).env("NO_COLOR", "1").current_dir(&tdir); c };
        let mk_bin = || { let mut c = Command::new(yr);
            c.args(scan_args(&o)).arg("--compiled-rules").arg(&compiled_path).arg(&target).env("HOME", work).env("NO_COLOR", "1").current_dir(&tdir); c };
        let so = run_retry(&mk_src, limit, false, stats);
        let bo = run_retry(&mk_bin, limit, false, stats);
        let sp = parse_opt_output(&so.stdout, &o, &root_prefix, &path_ids, &rule_ids);
        let bp = parse_opt_output(&bo.stdout, &o, &root_prefix, &path_ids, &rule_ids);
        let mut sl: Vec<&[u8]> = so.stdout.split(|b| *b == b'\n').collect(); sl.sort();
        let mut bl: Vec<&[u8]> = bo.stdout.split(|b| *b == b'\n').collect(); bl.sort();
        let raw_equal = sl == bl;
        let statuses_ok = so.status == Some(0) && bo.status == Some(0) && !so.timed_out && !bo.timed_out;
        let exp: Vec<(u64, u64)> = tbl.iter().flat_map(|(i, ps)| ps.iter().map(move |p| (*i, *p))).collect();
        let (bx, bm, bsum) = diff_summary(&bp.lines, &exp);
        let (sx, sm, ssum) = diff_summary(&sp.lines, &exp);
        let class = if so.timed_out || bo.timed_out { "hang" }
            else if !statuses_ok { "exit-status" }
            else if sx + sm > 0 { "options:source-rules-differ-from-library" }
            else if bx + bm > 0 { "options:compiled-rules-differ-from-source-and-library" }
            else if !raw_equal { "options:compiled-rules-output-differs-from-source-output" }
            else { "ok" };
        stats.inc("runs"); stats.inc("runs_option_matrix");
        stats.inc(if o.ndjson { "mode_Ndjson" } else { "mode_Text" });
        stats.inc(&format!("threads_{}", match o.threads { 1 => "1", 2..=4 => "2-4", 5..=8 => "5-8", 9..=16 => "9-16", _ => "17-32" }));
        stats.add("lines_observed", bp.lines.len() as u64);
        if o.compile_vals.iter().zip(&o.scan_vals).any(|(a, b)| a.1.json() != b.1.json()) { stats.inc("opt_define_differs_from_compile_time"); }
        for (on, name) in [(o.tag.is_some(), "opt_tag"), (o.negate, "opt_negate"), (o.count, "opt_count"), (o.max_matches.is_some(), "opt_max_matches"),
                           (o.print_strings.is_some(), "opt_print_strings"), (o.print_meta, "opt_print_meta"), (o.print_tags, "opt_print_tags"),
                           (o.print_namespace, "opt_print_namespace"), (o.path_as_namespace, "opt_path_as_namespace"), (o.skip_larger.is_some(), "opt_skip_larger"),
                           (o.scan_list, "opt_scan_list"), (o.ignore_module, "opt_ignore_module"), (o.depth.is_some(), "opt_depth_limited"), (!o.recursive, "opt_not_recursive")] {
            if on { stats.inc(name); }
        }
        let class: String = if o.scan_list && class.starts_with("options:") { class.replacen("options:", "scan-list:", 1) } else { class.to_string() };
        if class != "ok" { stats.inc(&format!("class_{}", class)); }
        if tbl.len() >= 2 && o.threads >= 2 { distinct.insert((tree_idx * 16 + r, o.threads, !o.ndjson, true)); }
        let case_seed = rng.next() & 0xffff_ffff_ffff;
        // observed = the compiled-rules run, single = the source-rules run, table = library oracle with the same globals;
        // exit_ok also carries the byte-wise equality of the two outputs (as sorted lines)
        let case = format!("CRun (mkRun {} {} {} {} {} {} {} {})", coq_nat(o.threads),
            coq_list(&tbl, |(i, ps)| format!("({}%N, {})", i, coq_ns(ps))), coq_ns(&[]), coq_ns(&[]),
            coq_pairs(&bp.lines), coq_pairs(&sp.lines), coq_bool(statuses_ok && raw_equal), coq_n(case_seed));
        let cmd_src = format!("yr {} rules.yar <target>", scan_args(&o).join(" "));
        let replay = format!("{{\"kind\":\"option-run\",\"class\":\"{}\",\"seed\":{},\"tree\":{},\"files_in_scope\":{},\"compile_cmd\":{},\"scan_opts\":{},\"compile_time_values\":{},\"scan_time_values\":{},\"exit_source\":{},\"exit_compiled\":{},\"raw_output_equal\":{},\"compiled_vs_library\":{},\"source_vs_library\":{},\"rules\":{},\"stderr_compiled_head\":{}}}",
            class, seed, tree_idx, tbl.len(),
            json_str(&format!("yr compile{}{} {} -o rules.yarc rules.yar", if o.path_as_namespace { " --path-as-namespace" } else { "" }, if o.ignore_module { " --ignore-module math" } else { "" },
                o.compile_vals.iter().map(|(n, v)| format!("--define {}={}", n, v.json())).collect::<Vec<_>>().join(" "))),
            json_str(&cmd_src), json_str(&format!("{:?}", o.compile_vals)), json_str(&format!("{:?}", o.scan_vals)),
            so.status.map_or("null".to_string(), |c| c.to_string()), bo.status.map_or("null".to_string(), |c| c.to_string()), raw_equal,
            json_str(&bsum), json_str(&ssum), json_str(&source), json_str(&String::from_utf8_lossy(&bo.stderr).chars().take(300).collect::<String>()));
        if samples.len() < 3 && tbl.len() >= 3 && tbl.len() <= 12 { samples.push(replay.clone()); }
        shards.push(case, replay);
        pushed += 1;
    }
    let _ = fs::remove_dir_all(&tdir);
    pushed
}

fn main() { let args: Vec<String> = std::env::args().skip(1).collect(); std::process::exit(run(&args)); }

fn run(args: &[String]) -> i32 {
    let seed = arg_u64(args, "--seed", 1);
    let n = arg_u64(args, "--n", 120) as usize;
    let out = arg_val(args, "--out").expect("--out");
    let yr = arg_val(args, "--yr").unwrap_or_else(|| "/repo/target/debug/yr".into());
    let cap = arg_u64(args, "--cap", 128) as usize;
    let runs_per_tree = arg_u64(args, "--runs-per-tree", 4) as usize;
    let prelude = "From Coq Require Import List NArith ZArith Bool.\nFrom YV Require Import Cli.Walk Cli.WalkCheck.\nImport ListNotations.\n";
    let mut shards = Shards::new(Path::new(&out), prelude, 12);
    let work = Path::new(&out).join("work");
    let _ = fs::remove_dir_all(&work);
    fs::create_dir_all(&work).unwrap();
    // the scanning user must be able to traverse down to the tree
    let _ = fs::set_permissions(&work, fs::Permissions::from_mode(0o755));
    let mut rng = Rng::new(seed);
    let mut stats = Stats::default();
    let mut distinct = HashSet::new();
    let mut samples: Vec<String> = vec![];
    let limit = Duration::from_secs(60);
    let is_root = unsafe { libc::geteuid() } == 0;
    // entries "unreadable for the scanning user" need a user for whom chmod 000 means something:
    // as root, yr is started as uid 65534; if that is not possible here the stream is skipped
    let can_restrict = !is_root || {
        let mut c = Command::new(&yr);
        c.arg("help").env("HOME", &work).stdin(Stdio::null()).stdout(Stdio::null()).stderr(Stdio::null());
        unsafe { c.pre_exec(|| { libc::setgroups(0, std::ptr::null()); if libc::setgid(65534) != 0 || libc::setuid(65534) != 0 { return Err(std::io::Error::last_os_error()); } Ok(()) }); }
        matches!(c.status(), Ok(st) if st.success())
    };
    if !can_restrict { stats.inc("perm_stream_skipped_cannot_drop_privileges"); }

    // ---------------- abort probe (first: it is the "corpus" of this check)
    let mut probe_hung = vec![];
    {
        let dir = work.join("probe");
        let rules_path = work.join("slow.yar");
        fs::write(&rules_path, "rule slow { condition: for any i in (0..4000000000) : (i == 3999999999 and filesize == 123456) }\n").unwrap();
        for nfiles in [cap + 1, cap + 2] {
            let _ = fs::remove_dir_all(&dir);
            fs::create_dir_all(&dir).unwrap();
            for i in 0..nfiles { fs::write(dir.join(format!("f{i}")), b"x").unwrap(); }
            let mut cmd = Command::new(&yr);
            cmd.args(["scan", "-p", "1", "-a", "1"]).arg(&rules_path).arg(&dir).env("HOME", &work)
                .stdin(Stdio::null()).stdout(Stdio::null()).stderr(Stdio::null());
            let mut ch = cmd.spawn().expect("spawn yr");
            let t0 = Instant::now();
            let mut hung = false;
            loop {
                if ch.try_wait().unwrap().is_some() { break; }
                if t0.elapsed() > Duration::from_secs(12) {
                    // still alive long after the 1 s timeout: is it idle (blocked), not merely slow?
                    let a = cpu_ticks(ch.id());
                    std::thread::sleep(Duration::from_millis(1500));
                    let b = cpu_ticks(ch.id());
                    if ch.try_wait().unwrap().is_some() { break; }
                    if a.is_some() && a == b { hung = true; let _ = ch.kill(); let _ = ch.wait(); break; }
                    if t0.elapsed() > Duration::from_secs(45) { hung = true; let _ = ch.kill(); let _ = ch.wait(); break; }
                }
                std::thread::sleep(Duration::from_millis(20));
            }
            stats.inc(if hung { "probe_hung" } else { "probe_exited" });
            probe_hung.push((nfiles, hung));
            shards.push(format!("CProbe (mkProbe {} {})", coq_nat(nfiles), coq_bool(hung)),
                format!("{{\"kind\":\"abort-probe\",\"files\":{},\"threads\":1,\"cmd\":\"yr scan -p 1 -a 1 slow.yar <dir with {} files>\",\"hung\":{},\"class\":\"{}\"}}",
                    nfiles, nfiles, hung, if hung { "abort-hang" } else { "abort-exit" }));
        }
        let _ = fs::remove_dir_all(&dir);
    }

    // ---------------- json output: the `file` of every match must be the file that was scanned
    {
        let dir = work.join("json probe");
        let _ = fs::remove_dir_all(&dir);
        fs::create_dir_all(&dir).unwrap();
        fs::write(dir.join("a.bin"), b"xx TOKJ_ xx").unwrap();
        let _ = std::os::unix::fs::symlink("a.bin", dir.join("b.bin"));
        let nu = dir.join(OsString::from_vec(b"n\xff\xfex".to_vec()));
        fs::write(&nu, b"TOKJ_").unwrap();
        let rules_path = work.join("json.yar");
        fs::write(&rules_path, "rule has_tok { strings: $a = \"TOKJ_\" condition: $a }\n").unwrap();
        let ids: HashMap<String, u64> = [(dir.join("b.bin").to_string_lossy().to_string(), 0u64), (dir.join("a.bin").to_string_lossy().to_string(), 1), (nu.to_string_lossy().to_string(), 2)].into_iter().collect();
        for (what, target, expected) in [("symlink given as target", dir.join("b.bin"), vec![(0u64, vec![0u64])]), ("directory with a non-UTF-8 name", dir.clone(), vec![(1, vec![0]), (2, vec![0])])] {
            let o = run_retry(&|| { let mut c = Command::new(&yr); c.args(["scan", "--threads", "2", "--output-format", "json"]).arg(&rules_path).arg(&target).env("HOME", &work); c }, limit, false, &mut stats);
            let mut lines: Vec<(u64, u64)> = vec![];
            let mut files_reported: Vec<String> = vec![];
            match serde_json::from_slice::<serde_json::Value>(&o.stdout) {
                Ok(v) => for m in v.get("matches").and_then(|x| x.as_array()).cloned().unwrap_or_default() {
                    let f = m.get("file").and_then(|x| x.as_str()).unwrap_or("").to_string();
                    lines.push((*ids.get(&f).unwrap_or(&UNKNOWN_FILE), if m.get("rule").and_then(|x| x.as_str()) == Some("has_tok") { 0 } else { UNKNOWN_RULE }));
                    files_reported.push(f);
                },
                Err(_) => lines.push((UNKNOWN_FILE, UNKNOWN_RULE)),
            }
            lines.sort();
            let exp: Vec<(u64, u64)> = expected.iter().flat_map(|(i, ps)| ps.iter().map(move |p| (*i, *p))).collect();
            let ok = lines == exp && o.status == Some(0);
            stats.inc(if ok { "json_probe_ok" } else { "json_probe_file_misattributed" });
            shards.push(format!("CRun (mkRun {} {} {} {} {} {} {} {})", coq_nat(2), coq_list(&expected, |(i, ps)| format!("({}%N, {})", i, coq_ns(ps))),
                    coq_ns(&[]), coq_ns(&[]), coq_pairs(&lines), coq_pairs(&lines), coq_bool(o.status == Some(0) && !o.timed_out), coq_n(7)),
                format!("{{\"kind\":\"json-probe\",\"class\":\"{}\",\"what\":{},\"cmd\":{},\"files_reported\":{},\"expected_file\":{}}}",
                    if ok { "ok" } else { "json-output-file-attribution" }, json_str(what), json_str(&format!("yr scan --threads 2 --output-format json json.yar {}", target.to_string_lossy())),
                    json_str(&format!("{:?}", files_reported)), json_str(&format!("{:?}", expected.iter().map(|(i, _)| ids.iter().find(|(_, v)| *v == i).map(|(k, _)| k.clone()).unwrap_or_default()).collect::<Vec<_>>()))));
        }
        let _ = fs::remove_dir_all(&dir);
    }

    // ---------------- trees
    let has_math = yara_x::Compiler::new().add_source("import \"math\" rule t { condition: math.abs(-1) == 1 }").is_ok();
    let mut tree_idx = 0usize;
    let mut run_cases = 0usize;
    while run_cases < n {
        tree_idx += 1;
        // option matrix (source rules vs compiled rules): the second and third tree of every run are fixed regression cases
        // (--define values that differ from the ones given to `yr compile`; a scan list naming a file whose name ends
        // with a space), then 30% of the trees
        if tree_idx == 2 || tree_idx == 3 || (tree_idx > 3 && rng.chance(3, 10)) {
            run_cases += option_tree(&mut rng, &work, tree_idx, &yr, cap, limit, seed, has_math, if tree_idx == 2 { 1 } else if tree_idx == 3 { 2 } else { 0 }, n - run_cases,
                                     &mut stats, &mut distinct, &mut samples, &mut shards);
            continue;
        }
        // regression corpus first: a tree with file names that are not UTF-8 (ndjson used to panic: fix 20aad900)
        let kind = if tree_idx == 1 { rng.below(20); TreeKind::NonUtf8 } else { match rng.below(20) {
            0..=7 => TreeKind::Stable,
            8..=9 => TreeKind::Wild,
            10..=11 => TreeKind::WildNl,
            12..=14 => if can_restrict { TreeKind::Perm } else { TreeKind::Stable },
            15..=17 => TreeKind::Mutate,
            _ => TreeKind::NonUtf8,
        } };
        let rs = gen_rules(&mut rng);
        let rule_ids: HashMap<String, u64> = rs.names.iter().enumerate().map(|(i, n)| (n.clone(), i as u64)).collect();
        let tdir = work.join(format!("t{}", tree_idx));
        let root = tdir.join("root dir");
        fs::create_dir_all(&tdir).unwrap();
        let tree = gen_tree(&mut rng, &root, kind, rs.names.len(), cap);
        let rules_path = tdir.join("rules.yar");
        fs::write(&rules_path, &rs.source).unwrap();
        let compiled_path = tdir.join("rules.yarc");
        // oracle
        let mut comp = yara_x::Compiler::new();
        if let Err(e) = comp.add_source(rs.source.as_str()) { eprintln!("c18: generator produced a rejected source: {e}\n{}", rs.source); return 2; }
        let lib_rules = comp.build();
        let oracle = library_oracle(&lib_rules, &tree, &rule_ids);
        // yr compile
        let mut cc = Command::new(&yr);
        cc.arg("compile").arg("-o").arg(&compiled_path).arg(&rules_path).env("HOME", &work);
        let co = run_cmd(cc, limit, false, None);
        if co.status != Some(0) {
            eprintln!("c18: yr compile failed: {}", String::from_utf8_lossy(&co.stderr)); return 2;
        }
        // recursion option of this tree
        let (depth_arg, max_depth): (Option<String>, usize) = match rng.below(10) {
            0 => (None, 0),
            1 | 2 => { let k = 1 + rng.below(3) as usize; (Some(format!("--recursive={}", k)), k) }
            _ => (Some("--recursive".into()), 1000),
        };
        // displayed path -> file id
        let mut path_ids: HashMap<String, u64> = HashMap::new();
        let mut ambiguous = false;
        for (i, f) in tree.files.iter().enumerate() {
            let p = root.join(OsString::from_vec(f.rel.clone()));
            if path_ids.insert(p.to_string_lossy().to_string(), i as u64).is_some() { ambiguous = true; }
        }
        if ambiguous { unlock_tree(&tree); let _ = fs::remove_dir_all(&tdir); continue; }
        let in_scope: Vec<bool> = tree.files.iter().map(|f| f.depth <= max_depth).collect();
        let has_non_utf8 = tree.files.iter().zip(&in_scope).any(|(f, s)| *s && std::str::from_utf8(&f.rel).is_err());

        stats.inc("trees");
        stats.inc(&format!("tree_kind_{:?}", kind));
        stats.inc(&format!("tree_files_{}", match tree.files.len() { 0 => "0", 1..=9 => "1-9", 10..=49 => "10-49", 50..=128 => "50-128", _ => "129+" }));
        stats.inc(&format!("depth_opt_{}", match max_depth { 0 => "none", 1000 => "unlimited", _ => "limited" }));
        stats.add("files_total", tree.files.len() as u64);
        stats.add("empty_files", tree.files.iter().filter(|f| f.content.is_empty()).count() as u64);

        // a tree that is mutated is used for one mode only (the mutation destroys it)
        let modes: Vec<Mode> = if kind == TreeKind::Mutate { vec![if rng.chance(1, 2) { Mode::Text } else { Mode::Ndjson }] }
            else if kind == TreeKind::WildNl { vec![Mode::Ndjson] }   // a name with a newline splits text lines
            else { vec![Mode::Text, Mode::Ndjson] };
        for mode in modes {
            let table = |i: usize| -> Vec<u64> {
                match mode { Mode::Text => oracle[i].clone(), Mode::Ndjson => vec![oracle[i].iter().fold(0u64, |m, r| m | (1 << r))] }
            };
            let base_cmd = |threads: usize, compiled: bool| -> Command {
                let mut c = Command::new(&yr);
                c.arg("scan").arg("--threads").arg(threads.to_string()).arg("--disable-console-logs");
                if let Some(d) = &depth_arg { c.arg(d); }
                if mode == Mode::Ndjson { c.arg("--output-format").arg("ndjson"); }
                if compiled { c.arg("--compiled-rules").arg(&compiled_path); } else { c.arg(&rules_path); }
                c.arg(&root).env("HOME", &work).env("NO_COLOR", "1");
                c
            };
            let drop_priv = kind == TreeKind::Perm && is_root;
            // reference: one thread, intact tree
            let single = run_retry(&|| base_cmd(1, false), limit, drop_priv, &mut stats);
            let single_p = parse_output(&single.stdout, mode, &path_ids, &rule_ids);
            let single_ok = single.status == Some(0) && !single.timed_out;

            let nruns = if kind == TreeKind::Mutate { 1 } else { runs_per_tree / 2 };
            for _ in 0..nruns.max(1) {
                if run_cases >= n { break; }
                let threads = match rng.below(8) { 0 => 1, 1 => 2, 2 => 3 + rng.below(5) as usize, 3 => 8, 4 => 16, 5 => 32, _ => 1 + rng.below(32) as usize };
                let compiled = rng.chance(1, 3);
                let case_seed = rng.next() & 0xffff_ffff_ffff;
                // files removed while the walk is in progress (each tree is mutated once, in its last run)
                let mut mutated: Vec<u64> = vec![];
                if kind == TreeKind::Mutate {
                    for (i, s) in in_scope.iter().enumerate() { if *s && rng.chance(1, 3) { mutated.push(i as u64); } }
                }
                let victims: Vec<PathBuf> = mutated.iter().map(|i| root.join(OsString::from_vec(tree.files[*i as usize].rel.clone()))).collect();
                let delay_us = rng.below(2000);
                let during = || {
                    std::thread::sleep(Duration::from_micros(delay_us));
                    for v in &victims { let _ = fs::remove_file(v); std::thread::sleep(Duration::from_micros(30)); }
                };
                let o = if victims.is_empty() { run_retry(&|| base_cmd(threads, compiled), limit, drop_priv, &mut stats) }
                        else { run_cmd(base_cmd(threads, compiled), limit, drop_priv, Some(&during)) };
                if o.timed_out && !victims.is_empty() {
                    // the tree has been mutated: the run cannot be repeated; other streams cover hangs
                    stats.inc("mutated_tree_run_hit_time_limit_skipped");
                    continue;
                }
                let p = parse_output(&o.stdout, mode, &path_ids, &rule_ids);
                let (errored, other_errs, unknown_errs) = parse_errors(&o.stderr, &path_ids);
                let exit_ok = o.status == Some(0) && !o.timed_out && single_ok;

                // files that cannot be scanned by construction count as "mutated": the
                // specification then accepts "error line, no result" or "not seen"
                let mut touched: Vec<u64> = mutated.clone();
                for (i, f) in tree.files.iter().enumerate() {
                    if in_scope[i] && (f.unreadable || f.hidden_by_dir) && !touched.contains(&(i as u64)) { touched.push(i as u64); }
                }
                touched.sort();
                let tbl: Vec<(u64, Vec<u64>)> = (0..tree.files.len()).filter(|i| in_scope[*i]).map(|i| (i as u64, table(i))).collect();
                let tbl_single: Vec<(u64, u64)> = tbl.iter().filter(|(i, _)| { let f = &tree.files[*i as usize]; !(f.unreadable || f.hidden_by_dir) })
                    .flat_map(|(i, ps)| ps.iter().map(move |p| (*i, *p))).collect();
                let exp_all: Vec<(u64, u64)> = tbl.iter().flat_map(|(i, ps)| ps.iter().map(move |p| (*i, *p))).collect();
                let exp_stable: Vec<(u64, u64)> = tbl.iter().filter(|(i, _)| !touched.contains(i)).flat_map(|(i, ps)| ps.iter().map(move |p| (*i, *p))).collect();
                let obs_stable: Vec<(u64, u64)> = p.lines.iter().filter(|(f, _)| !touched.contains(f)).cloned().collect();
                let (extra, missing, summary) = diff_summary(&obs_stable, &exp_stable);
                let (sx, sm, ssummary) = diff_summary(&single_p.lines, &tbl_single);
                let panicked = String::from_utf8_lossy(&o.stderr).contains("panicked at") || String::from_utf8_lossy(&single.stderr).contains("panicked at");
                let class = if o.timed_out || single.timed_out { "hang" }
                    else if panicked && has_non_utf8 && mode == Mode::Ndjson && (String::from_utf8_lossy(&o.stderr).contains("Option::unwrap") || String::from_utf8_lossy(&single.stderr).contains("Option::unwrap")) { "ndjson-non-utf8-path-panic" }
                    else if panicked { "panic" }
                    else if !exit_ok { "exit-status" }
                    else if sx + sm > 0 { "single-thread-differs-from-library" }
                    else if extra > 0 && missing > 0 { "misattributed-or-mixed" }
                    else if extra > 0 { "duplicated-or-spurious" }
                    else if missing > 0 { "lost" }
                    else if errored.iter().any(|e| !touched.contains(e)) { "unexpected-error-line" }
                    else { "ok" };

                stats.inc("runs");
                stats.inc(&format!("mode_{:?}", mode));
                stats.inc(if compiled { "rules_compiled" } else { "rules_source" });
                stats.inc(&format!("threads_{}", match threads { 1 => "1", 2..=4 => "2-4", 5..=8 => "5-8", 9..=16 => "9-16", _ => "17-32" }));
                stats.add("lines_observed", p.lines.len() as u64);
                if !mutated.is_empty() { stats.inc("runs_with_removed_files"); stats.add("removed_files", mutated.len() as u64);
                    stats.add("removed_seen_with_lines", mutated.iter().filter(|m| p.lines.iter().any(|(f, _)| f == *m)).count() as u64); }
                if !mutated.is_empty() { stats.add("removed_reported_as_error", mutated.iter().filter(|m| errored.contains(*m)).count() as u64); }
                if !errored.is_empty() { stats.inc("runs_with_scan_errors"); stats.add("scan_error_lines", errored.len() as u64); }
                if other_errs > 0 { stats.add("walk_error_lines", other_errs as u64); }
                if unknown_errs > 0 { stats.add("error_lines_unknown_path", unknown_errs as u64); }
                if p.bad_lines > 0 { stats.add("unparsable_lines", p.bad_lines as u64); }
                if class != "ok" { stats.inc(&format!("class_{}", class)); }
                if tbl.len() >= 2 && threads >= 2 { distinct.insert((tree_idx, threads, mode == Mode::Text, compiled)); }

                let case = format!("CRun (mkRun {} {} {} {} {} {} {} {})", coq_nat(threads),
                    coq_list(&tbl, |(i, ps)| format!("({}%N, {})", i, coq_ns(ps))),
                    coq_ns(&touched), coq_ns(&errored), coq_pairs(&p.lines), coq_pairs(&single_p.lines), coq_bool(exit_ok), coq_n(case_seed));
                let cmdline = format!("yr scan --threads {} --disable-console-logs {}{}{} <root>", threads,
                    depth_arg.clone().unwrap_or_default(), if mode == Mode::Ndjson { " --output-format ndjson" } else { "" },
                    if compiled { " --compiled-rules rules.yarc" } else { " rules.yar" });
                let files_json: Vec<String> = tree.files.iter().enumerate().filter(|(i, _)| in_scope[*i]).take(60).map(|(i, f)|
                    format!("{{\"id\":{},\"path_hex\":\"{}\",\"size\":{},\"content_hex\":\"{}\",\"rules\":{:?},\"unreadable\":{}}}", i, hex(&f.rel), f.content.len(),
                        hex(&f.content[..f.content.len().min(200)]), oracle[i], f.unreadable || f.hidden_by_dir)).collect();
                let replay = format!("{{\"kind\":\"run\",\"class\":\"{}\",\"seed\":{},\"tree\":{},\"tree_kind\":\"{:?}\",\"files_in_scope\":{},\"cmd\":{},\"mode\":\"{:?}\",\"threads\":{},\"compiled\":{},\"exit\":{},\"timed_out\":{},\"single_exit\":{},\"diff_vs_library\":{},\"single_diff_vs_library\":{},\"removed\":{:?},\"errored\":{:?},\"rules\":{},\"files\":[{}],\"stderr_head\":{}}}",
                    class, seed, tree_idx, kind, tbl.len(), json_str(&cmdline), mode, threads, compiled,
                    o.status.map_or("null".to_string(), |c| c.to_string()), o.timed_out, single.status.map_or("null".to_string(), |c| c.to_string()),
                    json_str(&summary), json_str(&ssummary), mutated, errored, json_str(&rs.source), files_json.join(","),
                    json_str(&String::from_utf8_lossy(&o.stderr).chars().take(400).collect::<String>()));
                if samples.len() < 3 && tbl.len() >= 3 && tbl.len() <= 12 && threads >= 2 { samples.push(replay.clone()); }
                let _ = exp_all;
                shards.push(case, replay);
                run_cases += 1;
            }
        }
        unlock_tree(&tree);
        let _ = fs::remove_dir_all(&tdir);
    }
    shards.flush();
    let _ = fs::remove_dir_all(&work);
    println!("{{\"evaluations\":{},\"distinct_nontrivial\":{},\"shards\":{},\"probe\":[{}],\"distribution\":{},\"samples\":[{}]}}",
        shards.total, distinct.len(), shards.shard_count,
        probe_hung.iter().map(|(n, h)| format!("{{\"files\":{},\"hung\":{}}}", n, h)).collect::<Vec<_>>().join(","),
        stats.json(), samples.join(","));
    0
}
