//! C19: the C API gives the same answers as the Rust API and reports errors as codes.
//!
//! (a) parity: generated rule sets / globals / buffers compiled and scanned through
//!     yrx_* (callbacks collecting everything a C program can see) and through the
//!     Rust API; canonical dumps compared in Coq.
//! (b) error plumbing: random sequences of yrx_* calls (valid and invalid) on one or
//!     two threads; per call the result code and the calling thread's last-error slot
//!     before/after (and the other thread's) are recorded and replayed in Coq against
//!     the effect table generated from capi/src (Gen/CapiEffects.v).
//!
//! A panic inside an `extern "C"` function aborts the process, so cases run in a
//! child process (batches; the parent restarts after the case that killed the child).
#![allow(improper_ctypes, non_camel_case_types, clippy::missing_safety_doc)]
use std::collections::HashMap;
use std::ffi::{c_char, c_void, CStr, CString};
use std::io::{BufRead, Write};
use std::path::Path;
use std::ptr::{null, null_mut};
use verif_harness::util::*;
use yara_x_capi::*;

// `mod compiler` of the capi crate is private: its #[no_mangle] functions are
// reachable through their C symbols only.
#[repr(C)]
pub struct YRX_COMPILER { _p: [u8; 0] }
extern "C" {
    fn yrx_compiler_create(flags: u32, compiler: *mut *mut YRX_COMPILER) -> YRX_RESULT;
    fn yrx_compiler_destroy(compiler: *mut YRX_COMPILER);
    fn yrx_compiler_add_source(compiler: *mut YRX_COMPILER, src: *const c_char) -> YRX_RESULT;
    fn yrx_compiler_add_source_with_origin(compiler: *mut YRX_COMPILER, src: *const c_char, origin: *const c_char) -> YRX_RESULT;
    fn yrx_compiler_add_include_dir(compiler: *mut YRX_COMPILER, dir: *const c_char) -> YRX_RESULT;
    fn yrx_compiler_ignore_module(compiler: *mut YRX_COMPILER, module: *const c_char) -> YRX_RESULT;
    fn yrx_compiler_max_warnings(compiler: *mut YRX_COMPILER, n: usize) -> YRX_RESULT;
    fn yrx_compiler_enable_feature(compiler: *mut YRX_COMPILER, feature: *const c_char) -> YRX_RESULT;
    fn yrx_compiler_ban_module(compiler: *mut YRX_COMPILER, module: *const c_char, t: *const c_char, m: *const c_char) -> YRX_RESULT;
    fn yrx_compiler_new_namespace(compiler: *mut YRX_COMPILER, ns: *const c_char) -> YRX_RESULT;
    fn yrx_compiler_define_global_str(compiler: *mut YRX_COMPILER, ident: *const c_char, value: *const c_char) -> YRX_RESULT;
    fn yrx_compiler_define_global_bool(compiler: *mut YRX_COMPILER, ident: *const c_char, value: bool) -> YRX_RESULT;
    fn yrx_compiler_define_global_int(compiler: *mut YRX_COMPILER, ident: *const c_char, value: i64) -> YRX_RESULT;
    fn yrx_compiler_define_global_float(compiler: *mut YRX_COMPILER, ident: *const c_char, value: f64) -> YRX_RESULT;
    fn yrx_compiler_define_global_json(compiler: *mut YRX_COMPILER, ident: *const c_char, value: *const c_char) -> YRX_RESULT;
    fn yrx_compiler_errors_json(compiler: *mut YRX_COMPILER, buf: *mut *mut YRX_BUFFER) -> YRX_RESULT;
    fn yrx_compiler_warnings_json(compiler: *mut YRX_COMPILER, buf: *mut *mut YRX_BUFFER) -> YRX_RESULT;
    fn yrx_compiler_build(compiler: *mut YRX_COMPILER) -> *mut YRX_RULES;
}

// ------------------------------------------------------------------ recording
fn slot() -> Option<String> {
    unsafe {
        let p = yrx_last_error();
        if p.is_null() { None } else { Some(String::from_utf8_lossy(CStr::from_ptr(p).to_bytes()).into_owned()) }
    }
}

#[derive(Clone, Debug)]
pub struct Ev {
    tid: u64,
    f: &'static str,
    code: Option<u32>,
    before: Option<String>,
    after: Option<String>,
    other: Option<(Option<String>, Option<String>)>,
}

pub struct Rec { tid: u64, evs: Vec<Ev> }
impl Rec {
    fn new(tid: u64) -> Self { Rec { tid, evs: vec![] } }
    /// a call returning YRX_RESULT
    fn r<F: FnOnce() -> YRX_RESULT>(&mut self, f: &'static str, call: F) -> u32 {
        let before = slot();
        let code = call() as u32;
        let after = slot();
        self.evs.push(Ev { tid: self.tid, f, code: Some(code), before, after, other: None });
        code
    }
    /// a call that does not return YRX_RESULT
    fn o<T, F: FnOnce() -> T>(&mut self, f: &'static str, call: F) -> T {
        let before = slot();
        let v = call();
        let after = slot();
        self.evs.push(Ev { tid: self.tid, f, code: None, before, after, other: None });
        v
    }
}

const SUCCESS: u32 = 0;
const SYNTAX_ERROR: u32 = 1;
const SCAN_ERROR: u32 = 3;
const SCAN_TIMEOUT: u32 = 4;
const INVALID_STATE: u32 = 7;

struct Interner(HashMap<Vec<u8>, u64>, Vec<Vec<u8>>);
impl Interner {
    fn new() -> Self { Interner(HashMap::new(), vec![]) }
    fn id(&mut self, s: &[u8]) -> u64 {
        if let Some(i) = self.0.get(s) { return *i; }
        let i = self.1.len() as u64 + 1;
        self.0.insert(s.to_vec(), i);
        self.1.push(s.to_vec());
        i
    }
}

fn coq_ev(e: &Ev, it: &mut Interner) -> String {
    let mut o = |x: &Option<String>| match x { None => "None".to_string(), Some(s) => format!("(Some {})", coq_n(it.id(s.as_bytes()))) };
    let before = o(&e.before);
    let after = o(&e.after);
    let other = match &e.other { None => "None".to_string(), Some((b, a)) => format!("(Some ({}, {}))", o(b), o(a)) };
    // the message read on this thread names an object of the other thread
    let foreign = e.after.as_ref().map_or(false, |m| m.contains(&format!("t{}_", 1 - e.tid)));
    format!("mkObs {} F_{} {} {} {} {} {}", coq_n(e.tid), e.f,
        match e.code { None => "None".to_string(), Some(c) => format!("(Some {})", coq_n(c as u64)) },
        before, after, other, coq_bool(foreign))
}

fn json_ev(e: &Ev) -> String {
    format!("{{\"tid\":{},\"fn\":\"{}\",\"code\":{},\"before\":{},\"after\":{},\"other\":{}}}", e.tid, e.f,
        e.code.map_or("null".into(), |c| c.to_string()),
        e.before.as_ref().map_or("null".into(), |s| json_str(s)), e.after.as_ref().map_or("null".into(), |s| json_str(s)),
        match &e.other { None => "null".into(), Some((b, a)) => format!("[{},{}]", b.as_ref().map_or("null".into(), |s| json_str(s)), a.as_ref().map_or("null".into(), |s| json_str(s))) })
}

// ------------------------------------------------------------------ dumps
#[derive(Clone, Debug, PartialEq)]
enum Meta { Int(i64), Float(u64), Bool(bool), Str(Vec<u8>), Bytes(Vec<u8>) }
#[derive(Clone, Debug, PartialEq, Default)]
struct RuleDump { ns: Vec<u8>, ident: Vec<u8>, tags: Vec<Vec<u8>>, meta: Vec<(Vec<u8>, Meta)>, pats: Vec<(Vec<u8>, Vec<(usize, usize)>)> }
#[derive(Clone, Debug, PartialEq, Default)]
struct ScanDump { status: u64, extra: Vec<Vec<u8>>, rules: Vec<RuleDump> }

fn coq_dump(d: &ScanDump, it: &mut Interner) -> String {
    let rules = d.rules.iter().map(|r| {
        let tags = r.tags.iter().map(|t| coq_n(it.id(t))).collect::<Vec<_>>().join("; ");
        let meta = r.meta.iter().map(|(k, v)| format!("({}, {})", coq_n(it.id(k)), match v {
            Meta::Int(i) => format!("MInt {}", coq_z(*i as i128)),
            Meta::Float(b) => format!("MFloat {}", coq_n(*b)),
            Meta::Bool(b) => format!("MBool {}", coq_bool(*b)),
            Meta::Str(s) => format!("MStr {}", coq_n(it.id(s))),
            Meta::Bytes(s) => format!("MBytes {}", coq_n(it.id(s))) })).collect::<Vec<_>>().join("; ");
        let pats = r.pats.iter().map(|(p, ms)| format!("({}, [{}])", coq_n(it.id(p)),
            ms.iter().map(|(o, l)| format!("({}, {})", coq_n(*o as u64), coq_n(*l as u64))).collect::<Vec<_>>().join("; "))).collect::<Vec<_>>().join("; ");
        format!("mkRule {} {} [{}] [{}] [{}]", coq_n(it.id(&r.ns)), coq_n(it.id(&r.ident)), tags, meta, pats)
    }).collect::<Vec<_>>().join("; ");
    let extra = d.extra.iter().map(|t| coq_n(it.id(t))).collect::<Vec<_>>().join("; ");
    format!("mkScan {} [{}] [{}]", coq_n(d.status), extra, rules)
}

fn lossy(b: &[u8]) -> String { String::from_utf8_lossy(b).into_owned() }
fn json_dump(d: &ScanDump) -> String {
    let rules = d.rules.iter().map(|r| format!("{{\"ns\":{},\"id\":{},\"tags\":[{}],\"meta\":{},\"pats\":{}}}",
        json_str(&lossy(&r.ns)), json_str(&lossy(&r.ident)),
        r.tags.iter().map(|t| json_str(&lossy(t))).collect::<Vec<_>>().join(","),
        json_str(&format!("{:?}", r.meta.iter().map(|(k, v)| (lossy(k), match v { Meta::Str(s) => format!("Str({:?})", lossy(s)), Meta::Bytes(s) => format!("Bytes({})", hex(s)), x => format!("{:?}", x) })).collect::<Vec<_>>())),
        json_str(&format!("{:?}", r.pats.iter().map(|(k, v)| (lossy(k), v.clone())).collect::<Vec<_>>())))).collect::<Vec<_>>().join(",");
    format!("{{\"status\":{},\"extra\":[{}],\"rules\":[{}]}}", d.status, d.extra.iter().map(|t| json_str(&lossy(t))).collect::<Vec<_>>().join(","), rules)
}

// ---- C side: callbacks (they call back into the API, which is what a C program does)
unsafe fn bytes_of(p: *const u8, len: usize) -> Vec<u8> { if p.is_null() { vec![] } else { std::slice::from_raw_parts(p, len).to_vec() } }

extern "C" fn cb_match(m: *const YRX_MATCH, ud: *mut c_void) {
    unsafe { (*(ud as *mut Vec<(usize, usize)>)).push(((*m).offset, (*m).length)); }
}
extern "C" fn cb_pattern(p: *const YRX_PATTERN, ud: *mut c_void) {
    unsafe {
        let out = &mut *(ud as *mut Vec<(Vec<u8>, Vec<(usize, usize)>)>);
        let (mut ptr, mut len) = (null::<u8>(), 0usize);
        yrx_pattern_identifier(p, &mut ptr, &mut len);
        let mut ms: Vec<(usize, usize)> = vec![];
        yrx_pattern_iter_matches(p, cb_match, &mut ms as *mut _ as *mut c_void);
        out.push((bytes_of(ptr, len), ms));
    }
}
extern "C" fn cb_tag(t: *const c_char, ud: *mut c_void) {
    unsafe { (*(ud as *mut Vec<Vec<u8>>)).push(CStr::from_ptr(t).to_bytes().to_vec()); }
}
extern "C" fn cb_meta(m: *const YRX_METADATA, ud: *mut c_void) {
    unsafe {
        let out = &mut *(ud as *mut Vec<(Vec<u8>, Meta)>);
        let m = &*m;
        let k = CStr::from_ptr(m.identifier).to_bytes().to_vec();
        let v = match m.value_type {
            YRX_METADATA_TYPE::YRX_I64 => Meta::Int(m.value.r#i64),
            YRX_METADATA_TYPE::YRX_F64 => Meta::Float(m.value.r#f64.to_bits()),
            YRX_METADATA_TYPE::YRX_BOOLEAN => Meta::Bool(m.value.boolean),
            YRX_METADATA_TYPE::YRX_STRING => Meta::Str(CStr::from_ptr(m.value.string).to_bytes().to_vec()),
            YRX_METADATA_TYPE::YRX_BYTES => Meta::Bytes(bytes_of(m.value.bytes.data, m.value.bytes.length)),
        };
        out.push((k, v));
    }
}
extern "C" fn cb_rule(r: *const YRX_RULE, ud: *mut c_void) {
    unsafe {
        let out = &mut *(ud as *mut Vec<RuleDump>);
        let mut d = RuleDump::default();
        let (mut ptr, mut len) = (null::<u8>(), 0usize);
        yrx_rule_identifier(r, &mut ptr, &mut len); d.ident = bytes_of(ptr, len);
        yrx_rule_namespace(r, &mut ptr, &mut len); d.ns = bytes_of(ptr, len);
        yrx_rule_iter_tags(r, cb_tag, &mut d.tags as *mut _ as *mut c_void);
        yrx_rule_iter_metadata(r, cb_meta, &mut d.meta as *mut _ as *mut c_void);
        yrx_rule_iter_patterns(r, cb_pattern, &mut d.pats as *mut _ as *mut c_void);
        out.push(d);
    }
}
extern "C" fn cb_import(m: *const c_char, ud: *mut c_void) {
    unsafe { (*(ud as *mut Vec<Vec<u8>>)).push(CStr::from_ptr(m).to_bytes().to_vec()); }
}
/// callbacks of the plumbing sequences: they do not call back into the API
extern "C" fn cb_rule_count(_r: *const YRX_RULE, ud: *mut c_void) { unsafe { *(ud as *mut usize) += 1; } }
extern "C" fn cb_import_count(_m: *const c_char, ud: *mut c_void) { unsafe { *(ud as *mut usize) += 1; } }
thread_local! { static CONSOLE: std::cell::RefCell<Vec<Vec<u8>>> = const { std::cell::RefCell::new(vec![]) }; }
extern "C" fn cb_console(m: *const c_char) {
    if !m.is_null() { let b = unsafe { CStr::from_ptr(m).to_bytes().to_vec() }; CONSOLE.with_borrow_mut(|v| v.push(b)); }
}
extern "C" fn cb_slowest(_n: *const c_char, _r: *const c_char, _a: f64, _b: f64, _ud: *mut c_void) {}

// ---- Rust side
fn rust_rule(r: &yara_x::Rule) -> RuleDump {
    RuleDump {
        ns: r.namespace().as_bytes().to_vec(), ident: r.identifier().as_bytes().to_vec(),
        tags: r.tags().map(|t| t.identifier().as_bytes().to_vec()).collect(),
        meta: r.metadata().map(|(k, v)| (k.as_bytes().to_vec(), match v {
            yara_x::MetaValue::Integer(i) => Meta::Int(i), yara_x::MetaValue::Float(f) => Meta::Float(f.to_bits()),
            yara_x::MetaValue::Bool(b) => Meta::Bool(b),
            // documented conversion of the C API: a string that contains NUL cannot be a C string and is
            // exposed as YRX_BYTES; every other string must arrive as YRX_STRING
            yara_x::MetaValue::String(s) if s.as_bytes().contains(&0) => Meta::Bytes(s.as_bytes().to_vec()),
            yara_x::MetaValue::String(s) => Meta::Str(s.as_bytes().to_vec()),
            yara_x::MetaValue::Bytes(b) => Meta::Bytes(b.to_vec()) })).collect(),
        pats: r.patterns().map(|p| (p.identifier().as_bytes().to_vec(), p.matches().map(|m| (m.range().start, m.range().len())).collect())).collect(),
    }
}
fn rust_results(res: Result<yara_x::ScanResults, yara_x::errors::ScanError>) -> ScanDump {
    match res {
        Ok(r) => ScanDump { status: 0, extra: vec![], rules: r.matching_rules().map(|x| rust_rule(&x)).collect() },
        Err(yara_x::errors::ScanError::Timeout) => ScanDump { status: 3, ..Default::default() },
        Err(_) => ScanDump { status: 2, ..Default::default() },
    }
}
fn c_status(code: u32) -> u64 { match code { SUCCESS => 0, SCAN_ERROR => 2, SCAN_TIMEOUT => 3, INVALID_STATE => 4, _ => 5 } }

fn cs(s: &str) -> CString { CString::new(s).expect("generator produced a NUL") }
fn csb(b: &[u8]) -> CString { CString::new(b.to_vec()).expect("generator produced a NUL") }

include!("../c19/parity.rs");
include!("../c19/plumb.rs");
include!("../c19/pending.rs");
include!("../c19/main.rs");
