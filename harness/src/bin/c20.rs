//! C20: suggested fixes can be applied together and equivalent rewrites keep meaning.
//!
//! For generated sources that trigger fixable diagnostics (alone, combined,
//! nested, chained) the harness collects the patches the compiler attaches to
//! warnings, applies them, recompiles and compares scan results; for a
//! subset it also runs the real `yr fix warnings` on a temporary copy. Cases
//! are evaluated by Fix/FixCheck.v (model of cli/src/commands/fix.rs = K;
//! the property on the implementation's own output = S).
use std::collections::BTreeSet;
use std::panic::AssertUnwindSafe;
use std::path::Path;
use verif_harness::util::*;
use yara_x_parser::cst::{CSTStream, Event};
use yara_x_parser::Parser;

#[derive(Clone, Debug, PartialEq)]
pub struct P { pub code: String, pub origin: String, pub start: usize, pub end: usize, pub repl: String }

pub struct Compiled { pub rules: Option<yara_x::Rules>, pub patches: Vec<P>, pub warning_codes: Vec<String>, pub errors: Vec<String> }

pub fn compile(src: &[u8]) -> Compiled { compile_in(src, "case.yar", None) }

/// Compiles `src` (origin `origin`); `include "x"` is resolved in `dir`.
pub fn compile_in(src: &[u8], origin: &str, dir: Option<&Path>) -> Compiled {
    let mut c = yara_x::Compiler::new();
    if let Some(d) = dir { c.add_include_dir(d); }
    let r_ok = c.add_source(yara_x::SourceCode::from(src).with_origin(origin)).is_ok();
    let mut patches = vec![];
    let mut codes = vec![];
    for w in c.warnings() {
        codes.push(w.code().to_string());
        for p in w.patches() {
            patches.push(P { code: w.code().to_string(), origin: p.origin().unwrap_or_default(), start: p.span().start(), end: p.span().end(), repl: p.replacement().to_string() });
        }
    }
    let errors: Vec<String> = c.errors().iter().map(|e| e.code().to_string()).collect();
    let ok = r_ok && errors.is_empty();
    Compiled { rules: if ok { Some(c.build()) } else { None }, patches, warning_codes: codes, errors }
}

/// Compiles several sources with one compiler, each under its own origin and,
/// when given, in its own namespace.
pub fn compile_many(files: &[(String, Vec<u8>, Option<String>)]) -> Compiled {
    let mut c = yara_x::Compiler::new();
    let mut r_ok = true;
    for (origin, text, ns) in files {
        if let Some(ns) = ns { c.new_namespace(ns); }
        r_ok &= c.add_source(yara_x::SourceCode::from(text.as_slice()).with_origin(origin)).is_ok();
    }
    let mut patches = vec![];
    let mut codes = vec![];
    for w in c.warnings() {
        codes.push(w.code().to_string());
        for p in w.patches() {
            patches.push(P { code: w.code().to_string(), origin: p.origin().unwrap_or_default(), start: p.span().start(), end: p.span().end(), repl: p.replacement().to_string() });
        }
    }
    let errors: Vec<String> = c.errors().iter().map(|e| e.code().to_string()).collect();
    let ok = r_ok && errors.is_empty();
    Compiled { rules: if ok { Some(c.build()) } else { None }, patches, warning_codes: codes, errors }
}

/// Is the text a patch replaces what its diagnostic talks about, and (for the
/// rewrite of `<bool> == 1` to `<bool>` / `<bool> == 0` to `not <bool>`) is the
/// operand it keeps the operand that was written?
pub fn span_text_ok(src: &[u8], p: &P) -> bool { span_covers_diagnosed_text(src, p) && operand_kept(src, p) }

/// the replacement of a bool_int_comparison fix without its `not ` is a piece of the replaced text
pub fn operand_kept(src: &[u8], p: &P) -> bool {
    if p.code != "bool_int_comparison" || p.start > p.end || p.end > src.len() { return true; }
    // white space outside string literals does not matter
    fn norm(t: &[u8]) -> Vec<u8> {
        let (mut out, mut in_str, mut esc) = (vec![], false, false);
        for c in t {
            if in_str { out.push(*c); if esc { esc = false; } else if *c == b'\\' { esc = true; } else if *c == b'"' { in_str = false; } }
            else { if *c == b'"' { in_str = true; } out.push(if matches!(*c, b'\t' | b'\n' | b'\r') { b' ' } else { *c }); }
        }
        out
    }
    let r = norm(p.repl.strip_prefix("not ").unwrap_or(&p.repl).as_bytes());
    !r.is_empty() && norm(&src[p.start..p.end]).windows(r.len()).any(|w| w == &r[..])
}

/// what is wrong with the text of a patch (for fingerprints)
pub fn span_text_class(src: &[u8], p: &P) -> String {
    if !span_covers_diagnosed_text(src, p) { return format!("patch-span-does-not-cover-the-diagnosed-text:{}", p.code); }
    let t = &src[p.start..p.end];
    let tabs_to_spaces: Vec<u8> = t.iter().map(|c| if *c == b'\t' { b' ' } else { *c }).collect();
    let r = p.repl.strip_prefix("not ").unwrap_or(&p.repl).as_bytes();
    let tab = t.contains(&b'\t') && !r.is_empty() && tabs_to_spaces.windows(r.len()).any(|w| w == r);
    format!("fix-alters-the-text-of-the-operand-it-keeps:{}:{}", p.code, if tab { "tab-replaced-by-space" } else { "other" })
}

pub fn span_covers_diagnosed_text(src: &[u8], p: &P) -> bool {
    if p.start > p.end || p.end > src.len() { return false; }
    let t = &src[p.start..p.end];
    match p.code.as_str() {
        "bool_int_comparison" => t.windows(2).any(|w| w == b"=="),
        "ambiguous_expr" => t == b"0",
        "duplicate_import" => t.starts_with(b"import"),
        "text_as_hex" => t.starts_with(b"{") && t.ends_with(b"}"),
        "consecutive_jumps" => t.starts_with(b"[") && t.ends_with(b"]"),
        "unsatisfiable_expr" => t.starts_with(b"\"") && t.ends_with(b"\""),
        "deprecated_field" => t.iter().all(|c| c.is_ascii_alphanumeric() || *c == b'_'),
        _ => true,
    }
}

/// canonical scan dump: matching rules with their pattern matches
pub fn scan_dump(rules: &yara_x::Rules, data: &[u8]) -> String {
    let mut s = yara_x::Scanner::new(rules);
    match catch(AssertUnwindSafe(|| {
        let res = match s.scan(data) { Ok(r) => r, Err(e) => return format!("scan error: {e}") };
        let mut v: Vec<String> = res.matching_rules().map(|r| {
            let mut ps: Vec<String> = r.patterns().map(|p| format!("{}:{:?}", p.identifier(), p.matches().map(|m| (m.range().start, m.range().end)).collect::<Vec<_>>())).collect();
            ps.sort();
            format!("{}/{}{{{}}}", r.namespace(), r.identifier(), ps.join(","))
        }).collect();
        v.sort();
        v.join(";")
    })) { Ok(d) => d, Err(p) => format!("panic: {p}") }
}

/// token boundary offsets of a source (start and end of every CST token)
pub fn token_boundaries(src: &[u8]) -> BTreeSet<usize> {
    let mut b = BTreeSet::new();
    b.insert(0); b.insert(src.len());
    for ev in CSTStream::from(Parser::new(src)) { if let Event::Token { span, .. } = ev { b.insert(span.start()); b.insert(span.end()); } }
    b
}

/// Reference application (the specification): patches sorted by start, pairwise
/// disjoint and in bounds are spliced; otherwise None. Coq re-checks the result.
pub fn splice(src: &[u8], ps: &[P]) -> Option<Vec<u8>> {
    let mut v: Vec<&P> = ps.iter().collect();
    v.sort_by_key(|p| p.start);
    let mut out = vec![]; let mut pos = 0;
    for p in v {
        if p.start < pos || p.end < p.start || p.end > src.len() { return None; }
        out.extend_from_slice(&src[pos..p.start]); out.extend_from_slice(p.repl.as_bytes()); pos = p.end;
    }
    out.extend_from_slice(&src[pos..]);
    Some(out)
}

// ------------------------------------------------------------------ generators
pub struct Gen { pub src: String, pub needles: Vec<Vec<u8>>, pub shape: Vec<&'static str> }

/// boolean-typed operands that the grammar accepts on either side of `==`
/// (primary expressions: fields and function calls; `$a == 1` and `(b) == 1`
/// are syntax errors)
const TAB_BOOLS: [&str; 3] = ["pe.exports(\"a\tb\")", "pe.imports(\"kernel32.dll\",\t\"x\ty\")", "math.in_range(filesize,\t0, 8)"];
const BOOLS: [&str; 8] = ["math.in_range(filesize, 0, 8)", "pe.is_pe", "pe.is_dll()", "math.in_range(filesize, 4, 100)", "pe.is_32bit()",
    "math.in_range(#a, 1, 3)", "pe.is_signed", "math.in_range(math.abs(filesize - 7), 0, 2)"];

/// when set, the generators avoid the shapes with known defects (chained comparisons,
/// parenthesised operands): used by the include cases, which look for something else
static CLEAN: std::sync::atomic::AtomicBool = std::sync::atomic::AtomicBool::new(false);
fn clean() -> bool { CLEAN.load(std::sync::atomic::Ordering::Relaxed) }

fn bool_cmp(rng: &mut Rng, depth: u32, shape: &mut Vec<&'static str>) -> String {
    let depth = if clean() { 0 } else { depth };
    let mut b = if depth > 0 && rng.chance(1, 4) { shape.push("nested"); bool_cmp(rng, depth - 1, shape) } else if !clean() && rng.chance(1, 12) { shape.push("tab-in-operand"); rng.pick(&TAB_BOOLS).to_string() } else { rng.pick(&BOOLS).to_string() };
    if !b.contains("==") && !clean() && rng.chance(1, 5) {
        shape.push("parenthesised-operand");
        b = match rng.below(5) { 0 => format!("({})", b), 1 => format!("( {} )", b), 2 => format!("(({}))", b), 3 => format!("(/* c */ {})", b), _ => format!("(\n      {}\n    )", b) };
    }
    let k = if rng.chance(1, 2) { "0" } else { "1" };
    if rng.chance(2, 3) { format!("{} == {}", b, k) } else { shape.push("const-on-left"); format!("{} == {}", k, b) }
}

fn context(rng: &mut Rng, e: String, shape: &mut Vec<&'static str>) -> String {
    match rng.below(9) {
        0 => e,
        1 => { shape.push("and-left"); format!("{} and $a", e) }
        2 => { shape.push("or-right"); format!("$b or {}", e) }
        3 => { shape.push("not"); format!("not {}", e) }
        4 => { shape.push("paren"); format!("({})", e) }
        5 => { shape.push("for-body"); format!("for any i in (0..1) : ({})", e) }
        6 => { shape.push("and-both"); format!("{} and {}", e, e) }
        7 => { shape.push("not-paren"); format!("not ({})", e) }
        _ => { shape.push("or-left"); format!("{} or false", e) }
    }
}

fn hex_of(bytes: &[u8], rng: &mut Rng) -> String {
    let mut s = String::from("{ ");
    for b in bytes { if rng.chance(1, 2) { s.push_str(&format!("{:02X} ", b)); } else { s.push_str(&format!("{:02x} ", b)); } }
    s.push('}'); s
}

pub fn gen_source(rng: &mut Rng, index: usize) -> Gen { gen_source_named(rng, index, "t") }

pub fn gen_source_named(rng: &mut Rng, index: usize, name: &str) -> Gen {
    let mut shape: Vec<&'static str> = vec![];
    let mut needles: Vec<Vec<u8>> = vec![b"abc".to_vec(), b"zzz".to_vec()];
    let mut imports = String::from("import \"pe\"\nimport \"math\"\n");
    let mut strings = String::from("    $a = \"abc\"\n    $b = \"zzz\"\n");
    let mut conds: Vec<String> = vec![];
    let mut extra_rules = String::new();
    let n_features = if index % 3 == 0 { 1 } else { 1 + rng.below(3) };
    for _ in 0..n_features {
        match rng.below(8) {
            0 | 1 => { shape.push("bool-int"); let e = bool_cmp(rng, 2, &mut shape); conds.push(context(rng, e, &mut shape)); }
            2 => { shape.push("zero-of");
                let set = *rng.pick(&["them", "($a, $b)", "($a*)", "($a, $b, $c)"]);
                let tail = *rng.pick(&["", "", " in (0..10)"]);
                let q = if !clean() && rng.chance(1, 6) { shape.push("parenthesised-quantifier"); *rng.pick(&["(0)", "( 0 )", "((0))"]) } else { "0" };
                let e = format!("{} of {}{}", q, set, tail);
                conds.push(context(rng, e, &mut shape)); }
            3 => { shape.push("duplicate-import");
                match rng.below(4) { 0 => imports.push_str("import \"pe\"\n"), 1 => imports.push_str("import \"math\" import \"pe\"\n"),
                    2 => imports.push_str("import \"pe\" // again\nimport \"pe\"\n"), _ => imports = format!("import \"math\"\n{}", imports) } }
            4 => { shape.push("consecutive-jumps");
                let j = *rng.pick(&["[1-2] [3-4]", "[2][3]", "[0-2] [5-]", "[1] [2] [3]", "[1-2]\n      [2]", "[4] [0-7]", "[-] [1]"]);
                let j2 = if rng.chance(1, 3) { shape.push("two-jump-groups"); " 33 [1][1] 44" } else { "" };
                strings.push_str(&format!("    $j{} = {{ 11 {} 22{} }}\n", conds.len(), j, j2));
                conds.push(format!("$j{}", conds.len()));
                needles.push(vec![0x11, 0, 0, 0, 0, 0x22]); needles.push(vec![0x11, 1, 2, 3, 4, 5, 6, 0x22, 0x33, 9, 9, 0x44]); }
            5 => { shape.push("hex-as-text");
                let n = 1 + rng.below(10) as usize;
                let mut bytes: Vec<u8> = (0..n).map(|_| match rng.below(12) { 0 => b'"', 1 => b'\\', 2 => b'\t', 3 => b'\n', 4 => b'\r', 5 => b' ', 6 => b'~', _ => (0x20 + rng.below(0x5f)) as u8 }).collect();
                if rng.chance(1, 10) { bytes = (0x20..=0x7eu8).collect(); shape.push("all-printable"); }
                let m = if rng.chance(1, 4) { shape.push("private"); " private" } else { "" };
                strings.push_str(&format!("    $h{} = {}{}\n", conds.len(), hex_of(&bytes, rng), m));
                conds.push(format!("$h{}", conds.len()));
                needles.push(bytes); }
            6 => { shape.push("deprecated-field"); imports.push_str("import \"dotnet\"\n");
                let f = *rng.pick(&["number_of_streams", "number_of_guids", "number_of_resources"]);
                conds.push(context(rng, format!("dotnet.{} == 0", f), &mut shape)); }
            _ => { shape.push("case-constraint"); imports.push_str("import \"hash\"\n");
                let lit = *rng.pick(&["\"D41D8CD98F00B204E9800998ECF8427E\"", "\"900150983CD24FB0D6963F7D28E17F72\"", "\"Ab\"",
                    "\"D41D8CD98F00B204E9800998ECF842\\\"E\"", "\"D41D8CD98F00B204E9800998ECF842\\\\E\"", "\"\\x44\\x34\\x31D8CD98F00B204E9800998ECF8427E\"", "\"D41D8CD98F00B204E9800998ECF842ÑE\""]);
                let e = if rng.chance(1, 2) { format!("hash.md5(0, filesize) == {}", lit) } else { shape.push("const-on-left"); format!("{} == hash.md5(0, filesize)", lit) };
                conds.push(context(rng, e, &mut shape)); }
        }
    }
    if rng.chance(1, 6) { shape.push("second-rule"); extra_rules = format!("rule other_{} {{\n  condition:\n    pe.is_pe == 0 or filesize == 3\n}}\n", name); }
    if conds.is_empty() { conds.push("$a".into()); }
    let uses_c = conds.iter().any(|c| c.contains("$c"));
    if uses_c { strings.push_str("    $c = \"needle\"\n"); needles.push(b"needle".to_vec()); }
    // all patterns must be used
    let joiner = *rng.pick(&[" and\n    ", " or\n    ", " and ", " or "]);
    let cond = format!("{}{}($a or $b or true)", conds.join(joiner), joiner);
    let src = format!("{}rule {} {{\n  strings:\n{}  condition:\n    {}\n}}\n{}", imports, name, strings, cond, extra_rules);
    Gen { src, needles, shape }
}

fn corpus() -> Vec<Gen> {
    let g = |s: &str, shape: Vec<&'static str>| Gen { src: s.to_string(), needles: vec![b"abc".to_vec(), b"zzz".to_vec()], shape };
    vec![
        // DESIGN.md section 7 #9
        g("import \"pe\"\nrule t {\n  condition:\n    pe.is_pe == 1 == 1\n}\n", vec!["bool-int", "nested"]),
        // DESIGN.md section 7 #11
        g("rule t {\n  strings:\n    $a = \"abc\"\n    $b = \"zzz\"\n  condition:\n    0 of ($a,$b)\n}\n", vec!["zero-of"]),
        g("rule t {\n  strings:\n    $a = \"abc\"\n    $b = \"zzz\"\n  condition:\n    0 of them\n}\n", vec!["zero-of"]),
        g("import \"pe\"\nimport \"pe\"\nrule t { condition: true }\n", vec!["duplicate-import"]),
        g("rule t {\n  strings:\n    $a = { 61 62 63 }\n    $b = { 7A [1-2] [3-4] 7A }\n  condition:\n    $a or $b\n}\n", vec!["hex-as-text", "consecutive-jumps"]),
        g("import \"pe\"\nimport \"math\"\nrule t {\n  condition:\n    pe.is_pe == 0 and math.in_range(filesize, 0, 8) == 1\n}\n", vec!["bool-int", "two-disjoint"]),
        g("import \"pe\"\nrule t {\n  condition:\n    pe.is_dll() == 0\n}\n", vec!["bool-int", "function-call"]),
        g("import \"pe\"\nrule t {\n  condition:\n    0 == pe.is_dll()\n}\n", vec!["bool-int", "function-call", "const-on-left"]),
        g("import \"hash\"\nrule t {\n  condition:\n    hash.md5(0, filesize) == \"D41D8CD98F00B204E9800998ECF842\\\"E\"\n}\n", vec!["case-constraint"]),
        // parenthesised quantifier: `(0) of them` -> `(none) of them`
        g("rule t {\n  strings:\n    $a = \"abc\"\n    $b = \"zzz\"\n  condition:\n    (0) of them\n}\n", vec!["zero-of", "parenthesised-quantifier"]),
        // parenthesised operands: the span of the comparison starts inside the parentheses
        g("import \"pe\"\nrule t {\n  condition:\n    (pe.is_pe) == 1\n}\n", vec!["bool-int", "parenthesised-operand"]),
        g("import \"pe\"\nrule t {\n  condition:\n    1 == ((pe.is_pe))\n}\n", vec!["bool-int", "parenthesised-operand", "const-on-left"]),
        // regression cases of the repaired defects (84ef5faa, 06e06e0e, 2bbcf270)
        g("import \"pe\"\nrule t {\n  condition:\n    1 == pe.is_dll()\n}\n", vec!["bool-int", "function-call", "const-on-left"]),
        g("import \"math\"\nrule t {\n  condition:\n    math.in_range(math.abs(filesize - 7), 0, 2) == 0\n}\n", vec!["bool-int", "function-call"]),
        g("import \"hash\"\nrule t {\n  condition:\n    \"D41D8CD98F00B204E9800998ECF842\\\\E\" == hash.md5(0, filesize)\n}\n", vec!["case-constraint", "const-on-left"]),
        g("import \"pe\"\nimport \"pe\"\nimport \"hash\"\nrule t {\n  strings:\n    $a = { 61 22 5C }\n    $b = { 11 [1-2] [3-4] 22 }\n  condition:\n    $a and $b and pe.is_dll() == 0 == 1 and 0 == pe.is_pe and hash.md5(0, filesize) == \"D41D8CD98F00B204E9800998ECF842\\\"E\"\n}\n", vec!["bool-int", "nested", "function-call", "case-constraint", "duplicate-import", "hex-as-text", "consecutive-jumps"]),
        // a raw tab inside a string literal of the operand that the fix keeps; a tab between tokens
        g("import \"pe\"\nrule t {\n  condition:\n    pe.exports(\"a\tb\") == 1\n}\n", vec!["bool-int", "function-call", "tab-in-operand"]),
        g("import \"math\"\nrule t {\n  condition:\n    math.in_range(filesize,\t0, 8) == 0\n}\n", vec!["bool-int", "function-call", "tab-in-operand"]),
        g("rule t { condition: true }\n", vec!["no-diagnostic"]),
    ]
}

pub fn buffers(rng: &mut Rng, needles: &[Vec<u8>]) -> Vec<Vec<u8>> {
    let mut v: Vec<Vec<u8>> = vec![vec![], b"abc".to_vec(), b"zzz".to_vec(), b"abczzz".to_vec(), b"xx".to_vec()];
    for n in needles { v.push(n.clone()); let mut b = b"..".to_vec(); b.extend_from_slice(n); b.extend_from_slice(b"abc.."); v.push(b); }
    let mut all = vec![]; for n in needles { all.extend_from_slice(n); all.push(b'-'); } v.push(all);
    v.push((0..40).map(|_| rng.below(256) as u8).collect());
    v.push(b"abc abc abc zzz".to_vec());
    v
}

fn main() { let args: Vec<String> = std::env::args().skip(1).collect(); std::process::exit(run(&args)); }

fn coq_patch(p: &P) -> String { format!("mkPatch {} {} {}", p.start, p.end, coq_bytes(p.repl.as_bytes())) }

/// Runs `yr fix warnings` on a temporary copy; (exit ok, content after)
fn run_yr(yr: &str, dir: &Path, src: &[u8]) -> Option<(bool, Vec<u8>)> {
    let f = dir.join("case.yar");
    std::fs::write(&f, src).ok()?;
    let out = std::process::Command::new(yr).arg("fix").arg("warnings").arg(&f).env("RUST_BACKTRACE", "0")
        .stdout(std::process::Stdio::null()).stderr(std::process::Stdio::null()).status().ok()?;
    let content = std::fs::read(&f).ok()?;
    Some((out.success(), content))
}

pub struct Verdict { pub in_bounds: bool, pub on_boundaries: bool, pub disjoint: bool, pub fixed: Option<Vec<u8>>,
    pub recompiles: bool, pub fixed_gone: bool, pub scan_equal: bool, pub nothing_to_compare: bool, pub first_diff: String, pub remaining: Vec<String> }

/// Fixes that the property lists as equivalent rewrites: a text literal for a hex
/// pattern, `not x`/`x` for a boolean compared with 0/1, merged jumps, a removed
/// duplicate import, `none` for `0`. (Fixes of unsatisfiable expressions may change
/// the value; for deprecated fields the property does not say: not compared.)
fn is_equivalence_fix(code: &str) -> bool {
    matches!(code, "text_as_hex" | "bool_int_comparison" | "consecutive_jumps" | "duplicate_import" | "ambiguous_expr")
}

fn scans_equal(rng: &mut Rng, g: &Gen, r1: &yara_x::Rules, r2: &yara_x::Rules) -> Result<(), String> {
    for b in buffers(rng, &g.needles) {
        let (d1, d2) = (scan_dump(r1, &b), scan_dump(r2, &b));
        if d1 != d2 { return Err(format!("data={:?} original=[{}] fixed=[{}]", String::from_utf8_lossy(&b), d1, d2)); }
    }
    Ok(())
}

pub fn evaluate(rng: &mut Rng, g: &Gen, c: &Compiled) -> Verdict {
    let src = g.src.as_bytes();
    let tb = token_boundaries(src);
    let in_bounds = c.patches.iter().all(|p| p.start <= p.end && p.end <= src.len());
    let on_boundaries = c.patches.iter().all(|p| tb.contains(&p.start) && tb.contains(&p.end));
    let fixed = if in_bounds { splice(src, &c.patches) } else { None };
    let disjoint = fixed.is_some();
    let equiv: Vec<P> = c.patches.iter().filter(|p| is_equivalence_fix(&p.code)).cloned().collect();
    let nothing_to_compare = equiv.is_empty() || c.rules.is_none();
    let (mut recompiles, mut fixed_gone, mut scan_equal) = (true, true, true);
    let mut first_diff = String::new();
    let mut remaining = vec![];
    if let Some(t) = &fixed {
        if !c.patches.is_empty() {
            let c2 = compile(t);
            recompiles = c2.rules.is_some() || c.rules.is_none();   // a source that did not compile before is not expected to compile after
            let fixed_codes: BTreeSet<&String> = c.patches.iter().map(|p| &p.code).collect();
            remaining = c2.patches.iter().filter(|p| fixed_codes.contains(&p.code)).map(|p| p.code.clone()).collect();
            fixed_gone = remaining.is_empty() || !recompiles;
            if !nothing_to_compare {
                // the equivalent rewrites alone must keep every verdict and match
                if let Some(te) = splice(src, &equiv) {
                    let ce = if equiv.len() == c.patches.len() { c2 } else { compile(&te) };
                    if let (Some(r1), Some(r2)) = (&c.rules, &ce.rules) {
                        if let Err(d) = scans_equal(rng, g, r1, r2) { scan_equal = false; first_diff = d; }
                    }
                }
            }
        }
    }
    Verdict { in_bounds, on_boundaries, disjoint, fixed, recompiles, fixed_gone, scan_equal, nothing_to_compare, first_diff, remaining }
}

/// detail of a patch for fingerprints
fn patch_detail(src: &[u8], p: &P) -> &'static str {
    match p.code.as_str() {
        "bool_int_comparison" => {
            // `module.func(..) == k`: the span of the call operand starts at `func`, not at `module`
            let replaced = String::from_utf8_lossy(&src[p.start..p.end]).to_string();
            let r = p.repl.trim_start_matches("not ");
            let fname: String = r.chars().take_while(|c| c.is_alphanumeric() || *c == '_').collect();
            let is_call = !fname.is_empty() && r[fname.len()..].starts_with('(');
            let unbalanced = replaced.matches('(').count() != replaced.matches(')').count() || p.repl.matches('(').count() != p.repl.matches(')').count();
            if (p.start > 0 && src[p.start - 1] == b'.') || (is_call && replaced.contains(&format!(".{}(", fname))) { "function-call-operand-span-excludes-module-prefix" }
            else if unbalanced { "parenthesised-operand-span-covers-one-parenthesis" } else { "other" }
        }
        "unsatisfiable_expr" => if src[p.start..p.end].contains(&b'\\') { "constant-with-escape-sequence-requoted-unescaped" } else { "other" },
        "ambiguous_expr" => {
            let before = src[..p.start].iter().rev().find(|c| !c.is_ascii_whitespace());
            if before == Some(&b'(') { "parenthesised-quantifier" } else { "zero-of-rewritten-to-none" }
        }
        _ => "any",
    }
}

/// fingerprint of a failing case (the verdict itself is computed in Coq): the
/// first failing clause and the single patch that causes it (found by
/// applying every patch alone)
pub fn classify(rng: &mut Rng, g: &Gen, c: &Compiled, v: &Verdict) -> String {
    let src = g.src.as_bytes();
    if !v.in_bounds { return format!("patch-out-of-bounds:{}", c.patches.iter().find(|p| !(p.start <= p.end && p.end <= src.len())).map(|p| p.code.as_str()).unwrap_or("?")); }
    if !v.disjoint {
        let mut ov = BTreeSet::new();
        for (i, p) in c.patches.iter().enumerate() { for q in c.patches.iter().skip(i + 1) {
            if (p.start < q.end && q.start < p.end) || p.start == q.start { ov.insert(p.code.as_str()); ov.insert(q.code.as_str()); } } }
        return format!("overlapping-patches:{}", ov.into_iter().collect::<Vec<_>>().join("+"));
    }
    if !v.on_boundaries {
        let tb = token_boundaries(src);
        return format!("patch-not-on-token-boundary:{}", c.patches.iter().find(|p| !(tb.contains(&p.start) && tb.contains(&p.end))).map(|p| p.code.as_str()).unwrap_or("?"));
    }
    if v.recompiles && v.fixed_gone && (v.scan_equal || v.nothing_to_compare) { return "none".into(); }
    // isolate the culprit
    for p in &c.patches {
        let alone = match splice(src, std::slice::from_ref(p)) { Some(t) => t, None => continue };
        let c1 = compile(&alone);
        if !v.recompiles {
            if c1.rules.is_none() && c.rules.is_some() { return format!("fixed-source-does-not-compile:{}:{}", p.code, patch_detail(src, p)); }
        } else if !v.fixed_gone {
            if c1.patches.iter().any(|q| q.code == p.code && q.start == p.start) { return format!("diagnostic-still-reported-after-fix:{}", p.code); }
        } else if is_equivalence_fix(&p.code) {
            if let (Some(r1), Some(r2)) = (&c.rules, &c1.rules) { if scans_equal(rng, g, r1, r2).is_err() { return format!("fix-changes-scan-results:{}:{}", p.code, patch_detail(src, p)); } }
        }
    }
    if v.recompiles && v.fixed_gone {
        // leave-one-out over the equivalent rewrites
        let equiv: Vec<P> = c.patches.iter().filter(|p| is_equivalence_fix(&p.code)).cloned().collect();
        for (i, p) in equiv.iter().enumerate() {
            let rest: Vec<P> = equiv.iter().enumerate().filter(|(j, _)| *j != i).map(|(_, q)| q.clone()).collect();
            if let Some(t) = splice(src, &rest) { let c1 = compile(&t);
                if let (Some(r1), Some(r2)) = (&c.rules, &c1.rules) { if scans_equal(rng, g, r1, r2).is_ok() { return format!("fix-changes-scan-results:{}:{}", p.code, patch_detail(src, p)); } } }
        }
    }
    if !v.recompiles { "fixed-source-does-not-compile:combination".into() }
    else if !v.fixed_gone { format!("diagnostic-still-reported-after-fix:{}", v.remaining.join("+")) }
    else { "fix-changes-scan-results:combination".into() }
}

// ------------------------------------------------------------------ sources with `include`
pub struct FileObs { pub path: String, pub text: Vec<u8>, pub patches: Vec<P>, pub fixed: Option<Vec<u8>>, pub yr_after: Option<Vec<u8>> }

/// main.yar (a rule with fixable diagnostics, `include "common.yar"`, another
/// such rule AFTER the include) and common.yar (a rule with fixable diagnostics)
/// in a temporary directory; returns one (case, replay) per file.
fn include_cases(rng: &mut Rng, index: usize, root: &Path, yr: Option<&str>, stats: &mut Stats) -> Vec<(String, String)> {
    CLEAN.store(true, std::sync::atomic::Ordering::Relaxed);
    let before = gen_source_named(rng, index, "m_before");
    let common = gen_source_named(rng, index + 1, "c_rule");
    let after = gen_source_named(rng, index + 2, "m_after");
    CLEAN.store(false, std::sync::atomic::Ordering::Relaxed);
    let layout = rng.below(3);
    let main_text = match layout {
        0 => format!("{}include \"common.yar\"\n{}", before.src, after.src),
        1 => format!("include \"common.yar\"\n{}{}", before.src, after.src),
        _ => format!("{}{}include \"common.yar\"\n", before.src, after.src),
    };
    let dir = root.join("inc"); let _ = std::fs::remove_dir_all(&dir); std::fs::create_dir_all(&dir).unwrap();
    let main_path = dir.join("main.yar"); let common_path = dir.join("common.yar");
    std::fs::write(&main_path, &main_text).unwrap(); std::fs::write(&common_path, &common.src).unwrap();
    let mp = main_path.to_str().unwrap().to_string(); let cp = common_path.to_str().unwrap().to_string();
    let c = match catch(AssertUnwindSafe(|| compile_in(main_text.as_bytes(), &mp, Some(&dir)))) {
        Ok(c) => c,
        Err(msg) => {
            // the compiler itself panicked: one failing case that carries the sources
            stats.inc("include_cases"); stats.inc("impl_fails_include:compiler-panicked");
            let case = format!("mkCase {} [] [] None None false false false true false 1%nat", coq_bytes(main_text.as_bytes()));
            let replay = format!("{{\"index\":{},\"kind\":\"include\",\"file\":\"main.yar\",\"main\":{},\"common\":{},\"patches\":[],\"class\":\"include:compiler-panicked\",\"panic\":{}}}",
                index, json_str(&main_text), json_str(&common.src), json_str(&msg));
            return vec![(case, replay)];
        }
    };
    let mut files = vec![
        FileObs { path: mp.clone(), text: main_text.clone().into_bytes(), patches: vec![], fixed: None, yr_after: None },
        FileObs { path: cp.clone(), text: common.src.clone().into_bytes(), patches: vec![], fixed: None, yr_after: None }];
    let mut class = String::from("none");
    for p in &c.patches {
        // origins are compared by file name (the compiler may report a normalised path)
        match files.iter_mut().find(|f| Path::new(&f.path).file_name() == Path::new(&p.origin).file_name()) {
            Some(f) => f.patches.push(p.clone()),
            None => { class = format!("include:patch-origin-is-no-file-of-the-compilation:{}", p.code); }
        }
    }
    // every patch must talk about the text of the file it names
    let mut text_ok = true;
    for f in &files { for p in &f.patches { if !span_text_ok(&f.text, p) {
        text_ok = false;
        let other = files.iter().find(|g| g.path != f.path).unwrap();
        if class == "none" { class = if span_text_ok(&other.text, p) { format!("include:patch-origin-names-the-wrong-file:{}", p.code) } else { format!("include:{}", span_text_class(&f.text, p)) }; }
    } } }
    let mut all_spliced = true;
    for f in files.iter_mut() {
        let inb = f.patches.iter().all(|p| p.start <= p.end && p.end <= f.text.len());
        f.fixed = if inb { splice(&f.text, &f.patches) } else { None };
        if f.fixed.is_none() { all_spliced = false; if class == "none" { class = "include:patches-overlap-or-out-of-bounds".into(); } }
    }
    let (mut recompiles, mut fixed_gone, mut scan_equal) = (true, true, true);
    let nothing_to_compare = c.rules.is_none() || c.patches.iter().any(|p| !is_equivalence_fix(&p.code)) || c.patches.is_empty();
    let mut remaining: Vec<String> = vec![];
    if all_spliced && !c.patches.is_empty() {
        let d2 = root.join("inc_fixed"); let _ = std::fs::remove_dir_all(&d2); std::fs::create_dir_all(&d2).unwrap();
        for f in &files { std::fs::write(d2.join(Path::new(&f.path).file_name().unwrap()), f.fixed.as_ref().unwrap()).unwrap(); }
        let m2 = d2.join("main.yar");
        let c2 = compile_in(&std::fs::read(&m2).unwrap(), m2.to_str().unwrap(), Some(&d2));
        recompiles = c2.rules.is_some() || c.rules.is_none();
        let codes: BTreeSet<&String> = c.patches.iter().map(|p| &p.code).collect();
        remaining = c2.patches.iter().filter(|p| codes.contains(&p.code)).map(|p| p.code.clone()).collect();
        fixed_gone = remaining.is_empty() || !recompiles;
        if !nothing_to_compare { if let (Some(r1), Some(r2)) = (&c.rules, &c2.rules) {
            let mut g = Gen { src: String::new(), needles: before.needles.clone(), shape: vec![] };
            g.needles.extend(common.needles.iter().cloned()); g.needles.extend(after.needles.iter().cloned());
            if scans_equal(rng, &g, r1, r2).is_err() { scan_equal = false; } } }
        if class == "none" {
            if !recompiles { class = "include:fixed-sources-do-not-compile".into(); }
            else if !fixed_gone { class = format!("include:diagnostic-still-reported-after-fix:{}", remaining.join("+")); }
            else if !scan_equal && !nothing_to_compare { class = "include:fix-changes-scan-results".into(); }
        }
    }
    // the real tool on a copy of the directory
    let mut yr_ok: Option<bool> = None;
    if let Some(y) = yr {
        let d3 = root.join("inc_yr"); let _ = std::fs::remove_dir_all(&d3); std::fs::create_dir_all(&d3).unwrap();
        for f in &files { std::fs::write(d3.join(Path::new(&f.path).file_name().unwrap()), &f.text).unwrap(); }
        // the tool is run from inside the directory so that the origins are the same relative-free paths
        if let Ok(st) = std::process::Command::new(y).arg("fix").arg("warnings").arg("--include-dir").arg(&d3).arg(d3.join("main.yar"))
            .env("RUST_BACKTRACE", "0").stdout(std::process::Stdio::null()).stderr(std::process::Stdio::null()).status() {
            yr_ok = Some(st.success());
            for f in files.iter_mut() { f.yr_after = std::fs::read(d3.join(Path::new(&f.path).file_name().unwrap())).ok(); }
            stats.inc("yr_runs_include");
        }
    }
    stats.inc("include_cases");
    stats.inc(&format!("include_layout_{}", layout));
    if files[1].patches.len() > 0 { stats.inc("include_patches_in_included_file"); }
    if class != "none" { stats.inc(&format!("impl_fails_{}", class.splitn(3, ':').take(2).collect::<Vec<_>>().join(":"))); }
    let mut out = vec![];
    for f in &files {
        let tb: Vec<usize> = token_boundaries(&f.text).into_iter().collect();
        let ok_text = text_ok && f.patches.iter().all(|p| span_text_ok(&f.text, p));
        let case = format!("mkCase {} {} {} {} {} {} {} {} {} {} 1%nat",
            coq_bytes(&f.text), coq_list(&f.patches, coq_patch), coq_list(&tb, |x| format!("{}%nat", x)),
            coq_option(&f.fixed, |t| coq_bytes(t)),
            match (&yr_ok, &f.yr_after) { (Some(ok), Some(t)) => format!("(Some ({}, {}))", coq_bool(*ok), coq_bytes(t)), _ => "None".into() },
            coq_bool(recompiles), coq_bool(fixed_gone), coq_bool(scan_equal), coq_bool(nothing_to_compare), coq_bool(ok_text && class.find("origin").is_none()));
        let replay = format!("{{\"index\":{},\"kind\":\"include\",\"file\":{},\"main\":{},\"common\":{},\"patches\":{},\"class\":{},\"fixed\":{},\"recompiles\":{},\"remaining_fixable\":{},\"yr\":{}}}",
            index, json_str(Path::new(&f.path).file_name().unwrap().to_str().unwrap()), json_str(&main_text), json_str(&common.src),
            format!("[{}]", c.patches.iter().map(|p| format!("{{\"code\":{},\"origin\":{},\"start\":{},\"end\":{},\"replacement\":{}}}", json_str(&p.code), json_str(Path::new(&p.origin).file_name().and_then(|x| x.to_str()).unwrap_or(&p.origin)), p.start, p.end, json_str(&p.repl))).collect::<Vec<_>>().join(",")),
            json_str(&class), match &f.fixed { Some(t) => json_str(&String::from_utf8_lossy(t)), None => "null".into() }, recompiles, json_str(&remaining.join(",")),
            match (&yr_ok, &f.yr_after) { (Some(ok), Some(t)) => format!("{{\"exit_ok\":{},\"file_after\":{}}}", ok, json_str(&String::from_utf8_lossy(t))), _ => "null".into() });
        out.push((case, replay));
    }
    out
}

/// Several sources compiled together (several `add_source` calls, with or
/// without a namespace each, all importing the same modules; each file has its
/// own fixable diagnostics): one (case, replay) per file. The fixes applied per
/// file must leave EVERY file compiling in the same setup.
fn multi_source_cases(rng: &mut Rng, index: usize, root: &Path, yr: Option<&str>, stats: &mut Stats) -> Vec<(String, String)> {
    CLEAN.store(true, std::sync::atomic::Ordering::Relaxed);
    let n = 2 + rng.below(2) as usize;
    let gens: Vec<Gen> = (0..n).map(|k| gen_source_named(rng, index + k, &format!("s{}_rule", k))).collect();
    CLEAN.store(false, std::sync::atomic::Ordering::Relaxed);
    let with_ns = rng.chance(2, 3);
    let dir = root.join("multi"); let _ = std::fs::remove_dir_all(&dir); std::fs::create_dir_all(&dir).unwrap();
    let mut files: Vec<FileObs> = vec![];
    let mut inputs: Vec<(String, Vec<u8>, Option<String>)> = vec![];
    for (k, g) in gens.iter().enumerate() {
        let p = dir.join(format!("s{}.yar", k));
        std::fs::write(&p, &g.src).unwrap();
        let ps = p.to_str().unwrap().to_string();
        inputs.push((ps.clone(), g.src.clone().into_bytes(), if with_ns { Some(format!("ns{}", k)) } else { None }));
        files.push(FileObs { path: ps, text: g.src.clone().into_bytes(), patches: vec![], fixed: None, yr_after: None });
    }
    let sources_json = format!("[{}]", gens.iter().map(|g| json_str(&g.src)).collect::<Vec<_>>().join(","));
    let c = match catch(AssertUnwindSafe(|| compile_many(&inputs))) {
        Ok(c) => c,
        Err(msg) => {
            stats.inc("multi_source_cases"); stats.inc("impl_fails_multi-source:compiler-panicked");
            let case = format!("mkCase {} [] [] None None false false false true false 1%nat", coq_bytes(gens[0].src.as_bytes()));
            return vec![(case, format!("{{\"index\":{},\"kind\":\"multi-source\",\"sources\":{},\"class\":\"multi-source:compiler-panicked\",\"panic\":{}}}", index, sources_json, json_str(&msg)))];
        }
    };
    let mut class = String::from("none");
    for p in &c.patches {
        match files.iter_mut().find(|f| Path::new(&f.path).file_name() == Path::new(&p.origin).file_name()) {
            Some(f) => f.patches.push(p.clone()),
            None => { class = format!("multi-source:patch-origin-is-no-file-of-the-compilation:{}", p.code); }
        }
    }
    let mut text_ok = true;
    for f in &files { for p in &f.patches { if !span_text_ok(&f.text, p) { text_ok = false; if class == "none" { class = format!("multi-source:{}", span_text_class(&f.text, p)); } } } }
    let mut all_spliced = true;
    for f in files.iter_mut() {
        let inb = f.patches.iter().all(|p| p.start <= p.end && p.end <= f.text.len());
        f.fixed = if inb { splice(&f.text, &f.patches) } else { None };
        if f.fixed.is_none() { all_spliced = false; if class == "none" { class = "multi-source:patches-overlap-or-out-of-bounds".into(); } }
    }
    let (mut recompiles, mut fixed_gone, mut scan_equal) = (true, true, true);
    let nothing_to_compare = c.rules.is_none() || c.patches.iter().any(|p| !is_equivalence_fix(&p.code)) || c.patches.is_empty();
    let mut remaining: Vec<String> = vec![];
    let mut errors_after: Vec<String> = vec![];
    if all_spliced && !c.patches.is_empty() {
        let fixed_inputs: Vec<(String, Vec<u8>, Option<String>)> = inputs.iter().zip(files.iter()).map(|(i, f)| (i.0.clone(), f.fixed.clone().unwrap(), i.2.clone())).collect();
        let c2 = compile_many(&fixed_inputs);
        errors_after = c2.errors.clone();
        recompiles = c2.rules.is_some() || c.rules.is_none();
        let codes: BTreeSet<&String> = c.patches.iter().map(|p| &p.code).collect();
        remaining = c2.patches.iter().filter(|p| codes.contains(&p.code)).map(|p| p.code.clone()).collect();
        fixed_gone = remaining.is_empty() || !recompiles;
        if !nothing_to_compare { if let (Some(r1), Some(r2)) = (&c.rules, &c2.rules) {
            let mut g = Gen { src: String::new(), needles: vec![], shape: vec![] };
            for x in &gens { g.needles.extend(x.needles.iter().cloned()); }
            if scans_equal(rng, &g, r1, r2).is_err() { scan_equal = false; } } }
        if class == "none" {
            if !recompiles { class = format!("multi-source:fixed-sources-do-not-compile-together:{}", errors_after.join("+")); }
            else if !fixed_gone { class = format!("multi-source:diagnostic-still-reported-after-fix:{}", remaining.join("+")); }
            else if !scan_equal && !nothing_to_compare { class = "multi-source:fix-changes-scan-results".into(); }
        }
    }
    // the real tool: `yr fix warnings [ns0:]s0.yar [ns1:]s1.yar ...` on a copy
    // (with namespaces, sometimes the first file is named a second time, written differently, under
    // another namespace: the same rules once more, the same fixes once more for the same file)
    let mut yr_ok: Option<bool> = None;
    let mut spellings = 1usize;
    let mut yr_cmdline = String::new();
    if let Some(y) = yr {
        let d3 = root.join("multi_yr"); let _ = std::fs::remove_dir_all(&d3); std::fs::create_dir_all(&d3).unwrap();
        let mut cmd = std::process::Command::new(y); cmd.arg("fix").arg("warnings");
        yr_cmdline.push_str("yr fix warnings");
        for (k, f) in files.iter().enumerate() {
            let name = Path::new(&f.path).file_name().unwrap().to_str().unwrap().to_string();
            let p = d3.join(&name); std::fs::write(&p, &f.text).unwrap();
            if with_ns { cmd.arg(format!("ns{}:{}", k, p.to_str().unwrap())); yr_cmdline.push_str(&format!(" ns{}:{}", k, name)); } else { cmd.arg(&p); yr_cmdline.push_str(&format!(" {}", name)); }
        }
        if with_ns && c.rules.is_some() && rng.chance(1, 3) {
            spellings = 2;
            let name = Path::new(&files[0].path).file_name().unwrap().to_str().unwrap().to_string();
            cmd.arg(format!("ns{}:{}/./{}", files.len(), d3.to_str().unwrap(), name)); yr_cmdline.push_str(&format!(" ns{}:./{}", files.len(), name));
            stats.inc("multi_source_file_named_twice");
        }
        if let Ok(st) = cmd.env("RUST_BACKTRACE", "0").stdout(std::process::Stdio::null()).stderr(std::process::Stdio::null()).status() {
            yr_ok = Some(st.success());
            for f in files.iter_mut() { f.yr_after = std::fs::read(d3.join(Path::new(&f.path).file_name().unwrap())).ok(); }
            stats.inc("yr_runs_multi_source");
        }
    }
    stats.inc("multi_source_cases"); if with_ns { stats.inc("multi_source_with_namespaces"); }
    if class != "none" { stats.inc(&format!("impl_fails_{}", class.splitn(3, ':').take(2).collect::<Vec<_>>().join(":"))); }
    let mut out = vec![];
    for (fi, f) in files.iter().enumerate() {
        let tb: Vec<usize> = token_boundaries(&f.text).into_iter().collect();
        let ok_text = text_ok && f.patches.iter().all(|p| span_text_ok(&f.text, p));
        let case = format!("mkCase {} {} {} {} {} {} {} {} {} {} {}%nat",
            coq_bytes(&f.text), coq_list(&f.patches, coq_patch), coq_list(&tb, |x| format!("{}%nat", x)),
            coq_option(&f.fixed, |t| coq_bytes(t)),
            match (&yr_ok, &f.yr_after) { (Some(ok), Some(t)) => format!("(Some ({}, {}))", coq_bool(*ok), coq_bytes(t)), _ => "None".into() },
            coq_bool(recompiles), coq_bool(fixed_gone), coq_bool(scan_equal), coq_bool(nothing_to_compare), coq_bool(ok_text && class.find("origin").is_none()),
            if fi == 0 { spellings } else { 1 });
        // the command's result on this file, against the fixes applied together
        let class = if class == "none" && yr_ok.is_some() && f.fixed.is_some() && (yr_ok != Some(true) || f.yr_after != f.fixed) {
            if fi == 0 && spellings > 1 { "multi-source:file-named-twice-with-different-paths:yr-patches-it-twice".to_string() } else { "multi-source:yr-result-differs-from-the-fixes-applied-together".to_string() }
        } else { class.clone() };
        if class != "none" && fi == 0 && spellings > 1 { stats.inc("impl_fails_multi-source:file-named-twice"); }
        let replay = format!("{{\"index\":{},\"kind\":\"multi-source\",\"yr_command\":{},\"file\":{},\"namespaces\":{},\"sources\":{},\"patches\":{},\"class\":{},\"fixed\":{},\"recompiles\":{},\"errors_after_fix\":{},\"remaining_fixable\":{},\"yr\":{}}}",
            index, json_str(&yr_cmdline), json_str(Path::new(&f.path).file_name().unwrap().to_str().unwrap()), with_ns, sources_json,
            format!("[{}]", c.patches.iter().map(|p| format!("{{\"code\":{},\"origin\":{},\"start\":{},\"end\":{},\"replacement\":{}}}", json_str(&p.code), json_str(Path::new(&p.origin).file_name().and_then(|x| x.to_str()).unwrap_or(&p.origin)), p.start, p.end, json_str(&p.repl))).collect::<Vec<_>>().join(",")),
            json_str(&class), match &f.fixed { Some(t) => json_str(&String::from_utf8_lossy(t)), None => "null".into() }, recompiles, json_str(&errors_after.join(",")), json_str(&remaining.join(",")),
            match (&yr_ok, &f.yr_after) { (Some(ok), Some(t)) => format!("{{\"exit_ok\":{},\"file_after\":{}}}", ok, json_str(&String::from_utf8_lossy(t))), _ => "null".into() });
        out.push((case, replay));
    }
    out
}

pub fn run(args: &[String]) -> i32 {
    quiet_panics();
    let seed = arg_u64(args, "--seed", 1);
    let n = arg_u64(args, "--n", 600) as usize;
    let n_yr = arg_u64(args, "--n-yr", 0) as usize;
    let yr = arg_val(args, "--yr");
    let out = arg_val(args, "--out").expect("--out");
    if let Some(s) = arg_val(args, "--explore") {
        let c = compile(s.as_bytes());
        println!("compiles={} errors={:?} warnings={:?}", c.rules.is_some(), c.errors, c.warning_codes);
        for p in &c.patches { println!("  patch {} {}..{} {:?} (replaces {:?})", p.code, p.start, p.end, p.repl, &s[p.start..p.end.min(s.len())]); }
        return 0;
    }
    let prelude = "From Coq Require Import List NArith ZArith Bool.\nFrom YV Require Import Fix.Patch Fix.FixCheck.\nImport ListNotations.\nLocal Open Scope N_scope.\n";
    let mut shards = Shards::new(Path::new(&out), prelude, 40);
    let mut rng = Rng::new(seed);
    let mut stats = Stats::default();
    let mut distinct = std::collections::HashSet::new();
    let mut samples: Vec<String> = vec![];
    let tmp = Path::new(&out).join("yr_tmp");
    let _ = std::fs::create_dir_all(&tmp);
    let mut pending = corpus(); pending.reverse();
    let mut yr_done = 0usize;
    let mut inc_yr_done = 0usize;
    let mut multi_yr_done = 0usize;
    let mut index = 0usize;
    while shards.total < n {
        index += 1;
        if pending.is_empty() && index % 6 == 0 {
            let use_yr = if inc_yr_done < n_yr / 3 + 2 { inc_yr_done += 1; yr.as_deref() } else { None };
            for (case, replay) in include_cases(&mut rng, index, &tmp, use_yr, &mut stats) { shards.push(case, replay); }
            continue;
        }
        if pending.is_empty() && index % 6 == 3 {
            let use_yr = if multi_yr_done < n_yr / 3 + 2 { multi_yr_done += 1; yr.as_deref() } else { None };
            for (case, replay) in multi_source_cases(&mut rng, index, &tmp, use_yr, &mut stats) { shards.push(case, replay); }
            continue;
        }
        let g = pending.pop().unwrap_or_else(|| gen_source(&mut rng, index));
        let src = g.src.as_bytes();
        let c = match catch(AssertUnwindSafe(|| compile(src))) { Ok(c) => c, Err(p) => { eprintln!("c20: compiler panicked on {:?}: {}", g.src, p); stats.inc("compiler_panic"); continue; } };
        let v = evaluate(&mut rng, &g, &c);
        stats.inc("sources");
        stats.inc(&format!("patches_{}", match c.patches.len() { 0 => "0", 1 => "1", 2 => "2", _ => "3+" }));
        for s in &g.shape { stats.inc(&format!("shape_{}", s)); }
        for p in &c.patches { stats.inc(&format!("patch_{}", p.code)); }
        if c.rules.is_none() { stats.inc("original_does_not_compile"); }
        let class = classify(&mut rng, &g, &c, &v);
        if class != "none" { stats.inc(&format!("impl_fails_{}", class.split(':').next().unwrap())); }
        if c.patches.len() >= 1 { distinct.insert(g.src.clone()); }
        // the real tool on a temporary copy: directed at the interesting cases first
        let mut yr_res: Option<(bool, Vec<u8>)> = None;
        if let Some(y) = &yr { if yr_done < n_yr && (class != "none" || c.patches.len() >= 2 || rng.chance(1, 3) || index <= 16) {
            yr_res = run_yr(y, &tmp, src); if yr_res.is_some() { yr_done += 1; stats.inc("yr_runs"); if !yr_res.as_ref().unwrap().0 { stats.inc("yr_failed_exit"); } }
        } }
        let tb: Vec<usize> = token_boundaries(src).into_iter().collect();
        let span_ok = c.patches.iter().all(|p| p.origin == "case.yar" && (p.end > src.len() || p.start > p.end || span_text_ok(src, p)));
        let case = format!("mkCase {} {} {} {} {} {} {} {} {} {} 1%nat",
            coq_bytes(src), coq_list(&c.patches, coq_patch), coq_list(&tb, |x| format!("{}%nat", x)),
            coq_option(&v.fixed, |t| coq_bytes(t)),
            coq_option(&yr_res, |(ok, t)| format!("({}, {})", coq_bool(*ok), coq_bytes(t))),
            coq_bool(v.recompiles), coq_bool(v.fixed_gone), coq_bool(v.scan_equal), coq_bool(v.nothing_to_compare), coq_bool(span_ok));
        let class = if class == "none" && !span_ok {
            c.patches.iter().find(|p| !(p.end > src.len() || p.start > p.end || span_text_ok(src, p))).map(|p| if p.origin != "case.yar" { "patch-names-another-origin".to_string() } else { span_text_class(src, p) }).unwrap_or_else(|| "patch-names-another-origin".to_string())
        } else { class };
        let replay = format!("{{\"index\":{},\"source\":{},\"shape\":{},\"patches\":{},\"class\":{},\"original_compiles\":{},\"fixed\":{},\"recompiles\":{},\"remaining_fixable\":{},\"scan_difference\":{},\"yr\":{}}}",
            index, json_str(&g.src), json_str(&g.shape.join(",")),
            format!("[{}]", c.patches.iter().map(|p| format!("{{\"code\":{},\"start\":{},\"end\":{},\"replaced\":{},\"replacement\":{}}}", json_str(&p.code), p.start, p.end, json_str(&String::from_utf8_lossy(&src[p.start.min(src.len())..p.end.min(src.len())])), json_str(&p.repl))).collect::<Vec<_>>().join(",")),
            json_str(&class), c.rules.is_some(), match &v.fixed { Some(t) => json_str(&String::from_utf8_lossy(t)), None => "null".into() },
            v.recompiles, json_str(&v.remaining.join(",")), json_str(&v.first_diff),
            match &yr_res { Some((ok, t)) => format!("{{\"exit_ok\":{},\"file_after\":{}}}", ok, json_str(&String::from_utf8_lossy(t))), None => "null".into() });
        if samples.len() < 3 && c.patches.len() >= 2 && class == "none" { samples.push(replay.clone()); }
        shards.push(case, replay);
    }
    shards.flush();
    let _ = std::fs::remove_dir_all(&tmp);
    println!("{{\"evaluations\":{},\"distinct_nontrivial\":{},\"shards\":{},\"distribution\":{},\"samples\":[{}]}}",
        shards.total, distinct.len(), shards.shard_count, stats.json(), samples.join(","));
    0
}
