//! modsdump <dir>: for every file in <dir> print "<name> <len of serialized invoke_all output> <fnv hash>"
use protobuf::Message;
fn main() {
    let dir = std::env::args().nth(1).unwrap();
    let mut names: Vec<_> = std::fs::read_dir(&dir).unwrap().flatten().map(|e| e.path()).filter(|p| p.is_file()).collect();
    names.sort();
    for p in names {
        let data = std::fs::read(&p).unwrap();
        let r = std::panic::catch_unwind(|| yara_x::mods::invoke_all(&data));
        match r {
            Ok(m) => {
                // text format is stable except for map ordering; use it with sorted lines
                let txt = protobuf::text_format::print_to_string(&*m);
                let mut lines: Vec<&str> = txt.split(' ').collect();
                lines.sort();
                let mut h: u64 = 0xcbf29ce484222325;
                for l in &lines { for b in l.bytes() { h ^= b as u64; h = h.wrapping_mul(0x100000001b3); } }
                println!("{} {} {:016x} {}", p.file_name().unwrap().to_string_lossy(), txt.len(), h, m.compute_size());
            }
            Err(_) => println!("{} PANIC", p.file_name().unwrap().to_string_lossy()),
        }
    }
}
