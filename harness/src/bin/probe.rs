//! Ad-hoc probe: probe <rules-file> <data-file|-hex:..> : compile, scan, print matching rules and matches.
use std::time::Duration;
fn main() {
    let a: Vec<String> = std::env::args().collect();
    let src = std::fs::read(&a[1]).unwrap();
    let data = if a[2].starts_with("-hex:") { verif_harness::util::unhex(&a[2][5..]) } else { std::fs::read(&a[2]).unwrap() };
    let mut c = yara_x::Compiler::new();
    if std::env::var_os("PROBE_RELAXED").is_some() { c.relaxed_re_syntax(true); }
    if let Ok(m) = std::env::var("PROBE_IGNORE") { c.ignore_module(m); }
    if std::env::var_os("PROBE_SLOW").is_some() { c.error_on_slow_pattern(true); }
    // sources separated by a line `//NS name` go to separate namespaces
    let text = String::from_utf8_lossy(&src).to_string();
    if text.contains("//NS ") {
        for part in text.split("//NS ").skip(1) {
            let (ns, body) = part.split_once('\n').unwrap_or((part, ""));
            c.new_namespace(ns.trim());
            match c.add_source(body) { Ok(_) => println!("add_source[{}]: Ok", ns.trim()), Err(e) => println!("add_source[{}]: Err {}", ns.trim(), e) }
        }
        for w in c.warnings() { println!("{}", w); }
    } else {
    match c.add_source(src.as_slice()) { Ok(_) => println!("add_source: Ok"), Err(e) => println!("add_source: Err {}", e) }
    }
    println!("errors={} warnings={} ignored={}", c.errors().len(), c.warnings().len(), c.ignored_rules().count());
    let rules = c.build();
    let mut s = yara_x::Scanner::new(&rules);
    s.set_timeout(Duration::from_secs(10));
    match s.scan(&data) {
        Err(e) => println!("scan: Err {}", e),
        Ok(r) => for m in r.matching_rules() {
            print!("match {}:{}", m.namespace(), m.identifier());
            for p in m.patterns() { print!(" {}=[{}]", p.identifier(), p.matches().map(|x| format!("{}+{}", x.range().start, x.range().len())).collect::<Vec<_>>().join(",")); }
            println!();
        }
    }
}
