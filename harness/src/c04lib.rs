//! History machinery shared by c04 (history independence) and c16 (timeouts):
//! rule sets, buffers, the API alphabet, an executor for used / fresh
//! scanners, delta debugging.
#![allow(dead_code)]
use crate::scanx::*;
use std::panic::AssertUnwindSafe;
use std::time::Duration;
use verif_harness::util::*;

pub const RS_MIX: &str = r#"
import "cuckoo"
import "test_proto3"
import "test_proto2"
import "hash"
import "math"
import "pe"
rule fs_defined { condition: defined filesize }
rule fs_eq5 { condition: filesize == 5 }
rule fs_small { condition: filesize < 64 }
rule u8_def { condition: defined uint8(0) }
rule u16_12 { condition: uint16(0) == 0x3231 }
rule md5_def { condition: defined hash.md5(0, 3) }
rule md5_123 { condition: hash.md5(0, 3) == "202cb962ac59075b964b07152d234b70" }
rule crc_def { condition: defined hash.crc32(0, 4) }
rule ent_def { condition: defined math.entropy(0, 8) }
rule ent_big { condition: math.entropy(0, 5000) > 2.0 }
rule pe_def { condition: defined pe.is_pe }
rule pe_is { condition: pe.is_pe }
rule imphash_def { condition: defined pe.imphash() }
rule tp3_one { condition: test_proto3.int64_one == 1 }
rule tp3_seven { condition: test_proto3.int64_one == 7 }
rule tp3_foo { condition: test_proto3.string_foo == "foo" }
rule tp2_fsz5 { condition: test_proto2.file_size == 5 }
rule tp2_def { condition: defined test_proto2.int64_one }
rule tp2_arr { condition: test_proto2.array_int64[1] == 10 }
rule tp2_map { condition: test_proto2.map_string_int64["one"] == 1 }
rule tp2_nested { condition: test_proto2.nested.nested_int64_one == 1 }
rule tp2_for { condition: for any s in test_proto2.array_string : (s == "bar") }
rule g_int7 { condition: g_int == 7 }
rule g_str_re { condition: g_str matches /^x.*z$/ }
rule g_bool_t { condition: g_bool }
rule cuckoo_dns { condition: cuckoo.network.dns_lookup(/evil/) > 0 }
rule pat_abc { strings: $a = "abc" condition: $a }
rule pat_cnt { strings: $a = "ab" condition: #a >= 2 }
rule pat_at { strings: $a = "12" condition: $a at 0 }
rule pat_in { strings: $a = "cd" condition: $a in (2..20) }
rule pat_re { strings: $r = /x[0-9]+y/ condition: $r }
rule pat_nocase { strings: $a = "HeLLo" nocase fullword condition: $a }
rule pat_xor { strings: $a = "secret" xor condition: $a }
rule pat_chain { strings: $h = { 41 42 43 [0-300] 44 45 46 } condition: $h }
rule pat_off { strings: $a = "ab" condition: for any i in (1..#a) : (@a[i] > 3) }
rule pat_len { strings: $r = /q+/ condition: !r[1] >= 2 }
rule pat_fs { strings: $a = "abc" condition: $a and filesize < 10 }
rule pat_hdr { strings: $a = "abc" condition: uint16(0) == 0x3231 and $a }
rule pat_cnt_abc { strings: $a = "abc" condition: #a == 1 }
rule pat_first_abc { strings: $a = "abc" condition: @a[1] == 0 and !a[1] == 3 }
rule pat_one_12 { strings: $a = "12" condition: #a == 1 and @a[#a] == 0 }
private rule priv_abc { strings: $a = "abc" condition: $a }
rule uses_priv { condition: priv_abc }
"#;
pub const RS_MIX_NS2: &str = r#"
global rule glob_zz { strings: $z = "zz" condition: $z }
rule ns2_true { condition: true }
rule ns2_ab { strings: $a = "ab" condition: $a }
private rule ns2_priv { condition: true }
"#;

pub const RS_PAT: &str = r#"
rule p_abc { strings: $a = "abc" $b = "bcd" condition: any of them }
rule p_two { strings: $a = "ab" condition: #a == 2 }
rule p_re { strings: $r = /[0-9]{3,}/ condition: $r }
rule p_chain { strings: $h = { 41 42 43 [0-300] 44 45 46 } condition: $h }
rule p_cnt_abc { strings: $a = "abc" condition: #a == 1 }
rule p_first_re { strings: $r = /[0-9]{3,}/ condition: @r[1] == 0 and !r[1] >= 3 and #r <= 3 }
rule p_none { strings: $a = "abc" condition: not $a }
rule p_true { condition: true }
global rule p_glob { strings: $q = "q" condition: not $q }
"#;

pub const RS_HASH: &str = r#"
import "hash"
import "math"
rule h_md5_def { condition: defined hash.md5(0, 3) }
rule h_md5_123 { condition: hash.md5(0, 3) == "202cb962ac59075b964b07152d234b70" }
rule h_sha1_def { condition: defined hash.sha1(0, 3) }
rule h_ent { condition: math.entropy(0, 5000) > 2.0 }
rule h_fs { condition: filesize == 5 }
"#;

pub struct RuleSet { pub name: &'static str, pub source: String, pub rules: yara_x::Rules, pub has_globals: bool }

pub fn rule_sets() -> Vec<RuleSet> {
    let mut v = vec![];
    {
        let mut c = yara_x::Compiler::new();
        c.define_global("g_int", 0i64).unwrap();
        c.define_global("g_str", "").unwrap();
        c.define_global("g_bool", false).unwrap();
        c.add_source(RS_MIX).unwrap_or_else(|e| panic!("RS_MIX: {e}"));
        c.new_namespace("ns2");
        c.add_source(RS_MIX_NS2).unwrap_or_else(|e| panic!("RS_MIX_NS2: {e}"));
        v.push(RuleSet { name: "mix", source: format!("// globals g_int=0 g_str=\"\" g_bool=false\n{}\n// namespace ns2\n{}", RS_MIX, RS_MIX_NS2), rules: c.build(), has_globals: true });
    }
    for (name, src) in [("pat", RS_PAT), ("hash", RS_HASH)] {
        let mut c = yara_x::Compiler::new();
        c.add_source(src).unwrap_or_else(|e| panic!("{name}: {e}"));
        v.push(RuleSet { name, source: src.to_string(), rules: c.build(), has_globals: false });
    }
    v
}

/// The buffers histories and probes draw from.
pub fn buffers() -> Vec<Vec<u8>> {
    let mut big = vec![];
    for i in 0..5200u32 { big.push(b"0123456789abcdefghijklmnopqrstuvwxyz_"[(i * 7 % 37) as usize]); }
    big[100..103].copy_from_slice(b"ABC"); big[353..356].copy_from_slice(b"DEF");
    big[10..13].copy_from_slice(b"abc"); big[2000..2004].copy_from_slice(b"qqqq");
    let mut big2: Vec<u8> = (0..5100u32).map(|i| b"ghijklmnop"[(i % 10) as usize]).collect();
    big2[0..5].copy_from_slice(b"12345");
    for b in big2[600..640].iter_mut() { *b = b'q'; }
    let xored: Vec<u8> = b"secret".iter().map(|b| b ^ 0x21).collect();
    let mut mixed = b"12abcdab zz x123y hello ".to_vec(); mixed.extend_from_slice(&xored); mixed.extend_from_slice(b" abab qq");
    vec![
        b"12345".to_vec(),
        b"".to_vec(),
        b"abc".to_vec(),
        mixed,
        b"123zz ab ab abc".to_vec(),
        big,
        big2,
        b"MZ\x90\x00\x03\x00\x00\x00 abc HELLO secret x9y".to_vec(),
        b"54321".to_vec(),
    ]
}

/// A buffer whose scan makes the per-scan containers cross their size thresholds (PatternMatches::clear
/// frees everything when the total capacity of the match lists exceeds 10000): about 15000 matches of `ab`
/// for each pattern that looks for it, and a handful of matches for other patterns.
pub fn heavy_buffer() -> Vec<u8> {
    let mut v: Vec<u8> = b"ab".iter().cycle().take(30_000).copied().collect();
    v[0..5].copy_from_slice(b"12345");
    for at in [100usize, 24_010, 29_000] { v[at..at + 3].copy_from_slice(b"abc"); }
    v[5_000..5_002].copy_from_slice(b"zz");
    v[7_000..7_004].copy_from_slice(b"qqqq");
    v[9_000..9_004].copy_from_slice(b"x42y");
    v
}

#[derive(Clone, Debug, PartialEq)]
pub enum GVal { Int(i64), Str(&'static str), Bool(bool) }

#[derive(Clone, Debug, PartialEq)]
pub enum Op {
    /// contiguous scan of buffer b; `timeout_at`: make the deadline pass at the k-th poll
    Scan { buf: usize, timeout_at: Option<u64> },
    /// scan_with_options: cuckoo metadata good / bad (bad -> module error)
    ScanOpts { buf: usize, bad_meta: bool },
    SetGlobal { name: &'static str, val: GVal },
    SetTimeout { secs: u64 },
    MaxMatches { n: usize },
    FastScan { on: bool },
    ContextSize { n: usize },
    /// set_module_output_raw: 0 = test_proto3 {int64_one=7}, 1 = hash (empty), 2 = math (empty), 3 = pe (empty), 4 = cuckoo (empty)
    SetModuleOutput { which: u8 },
    IntoBlocks,
    BlockScan { base: usize, buf: usize, timeout_at: Option<u64> },
    BlockFinish { timeout_at: Option<u64> },
    /// another scanner (fresh, over rule set rs) on the same thread
    OtherScan { rs: usize, buf: usize },
    OtherBlocks { rs: usize, buf: usize },
}

impl Op {
    pub fn kind(&self) -> &'static str {
        match self {
            Op::Scan { timeout_at: None, .. } => "scan", Op::Scan { .. } => "scan_timeout",
            Op::ScanOpts { bad_meta: false, .. } => "scan_with_options", Op::ScanOpts { .. } => "scan_module_error",
            Op::SetGlobal { .. } => "set_global", Op::SetTimeout { .. } => "set_timeout", Op::MaxMatches { .. } => "max_matches_per_pattern",
            Op::FastScan { .. } => "fast_scan", Op::ContextSize { .. } => "match_context_size", Op::SetModuleOutput { .. } => "set_module_output",
            Op::IntoBlocks => "into_blocks",
            Op::BlockScan { timeout_at: None, .. } => "block_scan", Op::BlockScan { .. } => "block_scan_timeout",
            Op::BlockFinish { timeout_at: None } => "block_finish", Op::BlockFinish { .. } => "block_finish_timeout",
            Op::OtherScan { .. } => "other_scan", Op::OtherBlocks { .. } => "other_blocks",
        }
    }
    pub fn is_setter(&self) -> bool {
        matches!(self, Op::SetGlobal { .. } | Op::SetTimeout { .. } | Op::MaxMatches { .. } | Op::FastScan { .. } | Op::ContextSize { .. } | Op::SetModuleOutput { .. })
    }
    pub fn json(&self) -> String { json_str(&format!("{:?}", self)) }
}

pub const MODULE_OUTPUTS: [(&str, &[u8]); 5] = [("test_proto3", &[0xB0, 0x01, 0x07]), ("hash", &[]), ("math", &[]), ("pe", &[]), ("cuckoo", &[])];

/// Probe: one scan of `bufs` (contiguous: a single buffer; block mode: the
/// (base, buffer) list followed by finish).
#[derive(Clone, Debug, PartialEq)]
pub struct Probe { pub blocks: Vec<(usize, usize)> }

pub struct World<'r> { pub sets: &'r [RuleSet], pub bufs: &'r [Vec<u8>], pub rs: usize }

fn with_countdown<T>(k: Option<u64>, f: impl FnOnce() -> T) -> T {
    yara_x::Scanner::verif_timeout_at_poll(k);
    let r = f();
    yara_x::Scanner::verif_timeout_at_poll(None);
    r
}

/// Applies one history op to the scanner; returns the outcome tag of scanning ops.
pub fn apply<'r>(w: &World<'r>, s: &mut AnyScanner<'r>, op: &Op) -> Option<&'static str> {
    let bufs = w.bufs;
    match (op, &mut *s) {
        (Op::Scan { buf, timeout_at }, AnyScanner::Contig(sc)) => {
            let r = catch(AssertUnwindSafe(|| with_countdown(*timeout_at, || match sc.scan(&bufs[*buf]) { Ok(r) => dump_results(&r).tag(), Err(e) => err_outcome(&e).tag() })));
            Some(r.unwrap_or("panic"))
        }
        (Op::ScanOpts { buf, bad_meta }, AnyScanner::Contig(sc)) => {
            let meta: &[u8] = if *bad_meta { b"{not json" } else { br#"{"network":{"domains":[{"domain":"evil.example","ip":"1.2.3.4"}]}}"# };
            let r = catch(AssertUnwindSafe(|| {
                let opts = yara_x::ScanOptions::new().set_module_metadata("cuckoo", meta);
                match sc.scan_with_options(&bufs[*buf], opts) { Ok(r) => dump_results(&r).tag(), Err(e) => err_outcome(&e).tag() }
            }));
            Some(r.unwrap_or("panic"))
        }
        (Op::SetGlobal { name, val }, sc) => {
            if !w.sets[w.rs].has_globals { return None; }
            match (sc, val) {
                (AnyScanner::Contig(x), GVal::Int(v)) => { let _ = x.set_global(name, *v); }
                (AnyScanner::Contig(x), GVal::Str(v)) => { let _ = x.set_global(name, *v); }
                (AnyScanner::Contig(x), GVal::Bool(v)) => { let _ = x.set_global(name, *v); }
                (AnyScanner::Blocks(x), GVal::Int(v)) => { let _ = x.set_global(name, *v); }
                (AnyScanner::Blocks(x), GVal::Str(v)) => { let _ = x.set_global(name, *v); }
                (AnyScanner::Blocks(x), GVal::Bool(v)) => { let _ = x.set_global(name, *v); }
                _ => {}
            }
            None
        }
        (Op::SetTimeout { secs }, AnyScanner::Contig(x)) => { x.set_timeout(Duration::from_secs(*secs)); None }
        (Op::SetTimeout { secs }, AnyScanner::Blocks(x)) => { x.set_timeout(Duration::from_secs(*secs)); None }
        (Op::MaxMatches { n }, AnyScanner::Contig(x)) => { x.max_matches_per_pattern(*n); None }
        (Op::MaxMatches { n }, AnyScanner::Blocks(x)) => { x.max_matches_per_pattern(*n); None }
        (Op::FastScan { on }, AnyScanner::Contig(x)) => { x.fast_scan(*on); None }
        (Op::FastScan { on }, AnyScanner::Blocks(x)) => { x.fast_scan(*on); None }
        (Op::ContextSize { n }, AnyScanner::Contig(x)) => { x.match_context_size(*n); None }
        (Op::ContextSize { n }, AnyScanner::Blocks(x)) => { x.match_context_size(*n); None }
        (Op::SetModuleOutput { which }, AnyScanner::Contig(x)) => {
            let (name, bytes) = MODULE_OUTPUTS[*which as usize];
            let _ = x.set_module_output_raw(name, bytes); None
        }
        (Op::IntoBlocks, sc) => { sc.into_blocks(); None }
        (Op::BlockScan { base, buf, timeout_at }, AnyScanner::Blocks(x)) => {
            let r = catch(AssertUnwindSafe(|| with_countdown(*timeout_at, || match x.scan(*base, &bufs[*buf]) { Ok(_) => "done", Err(e) => err_outcome(&e).tag() })));
            Some(r.unwrap_or("panic"))
        }
        (Op::BlockFinish { timeout_at }, AnyScanner::Blocks(x)) => {
            let r = catch(AssertUnwindSafe(|| with_countdown(*timeout_at, || match x.finish() { Ok(r) => dump_results(&r).tag(), Err(e) => err_outcome(&e).tag() })));
            Some(r.unwrap_or("panic"))
        }
        (Op::OtherScan { rs, buf }, _) => {
            let rules = &w.sets[*rs].rules;
            let r = catch(AssertUnwindSafe(|| { let mut o = yara_x::Scanner::new(rules); match o.scan(&bufs[*buf]) { Ok(r) => dump_results(&r).tag(), Err(e) => err_outcome(&e).tag() } }));
            Some(r.unwrap_or("panic"))
        }
        (Op::OtherBlocks { rs, buf }, _) => {
            let rules = &w.sets[*rs].rules;
            let r = catch(AssertUnwindSafe(|| {
                let mut o = yara_x::blocks::Scanner::new(rules);
                let _ = o.scan(0, &bufs[*buf]);
                match o.finish() { Ok(r) => dump_results(&r).tag(), Err(e) => err_outcome(&e).tag() }
            }));
            Some(r.unwrap_or("panic"))
        }
        _ => None, // op not applicable to the current scanner kind: skipped
    }
}

/// Is the op applicable given the scanner kind (used by generator and shrinker)?
pub fn applicable(op: &Op, blocks: bool) -> bool {
    match op {
        Op::Scan { .. } | Op::ScanOpts { .. } | Op::SetModuleOutput { .. } | Op::IntoBlocks => !blocks,
        Op::BlockScan { .. } | Op::BlockFinish { .. } => blocks,
        _ => true,
    }
}

pub struct ProbeRun { pub outcome: Outcome, pub pre: String, pub captures: Vec<(String, String)>, pub post: String }

/// Runs the probe on the scanner, capturing the digests at the end of the prologue(s).
pub fn run_probe<'r>(w: &World<'r>, s: &mut AnyScanner<'r>, p: &Probe) -> ProbeRun {
    let pre = s.digest();
    yara_x::Scanner::verif_capture(true);
    let outcome = match s {
        AnyScanner::Contig(sc) => {
            let data = &w.bufs[p.blocks[0].1];
            match catch(AssertUnwindSafe(|| match sc.scan(data) { Ok(r) => dump_results(&r), Err(e) => err_outcome(&e) })) { Ok(o) => o, Err(e) => Outcome::Panic(e) }
        }
        AnyScanner::Blocks(sc) => {
            match catch(AssertUnwindSafe(|| {
                for (base, b) in &p.blocks { if let Err(e) = sc.scan(*base, &w.bufs[*b]) { return err_outcome(&e); } }
                match sc.finish() { Ok(r) => dump_results(&r), Err(e) => err_outcome(&e) }
            })) { Ok(o) => o, Err(e) => Outcome::Panic(e) }
        }
        AnyScanner::Gone => Outcome::Panic("scanner gone".into()),
    };
    let captures = yara_x::Scanner::verif_take_captures();
    yara_x::Scanner::verif_capture(false);
    let post = s.digest();
    ProbeRun { outcome, pre, captures, post }
}

/// The persistent-by-API part of a history: what a fresh scanner must be given.
pub fn persistent_ops(h: &[Op]) -> (bool, Vec<Op>) {
    let mut blocks = false;
    let mut out: Vec<Op> = vec![];
    for op in h {
        if !applicable(op, blocks) { continue; }
        match op {
            Op::IntoBlocks => { blocks = true; out.retain(|o| !matches!(o, Op::SetModuleOutput { .. })); }
            // a scan consumes the pending user-supplied module outputs
            Op::Scan { .. } | Op::ScanOpts { .. } => out.retain(|o| !matches!(o, Op::SetModuleOutput { .. })),
            o if o.is_setter() => out.push(o.clone()),
            _ => {}
        }
    }
    (blocks, out)
}

/// history on a used scanner, then the probe; everything on one new thread
/// (so that the per-thread module caches start empty for every case)
pub fn run_used<'r>(w: &World<'r>, h: &[Op], p: &Probe) -> (ProbeRun, Vec<&'static str>, bool) {
    std::thread::scope(|sc| {
        sc.spawn(|| {
            let mut s = AnyScanner::Contig(yara_x::Scanner::new(&w.sets[w.rs].rules));
            let mut tags = vec![];
            for op in h { if let Some(t) = apply(w, &mut s, op) { tags.push(t); } }
            // a block sequence left open by the history is closed before the probe
            let pending = match &mut s { AnyScanner::Blocks(b) => b.verif_state_digest().contains("blk.needs_reset=false"), _ => false };
            if pending { if let Some(t) = apply(w, &mut s, &Op::BlockFinish { timeout_at: None }) { tags.push(t); } }
            let blocks = s.is_blocks();
            (run_probe(w, &mut s, p), tags, blocks)
        }).join().unwrap()
    })
}

/// the probe on a fresh scanner carrying only the persistent state, on a fresh thread
pub fn run_fresh(sets: &[RuleSet], bufs: &[Vec<u8>], rs: usize, h: &[Op], p: &Probe) -> ProbeRun {
    std::thread::scope(|sc| {
        sc.spawn(|| {
            let w = World { sets, bufs, rs };
            let (blocks, pers) = persistent_ops(h);
            let mut s = if blocks { AnyScanner::Blocks(yara_x::blocks::Scanner::new(&sets[rs].rules)) } else { AnyScanner::Contig(yara_x::Scanner::new(&sets[rs].rules)) };
            for op in &pers { apply(&w, &mut s, op); }
            run_probe(&w, &mut s, p)
        }).join().unwrap()
    })
}

/// ddmin over the history: smallest sub-sequence for which `fails` still holds.
pub fn shrink(h: &[Op], fails: &mut dyn FnMut(&[Op]) -> bool) -> Vec<Op> {
    let mut cur: Vec<Op> = h.to_vec();
    let mut n = 2usize;
    while cur.len() >= 1 {
        let chunk = (cur.len() + n - 1) / n;
        let mut reduced = false;
        let mut i = 0;
        while i < cur.len() {
            let mut cand = cur.clone();
            let end = (i + chunk).min(cand.len());
            cand.drain(i..end);
            if fails(&cand) { cur = cand; n = n.saturating_sub(1).max(2); reduced = true; break; }
            i += chunk;
        }
        if !reduced { if chunk <= 1 { break; } n = (n * 2).min(cur.len().max(2)); }
    }
    cur
}
