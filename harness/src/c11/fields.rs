//! C11: minimal, independent readers of the file formats handled by the
//! modules.  They do not parse anything for real: they only LOCATE the
//! length / size / count / offset fields and the table entries that index
//! other tables (ordinals, name indexes, section indexes, string-table
//! offsets, heap indexes), so that the harness can set each of them to a
//! boundary value.  Every read is bounds-checked (the readers also run on
//! mutated files); a reader that does not understand a file returns what it
//! found so far.

pub struct Field { pub off: usize, pub w: u8, pub be: bool, pub what: String, pub hot: bool }
/// a field whose value designates another place of the file: the structure it points to starts at `target`
/// (a file offset); `min_cut`: the lowest file offset that the same mapping (section, base) still covers
pub struct Ptr { pub off: usize, pub w: u8, pub be: bool, pub target: usize, pub min_cut: usize, pub what: String }
/// a field that holds the size of a structure starting at `start`
pub struct Sized { pub off: usize, pub w: u8, pub be: bool, pub start: usize }
/// a value of some field(s) under which the file has OTHER fields: optional members that exist only when a
/// flag / offset / magic has a given value (LNK VolumeLabelOffset == 0x14, LinkInfoHeaderSize >= 0x24, link flags,
/// PE optional-header magic, ELF class and byte order, Mach-O 32/64, DEX endian tag, OLE sector size, ZIP zip64
/// markers).  The sweep applies the writes, runs `find` again on the result and sweeps what it finds there.
pub struct Switch { pub writes: Vec<(usize, u8, bool, u64)>, pub what: String }
pub struct Found { pub fmt: &'static str, pub fields: Vec<Field>, pub dict: Vec<u64>, pub ptrs: Vec<Ptr>, pub sized: Vec<Sized>, pub switches: Vec<Switch> }

pub fn rd(d: &[u8], off: usize, w: usize, be: bool) -> Option<u64> {
    let s = d.get(off..off.checked_add(w)?)?;
    let mut v = 0u64;
    if be { for b in s { v = (v << 8) | *b as u64; } } else { for b in s.iter().rev() { v = (v << 8) | *b as u64; } }
    Some(v)
}
pub fn wr(d: &mut [u8], off: usize, w: usize, be: bool, val: u64) {
    for i in 0..w { let b = (val >> (8 * i)) as u8; if be { d[off + w - 1 - i] = b } else { d[off + i] = b } }
}

struct B<'a> { d: &'a [u8], f: Vec<Field>, dict: Vec<u64>, be: bool, ptrs: Vec<Ptr>, sized: Vec<Sized>, switches: Vec<Switch> }
impl<'a> B<'a> {
    fn new(d: &'a [u8]) -> Self { B { d, f: vec![], dict: vec![], be: false, ptrs: vec![], sized: vec![], switches: vec![] } }
    fn r(&self, off: usize, w: usize) -> Option<u64> { rd(self.d, off, w, self.be) }
    fn r16(&self, off: usize) -> Option<usize> { self.r(off, 2).map(|v| v as usize) }
    fn r32(&self, off: usize) -> Option<usize> { self.r(off, 4).map(|v| v as usize) }
    fn push(&mut self, off: usize, w: usize, what: &str, hot: bool) {
        if off.checked_add(w).map_or(false, |e| e <= self.d.len()) && !self.f.iter().any(|x| x.off == off && x.w as usize == w) {
            self.f.push(Field { off, w: w as u8, be: self.be && w > 1, what: what.to_string(), hot });
        }
    }
    /// a field that is a length, size, count, offset or an index into another table
    fn hot(&mut self, off: usize, w: usize, what: &str) { self.push(off, w, what, true) }
    /// every w-aligned (from `start`) position of [start, start + len)
    fn span(&mut self, start: usize, len: usize, w: usize, what: &str) {
        let mut o = start;
        while o + w <= start.saturating_add(len) { self.push(o, w, what, false); o += w; }
    }
    fn hspan(&mut self, start: usize, len: usize, w: usize, what: &str) {
        let mut o = start;
        while o + w <= start.saturating_add(len) { self.push(o, w, what, true); o += w; }
    }
    /// the field at `off` points to the file offset `target`
    fn ptr(&mut self, off: usize, w: usize, target: usize, min_cut: usize, what: &str) {
        if off.checked_add(w).map_or(false, |e| e <= self.d.len()) && target > 0 && target < self.d.len() && self.ptrs.len() < 400 && !self.ptrs.iter().any(|p| p.off == off) {
            self.hot(off, w, what);
            self.ptrs.push(Ptr { off, w: w as u8, be: self.be && w > 1, target, min_cut, what: what.to_string() });
        }
    }
    /// the field at `off` is the size of the structure that starts at `start`
    fn size_of(&mut self, off: usize, w: usize, start: usize, what: &str) {
        if off.checked_add(w).map_or(false, |e| e <= self.d.len()) && start < self.d.len() && self.sized.len() < 400 {
            self.hot(off, w, what);
            self.sized.push(Sized { off, w: w as u8, be: self.be && w > 1, start });
        }
    }
    /// the file would have other fields if the field at `off` held `val`
    fn switch(&mut self, off: usize, w: usize, val: u64, what: &str) { self.switch2(&[(off, w, val)], what) }
    fn switch2(&mut self, ws: &[(usize, usize, u64)], what: &str) {
        if ws.iter().all(|(off, w, _)| off.checked_add(*w).map_or(false, |e| e <= self.d.len())) && ws.iter().any(|(off, w, val)| self.r(*off, *w) != Some(*val)) && self.switches.len() < 64 {
            self.switches.push(Switch { writes: ws.iter().map(|(off, w, val)| (*off, *w as u8, self.be && *w > 1, *val)).collect(), what: what.to_string() });
        }
    }
    fn count(&mut self, v: usize) { let v = v as u64; if v > 0 && !self.dict.contains(&v) && self.dict.len() < 10 { self.dict.push(v); } }
}

/// indexes of a table worth touching: the first ones, the middle, the last
fn picks(n: usize, first: usize) -> Vec<usize> {
    let mut v: Vec<usize> = (0..n.min(first)).collect();
    if n > first { for x in [n / 2, n - 1] { if !v.contains(&x) { v.push(x); } } }
    v
}

pub fn find(d: &[u8]) -> Found {
    let mut b = B::new(d);
    let fmt = if d.starts_with(b"MZ") { pe(&mut b); "pe" }
        else if d.starts_with(b"\x7fELF") { elf(&mut b); "elf" }
        else if d.len() >= 4 && (d[..4] == [0xcf, 0xfa, 0xed, 0xfe] || d[..4] == [0xce, 0xfa, 0xed, 0xfe] || d[..4] == [0xfe, 0xed, 0xfa, 0xce] || d[..4] == [0xfe, 0xed, 0xfa, 0xcf]) { macho_thin(&mut b, 0); "macho" }
        else if d.len() >= 8 && d[..4] == [0xca, 0xfe, 0xba, 0xbe] { macho_fat(&mut b); "macho" }
        else if d.starts_with(&[0x4c, 0, 0, 0]) { lnk(&mut b); "lnk" }
        else if d.starts_with(b"dex\n") { dex(&mut b); "dex" }
        else if d.starts_with(b"Cr24") { crx(&mut b); zip(&mut b); "crx" }
        else if d.starts_with(&[0xd0, 0xcf, 0x11, 0xe0]) { ole(&mut b); "ole" }
        else if d.starts_with(b"PK") { zip(&mut b); "zip" }
        else { "other" };
    tags(&mut b);
    Found { fmt, fields: b.f, dict: b.dict, ptrs: b.ptrs, sized: b.sized, switches: b.switches }
}

/// magic tags that parsers SEARCH for (or recognise wherever a pointer leads): found by search here too
fn tags(b: &mut B) {
    let list: [(&[u8], &str); 16] = [(b"Rich", "tag.Rich"), (b"PE\0\0", "tag.PE"), (b"PK\x05\x06", "tag.zip.eocd"), (b"PK\x01\x02", "tag.zip.central"), (b"PK\x03\x04", "tag.zip.local"),
        (b"PK\x06\x06", "tag.zip64.eocd"), (b"PK\x06\x07", "tag.zip64.locator"), (b"BSJB", "tag.dotnet.metadata"), (b"R\0o\0o\0t\0 \0E\0n\0t\0r\0y\0", "tag.ole.root_entry"),
        (&[0xfa, 0xde, 0x0c, 0xc0], "tag.codesign.superblob"), (&[0xfa, 0xde, 0x0c, 0x02], "tag.codesign.directory"), (&[0xfa, 0xde, 0x71, 0x71], "tag.codesign.entitlements"),
        (&[0xfa, 0xde, 0x0b, 0x01], "tag.codesign.signature"), (b"V\0S\0_\0V\0E\0R\0S\0I\0O\0N\0", "tag.pe.version_info"), (b"RSDS", "tag.pe.codeview"), (b"\x01\0\x02\0\0\0", "tag.ole.summary")];
    let d = b.d;
    let hay = &d[..d.len().min(512 << 10)];
    // one pass: first byte -> candidate tags
    let mut first = [false; 256];
    for (t, _) in list.iter() { first[t[0] as usize] = true; }
    let mut at: Vec<Vec<usize>> = vec![vec![]; list.len()];
    for (i, c) in hay.iter().enumerate() {
        if !first[*c as usize] { continue; }
        for (k, (t, _)) in list.iter().enumerate() { if hay.len() - i >= t.len() && &hay[i..i + t.len()] == *t && at[k].len() < 64 { at[k].push(i); } }
    }
    for (k, ps) in at.into_iter().enumerate() {
        let n = ps.len();
        for (i, p) in ps.into_iter().enumerate() { if i < 3 || i + 3 >= n { b.push(p, list[k].0.len().min(4), list[k].1, false); } }
    }
}

// ---------------------------------------------------------------- PE (+ .NET metadata)
fn pe(b: &mut B) {
    b.hot(0x3c, 4, "dos.e_lfanew");
    let pe = match b.r32(0x3c) { Some(x) => x, None => return };
    if b.d.get(pe..pe.saturating_add(4)) != Some(&b"PE\0\0"[..]) { return; }
    b.ptr(0x3c, 4, pe, 0, "dos.e_lfanew");
    b.push(pe + 4, 2, "coff.machine", false); b.hot(pe + 6, 2, "coff.number_of_sections"); b.hot(pe + 12, 4, "coff.pointer_to_symbol_table");
    b.hot(pe + 16, 4, "coff.number_of_symbols"); b.hot(pe + 20, 2, "coff.size_of_optional_header"); b.push(pe + 22, 2, "coff.characteristics", false);
    let opt = pe + 24;
    let soh = b.r16(pe + 20).unwrap_or(0);
    let plus = b.r16(opt) == Some(0x20b);
    // the other layout of the optional header (ImageBase width, position of the data directories)
    b.switch(opt, 2, if plus { 0x10b } else { 0x20b }, "switch:optional_header.magic");
    b.size_of(pe + 20, 2, opt, "coff.size_of_optional_header");
    for o in [0usize, 40, 42, 44, 46, 48, 50, 68, 70] { b.push(opt + o, 2, "opt.u16", false); }
    b.span(opt + 4, soh.min(0xf0).saturating_sub(4), 4, "opt.u32");
    let nrva = opt + if plus { 108 } else { 92 };
    b.hot(nrva, 4, "opt.number_of_rva_and_sizes");
    let ndirs = b.r32(nrva).unwrap_or(0).min(16);
    for i in 0..16 { b.hot(nrva + 4 + 8 * i, 4, &format!("datadir[{}].rva", i)); b.hot(nrva + 8 + 8 * i, 4, &format!("datadir[{}].size", i)); }
    let nsec = b.r16(pe + 6).unwrap_or(0).min(96);
    b.count(nsec);
    let sec0 = opt + soh;
    let mut secs: Vec<(usize, usize, usize, usize)> = vec![];
    for s in 0..nsec {
        let h = sec0 + 40 * s;
        if let (Some(vs), Some(va), Some(rs), Some(ro)) = (b.r32(h + 8), b.r32(h + 12), b.r32(h + 16), b.r32(h + 20)) { secs.push((va, vs, ro, rs)); } else { break; }
        if s < 10 {
            for (o, n) in [(8usize, "virtual_size"), (12, "virtual_address"), (16, "size_of_raw_data"), (20, "pointer_to_raw_data"), (24, "pointer_to_relocations"), (28, "pointer_to_linenumbers")] { b.hot(h + o, 4, &format!("section.{}", n)); }
            b.hot(h + 32, 2, "section.number_of_relocations"); b.hot(h + 34, 2, "section.number_of_linenumbers");
            if let Some(ro) = b.r32(h + 20) { b.ptr(h + 20, 4, ro, 0, "section.pointer_to_raw_data"); b.size_of(h + 16, 4, ro, "section.size_of_raw_data"); }
        }
    }
    let first_va = secs.iter().map(|s| s.0).min().unwrap_or(usize::MAX);
    let r2o = |rva: usize| -> Option<usize> {
        if rva == 0 { return None; }
        for (va, vs, ro, rs) in &secs { let sz = (*vs).max(*rs); if rva >= *va && rva - *va < sz { return Some(ro + (rva - va)); } }
        if rva < first_va { Some(rva) } else { None }
    };
    // (file offset, start of the raw data of the section that maps the rva)
    let r2o_lo = |rva: usize| -> Option<(usize, usize)> {
        if rva == 0 { return None; }
        for (va, vs, ro, rs) in &secs { let sz = (*vs).max(*rs); if rva >= *va && rva - *va < sz { return Some((ro + (rva - va), *ro)); } }
        if rva < first_va { Some((rva, 0)) } else { None }
    };
    for i in 0..ndirs {
        let (ro, so) = (nrva + 4 + 8 * i, nrva + 8 + 8 * i);
        if i == 4 { if let Some(off) = b.r32(ro) { b.ptr(ro, 4, off, 0, "datadir[4].rva"); b.size_of(so, 4, off, "datadir[4].size"); b.size_of(off, 4, off, "certificate.length"); } continue; }
        if let Some((t, lo)) = b.r32(ro).and_then(r2o_lo) { b.ptr(ro, 4, t, lo, &format!("datadir[{}].rva", i)); b.size_of(so, 4, t, &format!("datadir[{}].size", i)); }
    }
    let dir = |b: &B, i: usize| -> Option<(usize, usize)> { if i >= ndirs { return None; } Some((b.r32(nrva + 4 + 8 * i)?, b.r32(nrva + 8 + 8 * i)?)) };
    // exports: directory, address table, name pointer table, name ORDINAL table (indexes the address table)
    if let Some(ex) = dir(b, 0).and_then(|(rva, _)| r2o(rva)) {
        b.hspan(ex, 40, 4, "export.directory");
        let (nf, nn) = (b.r32(ex + 20).unwrap_or(0), b.r32(ex + 24).unwrap_or(0));
        b.count(nf); b.count(nn);
        for (o, n) in [(12usize, "export.name"), (28, "export.address_of_functions"), (32, "export.address_of_names"), (36, "export.address_of_name_ordinals")] {
            if let Some((t, lo)) = b.r32(ex + o).and_then(r2o_lo) { b.ptr(ex + o, 4, t, lo, n); }
        }
        if let Some(t) = b.r32(ex + 28).and_then(r2o) { for i in picks(nf.min(1 << 20), 3) { b.hot(t + 4 * i, 4, "export.address_table[i]"); } }
        if let Some(t) = b.r32(ex + 32).and_then(r2o) { for i in picks(nn.min(1 << 20), 3) { b.hot(t + 4 * i, 4, "export.name_pointer_table[i]"); } }
        if let Some(t) = b.r32(ex + 36).and_then(r2o) { for i in picks(nn.min(1 << 20), 4) { b.hot(t + 2 * i, 2, "export.name_ordinal_table[i]"); } }
    }
    // imports / delayed imports: descriptors and the first thunks
    if let Some(im) = dir(b, 1).and_then(|(rva, _)| r2o(rva)) {
        for k in 0..3 { b.hspan(im + 20 * k, 20, 4, "import.descriptor"); }
        let th = b.r32(im).filter(|x| *x != 0).or(b.r32(im + 16));
        if let Some(t) = th.and_then(r2o) { for i in 0..3 { b.hot(t + if plus { 8 } else { 4 } * i, 4, "import.thunk[i]"); } }
    }
    if let Some(im) = dir(b, 13).and_then(|(rva, _)| r2o(rva)) { for k in 0..2 { b.hspan(im + 32 * k, 32, 4, "delay_import.descriptor"); } }
    // resources: three levels, first entries of each, one data entry
    if let Some(rs) = dir(b, 2).and_then(|(rva, _)| r2o(rva)) {
        let mut dirs = vec![rs]; let mut seen = 0;
        while let Some(t) = dirs.pop() {
            seen += 1; if seen > 6 { break; }
            b.hot(t + 12, 2, "resource.number_of_named_entries"); b.hot(t + 14, 2, "resource.number_of_id_entries");
            let n = b.r16(t + 12).unwrap_or(0) + b.r16(t + 14).unwrap_or(0);
            b.count(n);
            for i in picks(n.min(4096), 2) {
                let e = t + 16 + 8 * i;
                b.hot(e, 4, "resource.entry.name_or_id"); b.hot(e + 4, 4, "resource.entry.offset");
                if let Some(o) = b.r32(e + 4) {
                    b.ptr(e + 4, 4, rs + (o & 0x7fff_ffff), rs, "resource.entry.offset");
                    if o & 0x8000_0000 != 0 { if dirs.len() < 3 { dirs.push(rs + (o & 0x7fff_ffff)); } }
                    else { b.hspan(rs + o, 16, 4, "resource.data_entry"); if let Some((t, lo)) = b.r32(rs + o).and_then(r2o_lo) { b.ptr(rs + o, 4, t, lo, "resource.data_entry.rva"); b.size_of(rs + o + 4, 4, t, "resource.data_entry.size"); } }
                }
                if let Some(nm) = b.r32(e) { if nm & 0x8000_0000 != 0 { b.hot(rs + (nm & 0x7fff_ffff), 2, "resource.name.length"); } }
            }
        }
    }
    if let Some(dbg) = dir(b, 6).and_then(|(rva, _)| r2o(rva)) { for k in 0..2 { b.hspan(dbg + 28 * k, 28, 4, "debug.entry"); } }
    if let Some((off, _)) = dir(b, 4) { if off != 0 { b.hot(off, 4, "certificate.length"); b.hot(off + 4, 2, "certificate.revision"); b.hot(off + 6, 2, "certificate.type"); b.span(off + 8, 24, 1, "certificate.der"); } }
    if let Some(tls) = dir(b, 9).and_then(|(rva, _)| r2o(rva)) { b.hspan(tls, 24, 4, "tls.directory"); }
    if let Some(lc) = dir(b, 10).and_then(|(rva, _)| r2o(rva)) { b.hspan(lc, 16, 4, "load_config"); }
    if let Some(bi) = dir(b, 11).and_then(|(rva, _)| r2o(rva)) { b.hspan(bi, 16, 4, "bound_import"); }
    // rich header: between the DOS stub and the PE header
    if pe > 0x80 && b.d.len() > 0x80 { if let Some(p) = b.d[0x80..pe.min(b.d.len())].windows(4).position(|w| w == b"Rich") { b.hot(0x80 + p + 4, 4, "rich.key"); b.span(0x80, 16, 4, "rich.head"); } }
    // .NET: CLI header, metadata root, stream headers, #~ header and rows
    if let Some(cli) = dir(b, 14).and_then(|(rva, _)| r2o(rva)) {
        b.hot(cli, 4, "cli.cb"); b.push(cli + 4, 2, "cli.major", false); b.push(cli + 6, 2, "cli.minor", false);
        b.hspan(cli + 8, 64, 4, "cli.header");
        if let Some((t, lo)) = b.r32(cli + 8).and_then(r2o_lo) { b.ptr(cli + 8, 4, t, lo, "cli.metadata.rva"); b.size_of(cli + 12, 4, t, "cli.metadata.size"); }
        if let Some(md) = b.r32(cli + 8).and_then(r2o) {
            b.size_of(md + 12, 4, md + 16, "metadata.version_length");
            b.push(md, 4, "metadata.signature", false); b.hot(md + 12, 4, "metadata.version_length");
            let vl = b.r32(md + 12).unwrap_or(0).min(256);
            b.push(md + 16 + vl, 2, "metadata.flags", false); b.hot(md + 18 + vl, 2, "metadata.number_of_streams");
            let ns = b.r16(md + 18 + vl).unwrap_or(0).min(8);
            let mut p = md + 20 + vl;
            for _ in 0..ns {
                b.hot(p, 4, "stream.offset"); b.hot(p + 4, 4, "stream.size");
                let (so, ss) = (b.r32(p).unwrap_or(0), b.r32(p + 4).unwrap_or(0));
                b.ptr(p, 4, md + so, md, "stream.offset"); b.size_of(p + 4, 4, md + so, "stream.size");
                let mut q = p + 8; let mut name = vec![];
                while let Some(c) = b.d.get(q) { q += 1; if *c == 0 { break; } name.push(*c); if name.len() > 32 { break; } }
                p = (q + 3) & !3;
                b.count(ss);
                let base = md + so;
                if name == b"#~" || name == b"#-" {
                    b.push(base + 4, 1, "tables.major", false); b.hot(base + 6, 1, "tables.heap_sizes");
                    b.hot(base + 8, 4, "tables.valid.lo"); b.hot(base + 12, 4, "tables.valid.hi"); b.push(base + 16, 4, "tables.sorted.lo", false);
                    let valid = rd(b.d, base + 8, 8, false).unwrap_or(0);
                    let n = valid.count_ones() as usize;
                    for i in 0..n.min(64) { if i < 14 { b.hot(base + 24 + 4 * i, 4, "tables.row_count"); } if let Some(r) = b.r32(base + 24 + 4 * i) { if i < 4 { b.count(r); } } }
                    // rows: heap indexes, table indexes and coded indexes follow each other
                    let rows = base + 24 + 4 * n; let end = (base + ss).min(b.d.len());
                    b.hspan(rows, 48, 2, "tables.rows.u16");
                    if end > rows + 64 { let step = ((end - rows - 48) / 40).max(2) & !1; let mut o = rows + 48; let mut k = 0; while o + 2 <= end && k < 40 { b.hot(o, 2, "tables.rows.u16"); o += step; k += 1; } }
                } else if name == b"#Blob" || name == b"#US" || name == b"#Strings" || name == b"#GUID" {
                    b.span(base, 12, 1, "heap.head");
                    if ss > 64 { b.span(base + ss / 2, 6, 1, "heap.middle"); }
                }
            }
        }
    }
}

// ---------------------------------------------------------------- ELF
fn elf(b: &mut B) {
    let d = b.d;
    if d.len() < 0x34 { return; }
    let is64 = d[4] == 2; b.be = d[5] == 2;
    b.switch(4, 1, if is64 { 1 } else { 2 }, "switch:ei_class"); b.switch(5, 1, if d[5] == 2 { 1 } else { 2 }, "switch:ei_data");
    let a = if is64 { 8 } else { 4 }; // address size
    b.push(0x10, 2, "ehdr.e_type", false); b.push(0x12, 2, "ehdr.e_machine", false); b.push(0x14, 4, "ehdr.e_version", false);
    b.hot(0x18, a, "ehdr.e_entry"); b.hot(0x18 + a, a, "ehdr.e_phoff"); b.hot(0x18 + 2 * a, a, "ehdr.e_shoff");
    let t = 0x18 + 3 * a;
    b.push(t, 4, "ehdr.e_flags", false);
    for (i, n) in ["e_ehsize", "e_phentsize", "e_phnum", "e_shentsize", "e_shnum", "e_shstrndx"].iter().enumerate() { b.hot(t + 4 + 2 * i, 2, &format!("ehdr.{}", n)); }
    let cl = |x: u64| x.min(1 << 40) as usize; // keeps the readers' own arithmetic in range
    let (phoff, shoff) = (cl(b.r(0x18 + a, a).unwrap_or(0)), cl(b.r(0x18 + 2 * a, a).unwrap_or(0)));
    let (phnum, shnum, shstr) = (b.r16(t + 8).unwrap_or(0), b.r16(t + 12).unwrap_or(0), b.r16(t + 14).unwrap_or(0));
    b.count(phnum); b.count(shnum);
    b.ptr(0x18 + a, a, phoff, 0, "ehdr.e_phoff"); b.ptr(0x18 + 2 * a, a, shoff, 0, "ehdr.e_shoff");
    let (phsz, shsz) = if is64 { (56, 64) } else { (32, 40) };
    // program headers: the first ones, PT_DYNAMIC, PT_NOTE
    let mut want: Vec<usize> = (0..phnum.min(3)).collect();
    for ty in [2u64, 4] { if let Some(i) = (0..phnum.min(64)).find(|i| b.r(phoff + phsz * i, 4) == Some(ty)) { if !want.contains(&i) { want.push(i); } } }
    for i in want {
        let h = phoff + phsz * i;
        if is64 { b.hot(h, 4, "phdr.p_type"); b.push(h + 4, 4, "phdr.p_flags", false); for (k, n) in ["p_offset", "p_vaddr", "p_paddr", "p_filesz", "p_memsz", "p_align"].iter().enumerate() { b.hot(h + 8 + 8 * k, 8, &format!("phdr.{}", n)); } }
        else { for (k, n) in ["p_type", "p_offset", "p_vaddr", "p_paddr", "p_filesz", "p_memsz", "p_flags", "p_align"].iter().enumerate() { b.hot(h + 4 * k, 4, &format!("phdr.{}", n)); } }
        let (ty, off) = (b.r(h, 4).unwrap_or(0), cl(b.r(h + if is64 { 8 } else { 4 }, a).unwrap_or(0)));
        b.ptr(h + if is64 { 8 } else { 4 }, a, off, 0, "phdr.p_offset"); b.size_of(h + if is64 { 32 } else { 16 }, a, off, "phdr.p_filesz");
        if ty == 2 { for k in 0..6 { b.hot(off + 2 * a * k, a, "dynamic.d_tag"); b.hot(off + 2 * a * k + a, a, "dynamic.d_val"); } }
        if ty == 4 { b.hspan(off, 12, 4, "note.header"); }
    }
    // section headers: the first ones, symbol / string / dynamic / note tables, the name table
    let mut want: Vec<usize> = (0..shnum.min(3)).collect();
    for ty in [2u64, 3, 6, 7, 11, 0x6fff_fff6, 0x6fff_ffff, 0x6fff_fffe] { if let Some(i) = (0..shnum.min(256)).find(|i| b.r(shoff + shsz * i + 4, 4) == Some(ty)) { if !want.contains(&i) { want.push(i); } } }
    if shstr < shnum && !want.contains(&shstr) { want.push(shstr); }
    for i in want {
        let h = shoff + shsz * i;
        b.hot(h, 4, "shdr.sh_name"); b.hot(h + 4, 4, "shdr.sh_type");
        let (off_o, size_o, link_o, ent_o) = if is64 { (0x18, 0x20, 0x28, 0x38) } else { (0x10, 0x14, 0x18, 0x24) };
        b.push(h + 8, a, "shdr.sh_flags", false); b.hot(h + 8 + a, a, "shdr.sh_addr"); b.hot(h + off_o, a, "shdr.sh_offset"); b.hot(h + size_o, a, "shdr.sh_size");
        b.hot(h + link_o, 4, "shdr.sh_link"); b.hot(h + link_o + 4, 4, "shdr.sh_info"); b.hot(h + link_o + 8, a, "shdr.sh_addralign"); b.hot(h + ent_o, a, "shdr.sh_entsize");
        let (ty, off, size) = (b.r(h + 4, 4).unwrap_or(0), cl(b.r(h + off_o, a).unwrap_or(0)), cl(b.r(h + size_o, a).unwrap_or(0)));
        if ty != 8 { b.ptr(h + off_o, a, off, 0, "shdr.sh_offset"); b.size_of(h + size_o, a, off, "shdr.sh_size"); }
        if ty == 2 || ty == 11 {
            let es = if is64 { 24 } else { 16 }; let n = size / es; b.count(n);
            for k in picks(n.min(1 << 20), 3) {
                let s = off + es * k;
                b.hot(s, 4, "symbol.st_name");
                if is64 { b.push(s + 4, 1, "symbol.st_info", false); b.hot(s + 6, 2, "symbol.st_shndx"); b.hot(s + 8, 8, "symbol.st_value"); b.hot(s + 16, 8, "symbol.st_size"); }
                else { b.hot(s + 4, 4, "symbol.st_value"); b.hot(s + 8, 4, "symbol.st_size"); b.push(s + 12, 1, "symbol.st_info", false); b.hot(s + 14, 2, "symbol.st_shndx"); }
            }
        }
        if ty == 3 { b.count(size); }
        if ty == 6 { for k in 0..4 { b.hot(off + 2 * a * k, a, "dynamic.d_tag"); b.hot(off + 2 * a * k + a, a, "dynamic.d_val"); } }
        if ty == 7 { b.hspan(off, 12, 4, "note.header"); }
        if ty == 0x6fff_fffe || ty == 0x6fff_fffd { b.hspan(off, 16, 2, "verneed"); b.hspan(off + 16, 16, 4, "vernaux"); }
    }
    b.be = false;
}

// ---------------------------------------------------------------- Mach-O
fn macho_fat(b: &mut B) {
    b.be = true;
    b.hot(4, 4, "fat.nfat_arch");
    let n = b.r32(4).unwrap_or(0).min(4);
    let mut offs = vec![];
    for i in 0..n { b.hspan(8 + 20 * i, 20, 4, "fat.arch"); if let Some(o) = b.r32(8 + 20 * i + 8) { offs.push(o); b.ptr(8 + 20 * i + 8, 4, o, 0, "fat.arch.offset"); b.size_of(8 + 20 * i + 12, 4, o, "fat.arch.size"); } }
    b.be = false;
    for o in offs.into_iter().take(2) { macho_thin(b, o); }
}
fn macho_thin(b: &mut B, base: usize) {
    let magic = match rd(b.d, base, 4, false) { Some(m) => m as usize, None => return };
    // the byte order of a thin file is the one in which its magic reads feedface / feedfacf
    let thin_be = magic == 0xcefaedfe || magic == 0xcffaedfe;
    if magic != 0xfeedfacf && magic != 0xfeedface && !thin_be { return; }
    let is64 = magic == 0xfeedfacf || magic == 0xcffaedfe;
    b.be = thin_be;
    b.switch(base, 4, if is64 { 0xfeedface } else { 0xfeedfacf }, "switch:magic_32/64");
    for (o, n) in [(4usize, "cputype"), (8, "cpusubtype"), (12, "filetype")] { b.push(base + o, 4, &format!("header.{}", n), false); }
    b.hot(base + 16, 4, "header.ncmds"); b.hot(base + 20, 4, "header.sizeofcmds"); b.push(base + 24, 4, "header.flags", false);
    let ncmds = b.r32(base + 16).unwrap_or(0).min(96);
    b.count(ncmds);
    let mut lc = base + if is64 { 32 } else { 28 };
    b.size_of(base + 20, 4, lc, "header.sizeofcmds");
    for _ in 0..ncmds {
        let (cmd, size) = match (b.r32(lc), b.r32(lc + 4)) { (Some(c), Some(s)) => (c, s), _ => break };
        b.hot(lc, 4, "lc.cmd"); b.size_of(lc + 4, 4, lc, "lc.cmdsize");
        b.hspan(lc + 8, size.min(80).saturating_sub(8), 4, &format!("lc[{:#x}].u32", cmd));
        let lo = |b: &B, o: usize| b.r32(lc + o).map(|x| base + x);
        if matches!(cmd, 0x8000_0033 | 0x8000_0034 | 0x1d | 0x26 | 0x29 | 0x2b | 0x2e | 0x1e) { if let Some(p) = lo(b, 8) { b.ptr(lc + 8, 4, p, base, "linkedit_data.dataoff"); b.size_of(lc + 12, 4, p, "linkedit_data.datasize"); } }
        match cmd {
            0x2 => { // LC_SYMTAB
                let es = if is64 { 16 } else { 12 };
                let n = b.r32(lc + 12).unwrap_or(0); b.count(n); b.count(b.r32(lc + 20).unwrap_or(0));
                if let Some(so) = lo(b, 8) { b.ptr(lc + 8, 4, so, base, "symtab.symoff"); }
                if let Some(st) = lo(b, 16) { b.ptr(lc + 16, 4, st, base, "symtab.stroff"); b.size_of(lc + 20, 4, st, "symtab.strsize"); }
                if let Some(so) = lo(b, 8) { for k in picks(n.min(1 << 20), 3) { let s = so + es * k; b.hot(s, 4, "nlist.n_strx"); b.push(s + 4, 1, "nlist.n_type", false); b.hot(s + 5, 1, "nlist.n_sect"); b.hot(s + 6, 2, "nlist.n_desc"); } }
            }
            0xb => { if let Some(io) = lo(b, 56) { b.ptr(lc + 56, 4, io, base, "dysymtab.indirectsymoff"); for k in 0..3 { b.hot(io + 4 * k, 4, "dysymtab.indirect_symbol[i]"); } } }
            0x19 | 0x1 => {
                let (ns_o, s0, ssz) = if cmd == 0x19 { (64, 72, 80) } else { (48, 56, 68) };
                let ns = b.r32(lc + ns_o).unwrap_or(0); b.count(ns);
                for k in picks(ns.min(255), 2) { let s = lc + s0 + ssz * k; b.hspan(s + 32, ssz - 32, 4, "section.u32"); }
            }
            0x22 | 0x8000_0022 => {
                for (o, n) in [(8usize, "rebase"), (16, "bind"), (24, "weak_bind"), (32, "lazy_bind"), (40, "export")] { if let Some(p) = lo(b, o) { if p != base { b.ptr(lc + o, 4, p, base, &format!("dyld_info.{}_off", n)); b.size_of(lc + o + 4, 4, p, &format!("dyld_info.{}_size", n)); b.hspan(p, if n == "export" { 24 } else { 8 }, 1, &format!("dyld_info.{}", n)); } } }
            }
            0x8000_0033 => { if let Some(p) = lo(b, 8) { b.hspan(p, 24, 1, "exports_trie"); } }
            0x8000_0034 => {
                if let Some(p) = lo(b, 8) {
                    b.hspan(p, 28, 4, "chained_fixups.header");
                    for (o, n) in [(4usize, "chained_fixups.starts_offset"), (8, "chained_fixups.imports_offset"), (12, "chained_fixups.symbols_offset")] { if let Some(v) = b.r32(p + o) { b.ptr(p + o, 4, p + v, p, n); } }
                    if let Some(io) = b.r32(p + 8) { for k in 0..3 { b.hot(p + io + 4 * k, 4, "chained_fixups.import[i]"); } }
                    if let Some(so) = b.r32(p + 4) { b.hspan(p + so, 16, 4, "chained_fixups.starts_in_image"); }
                    b.count(b.r32(p + 16).unwrap_or(0));
                }
            }
            0x1d => { // LC_CODE_SIGNATURE: big-endian blobs
                if let Some(p) = lo(b, 8) {
                    b.be = true;
                    b.hspan(p, 12, 4, "codesign.superblob"); b.size_of(p + 4, 4, p, "codesign.superblob.length");
                    let n = b.r32(p + 8).unwrap_or(0).min(6); b.count(n);
                    for k in 0..n {
                        b.hspan(p + 12 + 8 * k, 8, 4, "codesign.index");
                        if let Some(bo) = b.r32(p + 12 + 8 * k + 4) { b.ptr(p + 12 + 8 * k + 4, 4, p + bo, p, "codesign.index.offset"); b.size_of(p + bo + 4, 4, p + bo, "codesign.blob.length"); b.hspan(p + bo, 8, 4, "codesign.blob.header"); b.hspan(p + bo + 8, 40, 4, "codesign.blob.body"); }
                    }
                    b.be = thin_be;
                }
            }
            0x26 | 0x29 | 0x2b | 0x2e => { if let Some(p) = lo(b, 8) { b.hspan(p, 8, 1, "linkedit_data"); } }
            _ => {}
        }
        if size < 8 { break; }
        lc = lc.saturating_add(size);
    }
    b.be = false;
}

// ---------------------------------------------------------------- LNK
fn lnk(b: &mut B) {
    b.size_of(0, 4, 0, "header.size"); b.hot(0x14, 4, "header.link_flags"); b.push(0x18, 4, "header.file_attributes", false);
    b.hot(0x34, 4, "header.file_size"); b.push(0x38, 4, "header.icon_index", false); b.push(0x3c, 4, "header.show_command", false); b.push(0x40, 2, "header.hotkey", false);
    let flags = b.r32(0x14).unwrap_or(0);
    // every structure after the header is there only if its link flag is set
    for bit in 0..9u32 { b.switch(0x14, 4, (flags ^ (1 << bit)) as u64, &format!("switch:link_flags^{:#x}", 1u32 << bit)); }
    let mut p = 0x4c;
    if flags & 1 != 0 {
        b.size_of(p, 2, p + 2, "idlist.size");
        let sz = b.r16(p).unwrap_or(0); let end = p + 2 + sz; let mut q = p + 2; let mut i = 0;
        while q + 2 <= end && i < 32 {
            b.size_of(q, 2, q, "idlist.item_size");
            let isz = b.r16(q).unwrap_or(0);
            if isz == 0 { break; }
            if i < 6 { b.push(q + 2, 1, "idlist.item_type", false); b.span(q + 3, isz.min(12).saturating_sub(3), 1, "idlist.item_data"); }
            q += isz; i += 1;
        }
        p = end;
    }
    if flags & 2 != 0 {
        let li = p;
        b.hspan(li, 28, 4, "linkinfo.header"); b.size_of(li, 4, li, "linkinfo.size"); b.size_of(li + 4, 4, li, "linkinfo.header_size");
        for o in [12usize, 16, 20, 24] { if let Some(v) = b.r32(li + o) { if v != 0 { b.ptr(li + o, 4, li + v, li, "linkinfo.offset"); } } }
        let hs = b.r32(li + 4).unwrap_or(0);
        // optional members: the two unicode offsets (header size >= 0x24), VolumeID / CommonNetworkRelativeLink (LinkInfoFlags)
        if hs >= 0x24 { b.hspan(li + 28, 8, 4, "linkinfo.unicode_offsets"); for o in [28usize, 32] { if let Some(v) = b.r32(li + o) { if v != 0 { b.ptr(li + o, 4, li + v, li, "linkinfo.unicode_offset"); } } } }
        else { b.switch(li + 4, 4, 0x24, "switch:linkinfo.header_size=0x24"); }
        let lif = b.r32(li + 8).unwrap_or(0);
        for bit in [1usize, 2] { if lif & bit == 0 { b.switch(li + 8, 4, (lif | bit) as u64, &format!("switch:linkinfo.flags|{}", bit)); } }
        if let Some(v) = b.r32(li + 12) { if v != 0 {
            let vi = li + v;
            b.hspan(vi, 16, 4, "linkinfo.volume_id"); b.size_of(vi, 4, vi, "linkinfo.volume_id.size");
            if let Some(lo) = b.r32(vi + 12) { b.ptr(vi + 12, 4, vi + lo, vi, "linkinfo.volume_id.label_offset"); }
            // VolumeLabelOffsetUnicode exists only when VolumeLabelOffset == 0x14
            if b.r32(vi + 12) == Some(0x14) { b.hot(vi + 16, 4, "linkinfo.volume_id.label_offset_unicode"); if let Some(lo) = b.r32(vi + 16) { b.ptr(vi + 16, 4, vi + lo, vi, "linkinfo.volume_id.label_offset_unicode"); } }
            else { b.switch(vi + 12, 4, 0x14, "switch:volume_id.label_offset=0x14"); }
        } }
        if let Some(v) = b.r32(li + 20) { if v != 0 {
            let cn = li + v;
            b.hspan(cn, 20, 4, "linkinfo.common_network_relative_link"); b.size_of(cn, 4, cn, "linkinfo.cnrl.size");
            for o in [8usize, 12] { if let Some(x) = b.r32(cn + o) { if x != 0 { b.ptr(cn + o, 4, cn + x, cn, "linkinfo.cnrl.name_offset"); } } }
            let cf = b.r32(cn + 4).unwrap_or(0);
            for bit in [1usize, 2] { if cf & bit == 0 { b.switch(cn + 4, 4, (cf | bit) as u64, &format!("switch:cnrl.flags|{}", bit)); } }
            // the unicode name offsets exist only when NetNameOffset > 0x14
            if b.r32(cn + 8).unwrap_or(0) > 0x14 { b.hspan(cn + 20, 8, 4, "linkinfo.cnrl.unicode_offsets"); } else { b.switch(cn + 8, 4, 0x1c, "switch:cnrl.net_name_offset=0x1c"); }
        } }
        p = li + b.r32(li).unwrap_or(0);
    }
    let unicode = flags & 0x80 != 0;
    for bit in [0x4usize, 0x8, 0x10, 0x20, 0x40] {
        if flags & bit != 0 { b.hot(p, 2, "stringdata.count"); let n = b.r16(p).unwrap_or(0); p += 2 + n * if unicode { 2 } else { 1 }; }
    }
    for _ in 0..16 {
        let bs = match b.r32(p) { Some(x) => x, None => break };
        b.size_of(p, 4, p, "extradata.block_size");
        if bs < 4 { break; }
        b.hot(p + 4, 4, "extradata.block_signature");
        b.hspan(p + 8, bs.min(40).saturating_sub(8), 4, "extradata.block_body.u32"); b.span(p + 8, bs.min(24).saturating_sub(8), 2, "extradata.block_body.u16");
        p = p.saturating_add(bs);
    }
}

// ---------------------------------------------------------------- DEX
fn dex(b: &mut B) {
    b.switch(0x28, 4, 0x78563412, "switch:endian_tag=reverse");
    b.hspan(0x20, 0x50, 4, "header"); b.size_of(0x20, 4, 0, "header.file_size"); b.size_of(0x24, 4, 0, "header.header_size");
    if let (Some(ds), Some(doff)) = (b.r32(0x68), b.r32(0x6c)) { let _ = ds; b.ptr(0x6c, 4, doff, 0, "header.data_off"); b.size_of(0x68, 4, doff, "header.data_size"); }
    let tabs: [(&str, usize, usize, &[usize]); 6] = [("string_ids", 0x38, 4, &[4]), ("type_ids", 0x40, 4, &[4]), ("proto_ids", 0x48, 12, &[4, 4, 4]), ("field_ids", 0x50, 8, &[2, 2, 4]), ("method_ids", 0x58, 8, &[2, 2, 4]), ("class_defs", 0x60, 32, &[4, 4, 4, 4, 4, 4, 4, 4])];
    for (name, h, es, ws) in tabs {
        let (n, off) = (b.r32(h).unwrap_or(0), b.r32(h + 4).unwrap_or(0));
        b.count(n);
        b.ptr(h + 4, 4, off, 0, &format!("header.{}_off", name));
        for i in picks(n.min(1 << 20), 2) {
            let mut o = off + es * i;
            for w in ws { b.hot(o, *w, &format!("{}[i]", name)); o += w; }
            if name == "string_ids" { if let Some(s) = b.r32(off + 4 * i) { b.ptr(off + 4 * i, 4, s, 0, "string_ids[i]"); b.hot(s, 1, "string_data.utf16_size(uleb)"); b.push(s + 1, 1, "string_data.byte", false); } }
            if name == "class_defs" { if let Some(cd) = b.r32(off + es * i + 24) { if cd != 0 { b.hspan(cd, 8, 1, "class_data(uleb)"); } } }
        }
    }
    if let Some(m) = b.r32(0x34) {
        b.ptr(0x34, 4, m, 0, "header.map_off");
        b.hot(m, 4, "map_list.size");
        for i in 0..b.r32(m).unwrap_or(0).min(8) { let e = m + 4 + 12 * i; b.hot(e, 2, "map_item.type"); b.hot(e + 4, 4, "map_item.size"); b.hot(e + 8, 4, "map_item.offset"); }
    }
}

// ---------------------------------------------------------------- CRX
fn crx(b: &mut B) {
    b.hspan(4, 12, 4, "header");
    if b.r32(4) == Some(3) { b.size_of(8, 4, 12, "header.header_size"); } else { b.size_of(8, 4, 16, "header.public_key_length"); if let Some(k) = b.r32(8) { b.size_of(12, 4, 16 + k, "header.signature_length"); } }
    b.hspan(16, 48, 1, "header.protobuf_or_key");
}

// ---------------------------------------------------------------- ZIP
fn zip(b: &mut B) {
    let d = b.d;
    let lo = d.len().saturating_sub(66_000);
    let eocd = match d[lo..].windows(4).rposition(|w| w == b"PK\x05\x06") { Some(p) => lo + p, None => return };
    for o in [4usize, 6, 8, 10, 20] { b.hot(eocd + o, 2, "eocd.u16"); }
    b.hot(eocd + 12, 4, "eocd.central_directory_size"); b.hot(eocd + 16, 4, "eocd.central_directory_offset");
    b.count(b.r16(eocd + 10).unwrap_or(0));
    // zip64: the real values are in other records when these fields are all-ones
    b.switch(eocd + 10, 2, 0xffff, "switch:eocd.total_entries=0xffff"); b.switch(eocd + 16, 4, 0xffff_ffff, "switch:eocd.central_directory_offset=max"); b.switch(eocd + 12, 4, 0xffff_ffff, "switch:eocd.central_directory_size=max");
    // the archive may be embedded (CRX): offsets are relative to its start
    let cd_size = b.r32(eocd + 12).unwrap_or(0);
    let mut cd = match b.r32(eocd + 16) { Some(x) => x, None => return };
    // zip64: the central directory offset is in the zip64 end-of-central-directory record
    if d.get(cd..cd.saturating_add(4)) != Some(&b"PK\x01\x02"[..]) && eocd >= 20 && d.get(eocd - 20..eocd - 16) == Some(&b"PK\x06\x07"[..]) {
        if let Some(z) = b.r(eocd - 20 + 8, 8).map(|x| x.min(1 << 40) as usize) { if let Some(c) = b.r(z + 48, 8) { cd = c.min(1 << 40) as usize; } }
    }
    if d.get(cd..cd.saturating_add(4)) != Some(&b"PK\x01\x02"[..]) { cd = eocd.saturating_sub(cd_size); }
    let delta = cd.saturating_sub(b.r32(eocd + 16).unwrap_or(0));
    b.ptr(eocd + 16, 4, cd, delta, "eocd.central_directory_offset"); b.size_of(eocd + 12, 4, cd, "eocd.central_directory_size"); b.size_of(eocd + 20, 2, eocd + 22, "eocd.comment_length");
    for _ in 0..4 {
        if d.get(cd..cd.saturating_add(4)) != Some(&b"PK\x01\x02"[..]) { break; }
        for o in [4usize, 6, 8, 10, 12, 14, 28, 30, 32, 34, 36] { b.hot(cd + o, 2, "central.u16"); }
        for o in [16usize, 20, 24, 38, 42] { b.hot(cd + o, 4, "central.u32"); }
        for (o, n) in [(20usize, "compressed_size"), (24, "uncompressed_size"), (42, "local_header_offset")] { b.switch(cd + o, 4, 0xffff_ffff, &format!("switch:central.{}=max(zip64 extra)", n)); }
        b.switch(cd + 8, 2, b.r16(cd + 8).unwrap_or(0) as u64 | 8, "switch:central.flags|data_descriptor");
        let (fnl, exl) = (b.r16(cd + 28).unwrap_or(0), b.r16(cd + 30).unwrap_or(0));
        b.size_of(cd + 28, 2, cd + 46, "central.file_name_length"); b.size_of(cd + 30, 2, cd + 46 + fnl, "central.extra_length"); b.size_of(cd + 32, 2, cd + 46 + fnl + exl, "central.comment_length");
        if let Some(l) = b.r32(cd + 42).map(|x| x + delta) {
            b.ptr(cd + 42, 4, l, delta, "central.local_header_offset");
            if let (Some(lf), Some(le)) = (b.r16(l + 26), b.r16(l + 28)) { b.size_of(l + 26, 2, l + 30, "local.file_name_length"); b.size_of(l + 28, 2, l + 30 + lf, "local.extra_length"); b.size_of(l + 18, 4, l + 30 + lf + le, "local.compressed_size"); }
            if d.get(l..l.saturating_add(4)) == Some(&b"PK\x03\x04"[..]) { for o in [4usize, 6, 8, 10, 12, 26, 28] { b.hot(l + o, 2, "local.u16"); } for o in [14usize, 18, 22] { b.hot(l + o, 4, "local.u32"); } }
        }
        let ex = cd + 46 + b.r16(cd + 28).unwrap_or(0);
        if b.r16(cd + 30).unwrap_or(0) >= 4 {
            b.hot(ex, 2, "central.extra.id"); b.size_of(ex + 2, 2, ex + 4, "central.extra.size");
            if b.r16(ex) == Some(1) { let n = b.r16(ex + 2).unwrap_or(0).min(32) / 8; for k in 0..n { b.hot(ex + 4 + 8 * k, 8, "central.extra.zip64.u64"); } }
        }
        cd = cd + 46 + b.r16(cd + 28).unwrap_or(0) + b.r16(cd + 30).unwrap_or(0) + b.r16(cd + 32).unwrap_or(0);
    }
    if eocd >= 20 && d.get(eocd - 20..eocd - 16) == Some(&b"PK\x06\x07"[..]) {
        let l = eocd - 20; b.hot(l + 4, 4, "zip64_locator.disk"); b.hot(l + 8, 8, "zip64_locator.offset"); b.hot(l + 16, 4, "zip64_locator.disks");
        if let Some(z) = b.r(l + 8, 8).map(|x| x.min(1 << 40) as usize) { if d.get(z..z.saturating_add(4)) == Some(&b"PK\x06\x06"[..]) { b.hot(z + 4, 8, "zip64_eocd.size"); for o in [24usize, 32, 40, 48] { b.hot(z + o, 8, "zip64_eocd.u64"); } b.hot(z + 16, 4, "zip64_eocd.disk"); } }
    }
}

// ---------------------------------------------------------------- OLE/CF (olecf, vba, msi)
fn ole(b: &mut B) {
    for o in [0x18usize, 0x1a, 0x1c, 0x1e, 0x20] { b.hot(o, 2, "header.u16"); }
    b.hspan(0x28, 0x24, 4, "header.u32");
    b.hspan(0x4c, 16, 4, "header.difat[i]");
    if b.r16(0x1e) == Some(9) { b.switch2(&[(0x1a, 2, 4), (0x1e, 2, 12)], "switch:major_version=4,sector_shift=12"); } else { b.switch2(&[(0x1a, 2, 3), (0x1e, 2, 9)], "switch:major_version=3,sector_shift=9"); }
    b.switch(0x38, 4, 0, "switch:mini_stream_cutoff=0"); b.switch(0x38, 4, 0xffff_ffff, "switch:mini_stream_cutoff=max");
    let shift = b.r16(0x1e).unwrap_or(9).min(12).max(7);
    let ssz = 1usize << shift;
    let sector = |n: usize| (n.saturating_add(1)).saturating_mul(ssz);
    b.count(ssz / 4); b.count(ssz / 128);
    let fat0 = b.r32(0x4c).unwrap_or(0);
    let next = |b: &B, s: usize| -> Option<usize> { if s < ssz / 4 { b.r32(sector(fat0) + 4 * s) } else { None } };
    b.hspan(sector(fat0), 32, 4, "fat[i]");
    let cutoff = b.r32(0x38).unwrap_or(4096);
    // directory: up to four sectors of the chain
    let mut ds = b.r32(0x30).unwrap_or(0); let mut entries: Vec<usize> = vec![];
    for _ in 0..4 {
        if ds >= 0xffff_fff0 { break; }
        b.hot(sector(fat0) + 4 * ds, 4, "fat[directory chain]");
        for k in 0..ssz / 128 { entries.push(sector(ds) + 128 * k); }
        ds = match next(b, ds) { Some(n) => n, None => break };
    }
    let mut root_start = None;
    for (i, e) in entries.iter().enumerate().take(24) {
        b.size_of(e + 0x40, 2, *e, "dirent.name_length"); b.hot(e + 0x42, 1, "dirent.type"); b.push(e + 0x43, 1, "dirent.color", false);
        b.hot(e + 0x44, 4, "dirent.left"); b.hot(e + 0x48, 4, "dirent.right"); b.hot(e + 0x4c, 4, "dirent.child");
        b.hot(e + 0x74, 4, "dirent.start_sector"); b.hot(e + 0x78, 4, "dirent.size"); b.hot(e + 0x7c, 4, "dirent.size_high");
        let (ty, start, size) = (b.r(e + 0x42, 1).unwrap_or(0), b.r32(e + 0x74).unwrap_or(0), b.r32(e + 0x78).unwrap_or(0));
        if i == 0 { root_start = Some(start); }
        if ty == 2 && size > 0 {
            // the head of the stream: regular sector or mini stream (inside the root entry's stream)
            let head = if size >= cutoff { Some(sector(start)) } else { root_start.and_then(|rs| { let mut s = rs; let mut o = start * 64; let mut hops = 0; while o >= ssz && hops < 64 { s = next(b, s)?; o -= ssz; hops += 1; } if o < ssz { Some(sector(s) + o) } else { None } }) };
            if let Some(h) = head { b.hspan(h, 16, 2, "stream.head.u16"); b.hspan(h, 24, 4, "stream.head.u32"); b.span(h, 8, 1, "stream.head.u8"); }
            b.hot(sector(fat0) + 4 * start, 4, "fat[stream chain]");
        }
    }
    if let Some(mf) = b.r32(0x3c) { if mf < 0xffff_fff0 { b.hspan(sector(mf), 24, 4, "minifat[i]"); } }
}

/// boundary values for a field that currently holds `cur`
pub fn values(f: &Field, cur: u64, len: usize, dict: &[u64], full: bool) -> Vec<u64> {
    let w = f.w as u32;
    let max: u64 = if w >= 8 { u64::MAX } else { (1u64 << (8 * w)) - 1 };
    let len = len as u64; let rem = len.saturating_sub(f.off as u64);
    let mut v: Vec<u64> = vec![0, 1, cur.wrapping_sub(1), cur.wrapping_add(1), max, 0xff, 0x7f, 0x80];
    if w >= 2 { v.extend_from_slice(&[2, 3, 4, 7, 8, 0x100, 0x7fff, 0x8000, 0xffff, max - 1, len, len.wrapping_sub(1), len + 1, rem, rem.wrapping_sub(1), rem + 1, rem.saturating_sub(w as u64)]); }
    if w >= 4 { v.extend_from_slice(&[0x10000, 0x7fff_ffff, 0x8000_0000, 0xffff_ffff, 0xffff_fffe, 0x8000_0001]); }
    if w >= 8 { v.extend_from_slice(&[0x1_0000_0000, 0x7fff_ffff_ffff_ffff, 0x8000_0000_0000_0000]); }
    if w >= 2 || f.hot { for c in dict { v.extend_from_slice(&[c.wrapping_sub(1), *c, c + 1]); } }
    if !full { v.truncate(8); if w >= 2 { v.extend_from_slice(&[0xffff, len, rem]); for c in dict.iter().take(3) { v.push(*c); } } }
    let mut out: Vec<u64> = vec![];
    for x in v { let x = x & max; if x != cur && !out.contains(&x) { out.push(x); } }
    out
}
