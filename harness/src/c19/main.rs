// ------------------------------------------------------------------ driver
/// inputs that crashed the C API before the repairs (or were suspected to); they run first
fn probes() -> Vec<(&'static str, PCase)> {
    let mk = |src: &str, console: bool| PCase { sources: vec![(None, src.to_string())], buffers: vec![b"alpha".to_vec()], console, ..Default::default() };
    vec![
        ("probe:meta-string-with-nul", mk("rule nulmeta { meta: a = \"foo\\x00bar\" condition: true }", false)),
        ("probe:console-log-with-nul", mk("import \"console\" rule nullog { condition: console.log(\"a\\x00b\") }", true)),
        // yrx_scanner_finish on a scanner that has not scanned any block (found by the plumbing sequences; repaired)
        ("probe:finish-without-blocks", PCase { finish_only: true, ..mk("rule f { strings: $a = \"alpha\" condition: $a }", false) }),
        // a RAW NUL character inside a metadata string (no escape: the parser keeps it a string, not bytes);
        // a C caller cannot pass such a source, but rules compiled elsewhere arrive through yrx_rules_deserialize.
        // Used to abort in yrx_rule_iter_metadata (repaired: exposed as YRX_BYTES); regression case
        ("probe:meta-raw-nul-via-deserialize", PCase { raw_nul_meta: true, ..mk("rule rawnul { meta: s = \"a\u{0}b\" condition: true }", false) }),
        ("probe:plain", mk("rule plain : t1 { meta: a = \"foo\" strings: $a = \"alpha\" condition: $a }", true)),
    ]
}

fn case_rng(seed: u64, idx: usize) -> Rng {
    let mut r = Rng::new(seed.wrapping_mul(0x9E37_79B9).wrapping_add(idx as u64 * 0x1234_5677 + 1));
    r.next(); r
}

fn pcase_json(c: &PCase) -> String {
    format!("{{\"flags\":{},\"probes\":[{}],\"second_round\":{},\"inc_dir\":{},\"globals\":{},\"sources\":[{}],\"buffers_hex\":[{}],\"overrides\":{},\"one_shot\":{},\"roundtrip\":{},\"block\":{},\"fast\":{},\"max_matches\":{},\"module_output_hex\":{},\"console\":{}}}",
        c.flags, c.probes.iter().map(|(t, s)| format!("[{},{}]", json_str(t), json_str(s))).collect::<Vec<_>>().join(","), c.second_round,
        c.inc_dir.as_ref().map_or("null".into(), |d| json_str(d)),
        json_str(&format!("{:?}", c.globals)),
        c.sources.iter().map(|(ns, s)| format!("[{},{}]", ns.as_ref().map_or("null".into(), |n| json_str(n)), json_str(s))).collect::<Vec<_>>().join(","),
        c.buffers.iter().map(|b| format!("\"{}\"", hex(b))).collect::<Vec<_>>().join(","),
        json_str(&format!("{:?}", c.overrides)), c.one_shot, c.roundtrip, c.block, c.fast,
        c.max_matches.map_or("null".into(), |n| n.to_string()),
        c.module_output.as_ref().map_or("null".into(), |m| format!("\"{}\"", hex(m))), c.console)
}

fn emit(line: String) {
    let out = std::io::stdout();
    let mut l = out.lock();
    let _ = l.write_all(line.as_bytes());
    let _ = l.write_all(b"\n");
    let _ = l.flush();
}

fn child(args: &[String]) -> i32 {
    let seed = arg_u64(args, "--seed", 1);
    let from = arg_u64(args, "--from", 0) as usize;
    let to = arg_u64(args, "--to", 0) as usize;
    let inc = arg_val(args, "--inc");
    unsafe { libc::alarm(1500); }
    std::panic::set_hook(Box::new(|info| {
        emit(format!("P\tpanic: {}", info.to_string().replace(['\n', '\t'], " ")));
    }));
    let probes = probes();
    for idx in from..to {
        let mut rng = case_rng(seed, idx);
        let mut it = Interner::new();
        let parity: Option<(String, PCase)> = if idx < probes.len() { Some((probes[idx].0.to_string(), probes[idx].1.clone())) }
            else { match rng.below(20) { 0..=8 => Some(("parity".into(), gen_pcase(&mut rng))), 9..=10 => Some(("parity-module".into(), module_case(&mut rng))), _ => None } };
        if parity.is_none() && idx >= probes.len() && rng.below(9) < 2 {
            // pending per-scan inputs on one scanner, every scanning entry point
            let kind = "pending-inputs".to_string();
            emit(format!("B\t{}\t{}\t{{\"seed\":{}}}", idx, kind, seed));
            unsafe {
                let src = cs("rule clear_slot { condition: true }");
                let mut tmp: *mut YRX_RULES = null_mut();
                yrx_compile(src.as_ptr(), &mut tmp);
                yrx_rules_destroy(tmp);
            }
            let mut rec = Rec::new(0);
            let dir = inc.clone().unwrap_or_else(|| ".".into());
            let (psteps, pairs, trace) = unsafe { run_pending(&mut rng, &mut rec, &dir, idx) };
            for t in &trace { emit(format!("P\t{}", t)); }
            let coq_pairs: Vec<String> = pairs.iter().map(|(c, r)| format!("({}, {})", coq_dump(c, &mut it), coq_dump(r, &mut it))).collect();
            let evs = rec.evs.iter().map(|e| coq_ev(e, &mut it)).collect::<Vec<_>>().join("; ");
            let coq = format!("mkCase [{}] false [{}] [{}]", evs, coq_pairs.join("; "), psteps.join("; "));
            let json = format!("{{\"index\":{},\"seed\":{},\"kind\":{},\"steps\":[{}],\"c\":[{}],\"rust\":[{}],\"events\":[{}]}}", idx, seed, json_str(&kind),
                trace.iter().map(|t| json_str(t)).collect::<Vec<_>>().join(","), pairs.iter().map(|p| json_dump(&p.0)).collect::<Vec<_>>().join(","),
                pairs.iter().map(|p| json_dump(&p.1)).collect::<Vec<_>>().join(","), rec.evs.iter().map(json_ev).collect::<Vec<_>>().join(","));
            let mut tags = vec![kind.clone()];
            for t in &trace { if t.starts_with("Scan") || t.starts_with("Finish") { tags.push(format!("pending:{}", t.to_lowercase())); } }
            if trace.iter().any(|t| t.contains("observed data=1") || t.contains("observed data=2")) { tags.push("pending:module-data-observed".into()); }
            if pairs.iter().any(|(c, r)| c != r) { tags.push("pending:DUMPS-DIFFER".into()); }
            let key = format!("{:x}", { use std::hash::{Hash, Hasher}; let mut h = std::collections::hash_map::DefaultHasher::new(); trace.hash(&mut h); h.finish() });
            emit(format!("E\t{}\t{}\t{}\t{}\t{}", idx, coq, json, tags.join(","), key));
            continue;
        }
        if let Some((kind, mut c)) = parity {
            if !c.probes.is_empty() { c.inc_dir = inc.clone(); }
            let inputs = pcase_json(&c);
            emit(format!("B\t{}\t{}\t{}", idx, kind, inputs));
            let r = rust_flow(&c);
            // the cases of a batch share this thread: start every case with an empty last-error slot
            unsafe {
                let src = cs("rule clear_slot { condition: true }");
                let mut tmp: *mut YRX_RULES = null_mut();
                yrx_compile(src.as_ptr(), &mut tmp);
                yrx_rules_destroy(tmp);
                assert!(slot().is_none(), "a successful yrx_compile did not clear the last error");
            }
            let mut rec = Rec::new(0);
            let cd = unsafe { c_flow(&c, &mut rec) };
            let mut pairs = vec![];
            for i in 0..cd.len().max(r.len()) {
                let missing = ScanDump { status: 99, ..Default::default() };
                pairs.push(format!("({}, {})", coq_dump(cd.get(i).unwrap_or(&missing), &mut it), coq_dump(r.get(i).unwrap_or(&missing), &mut it)));
            }
            let evs = rec.evs.iter().map(|e| coq_ev(e, &mut it)).collect::<Vec<_>>().join("; ");
            let coq = format!("mkCase [{}] false [{}] []", evs, pairs.join("; "));
            let json = format!("{{\"index\":{},\"seed\":{},\"kind\":{},\"inputs\":{},\"c\":[{}],\"rust\":[{}],\"events\":[{}]}}", idx, seed, json_str(&kind), inputs,
                cd.iter().map(json_dump).collect::<Vec<_>>().join(","), r.iter().map(json_dump).collect::<Vec<_>>().join(","),
                rec.evs.iter().map(json_ev).collect::<Vec<_>>().join(","));
            let mut tags = vec![kind.clone()];
            if cd.iter().skip(1).any(|d| !d.rules.is_empty()) { tags.push("parity:some-rule-matched".into()); }
            if cd.iter().any(|d| d.rules.iter().any(|r| r.pats.iter().any(|p| !p.1.is_empty()))) { tags.push("parity:has-matches".into()); }
            if cd.iter().any(|d| d.rules.iter().any(|r| !r.meta.is_empty())) { tags.push("parity:has-metadata".into()); }
            if cd.first().map_or(false, |d| d.status == 1 || d.extra.iter().any(|e| e.starts_with(b"failed:") && e != b"failed:0")) { tags.push("parity:compile-error".into()); }
            if c.block { tags.push("parity:block-scan".into()); }
            if c.roundtrip { tags.push("parity:serialize-roundtrip".into()); }
            if !c.globals.is_empty() { tags.push("parity:globals".into()); }
            if c.flags != 0 { tags.push("parity:compiler-flags".into()); }
            for (bit, name) in [(1, "colorize"), (2, "relaxed-re"), (4, "error-on-slow-pattern"), (8, "error-on-slow-loop"), (16, "condition-optimization"), (32, "disable-includes")] {
                if c.flags & bit != 0 { tags.push(format!("flag:{}", name)); }
            }
            if c.second_round { tags.push("parity:add-source-after-build".into()); }
            for d in cd.iter().take(2) { for e in &d.extra { if let Ok(t) = std::str::from_utf8(e) { if t.starts_with("probe:") && (t.ends_with(":accepted") || t.ends_with(":rejected")) { tags.push(t.to_string()); } } } }
            if cd != r { tags.push("parity:DUMPS-DIFFER".into()); }
            let nontrivial = cd.iter().skip(1).any(|d| !d.rules.is_empty());
            let key = if nontrivial { format!("{:x}", { use std::hash::{Hash, Hasher}; let mut h = std::collections::hash_map::DefaultHasher::new(); joined(&c).hash(&mut h); c.buffers.hash(&mut h); h.finish() }) } else { String::new() };
            emit(format!("E\t{}\t{}\t{}\t{}\t{}", idx, coq, json, tags.join(","), key));
        } else {
            let mode = match rng.below(8) { 0..=2 => 1, 3..=5 => 2, _ => 3 };
            let n_ops = 10 + rng.below(30) as usize;
            let kind = format!("plumbing-{}", match mode { 1 => "1-thread", 2 => "2-threads-lockstep", _ => "2-threads-concurrent" });
            emit(format!("B\t{}\t{}\t{{\"mode\":{},\"ops\":{}}}", idx, kind, mode, n_ops));
            let mut trace: Vec<String> = vec![];
            let evs = run_plumbing(&mut rng, mode, n_ops, &mut |s| { emit(format!("P\t{}", s.replace(['\n', '\t'], " "))); trace.push(s); });
            let coq = format!("mkCase [{}] false [] []", evs.iter().map(|e| coq_ev(e, &mut it)).collect::<Vec<_>>().join("; "));
            let json = format!("{{\"index\":{},\"seed\":{},\"kind\":{},\"ops\":[{}],\"events\":[{}]}}", idx, seed, json_str(&kind),
                trace.iter().filter(|t| !t.ends_with("...")).map(|t| json_str(t)).collect::<Vec<_>>().join(","), evs.iter().map(json_ev).collect::<Vec<_>>().join(","));
            let mut tags = vec![kind.clone()];
            let mut codes = std::collections::BTreeSet::new();
            for e in &evs { if let Some(c) = e.code { codes.insert(c); } }
            for c in &codes { tags.push(format!("code:{}", c)); }
            let errs = evs.iter().filter(|e| matches!(e.code, Some(1 | 2 | 3 | 4 | 6 | 8))).count();
            if errs > 0 { tags.push("plumbing:has-detail-error".into()); }
            if evs.iter().any(|e| e.code == Some(0) && e.before.is_some() && e.after.is_some()) { tags.push("plumbing:success-keeps-stale-message".into()); }
            let key = if errs > 0 { evs.iter().map(|e| format!("{}:{:?}", e.f, e.code)).collect::<Vec<_>>().join(",") } else { String::new() };
            let key = format!("{:x}", { use std::hash::{Hash, Hasher}; let mut h = std::collections::hash_map::DefaultHasher::new(); key.hash(&mut h); h.finish() });
            emit(format!("E\t{}\t{}\t{}\t{}\t{}", idx, coq, json, tags.join(","), if errs > 0 { key } else { String::new() }));
        }
    }
    0
}

fn main() {
    let args: Vec<String> = std::env::args().skip(1).collect();
    if arg_flag(&args, "--child") { std::process::exit(child(&args)); }
    std::process::exit(run(&args));
}

pub fn run(args: &[String]) -> i32 {
    use std::process::{Command, Stdio};
    let seed = arg_u64(args, "--seed", 1);
    let n = arg_u64(args, "--n", 300) as usize;
    let out = arg_val(args, "--out").expect("--out");
    let prelude = "From Coq Require Import List NArith ZArith Bool.\nFrom YV Require Import Gen.CapiEffects Capi.LastError Capi.Pending Capi.CapiCheck.\nImport ListNotations.\n";
    let mut shards = Shards::new(Path::new(&out), prelude, 40);
    let mut stats = Stats::default();
    let mut distinct = std::collections::HashSet::new();
    let mut samples: Vec<String> = vec![];
    let mut next = 0usize;
    let mut events = 0u64;
    // a file for `include` statements, registered with yrx_compiler_add_include_dir / Compiler::add_include_dir
    let inc_dir = Path::new(&out).join("inc");
    let _ = std::fs::create_dir_all(&inc_dir);
    if std::fs::write(inc_dir.join("c19_inc.yar"), "rule c19_included { condition: true }\n").is_err() { eprintln!("c19: cannot write the include file"); return 2; }
    let inc_arg = inc_dir.to_string_lossy().to_string();
    while next < n {
        let mut ch = match Command::new(std::env::current_exe().unwrap())
            .args(["--child", "--seed", &seed.to_string(), "--from", &next.to_string(), "--to", &n.to_string(), "--inc", &inc_arg])
            .stdout(Stdio::piped()).stderr(Stdio::null()).spawn() { Ok(c) => c, Err(e) => { eprintln!("c19: cannot spawn child: {e}"); return 2; } };
        let rd = std::io::BufReader::new(ch.stdout.take().unwrap());
        let mut cur: Option<(usize, String, String)> = None;
        let mut trace: Vec<String> = vec![];
        let start = next;
        for line in rd.lines() {
            let line = match line { Ok(l) => l, Err(_) => break };
            let f: Vec<&str> = line.splitn(6, '\t').collect();
            match f[0] {
                "B" if f.len() >= 4 => { cur = Some((f[1].parse().unwrap_or(usize::MAX), f[2].to_string(), f[3..].join("\t"))); trace.clear(); }
                "P" => trace.push(f[1..].join(" ")),
                "E" if f.len() >= 6 => {
                    let idx: usize = f[1].parse().unwrap_or(usize::MAX);
                    for t in f[4].split(',') { if !t.is_empty() { stats.inc(t); } }
                    if !f[5].is_empty() { distinct.insert(f[5].to_string()); }
                    events += f[2].matches("mkObs").count() as u64;
                    if samples.len() < 3 && !f[5].is_empty() && f[3].len() < 6000 { samples.push(f[3].to_string()); }
                    shards.push(f[2].to_string(), f[3].to_string());
                    cur = None; next = idx + 1;
                }
                _ => {}
            }
        }
        let status = ch.wait().map(|s| format!("{:?}", s)).unwrap_or_else(|e| e.to_string());
        if let Some((idx, kind, inputs)) = cur {
            // the child died inside this case
            stats.inc("CRASHED");
            stats.inc(&kind);
            let json = format!("{{\"index\":{},\"seed\":{},\"kind\":{},\"crashed\":true,\"exit\":{},\"inputs\":{},\"trace\":[{}]}}", idx, seed, json_str(&kind), json_str(&status),
                if inputs.starts_with('{') { inputs.clone() } else { json_str(&inputs) }, trace.iter().map(|t| json_str(t)).collect::<Vec<_>>().join(","));
            shards.push("mkCase [] true [] []".to_string(), json);
            next = idx + 1;
        } else if next == start {
            eprintln!("c19: child made no progress from case {} (exit {})", next, status);
            return 2;
        }
    }
    shards.flush();
    stats.add("recorded_api_calls", events);
    println!("{{\"evaluations\":{},\"distinct_nontrivial\":{},\"shards\":{},\"distribution\":{},\"samples\":[{}]}}",
        shards.total, distinct.len(), shards.shard_count, stats.json(), samples.join(","));
    0
}
