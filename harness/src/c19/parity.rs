// ------------------------------------------------------------------ (a) parity
#[derive(Clone, Debug)]
enum GVal { B(bool), I(i64), F(f64), S(String), J(String) }
#[derive(Clone, Debug)]
struct Global { name: String, val: GVal }

#[derive(Clone, Debug, Default)]
struct PCase {
    globals: Vec<Global>,
    /// (namespace to open before this source, source text)
    sources: Vec<(Option<String>, String)>,
    buffers: Vec<Vec<u8>>,
    overrides: Vec<Global>,
    one_shot: bool,
    roundtrip: bool,
    block: bool,
    fast: bool,
    max_matches: Option<usize>,
    /// bytes of a test_proto2 message supplied to both scanners
    module_output: Option<Vec<u8>>,
    /// install a console callback (yrx_scanner_on_console_log)
    console: bool,
    /// only: create a scanner and call finish() without scanning any block
    finish_only: bool,
    /// compile with the Rust API, serialize, and hand the rules to the C API through yrx_rules_deserialize
    raw_nul_meta: bool,
    /// flags passed to yrx_compiler_create (the Rust compiler is configured through the methods
    /// the header documents for each flag)
    flags: u32,
    /// (tag, source) added after the regular sources: each makes one compiler flag observable
    probes: Vec<(String, String)>,
    /// after build(): add the probes again to the same YRX_COMPILER (re-created with its flags) and build again
    second_round: bool,
    /// directory holding c19_inc.yar, registered with add_include_dir
    inc_dir: Option<String>,
}

const F_COLORIZE: u32 = 1;
const F_RELAXED_RE: u32 = 2;
const F_ERR_SLOW_PATTERN: u32 = 4;
const F_ERR_SLOW_LOOP: u32 = 8;
const F_COND_OPT: u32 = 16;
const F_NO_INCLUDES: u32 = 32;

/// the flags as capi/include/yara_x.h documents them, applied to a Rust compiler
fn rust_compiler<'a>(flags: u32) -> yara_x::Compiler<'a> {
    let mut c = yara_x::Compiler::new();
    if flags & F_COLORIZE != 0 { c.colorize_errors(true); }
    if flags & F_RELAXED_RE != 0 { c.relaxed_re_syntax(true); }
    if flags & F_ERR_SLOW_PATTERN != 0 { c.error_on_slow_pattern(true); }
    if flags & F_ERR_SLOW_LOOP != 0 { c.error_on_slow_loop(true); }
    if flags & F_COND_OPT != 0 { c.condition_optimization(true); }
    if flags & F_NO_INCLUDES != 0 { c.enable_includes(false); }
    c
}

fn all_probes() -> Vec<(String, String)> {
    let p = |t: &str, s: &str| (t.to_string(), s.to_string());
    vec![
        p("slow_pattern_hex", "rule pr_sp1 { strings: $a = {00 [1-10] 01} condition: $a }"),
        p("slow_pattern_re", "rule pr_sp2 { strings: $a = /a.*/ condition: $a }"),
        p("slow_loop", "rule pr_sl { condition: for any i in (0..filesize) : ( uint8(i) == 0 ) }"),
        p("relaxed_re_escape", "rule pr_re1 { strings: $a = /alp\\Rha|alpha/ condition: $a }"),
        p("relaxed_re_braces", "rule pr_re2 { strings: $a = /alpha{}|bravo/ condition: $a }"),
        p("include", "include \"c19_inc.yar\"\nrule pr_inc { condition: c19_included }"),
        p("include_missing", "include \"c19_no_such_file.yar\""),
        p("syntax_error", "rule pr_bad { condition: 1 + }"),
        p("optimizable", "rule pr_opt { condition: for all i in (0..3) : ( filesize + 2 * 3 > i ) and filesize + 2 * 3 > 0 }"),
    ]
}


const WORDS: [&str; 6] = ["alpha", "bravo", "charlie", "delta", "echo1", "foxtrot"];

fn b64(data: &[u8]) -> String {
    const T: &[u8] = b"ABCDEFGHIJKLMNOPQRSTUVWXYZabcdefghijklmnopqrstuvwxyz0123456789+/";
    let mut s = String::new();
    for c in data.chunks(3) {
        let n = (c[0] as u32) << 16 | (*c.get(1).unwrap_or(&0) as u32) << 8 | *c.get(2).unwrap_or(&0) as u32;
        s.push(T[(n >> 18) as usize & 63] as char); s.push(T[(n >> 12) as usize & 63] as char);
        s.push(if c.len() > 1 { T[(n >> 6) as usize & 63] as char } else { '=' });
        s.push(if c.len() > 2 { T[n as usize & 63] as char } else { '=' });
    }
    s
}

fn gen_pattern(rng: &mut Rng, name: &str) -> String {
    let w = *rng.pick(&WORDS);
    let hexs = |b: &[u8]| b.iter().map(|x| format!("{:02x}", x)).collect::<Vec<_>>().join(" ");
    let def = match rng.below(13) {
        0 => format!("\"{}\"", w),
        1 => format!("\"{}\" nocase", w),
        2 => format!("\"{}\" wide", w),
        3 => format!("\"{}\" ascii wide", w),
        4 => format!("\"{}\" fullword", w),
        5 => format!("\"{}\" xor", w),
        6 => format!("\"{}\" base64", w),
        7 => format!("{{ {} }}", hexs(w.as_bytes())),
        8 => format!("{{ {} ?? {} }}", hexs(&w.as_bytes()[..2]), hexs(&w.as_bytes()[3..])),
        9 => format!("{{ {} [1-3] {} }}", hexs(&w.as_bytes()[..2]), hexs(&w.as_bytes()[w.len() - 2..])),
        10 => format!("/{}[0-9]+/", w),
        11 => format!("/{}.{}/s", &w[..2], &w[3..]),
        _ => format!("/{}/i", w),
    };
    let private = if rng.chance(1, 8) { " private" } else { "" };
    format!("${} = {}{}", name, def, private)
}

fn gen_buffer(rng: &mut Rng) -> Vec<u8> {
    let mut d = vec![];
    let n = rng.below(9);
    for _ in 0..n {
        let w = *rng.pick(&WORDS);
        match rng.below(9) {
            0 | 1 => d.extend_from_slice(w.as_bytes()),
            2 => d.extend_from_slice(w.to_uppercase().as_bytes()),
            3 => for b in w.bytes() { d.push(b); d.push(0); },
            4 => { let k = 1 + rng.below(255) as u8; d.extend(w.bytes().map(|b| b ^ k)); }
            5 => d.extend_from_slice(b64(w.as_bytes()).as_bytes()),
            6 => { d.extend_from_slice(w.as_bytes()); d.extend_from_slice(format!("{}", rng.below(1000)).as_bytes()); }
            7 => { d.extend_from_slice(&w.as_bytes()[..2]); d.push(rng.below(256) as u8); d.extend_from_slice(&w.as_bytes()[3..]); }
            _ => for _ in 0..rng.below(6) { d.push(rng.below(256) as u8); },
        }
        if rng.chance(1, 2) { d.push(b' '); }
    }
    d
}

fn gen_meta(rng: &mut Rng) -> String {
    let n = rng.below(5);
    if n == 0 { return String::new(); }
    let mut s = String::from("  meta:\n");
    for k in 0..n {
        let v = match rng.below(10) {
            0 => format!("{}", rng.range(-1000, 1000)),
            1 => "9223372036854775807".to_string(),
            2 => "-9223372036854775807".to_string(),
            3 => "true".to_string(),
            4 => "false".to_string(),
            5 => format!("\"text {}\"", rng.below(100)),
            6 => "\"\u{fc}\u{f1}\u{ed} \u{4e2d}\"".to_string(),
            7 => "\"\\xff\\xfe raw\"".to_string(),
            8 => format!("{}.5", rng.below(100)),
            _ => "\"\"".to_string(),
        };
        let name = if rng.chance(1, 6) { "dup".to_string() } else { format!("m{}", k) };
        s.push_str(&format!("    {} = {}\n", name, v));
    }
    s
}

fn gen_global_cond(rng: &mut Rng, globals: &[Global]) -> Option<String> {
    if globals.is_empty() { return None; }
    let g = rng.pick(globals);
    Some(match &g.val {
        GVal::B(_) => if rng.chance(1, 2) { g.name.clone() } else { format!("not {}", g.name) },
        GVal::I(v) => format!("{} {} {}", g.name, rng.pick(&["==", "<", ">=", "!="]), if rng.chance(1, 2) { *v } else { rng.range(-5, 5) }),
        GVal::F(_) => format!("{} {} {}.25", g.name, rng.pick(&["<", ">"]), rng.range(0, 4)),
        GVal::S(v) => if rng.chance(1, 2) { format!("{} == \"{}\"", g.name, v) } else { format!("{} contains \"a\"", g.name) },
        GVal::J(_) => match rng.below(3) { 0 => format!("{}.k == 1", g.name), 1 => format!("{}.arr[1] == 2", g.name), _ => format!("{}.s == \"x\"", g.name) },
    })
}

fn gen_rule(rng: &mut Rng, id: usize, first_in_ns: usize, globals: &[Global]) -> String {
    let np = if rng.chance(1, 4) { 0 } else { 1 + rng.below(3) as usize };
    let mut s = String::new();
    if rng.chance(1, 12) { s.push_str("global "); }
    if rng.chance(1, 10) { s.push_str("private "); }
    s.push_str(&format!("rule r{}", id));
    let ntags = rng.below(3);
    if ntags > 0 {
        let all = ["t1", "mal", "x_y", "T2"];
        let first = rng.below(4) as usize;
        s.push_str(" :");
        for k in 0..ntags as usize { s.push(' '); s.push_str(all[(first + k) % 4]); }
    }
    s.push_str(" {\n");
    s.push_str(&gen_meta(rng));
    if np > 0 {
        s.push_str("  strings:\n");
        for k in 0..np { s.push_str(&format!("    {}\n", gen_pattern(rng, &format!("p{}", k)))); }
    }
    let mut parts: Vec<String> = vec![];
    match rng.below(6) {
        0 => parts.push("true".into()),
        1 => parts.push(format!("filesize > {}", rng.below(40))),
        2 => parts.push(format!("filesize < {}", rng.below(60))),
        3 => if id > first_in_ns { parts.push(format!("{}r{}", if rng.chance(1, 2) { "not " } else { "" }, first_in_ns + rng.below((id - first_in_ns) as u64) as usize)) },
        _ => {}
    }
    if rng.chance(2, 3) { if let Some(c) = gen_global_cond(rng, globals) { parts.push(c); } }
    if np > 0 {
        let p = rng.below(np as u64);
        match rng.below(7) {
            0 => parts.push(format!("#p{} >= 2", p)),
            1 => parts.push(format!("$p{} at 0", p)),
            2 => parts.push(format!("@p{}[1] < 50", p)),
            3 => parts.push(format!("!p{}[1] >= 3", p)),
            4 => parts.push(format!("$p{} in (0..30)", p)),
            _ => {}
        }
        parts.push((*rng.pick(&["any of them", "all of them"])).to_string());
    }
    if parts.is_empty() { parts.push("true".into()); }
    let mut cond = String::new();
    for (i, p) in parts.iter().enumerate() {
        if i > 0 { cond.push_str(if rng.chance(1, 2) { " and " } else { " or " }); }
        cond.push_str(&format!("({})", p));
    }
    s.push_str(&format!("  condition:\n    {}\n}}\n", cond));
    s
}

fn gen_bad_source(rng: &mut Rng, id: usize) -> String {
    match rng.below(4) {
        0 => format!("rule bad{} {{ condition: }}", id),
        1 => format!("rule bad{} {{ condition: undeclared_{} == 1 }}", id, id),
        2 => format!("rule bad{} {{ strings: $a = \"unused\" condition: true }}", id),
        _ => format!("rule bad{} {{ condition: \"str\" + 1 }}", id),
    }
}

fn gen_globals(rng: &mut Rng) -> Vec<Global> {
    let mut v = vec![];
    let n = rng.below(5);
    for k in 0..n {
        let val = match rng.below(5) {
            0 => GVal::B(rng.chance(1, 2)),
            1 => GVal::I(*rng.pick(&[0i64, 1, -1, 5, i64::MAX, i64::MIN, 42])),
            2 => GVal::F(rng.range(-3, 3) as f64 + 0.5),
            3 => GVal::S((*rng.pick(&["", "abc", "banana", "\u{fc}ber"])).to_string()),
            _ => GVal::J("{\"k\": 1, \"s\": \"x\", \"arr\": [1, 2, 3]}".to_string()),
        };
        v.push(Global { name: format!("g{}", k), val });
    }
    v
}

fn gen_pcase(rng: &mut Rng) -> PCase {
    let mut c = PCase::default();
    c.globals = gen_globals(rng);
    let n_src = 1 + rng.below(3) as usize;
    let mut id = 0usize;
    for s in 0..n_src {
        let ns = if s > 0 && rng.chance(2, 3) || rng.chance(1, 4) { Some(format!("ns{}", rng.below(3))) } else { None };
        if rng.chance(1, 7) {
            c.sources.push((ns, gen_bad_source(rng, id))); id += 1; continue;
        }
        let first = id;
        let mut text = String::new();
        for _ in 0..1 + rng.below(4) { text.push_str(&gen_rule(rng, id, first, &c.globals)); id += 1; }
        c.sources.push((ns, text));
    }
    for _ in 0..1 + rng.below(3) { c.buffers.push(gen_buffer(rng)); }
    if rng.chance(1, 6) { c.buffers.push(vec![]); }
    // scanner-level overrides: same type (accepted), other type / unknown name (rejected)
    for g in c.globals.clone() {
        if rng.chance(1, 3) {
            let val = match (&g.val, rng.chance(1, 5)) {
                (GVal::B(b), false) => GVal::B(!*b),
                (GVal::I(_), false) => GVal::I(rng.range(-5, 5)),
                (GVal::F(_), false) => GVal::F(1.25),
                (GVal::S(_), false) => GVal::S("banana".into()),
                (GVal::J(_), false) => GVal::J("{\"k\": 2, \"s\": \"y\", \"arr\": [2, 2]}".into()),
                (GVal::I(_), true) => GVal::S("wrong".into()),
                (_, true) => GVal::I(3),
            };
            c.overrides.push(Global { name: g.name.clone(), val });
        }
    }
    if rng.chance(1, 8) { c.overrides.push(Global { name: "nosuch".into(), val: GVal::I(1) }); }
    c.flags = match rng.below(4) { 0 => 0, 1 => 1 << rng.below(6), _ => rng.below(64) as u32 };
    let p_probe = if c.flags != 0 { 2 } else { 1 };
    for pr in all_probes() { if rng.chance(p_probe, 4) { c.probes.push(pr); } }
    c.second_round = !c.probes.is_empty() && rng.chance(1, 2);
    c.one_shot = c.flags == 0 && c.probes.is_empty() && c.globals.is_empty() && c.sources.iter().all(|s| s.0.is_none()) && rng.chance(1, 2);
    c.roundtrip = rng.chance(1, 6);
    c.block = rng.chance(1, 3);
    c.fast = rng.chance(1, 6);
    c.max_matches = if rng.chance(1, 6) { Some(1 + rng.below(2) as usize) } else { None };
    c
}

/// a test_proto2 message (the module's own output for empty data, with int32_one
/// changed to 7) supplied through set_module_output on both sides
fn module_case(rng: &mut Rng) -> PCase {
    use protobuf::reflect::ReflectValueBox;
    let mut c = gen_pcase(rng);
    c.one_shot = false;
    c.block = false; // set_module_output is refused in block mode
    let rules = yara_x::compile("import \"test_proto2\" rule x { condition: true }").unwrap();
    let mut sc = yara_x::Scanner::new(&rules);
    let res = sc.scan(b"").unwrap();
    let out = res.module_output("test_proto2").expect("test_proto2 output");
    let mut msg = out.clone_box();
    let d = msg.descriptor_dyn();
    let v = rng.range(2, 1000) as i32;
    d.field_by_name("int32_one").unwrap().set_singular_field(&mut *msg, ReflectValueBox::I32(v));
    d.field_by_name("string_bar").unwrap().set_singular_field(&mut *msg, ReflectValueBox::String("from_user".into()));
    c.module_output = Some(msg.write_to_bytes_dyn().unwrap());
    c.sources.push((None, format!("import \"test_proto2\"\nrule modr {{ condition: test_proto2.int32_one == {} and test_proto2.string_bar == \"from_user\" }}\nrule modn {{ condition: test_proto2.int32_one == 1 }}\n", v)));
    c
}

fn joined(c: &PCase) -> String { c.sources.iter().map(|s| s.1.clone()).collect::<Vec<_>>().join("\n") }

unsafe fn c_define(rec: &mut Rec, comp: *mut YRX_COMPILER, g: &Global) -> u32 {
    let n = cs(&g.name);
    match &g.val {
        GVal::B(b) => rec.r("yrx_compiler_define_global_bool", || yrx_compiler_define_global_bool(comp, n.as_ptr(), *b)),
        GVal::I(i) => rec.r("yrx_compiler_define_global_int", || yrx_compiler_define_global_int(comp, n.as_ptr(), *i)),
        GVal::F(f) => rec.r("yrx_compiler_define_global_float", || yrx_compiler_define_global_float(comp, n.as_ptr(), *f)),
        GVal::S(s) => { let v = cs(s); rec.r("yrx_compiler_define_global_str", || yrx_compiler_define_global_str(comp, n.as_ptr(), v.as_ptr())) }
        GVal::J(s) => { let v = cs(s); rec.r("yrx_compiler_define_global_json", || yrx_compiler_define_global_json(comp, n.as_ptr(), v.as_ptr())) }
    }
}
unsafe fn c_set(rec: &mut Rec, sc: *mut YRX_SCANNER, g: &Global) -> u32 {
    let n = cs(&g.name);
    match &g.val {
        GVal::B(b) => rec.r("yrx_scanner_set_global_bool", || yrx_scanner_set_global_bool(sc, n.as_ptr(), *b)),
        GVal::I(i) => rec.r("yrx_scanner_set_global_int", || yrx_scanner_set_global_int(sc, n.as_ptr(), *i)),
        GVal::F(f) => rec.r("yrx_scanner_set_global_float", || yrx_scanner_set_global_float(sc, n.as_ptr(), *f)),
        GVal::S(s) => { let v = cs(s); rec.r("yrx_scanner_set_global_str", || yrx_scanner_set_global_str(sc, n.as_ptr(), v.as_ptr())) }
        GVal::J(s) => { let v = cs(s); rec.r("yrx_scanner_set_global_json", || yrx_scanner_set_global_json(sc, n.as_ptr(), v.as_ptr())) }
    }
}

/// add every probe source; per probe: accepted?, the message left in the last-error slot, coloured?
unsafe fn c_probes(c: &PCase, rec: &mut Rec, comp: *mut YRX_COMPILER, extra: &mut Vec<Vec<u8>>) {
    for (tag, src) in &c.probes {
        let s = cs(src);
        let code = rec.r("yrx_compiler_add_source", || yrx_compiler_add_source(comp, s.as_ptr()));
        extra.push(format!("probe:{}:{}", tag, if code == SUCCESS { "accepted".to_string() } else if code == SYNTAX_ERROR { "rejected".to_string() } else { format!("code {}", code) }).into_bytes());
        if code != SUCCESS {
            let m = slot().unwrap_or_default();
            extra.push(format!("probe:{}:coloured:{}", tag, m.contains('\u{1b}')).into_bytes());
            extra.push(format!("probe:{}:message:{}", tag, m).into_bytes());
        }
    }
}
/// codes of the errors and warnings the compiler has accumulated (errors_json / warnings_json)
unsafe fn c_diagnostics(rec: &mut Rec, comp: *mut YRX_COMPILER, extra: &mut Vec<Vec<u8>>) {
    for (what, warn) in [("errors", false), ("warnings", true)] {
        let mut buf: *mut YRX_BUFFER = null_mut();
        let code = if warn { rec.r("yrx_compiler_warnings_json", || yrx_compiler_warnings_json(comp, &mut buf)) } else { rec.r("yrx_compiler_errors_json", || yrx_compiler_errors_json(comp, &mut buf)) };
        if code == SUCCESS {
            let js = bytes_of((*buf).data, (*buf).length);
            let codes: Vec<String> = serde_json::from_slice::<serde_json::Value>(&js).ok().and_then(|v| v.as_array().map(|a| a.iter().map(|e| e["code"].as_str().unwrap_or("?").to_string()).collect())).unwrap_or_else(|| vec!["unparsable".into()]);
            extra.push(format!("{}:{}", what, codes.join(",")).into_bytes());
            rec.o("yrx_buffer_destroy", || yrx_buffer_destroy(buf));
        } else { extra.push(format!("{}: code {}", what, code).into_bytes()); }
    }
}

unsafe fn c_flow(c: &PCase, rec: &mut Rec) -> Vec<ScanDump> {
    let mut dumps = vec![];
    let mut listing = ScanDump::default();
    let mut rules: *mut YRX_RULES = null_mut();
    let mut second: Option<ScanDump> = None;
    if c.raw_nul_meta {
        let r = yara_x::compile(joined(c).as_str()).expect("raw NUL source rejected by the Rust API");
        let bytes = r.serialize().unwrap();
        let code = rec.r("yrx_rules_deserialize", || yrx_rules_deserialize(bytes.as_ptr(), bytes.len(), &mut rules));
        if code != SUCCESS { listing.status = 1; dumps.push(listing); return dumps; }
    } else if c.one_shot {
        let src = cs(&joined(c));
        let code = rec.r("yrx_compile", || yrx_compile(src.as_ptr(), &mut rules));
        if code != SUCCESS { listing.status = 1; dumps.push(listing); return dumps; }
    } else {
        let mut comp: *mut YRX_COMPILER = null_mut();
        let flags = c.flags;
        rec.r("yrx_compiler_create", || yrx_compiler_create(flags, &mut comp));
        if let Some(d) = &c.inc_dir { let d = cs(d); rec.r("yrx_compiler_add_include_dir", || yrx_compiler_add_include_dir(comp, d.as_ptr())); }
        for g in &c.globals { let code = c_define(rec, comp, g); listing.extra.push(format!("def:{}", code == SUCCESS).into_bytes()); }
        let mut failed = 0;
        for (ns, src) in &c.sources {
            if let Some(ns) = ns { let n = cs(ns); rec.r("yrx_compiler_new_namespace", || yrx_compiler_new_namespace(comp, n.as_ptr())); }
            let s = cs(src);
            let code = rec.r("yrx_compiler_add_source", || yrx_compiler_add_source(comp, s.as_ptr()));
            if code != SUCCESS { failed += 1; if code != SYNTAX_ERROR { listing.extra.push(format!("add_source code {}", code).into_bytes()); } }
        }
        listing.extra.push(format!("failed:{}", failed).into_bytes());
        c_probes(c, rec, comp, &mut listing.extra);
        c_diagnostics(rec, comp, &mut listing.extra);
        rules = rec.o("yrx_compiler_build", || yrx_compiler_build(comp));
        if c.second_round {
            // the YRX_COMPILER was re-created inside yrx_compiler_build with the flags it was created with
            let mut l2 = ScanDump::default();
            c_probes(c, rec, comp, &mut l2.extra);
            c_diagnostics(rec, comp, &mut l2.extra);
            let r2 = rec.o("yrx_compiler_build", || yrx_compiler_build(comp));
            yrx_rules_iter(r2, cb_rule, &mut l2.rules as *mut _ as *mut c_void);
            let mut sc: *mut YRX_SCANNER = null_mut();
            rec.r("yrx_scanner_create", || yrx_scanner_create(r2, &mut sc));
            let mut out: Vec<RuleDump> = vec![];
            let ud = &mut out as *mut _ as *mut c_void;
            rec.r("yrx_scanner_on_matching_rule", || yrx_scanner_on_matching_rule(sc, cb_rule, ud));
            let b = &c.buffers[0];
            let code = rec.r("yrx_scanner_scan", || yrx_scanner_scan(sc, if b.is_empty() { null() } else { b.as_ptr() }, b.len()));
            l2.status = c_status(code);
            for r in (*(ud as *mut Vec<RuleDump>)).iter() { let mut x = b"matched:".to_vec(); x.extend(&r.ident); l2.extra.push(x); }
            rec.o("yrx_scanner_destroy", || yrx_scanner_destroy(sc));
            rec.o("yrx_rules_destroy", || yrx_rules_destroy(r2));
            second = Some(l2);
        }
        rec.o("yrx_compiler_destroy", || yrx_compiler_destroy(comp));
    }
    if c.roundtrip {
        let mut buf: *mut YRX_BUFFER = null_mut();
        if rec.r("yrx_rules_serialize", || yrx_rules_serialize(rules, &mut buf)) == SUCCESS {
            let mut r2: *mut YRX_RULES = null_mut();
            if rec.r("yrx_rules_deserialize", || yrx_rules_deserialize((*buf).data, (*buf).length, &mut r2)) == SUCCESS {
                rec.o("yrx_rules_destroy", || yrx_rules_destroy(rules));
                rules = r2;
            } else { listing.extra.push(b"deserialize failed".to_vec()); }
            rec.o("yrx_buffer_destroy", || yrx_buffer_destroy(buf));
        } else { listing.extra.push(b"serialize failed".to_vec()); }
    }
    // listing (callbacks call back into the API: not recorded as events)
    yrx_rules_iter(rules, cb_rule, &mut listing.rules as *mut _ as *mut c_void);
    let n = rec.o("yrx_rules_count", || yrx_rules_count(rules));
    listing.extra.push(format!("count:{}", n).into_bytes());
    let mut imports: Vec<Vec<u8>> = vec![];
    yrx_rules_iter_imports(rules, cb_import, &mut imports as *mut _ as *mut c_void);
    for i in imports { let mut x = b"import:".to_vec(); x.extend(i); listing.extra.push(x); }
    dumps.push(listing);
    if let Some(l2) = second { dumps.push(l2); }

    if c.finish_only {
        let mut sc: *mut YRX_SCANNER = null_mut();
        rec.r("yrx_scanner_create", || yrx_scanner_create(rules, &mut sc));
        let code = rec.r("yrx_scanner_finish", || yrx_scanner_finish(sc));
        dumps.push(ScanDump { status: c_status(code), ..Default::default() });
        rec.o("yrx_scanner_destroy", || yrx_scanner_destroy(sc));
        rec.o("yrx_rules_destroy", || yrx_rules_destroy(rules));
        return dumps;
    }
    let mut sc: *mut YRX_SCANNER = null_mut();
    rec.r("yrx_scanner_create", || yrx_scanner_create(rules, &mut sc));
    let mut out: Vec<RuleDump> = vec![];
    let ud = &mut out as *mut _ as *mut c_void;
    rec.r("yrx_scanner_on_matching_rule", || yrx_scanner_on_matching_rule(sc, cb_rule, ud));
    if let Some(n) = c.max_matches { rec.r("yrx_scanner_max_matches_per_pattern", || yrx_scanner_max_matches_per_pattern(sc, n)); }
    if c.fast { rec.r("yrx_scanner_fast_scan", || yrx_scanner_fast_scan(sc, true)); }
    if c.console { rec.r("yrx_scanner_on_console_log", || yrx_scanner_on_console_log(sc, cb_console)); }
    let mut set_status = vec![];
    for g in &c.overrides { let code = c_set(rec, sc, g); set_status.push(format!("set:{}", code == SUCCESS).into_bytes()); }
    for b in &c.buffers {
        if let Some(m) = &c.module_output {
            let name = cs("test_proto2");
            rec.r("yrx_scanner_set_module_output", || yrx_scanner_set_module_output(sc, name.as_ptr(), m.as_ptr(), m.len()));
        }
        (*(ud as *mut Vec<RuleDump>)).clear();
        let code = rec.r("yrx_scanner_scan", || yrx_scanner_scan(sc, if b.is_empty() { null() } else { b.as_ptr() }, b.len()));
        let rules_seen = (*(ud as *mut Vec<RuleDump>)).clone();
        let mut extra = set_status.clone();
        if c.console {
            // what the console callback received: a message with NUL must arrive escaped, never truncated
            let msgs = CONSOLE.with_borrow_mut(std::mem::take);
            for m in &msgs { emit(format!("P\tconsole callback received {:?}", String::from_utf8_lossy(m))); }
            if joined(c).contains("\\x00") && !msgs.iter().any(|m| m.windows(4).any(|w| w == b"\\x00")) { extra.push(b"console message with NUL not delivered escaped".to_vec()); }
        }
        dumps.push(ScanDump { status: c_status(code), extra, rules: rules_seen });
    }
    rec.o("yrx_scanner_destroy", || yrx_scanner_destroy(sc));
    if c.block {
        let b = &c.buffers[0];
        let cut = b.len() / 2;
        let mut sc: *mut YRX_SCANNER = null_mut();
        rec.r("yrx_scanner_create", || yrx_scanner_create(rules, &mut sc));
        rec.r("yrx_scanner_on_matching_rule", || yrx_scanner_on_matching_rule(sc, cb_rule, ud));
        for g in &c.overrides { c_set(rec, sc, g); }
        (*(ud as *mut Vec<RuleDump>)).clear();
        let c1 = rec.r("yrx_scanner_scan_block", || yrx_scanner_scan_block(sc, 0, b.as_ptr(), cut));
        let c2 = rec.r("yrx_scanner_scan_block", || yrx_scanner_scan_block(sc, cut, b.as_ptr().add(cut), b.len() - cut));
        let c3 = rec.r("yrx_scanner_finish", || yrx_scanner_finish(sc));
        let st = [c1, c2, c3].iter().map(|c| c_status(*c)).max().unwrap();
        let rules_seen = (*(ud as *mut Vec<RuleDump>)).clone();
        // a standard scan on a scanner in block mode is refused
        let c4 = rec.r("yrx_scanner_scan", || yrx_scanner_scan(sc, b.as_ptr(), b.len()));
        dumps.push(ScanDump { status: st, extra: vec![format!("scan-after-block:{}", c4 == INVALID_STATE).into_bytes()], rules: rules_seen });
        rec.o("yrx_scanner_destroy", || yrx_scanner_destroy(sc));
    }
    rec.o("yrx_rules_destroy", || yrx_rules_destroy(rules));
    dumps
}

fn r_define(comp: &mut yara_x::Compiler, g: &Global) -> bool {
    match &g.val {
        GVal::B(b) => comp.define_global(&g.name, *b).is_ok(),
        GVal::I(i) => comp.define_global(&g.name, *i).is_ok(),
        GVal::F(f) => comp.define_global(&g.name, *f).is_ok(),
        GVal::S(s) => comp.define_global(&g.name, s.as_str()).is_ok(),
        GVal::J(s) => comp.define_global(&g.name, serde_json::from_str::<serde_json::Value>(s).unwrap()).is_ok(),
    }
}
macro_rules! r_set { ($sc:expr, $g:expr) => { match &$g.val {
    GVal::B(b) => $sc.set_global(&$g.name, *b).is_ok(),
    GVal::I(i) => $sc.set_global(&$g.name, *i).is_ok(),
    GVal::F(f) => $sc.set_global(&$g.name, *f).is_ok(),
    GVal::S(s) => $sc.set_global(&$g.name, s.as_str()).is_ok(),
    GVal::J(s) => $sc.set_global(&$g.name, serde_json::from_str::<serde_json::Value>(s).unwrap()).is_ok(),
} } }

fn r_probes(c: &PCase, comp: &mut yara_x::Compiler, extra: &mut Vec<Vec<u8>>) {
    for (tag, src) in &c.probes {
        match comp.add_source(src.as_str()) {
            Ok(_) => extra.push(format!("probe:{}:accepted", tag).into_bytes()),
            Err(e) => {
                let m = e.to_string();
                extra.push(format!("probe:{}:rejected", tag).into_bytes());
                extra.push(format!("probe:{}:coloured:{}", tag, m.contains('\u{1b}')).into_bytes());
                extra.push(format!("probe:{}:message:{}", tag, m).into_bytes());
            }
        }
    }
}
fn r_diagnostics(comp: &yara_x::Compiler, extra: &mut Vec<Vec<u8>>) {
    extra.push(format!("errors:{}", comp.errors().iter().map(|e| e.code().to_string()).collect::<Vec<_>>().join(",")).into_bytes());
    extra.push(format!("warnings:{}", comp.warnings().iter().map(|w| w.code().to_string()).collect::<Vec<_>>().join(",")).into_bytes());
}

fn rust_flow(c: &PCase) -> Vec<ScanDump> {
    let mut dumps = vec![];
    let mut listing = ScanDump::default();
    let mut second: Option<ScanDump> = None;
    let rules = if c.one_shot || c.raw_nul_meta {
        match yara_x::compile(joined(c).as_str()) { Ok(r) => r, Err(_) => { listing.status = 1; dumps.push(listing); return dumps; } }
    } else {
        let mut comp = rust_compiler(c.flags);
        if let Some(d) = &c.inc_dir { comp.add_include_dir(d); }
        for g in &c.globals { let ok = r_define(&mut comp, g); listing.extra.push(format!("def:{}", ok).into_bytes()); }
        let mut failed = 0;
        for (ns, src) in &c.sources {
            if let Some(ns) = ns { comp.new_namespace(ns); }
            if comp.add_source(src.as_str()).is_err() { failed += 1; }
        }
        listing.extra.push(format!("failed:{}", failed).into_bytes());
        r_probes(c, &mut comp, &mut listing.extra);
        r_diagnostics(&comp, &mut listing.extra);
        let rules = comp.build();
        if c.second_round {
            // what the C API documents: after build the compiler is in the state it had after yrx_compiler_create
            let mut l2 = ScanDump::default();
            let mut comp2 = rust_compiler(c.flags);
            r_probes(c, &mut comp2, &mut l2.extra);
            r_diagnostics(&comp2, &mut l2.extra);
            let r2 = comp2.build();
            l2.rules = r2.iter().map(|r| rust_rule(&r)).collect();
            let mut sc = yara_x::Scanner::new(&r2);
            let d = rust_results(sc.scan(c.buffers[0].as_slice()));
            l2.status = d.status;
            for r in &d.rules { let mut x = b"matched:".to_vec(); x.extend(&r.ident); l2.extra.push(x); }
            second = Some(l2);
        }
        rules
    };
    listing.rules = rules.iter().map(|r| rust_rule(&r)).collect();
    listing.extra.push(format!("count:{}", rules.iter().len()).into_bytes());
    for i in rules.imports() { let mut x = b"import:".to_vec(); x.extend(i.as_bytes()); listing.extra.push(x); }
    dumps.push(listing);
    if let Some(l2) = second { dumps.push(l2); }
    if c.finish_only {
        let r = catch(std::panic::AssertUnwindSafe(|| { let mut sc = yara_x::blocks::Scanner::new(&rules); rust_results(sc.finish()) }));
        match r { Ok(d) => dumps.push(d), Err(m) => { emit(format!("P\trust API panicked too: {}", m)); dumps.push(ScanDump { status: 98, ..Default::default() }) } }
        return dumps;
    }
    {
        let mut sc = yara_x::Scanner::new(&rules);
        if let Some(n) = c.max_matches { sc.max_matches_per_pattern(n); }
        if c.fast { sc.fast_scan(true); }
        let mut set_status = vec![];
        for g in &c.overrides { let ok = r_set!(sc, g); set_status.push(format!("set:{}", ok).into_bytes()); }
        for b in &c.buffers {
            if let Some(m) = &c.module_output { let _ = sc.set_module_output_raw("test_proto2", m); }
            let mut d = rust_results(sc.scan(b.as_slice()));
            d.extra = set_status.clone();
            dumps.push(d);
        }
    }
    if c.block {
        let b = &c.buffers[0];
        let cut = b.len() / 2;
        let mut sc = yara_x::blocks::Scanner::new(&rules);
        for g in &c.overrides { let _ = r_set!(sc, g); }
        let s1 = if sc.scan(0, &b[..cut]).is_ok() { 0 } else { 2 };
        let s2 = if sc.scan(cut, &b[cut..]).is_ok() { 0 } else { 2 };
        let mut d = rust_results(sc.finish());
        d.status = d.status.max(s1).max(s2);
        // the Rust API has no "standard scan on a block scanner": the C API documents INVALID_STATE
        d.extra = vec![b"scan-after-block:true".to_vec()];
        dumps.push(d);
    }
    dumps
}
