// ------------------------------------------------------------------ (c) pending per-scan inputs
// One scanner, a sequence of set_module_data / set_module_output / set_global and scanning calls of
// every flavour; the Rust API mirrors the steps the way the header documents them (module data is
// consumed by the scan that uses it: ScanOptions per call).  Each scanning call's verdicts show
// which cuckoo report, which test_proto2 output and which global value it observed.

const PENDING_RULES: &str = "import \"cuckoo\"\nimport \"test_proto2\"\n\
rule cmA { condition: cuckoo.sync.mutex(/MUTEX_A/) > 0 }\n\
rule cmB { condition: cuckoo.sync.mutex(/MUTEX_B/) > 0 }\n\
rule out7 { condition: test_proto2.int32_one == 7 }\n\
rule out9 { condition: test_proto2.int32_one == 9 }\n\
rule g1 { condition: g_int == 1 }\nrule g2 { condition: g_int == 2 }\nrule g3 { condition: g_int == 3 }\n\
rule gb { condition: g_bool }\nrule gs { condition: g_str == \"x\" }\nrule gf { condition: g_float > 1.0 }\n\
rule pat { strings: $a = \"alpha\" condition: $a }\n\
rule pat2 { strings: $a = \"alpha\" condition: #a == 2 }\n";

fn cuckoo_report(id: u64) -> Vec<u8> {
    format!("{{\"behavior\":{{\"summary\":{{\"mutexes\":[\"MUTEX_{}\"]}}}}}}", if id == 1 { "A" } else { "B" }).into_bytes()
}

fn proto2_output(v: i32) -> Vec<u8> {
    use protobuf::reflect::ReflectValueBox;
    let rules = yara_x::compile("import \"test_proto2\" rule x { condition: true }").unwrap();
    let mut sc = yara_x::Scanner::new(&rules);
    let res = sc.scan(b"").unwrap();
    let mut msg = res.module_output("test_proto2").expect("test_proto2 output").clone_box();
    let d = msg.descriptor_dyn();
    d.field_by_name("int32_one").unwrap().set_singular_field(&mut *msg, ReflectValueBox::I32(v));
    msg.write_to_bytes_dyn().unwrap()
}

#[derive(Clone, Debug)]
enum PStep { SetData(u64), SetOut(u64), SetGlob(u64), SetBool(bool), SetStr(bool), SetFloat(bool), Timeout, MaxMatches(usize), FastScan(bool), Callback, Console, Scan, ScanFile, ScanBlock, Finish }

fn observed(d: &ScanDump) -> (u64, u64, u64) {
    let has = |n: &str| d.rules.iter().any(|r| r.ident == n.as_bytes());
    (if has("cmA") { 1 } else if has("cmB") { 2 } else if d.status == 2 { 3 } else { 0 },
     if has("out7") { 7 } else if has("out9") { 9 } else { 0 },
     if has("g1") { 1 } else if has("g2") { 2 } else if has("g3") { 3 } else { 0 })
}

enum RustScanner<'r> { Single(yara_x::Scanner<'r>), Multi(yara_x::blocks::Scanner<'r>), Gone }

/// returns (coq pending steps, dump pairs (C, Rust), trace)
unsafe fn run_pending(rng: &mut Rng, rec: &mut Rec, dir: &str, idx: usize) -> (Vec<String>, Vec<(ScanDump, ScanDump)>, Vec<String>) {
    // steps
    let mut steps = vec![PStep::SetGlob(1 + rng.below(3))];
    // a setter of any kind: they may come at every position, also between blocks and after finish
    let setter = |rng: &mut Rng| match rng.below(10) {
        0 | 1 | 2 => PStep::SetGlob(1 + rng.below(3)), 3 => PStep::SetBool(rng.chance(1, 2)), 4 => PStep::SetStr(rng.chance(1, 2)), 5 => PStep::SetFloat(rng.chance(1, 2)),
        6 => PStep::Timeout, 7 => PStep::MaxMatches(1 + rng.below(2) as usize), 8 => PStep::FastScan(rng.chance(1, 2)), _ => if rng.chance(1, 2) { PStep::Callback } else { PStep::Console } };
    for _ in 0..6 + rng.below(8) {
        steps.push(match rng.below(12) { 0 | 1 | 2 => PStep::SetData(1 + rng.below(2)), 3 | 4 => PStep::SetOut(if rng.chance(1, 2) { 7 } else { 9 }), 5 | 6 => setter(rng),
                                         7 | 8 | 9 => PStep::Scan, _ => PStep::ScanFile });
    }
    if rng.chance(2, 3) {
        // a block sequence: setters before the first block, between blocks, before and after finish
        steps.push(PStep::SetData(1 + rng.below(2)));
        for _ in 0..rng.below(3) { steps.push(setter(rng)); }
        for _ in 0..1 + rng.below(3) {
            steps.push(PStep::ScanBlock);
            for _ in 0..rng.below(3) { steps.push(setter(rng)); }
        }
        steps.push(PStep::Finish);
        for _ in 0..rng.below(3) { steps.push(setter(rng)); }
        steps.extend([PStep::SetData(1), PStep::SetOut(7)]);
        steps.push(if rng.chance(1, 2) { PStep::Scan } else { PStep::ScanFile });
        steps.push(PStep::ScanBlock);
        steps.push(setter(rng));
        steps.push(PStep::Finish);
    }
    let data = b"xx alpha yy alpha".to_vec();
    let path = format!("{}/scanfile_{}.bin", dir, idx);
    std::fs::write(&path, &data).expect("cannot write the file to scan");
    let cpath = cs(&path);
    let outs: HashMap<u64, Vec<u8>> = [(7u64, proto2_output(7)), (9u64, proto2_output(9))].into_iter().collect();

    // C side
    let mut comp: *mut YRX_COMPILER = null_mut();
    rec.r("yrx_compiler_create", || yrx_compiler_create(0, &mut comp));
    let gname = cs("g_int");
    rec.r("yrx_compiler_define_global_int", || yrx_compiler_define_global_int(comp, gname.as_ptr(), 0));
    let (gb, gs, gf, sx, sy) = (cs("g_bool"), cs("g_str"), cs("g_float"), cs("x"), cs("y"));
    rec.r("yrx_compiler_define_global_bool", || yrx_compiler_define_global_bool(comp, gb.as_ptr(), false));
    rec.r("yrx_compiler_define_global_str", || yrx_compiler_define_global_str(comp, gs.as_ptr(), sy.as_ptr()));
    rec.r("yrx_compiler_define_global_float", || yrx_compiler_define_global_float(comp, gf.as_ptr(), 0.5));
    let src = cs(PENDING_RULES);
    let code = rec.r("yrx_compiler_add_source", || yrx_compiler_add_source(comp, src.as_ptr()));
    assert_eq!(code, SUCCESS, "the pending-inputs rules were rejected: {:?}", slot());
    let rules = rec.o("yrx_compiler_build", || yrx_compiler_build(comp));
    rec.o("yrx_compiler_destroy", || yrx_compiler_destroy(comp));
    let mut sc: *mut YRX_SCANNER = null_mut();
    rec.r("yrx_scanner_create", || yrx_scanner_create(rules, &mut sc));
    let mut out: Vec<RuleDump> = vec![];
    let ud = &mut out as *mut _ as *mut c_void;
    rec.r("yrx_scanner_on_matching_rule", || yrx_scanner_on_matching_rule(sc, cb_rule, ud));

    // Rust side
    let mut rcomp = yara_x::Compiler::new();
    rcomp.define_global("g_int", 0i64).unwrap();
    rcomp.define_global("g_bool", false).unwrap();
    rcomp.define_global("g_str", "y").unwrap();
    rcomp.define_global("g_float", 0.5f64).unwrap();
    rcomp.add_source(PENDING_RULES).unwrap();
    let rrules = rcomp.build();
    let mut rs = RustScanner::Single(yara_x::Scanner::new(&rrules));
    let mut pending: Option<Vec<u8>> = None;

    let cuckoo = cs("cuckoo");
    let tp2 = cs("test_proto2");
    // buffers handed to yrx_scanner_set_module_data: the caller may reuse them once a scan has run
    let mut live: Vec<Vec<u8>> = vec![];
    let (mut coq, mut pairs, mut trace) = (vec![], vec![], vec![]);
    // result of the setters since the last scanning call, on each side
    let (mut c_extra, mut r_extra): (Vec<Vec<u8>>, Vec<Vec<u8>>) = (vec![], vec![]);
    for st in &steps {
        trace.push(format!("{:?}", st));
        match st {
            PStep::SetData(id) => {
                let buf = cuckoo_report(*id);
                let (p, l) = (buf.as_ptr(), buf.len());
                live.push(buf);
                let code = rec.r("yrx_scanner_set_module_data", || yrx_scanner_set_module_data(sc, cuckoo.as_ptr(), p, l));
                if code == SUCCESS { pending = Some(cuckoo_report(*id)); } else { live.pop(); }
                coq.push(format!("PSetData {} {}", coq_n(*id), coq_bool(code == SUCCESS)));
            }
            PStep::SetOut(v) => {
                let b = &outs[v];
                let code = rec.r("yrx_scanner_set_module_output", || yrx_scanner_set_module_output(sc, tp2.as_ptr(), b.as_ptr(), b.len()));
                if code == SUCCESS { if let RustScanner::Single(s) = &mut rs { s.set_module_output_raw("test_proto2", b).unwrap(); } }
                coq.push(format!("PSetOut {} {}", coq_n(*v), coq_bool(code == SUCCESS)));
            }
            PStep::SetGlob(g) => {
                let code = rec.r("yrx_scanner_set_global_int", || yrx_scanner_set_global_int(sc, gname.as_ptr(), *g as i64));
                let ok = match &mut rs { RustScanner::Single(s) => s.set_global("g_int", *g as i64).is_ok(), RustScanner::Multi(s) => s.set_global("g_int", *g as i64).is_ok(), RustScanner::Gone => false };
                c_extra.push(format!("set_global_int:{}", code == SUCCESS).into_bytes()); r_extra.push(format!("set_global_int:{}", ok).into_bytes());
                coq.push(format!("PSetGlob {} {}", coq_n(*g), coq_bool(code == SUCCESS)));
            }
            PStep::SetBool(_) | PStep::SetStr(_) | PStep::SetFloat(_) | PStep::Timeout | PStep::MaxMatches(_) | PStep::FastScan(_) | PStep::Callback | PStep::Console => {
                // each setter on both sides; its result code goes into the dump of the next scanning call
                let (name, code, ok): (&str, u32, bool) = match st {
                    PStep::SetBool(b) => ("set_global_bool", rec.r("yrx_scanner_set_global_bool", || yrx_scanner_set_global_bool(sc, gb.as_ptr(), *b)),
                        match &mut rs { RustScanner::Single(s) => s.set_global("g_bool", *b).is_ok(), RustScanner::Multi(s) => s.set_global("g_bool", *b).is_ok(), RustScanner::Gone => false }),
                    PStep::SetStr(x) => { let v = if *x { "x" } else { "y" };
                        ("set_global_str", rec.r("yrx_scanner_set_global_str", || yrx_scanner_set_global_str(sc, gs.as_ptr(), if *x { sx.as_ptr() } else { sy.as_ptr() })),
                        match &mut rs { RustScanner::Single(s) => s.set_global("g_str", v).is_ok(), RustScanner::Multi(s) => s.set_global("g_str", v).is_ok(), RustScanner::Gone => false }) }
                    PStep::SetFloat(hi) => { let v = if *hi { 2.5f64 } else { 0.5 };
                        ("set_global_float", rec.r("yrx_scanner_set_global_float", || yrx_scanner_set_global_float(sc, gf.as_ptr(), v)),
                        match &mut rs { RustScanner::Single(s) => s.set_global("g_float", v).is_ok(), RustScanner::Multi(s) => s.set_global("g_float", v).is_ok(), RustScanner::Gone => false }) }
                    PStep::Timeout => ("set_timeout", rec.r("yrx_scanner_set_timeout", || yrx_scanner_set_timeout(sc, 60)),
                        match &mut rs { RustScanner::Single(s) => { s.set_timeout(std::time::Duration::from_secs(60)); true } RustScanner::Multi(s) => { s.set_timeout(std::time::Duration::from_secs(60)); true } RustScanner::Gone => false }),
                    PStep::MaxMatches(n) => ("max_matches_per_pattern", rec.r("yrx_scanner_max_matches_per_pattern", || yrx_scanner_max_matches_per_pattern(sc, *n)),
                        match &mut rs { RustScanner::Single(s) => { s.max_matches_per_pattern(*n); true } RustScanner::Multi(s) => { s.max_matches_per_pattern(*n); true } RustScanner::Gone => false }),
                    PStep::FastScan(y) => ("fast_scan", rec.r("yrx_scanner_fast_scan", || yrx_scanner_fast_scan(sc, *y)),
                        match &mut rs { RustScanner::Single(s) => { s.fast_scan(*y); true } RustScanner::Multi(s) => { s.fast_scan(*y); true } RustScanner::Gone => false }),
                    PStep::Callback => ("on_matching_rule", rec.r("yrx_scanner_on_matching_rule", || yrx_scanner_on_matching_rule(sc, cb_rule, ud)), true),
                    _ => ("on_console_log", rec.r("yrx_scanner_on_console_log", || yrx_scanner_on_console_log(sc, cb_console)),
                        match &mut rs { RustScanner::Single(s) => { s.console_log(|_| {}); true } RustScanner::Multi(s) => { s.console_log(|_| {}); true } RustScanner::Gone => false }),
                };
                c_extra.push(format!("{}:{}", name, code == SUCCESS).into_bytes()); r_extra.push(format!("{}:{}", name, ok).into_bytes());
            }
            PStep::Scan | PStep::ScanFile | PStep::ScanBlock | PStep::Finish => {
                (*(ud as *mut Vec<RuleDump>)).clear();
                let (kind, code) = match st {
                    PStep::Scan => ("KScan", rec.r("yrx_scanner_scan", || yrx_scanner_scan(sc, data.as_ptr(), data.len()))),
                    PStep::ScanFile => ("KScanFile", rec.r("yrx_scanner_scan_file", || yrx_scanner_scan_file(sc, cpath.as_ptr()))),
                    PStep::ScanBlock => ("KScanBlock", rec.r("yrx_scanner_scan_block", || yrx_scanner_scan_block(sc, 0, data.as_ptr(), data.len()))),
                    _ => ("KFinish", rec.r("yrx_scanner_finish", || yrx_scanner_finish(sc))),
                };
                let cd = ScanDump { status: c_status(code), extra: std::mem::take(&mut c_extra), rules: (*(ud as *mut Vec<RuleDump>)).clone() };
                // the scan has run: the caller reuses its module-data buffers
                for b in live.iter_mut() { for x in b.iter_mut() { *x = b'{'; } }
                // the Rust API, same step
                let rd = match st {
                    PStep::Scan | PStep::ScanFile => {
                        let d = pending.take();
                        match &mut rs {
                            RustScanner::Single(s) => {
                                let mut o = yara_x::ScanOptions::new();
                                if let Some(d) = &d { o = o.set_module_metadata("cuckoo", d.as_slice()); }
                                if matches!(st, PStep::Scan) { rust_results(s.scan_with_options(data.as_slice(), o)) } else { rust_results(s.scan_file_with_options(&path, o)) }
                            }
                            // the C API documents YRX_INVALID_STATE for a standard scan in block mode
                            _ => ScanDump { status: 4, ..Default::default() },
                        }
                    }
                    PStep::ScanBlock => {
                        if let RustScanner::Single(_) = &rs { if let RustScanner::Single(s) = std::mem::replace(&mut rs, RustScanner::Gone) { rs = RustScanner::Multi(s.into()); } }
                        match &mut rs { RustScanner::Multi(s) => ScanDump { status: if s.scan(0, data.as_slice()).is_ok() { 0 } else { 2 }, ..Default::default() }, _ => ScanDump { status: 98, ..Default::default() } }
                    }
                    _ => {
                        if let RustScanner::Single(_) = &rs { if let RustScanner::Single(s) = std::mem::replace(&mut rs, RustScanner::Gone) { rs = RustScanner::Multi(s.into()); } }
                        match &mut rs { RustScanner::Multi(s) => rust_results(s.finish()), _ => ScanDump { status: 98, ..Default::default() } }
                    }
                };
                let mut rd = rd; rd.extra = std::mem::take(&mut r_extra);
                let (od, oo, og) = observed(&cd);
                coq.push(format!("PScanStep {} {} {} {} {}", kind, coq_bool(code == INVALID_STATE), coq_n(od), coq_n(oo), coq_n(og)));
                trace.push(format!("  -> code {} observed data={} output={} global={}", code, od, oo, og));
                pairs.push((cd, rd));
            }
        }
    }
    rec.o("yrx_scanner_destroy", || yrx_scanner_destroy(sc));
    rec.o("yrx_rules_destroy", || yrx_rules_destroy(rules));
    let _ = std::fs::remove_file(&path);
    (coq, pairs, trace)
}
