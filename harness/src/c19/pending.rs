// ------------------------------------------------------------------ (c) pending per-scan inputs
// One scanner, a sequence of set_module_data / set_module_output / set_global and scanning calls of
// every flavour; the Rust API mirrors the steps the way the header documents them (module data is
// consumed by the scan that uses it: ScanOptions per call).  Each scanning call's verdicts show
// which cuckoo report, which test_proto2 output and which global value it observed.

const PENDING_RULES: &str = "import \"cuckoo\"\nimport \"test_proto2\"\n\
rule cmA { condition: cuckoo.sync.mutex(/MUTEX_A/) > 0 }\n\
rule cmB { condition: cuckoo.sync.mutex(/MUTEX_B/) > 0 }\n\
rule out7 { condition: test_proto2.int32_one == 7 }\n\
rule out9 { condition: test_proto2.int32_one == 9 }\n\
rule g1 { condition: g_int == 1 }\nrule g2 { condition: g_int == 2 }\nrule g3 { condition: g_int == 3 }\n\
rule pat { strings: $a = \"alpha\" condition: $a }\n";

fn cuckoo_report(id: u64) -> Vec<u8> {
    format!("{{\"behavior\":{{\"summary\":{{\"mutexes\":[\"MUTEX_{}\"]}}}}}}", if id == 1 { "A" } else { "B" }).into_bytes()
}

fn proto2_output(v: i32) -> Vec<u8> {
    use protobuf::reflect::ReflectValueBox;
    let rules = yara_x::compile("import \"test_proto2\" rule x { condition: true }").unwrap();
    let mut sc = yara_x::Scanner::new(&rules);
    let res = sc.scan(b"").unwrap();
    let mut msg = res.module_output("test_proto2").expect("test_proto2 output").clone_box();
    let d = msg.descriptor_dyn();
    d.field_by_name("int32_one").unwrap().set_singular_field(&mut *msg, ReflectValueBox::I32(v));
    msg.write_to_bytes_dyn().unwrap()
}

#[derive(Clone, Debug)]
enum PStep { SetData(u64), SetOut(u64), SetGlob(u64), Scan, ScanFile, ScanBlock, Finish }

fn observed(d: &ScanDump) -> (u64, u64, u64) {
    let has = |n: &str| d.rules.iter().any(|r| r.ident == n.as_bytes());
    (if has("cmA") { 1 } else if has("cmB") { 2 } else if d.status == 2 { 3 } else { 0 },
     if has("out7") { 7 } else if has("out9") { 9 } else { 0 },
     if has("g1") { 1 } else if has("g2") { 2 } else if has("g3") { 3 } else { 0 })
}

enum RustScanner<'r> { Single(yara_x::Scanner<'r>), Multi(yara_x::blocks::Scanner<'r>), Gone }

/// returns (coq pending steps, dump pairs (C, Rust), trace)
unsafe fn run_pending(rng: &mut Rng, rec: &mut Rec, dir: &str, idx: usize) -> (Vec<String>, Vec<(ScanDump, ScanDump)>, Vec<String>) {
    // steps
    let mut steps = vec![PStep::SetGlob(1 + rng.below(3))];
    for _ in 0..6 + rng.below(8) {
        steps.push(match rng.below(10) { 0 | 1 | 2 => PStep::SetData(1 + rng.below(2)), 3 | 4 => PStep::SetOut(if rng.chance(1, 2) { 7 } else { 9 }), 5 => PStep::SetGlob(1 + rng.below(3)),
                                         6 | 7 => PStep::Scan, _ => PStep::ScanFile });
    }
    if rng.chance(1, 2) {
        steps.extend([PStep::SetData(1 + rng.below(2)), PStep::ScanBlock, PStep::Finish, PStep::SetData(1), PStep::SetOut(7)]);
        steps.push(if rng.chance(1, 2) { PStep::Scan } else { PStep::ScanFile });
        steps.push(PStep::Finish);
    }
    let data = b"xx alpha yy".to_vec();
    let path = format!("{}/scanfile_{}.bin", dir, idx);
    std::fs::write(&path, &data).expect("cannot write the file to scan");
    let cpath = cs(&path);
    let outs: HashMap<u64, Vec<u8>> = [(7u64, proto2_output(7)), (9u64, proto2_output(9))].into_iter().collect();

    // C side
    let mut comp: *mut YRX_COMPILER = null_mut();
    rec.r("yrx_compiler_create", || yrx_compiler_create(0, &mut comp));
    let gname = cs("g_int");
    rec.r("yrx_compiler_define_global_int", || yrx_compiler_define_global_int(comp, gname.as_ptr(), 0));
    let src = cs(PENDING_RULES);
    let code = rec.r("yrx_compiler_add_source", || yrx_compiler_add_source(comp, src.as_ptr()));
    assert_eq!(code, SUCCESS, "the pending-inputs rules were rejected: {:?}", slot());
    let rules = rec.o("yrx_compiler_build", || yrx_compiler_build(comp));
    rec.o("yrx_compiler_destroy", || yrx_compiler_destroy(comp));
    let mut sc: *mut YRX_SCANNER = null_mut();
    rec.r("yrx_scanner_create", || yrx_scanner_create(rules, &mut sc));
    let mut out: Vec<RuleDump> = vec![];
    let ud = &mut out as *mut _ as *mut c_void;
    rec.r("yrx_scanner_on_matching_rule", || yrx_scanner_on_matching_rule(sc, cb_rule, ud));

    // Rust side
    let mut rcomp = yara_x::Compiler::new();
    rcomp.define_global("g_int", 0i64).unwrap();
    rcomp.add_source(PENDING_RULES).unwrap();
    let rrules = rcomp.build();
    let mut rs = RustScanner::Single(yara_x::Scanner::new(&rrules));
    let mut pending: Option<Vec<u8>> = None;

    let cuckoo = cs("cuckoo");
    let tp2 = cs("test_proto2");
    // buffers handed to yrx_scanner_set_module_data: the caller may reuse them once a scan has run
    let mut live: Vec<Vec<u8>> = vec![];
    let (mut coq, mut pairs, mut trace) = (vec![], vec![], vec![]);
    for st in &steps {
        trace.push(format!("{:?}", st));
        match st {
            PStep::SetData(id) => {
                let buf = cuckoo_report(*id);
                let (p, l) = (buf.as_ptr(), buf.len());
                live.push(buf);
                let code = rec.r("yrx_scanner_set_module_data", || yrx_scanner_set_module_data(sc, cuckoo.as_ptr(), p, l));
                if code == SUCCESS { pending = Some(cuckoo_report(*id)); } else { live.pop(); }
                coq.push(format!("PSetData {} {}", coq_n(*id), coq_bool(code == SUCCESS)));
            }
            PStep::SetOut(v) => {
                let b = &outs[v];
                let code = rec.r("yrx_scanner_set_module_output", || yrx_scanner_set_module_output(sc, tp2.as_ptr(), b.as_ptr(), b.len()));
                if code == SUCCESS { if let RustScanner::Single(s) = &mut rs { s.set_module_output_raw("test_proto2", b).unwrap(); } }
                coq.push(format!("PSetOut {} {}", coq_n(*v), coq_bool(code == SUCCESS)));
            }
            PStep::SetGlob(g) => {
                rec.r("yrx_scanner_set_global_int", || yrx_scanner_set_global_int(sc, gname.as_ptr(), *g as i64));
                match &mut rs { RustScanner::Single(s) => { s.set_global("g_int", *g as i64).unwrap(); } RustScanner::Multi(s) => { s.set_global("g_int", *g as i64).unwrap(); } RustScanner::Gone => {} }
                coq.push(format!("PSetGlob {}", coq_n(*g)));
            }
            PStep::Scan | PStep::ScanFile | PStep::ScanBlock | PStep::Finish => {
                (*(ud as *mut Vec<RuleDump>)).clear();
                let (kind, code) = match st {
                    PStep::Scan => ("KScan", rec.r("yrx_scanner_scan", || yrx_scanner_scan(sc, data.as_ptr(), data.len()))),
                    PStep::ScanFile => ("KScanFile", rec.r("yrx_scanner_scan_file", || yrx_scanner_scan_file(sc, cpath.as_ptr()))),
                    PStep::ScanBlock => ("KScanBlock", rec.r("yrx_scanner_scan_block", || yrx_scanner_scan_block(sc, 0, data.as_ptr(), data.len()))),
                    _ => ("KFinish", rec.r("yrx_scanner_finish", || yrx_scanner_finish(sc))),
                };
                let cd = ScanDump { status: c_status(code), extra: vec![], rules: (*(ud as *mut Vec<RuleDump>)).clone() };
                // the scan has run: the caller reuses its module-data buffers
                for b in live.iter_mut() { for x in b.iter_mut() { *x = b'{'; } }
                // the Rust API, same step
                let rd = match st {
                    PStep::Scan | PStep::ScanFile => {
                        let d = pending.take();
                        match &mut rs {
                            RustScanner::Single(s) => {
                                let mut o = yara_x::ScanOptions::new();
                                if let Some(d) = &d { o = o.set_module_metadata("cuckoo", d.as_slice()); }
                                if matches!(st, PStep::Scan) { rust_results(s.scan_with_options(data.as_slice(), o)) } else { rust_results(s.scan_file_with_options(&path, o)) }
                            }
                            // the C API documents YRX_INVALID_STATE for a standard scan in block mode
                            _ => ScanDump { status: 4, ..Default::default() },
                        }
                    }
                    PStep::ScanBlock => {
                        if let RustScanner::Single(_) = &rs { if let RustScanner::Single(s) = std::mem::replace(&mut rs, RustScanner::Gone) { rs = RustScanner::Multi(s.into()); } }
                        match &mut rs { RustScanner::Multi(s) => ScanDump { status: if s.scan(0, data.as_slice()).is_ok() { 0 } else { 2 }, ..Default::default() }, _ => ScanDump { status: 98, ..Default::default() } }
                    }
                    _ => {
                        if let RustScanner::Single(_) = &rs { if let RustScanner::Single(s) = std::mem::replace(&mut rs, RustScanner::Gone) { rs = RustScanner::Multi(s.into()); } }
                        match &mut rs { RustScanner::Multi(s) => rust_results(s.finish()), _ => ScanDump { status: 98, ..Default::default() } }
                    }
                };
                let (od, oo, og) = observed(&cd);
                coq.push(format!("PScanStep {} {} {} {} {}", kind, coq_bool(code == INVALID_STATE), coq_n(od), coq_n(oo), coq_n(og)));
                trace.push(format!("  -> code {} observed data={} output={} global={}", code, od, oo, og));
                pairs.push((cd, rd));
            }
        }
    }
    rec.o("yrx_scanner_destroy", || yrx_scanner_destroy(sc));
    rec.o("yrx_rules_destroy", || yrx_rules_destroy(rules));
    let _ = std::fs::remove_file(&path);
    (coq, pairs, trace)
}
