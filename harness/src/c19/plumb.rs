// ------------------------------------------------------------------ (b) error plumbing
/// string argument shapes
#[derive(Clone, Debug)]
enum Arg { Valid(String), BadUtf8, Null }
impl Arg {
    fn gen(rng: &mut Rng, valid: String) -> Arg {
        match rng.below(8) { 0 => Arg::BadUtf8, 1 => Arg::Null, _ => Arg::Valid(valid) }
    }
    fn c(&self) -> Option<CString> {
        match self { Arg::Valid(s) => Some(cs(s)), Arg::BadUtf8 => Some(csb(b"bad\xff\xfeutf8")), Arg::Null => None }
    }
}
fn p(c: &Option<CString>) -> *const c_char { c.as_ref().map_or(null(), |c| c.as_ptr()) }

#[derive(Clone, Copy, Debug, PartialEq)]
enum Ty { B, I, F, S, J }

struct Scn { ptr: *mut YRX_SCANNER<'static, 'static>, rules: usize, block: bool, blocks: usize }

/// the objects owned by one thread of a plumbing sequence
struct TState {
    tid: u64,
    rng: Rng,
    comp: *mut YRX_COMPILER,
    comp_globals: Vec<(String, Ty)>,
    /// (rules, globals they were compiled with, owned by this thread?)
    rules: Vec<(*mut YRX_RULES, Vec<(String, Ty)>, bool)>,
    scanners: Vec<Scn>,
    next_id: usize,
    timeouts_left: u32,
    counter: Box<usize>,
    data: Vec<u8>,
}

const SLOW_RULE: &str = "rule slow { condition: for all i in (0..100000000000) : (i >= 0 and filesize >= 0) }";

impl TState {
    unsafe fn new(tid: u64, rng: Rng, shared: Option<(*mut YRX_RULES, Vec<(String, Ty)>)>, timeouts: u32) -> TState {
        let mut t = TState { tid, rng, comp: null_mut(), comp_globals: vec![], rules: vec![], scanners: vec![], next_id: 0,
            timeouts_left: timeouts, counter: Box::new(0), data: b"alpha bravo alpha 0123456789 charlie".to_vec() };
        if let Some((r, g)) = shared { t.rules.push((r, g, false)); }
        t
    }
    fn name(&mut self, what: &str) -> String { self.next_id += 1; format!("t{}_{}{}", self.tid, what, self.next_id) }

    unsafe fn cleanup(&mut self, rec: &mut Rec) {
        for s in self.scanners.drain(..) { rec.o("yrx_scanner_destroy", || yrx_scanner_destroy(s.ptr)); }
        for (r, _, own) in self.rules.drain(..) { if own { rec.o("yrx_rules_destroy", || yrx_rules_destroy(r)); } }
        if !self.comp.is_null() { let c = self.comp; rec.o("yrx_compiler_destroy", || yrx_compiler_destroy(c)); self.comp = null_mut(); }
    }

    fn gen_source(&mut self) -> (Option<CString>, &'static str) {
        let k = self.rng.below(10);
        let id = self.name("r");
        match k {
            0 => (None, "null"),
            1 => (Some(cs(&format!("rule {} {{ condition: }}", id))), "syntax"),
            2 => (Some(cs(&format!("rule {} {{ condition: {}_undeclared == 1 }}", id, id))), "unknown-ident"),
            3 => { let mut b = format!("rule {} {{ condition: true }} // ", id).into_bytes(); b.extend_from_slice(b"\xff\xfe"); (Some(csb(&b)), "bad-utf8") }
            4 => {
                // uses a global of this compiler, if any
                if let Some((g, ty)) = self.comp_globals.first().cloned() {
                    let c = match ty { Ty::B => g.clone(), Ty::I => format!("{} == 1", g), Ty::F => format!("{} > 0.5", g), Ty::S => format!("{} == \"a\"", g), Ty::J => format!("{}.k == 1", g) };
                    (Some(cs(&format!("rule {} {{ condition: {} }}", id, c))), "uses-global")
                } else { (Some(cs(&format!("rule {} {{ condition: true }}", id))), "good") }
            }
            5 => (Some(cs(&format!("import \"nosuchmodule_{}\" rule {} {{ condition: true }}", id, id))), "unknown-module"),
            _ => (Some(cs(&format!("rule {} {{ strings: $a = \"alpha\" condition: #a >= 2 }}", id))), "good"),
        }
    }

    /// one random operation; returns a description for the trace
    unsafe fn step(&mut self, rec: &mut Rec) -> String {
        let r = self.rng.below(100);
        emit(format!("P\tt{} begins op r={}", self.tid, r));
        // make sure the basic objects exist most of the time
        if self.comp.is_null() && r < 70 {
            let mut c = null_mut();
            rec.r("yrx_compiler_create", || yrx_compiler_create(0, &mut c));
            self.comp = c; self.comp_globals.clear();
            return "compiler_create".into();
        }
        let comp = if self.rng.chance(1, 15) { null_mut() } else { self.comp };
        match r {
            0..=11 => {
                let (src, kind) = self.gen_source();
                if self.rng.chance(1, 3) {
                    let origin = Arg::gen(&mut self.rng, format!("t{}_origin.yar", self.tid)).c();
                    rec.r("yrx_compiler_add_source_with_origin", || yrx_compiler_add_source_with_origin(comp, p(&src), p(&origin)));
                    format!("add_source_with_origin {} comp_null={}", kind, comp.is_null())
                } else {
                    rec.r("yrx_compiler_add_source", || yrx_compiler_add_source(comp, p(&src)));
                    format!("add_source {} comp_null={}", kind, comp.is_null())
                }
            }
            12..=14 => {
                let (src, kind) = self.gen_source();
                let mut rules = null_mut();
                let code = rec.r("yrx_compile", || yrx_compile(p(&src), &mut rules));
                if code == SUCCESS { self.rules.push((rules, vec![], true)); }
                format!("compile {}", kind)
            }
            15..=24 => {
                // define a global: fresh / duplicate / invalid identifier, every type
                let ty = *self.rng.pick(&[Ty::B, Ty::I, Ty::F, Ty::S, Ty::J]);
                let k = self.rng.below(6);
                let fresh = self.name("g");
                let name = match k {
                    0 if !self.comp_globals.is_empty() => Arg::Valid(self.comp_globals[0].0.clone()),
                    1 => Arg::Valid(format!("t{}_9 bad ident", self.tid)),
                    2 => Arg::BadUtf8,
                    3 => Arg::Null,
                    _ => Arg::Valid(fresh.clone()),
                };
                let n = name.c();
                let code = match ty {
                    Ty::B => rec.r("yrx_compiler_define_global_bool", || yrx_compiler_define_global_bool(comp, p(&n), true)),
                    Ty::I => rec.r("yrx_compiler_define_global_int", || yrx_compiler_define_global_int(comp, p(&n), 1)),
                    Ty::F => rec.r("yrx_compiler_define_global_float", || yrx_compiler_define_global_float(comp, p(&n), 1.5)),
                    Ty::S => { let v = Arg::gen(&mut self.rng, "a".into()).c(); rec.r("yrx_compiler_define_global_str", || yrx_compiler_define_global_str(comp, p(&n), p(&v))) }
                    Ty::J => {
                        let v = match self.rng.below(6) { 0 => None, 1 => Some(cs("{not json")), 2 => Some(cs("[1, \"a\"]")), 3 => Some(cs("null")), 4 => Some(csb(b"\"\xff\"")), _ => Some(cs("{\"k\": 1}")) };
                        rec.r("yrx_compiler_define_global_json", || yrx_compiler_define_global_json(comp, p(&n), p(&v)))
                    }
                };
                if code == SUCCESS { if let Arg::Valid(s) = &name { self.comp_globals.push((s.clone(), ty)); } }
                format!("define_global {:?} name={:?} code={}", ty, name, code)
            }
            25..=29 => {
                let a = Arg::gen(&mut self.rng, format!("t{}_ns", self.tid)).c();
                match self.rng.below(6) {
                    0 => { rec.r("yrx_compiler_new_namespace", || yrx_compiler_new_namespace(comp, p(&a))); "new_namespace".into() }
                    1 => { rec.r("yrx_compiler_ignore_module", || yrx_compiler_ignore_module(comp, p(&a))); "ignore_module".into() }
                    2 => { rec.r("yrx_compiler_enable_feature", || yrx_compiler_enable_feature(comp, p(&a))); "enable_feature".into() }
                    3 => { rec.r("yrx_compiler_add_include_dir", || yrx_compiler_add_include_dir(comp, p(&a))); "add_include_dir".into() }
                    4 => { let b = Arg::gen(&mut self.rng, "title".into()).c(); let c = Arg::gen(&mut self.rng, "msg".into()).c();
                           rec.r("yrx_compiler_ban_module", || yrx_compiler_ban_module(comp, p(&a), p(&b), p(&c))); "ban_module".into() }
                    _ => { rec.r("yrx_compiler_max_warnings", || yrx_compiler_max_warnings(comp, 3)); "max_warnings".into() }
                }
            }
            30..=33 => {
                let mut buf: *mut YRX_BUFFER = null_mut();
                let warn = self.rng.chance(1, 2);
                let code = if warn { rec.r("yrx_compiler_warnings_json", || yrx_compiler_warnings_json(comp, &mut buf)) }
                           else { rec.r("yrx_compiler_errors_json", || yrx_compiler_errors_json(comp, &mut buf)) };
                if code == SUCCESS { rec.o("yrx_buffer_destroy", || yrx_buffer_destroy(buf)); }
                format!("{}_json", if warn { "warnings" } else { "errors" })
            }
            34..=39 => {
                let rules = rec.o("yrx_compiler_build", || yrx_compiler_build(comp));
                if !rules.is_null() { self.rules.push((rules, std::mem::take(&mut self.comp_globals), true)); }
                format!("build null={}", rules.is_null())
            }
            40..=42 => {
                if self.comp.is_null() { return "noop".into(); }
                let c = self.comp; self.comp = null_mut();
                rec.o("yrx_compiler_destroy", || yrx_compiler_destroy(c));
                "compiler_destroy".into()
            }
            43..=48 => {
                let rules = if self.rules.is_empty() || self.rng.chance(1, 6) { null_mut() } else { self.rng.pick(&self.rules).0 };
                let ud = &mut *self.counter as *mut usize as *mut c_void;
                match self.rng.below(5) {
                    0 => { rec.o("yrx_rules_count", || yrx_rules_count(rules)); "rules_count".into() }
                    1 => { rec.r("yrx_rules_iter", || yrx_rules_iter(rules, cb_rule_count, ud)); "rules_iter".into() }
                    2 => { rec.r("yrx_rules_iter_imports", || yrx_rules_iter_imports(rules, cb_import_count, ud)); "rules_iter_imports".into() }
                    _ => {
                        let mut buf: *mut YRX_BUFFER = null_mut();
                        let code = rec.r("yrx_rules_serialize", || yrx_rules_serialize(rules, &mut buf));
                        if code == SUCCESS {
                            let mut r2 = null_mut();
                            let (d, l) = ((*buf).data, (*buf).length);
                            let code2 = match self.rng.below(4) {
                                0 => rec.r("yrx_rules_deserialize", || yrx_rules_deserialize(d, l / 2, &mut r2)),
                                1 => { let g = b"garbage that is not a serialized rule set"; rec.r("yrx_rules_deserialize", || yrx_rules_deserialize(g.as_ptr(), g.len(), &mut r2)) }
                                2 => rec.r("yrx_rules_deserialize", || yrx_rules_deserialize(null(), 10, &mut r2)),
                                _ => rec.r("yrx_rules_deserialize", || yrx_rules_deserialize(d, l, &mut r2)),
                            };
                            if code2 == SUCCESS {
                                let g = self.rules.iter().find(|x| x.0 == rules).map(|x| x.1.clone()).unwrap_or_default();
                                self.rules.push((r2, g, true));
                            }
                            rec.o("yrx_buffer_destroy", || yrx_buffer_destroy(buf));
                            format!("serialize+deserialize code={}", code2)
                        } else { "serialize failed".into() }
                    }
                }
            }
            49..=54 => {
                let (idx, rules) = if self.rules.is_empty() || self.rng.chance(1, 8) { (usize::MAX, null_mut()) }
                                   else { let i = self.rng.below(self.rules.len() as u64) as usize; (i, self.rules[i].0) };
                let mut sc = null_mut();
                let code = rec.r("yrx_scanner_create", || yrx_scanner_create(rules, &mut sc));
                if code == SUCCESS { self.scanners.push(Scn { ptr: sc, rules: idx, block: false, blocks: 0 }); }
                format!("scanner_create rules_null={}", rules.is_null())
            }
            _ => self.scanner_step(rec, r),
        }
    }

    unsafe fn scanner_step(&mut self, rec: &mut Rec, r: u64) -> String {
        let have = !self.scanners.is_empty() && !self.rng.chance(1, 12);
        let si = if have { self.rng.below(self.scanners.len() as u64) as usize } else { usize::MAX };
        let sc = if have { self.scanners[si].ptr } else { null_mut() };
        let d = self.data.clone();
        match r {
            55..=64 => {
                match self.rng.below(5) {
                    0 => { rec.r("yrx_scanner_scan", || yrx_scanner_scan(sc, null(), 10)); "scan null-data".into() }
                    1 => { rec.r("yrx_scanner_scan", || yrx_scanner_scan(sc, null(), 0)); "scan empty".into() }
                    _ => { rec.r("yrx_scanner_scan", || yrx_scanner_scan(sc, d.as_ptr(), d.len())); format!("scan block_mode={}", have && self.scanners[si].block) }
                }
            }
            65..=68 => {
                let path = match self.rng.below(5) {
                    0 => Arg::Null, 1 => Arg::BadUtf8,
                    2 => Arg::Valid("/proc/self/cmdline".into()),
                    3 => Arg::Valid(format!("/nonexistent/t{}_dir", self.tid)),
                    _ => Arg::Valid(format!("/nonexistent/t{}_file.bin", self.tid)),
                };
                let c = path.c();
                let code = rec.r("yrx_scanner_scan_file", || yrx_scanner_scan_file(sc, p(&c)));
                format!("scan_file {:?} code={}", path, code)
            }
            69..=73 => {
                // (finish() without a scanned block used to abort the process: repaired, exercised again)
                let code = match self.rng.below(4) {
                    0 => rec.r("yrx_scanner_scan_block", || yrx_scanner_scan_block(sc, 0, null(), 5)),
                    1 => { if have { self.scanners[si].blocks = 0; self.scanners[si].block = true; } rec.r("yrx_scanner_finish", || yrx_scanner_finish(sc)) }
                    _ => { if have { self.scanners[si].blocks += 1; self.scanners[si].block = true; } rec.r("yrx_scanner_scan_block", || yrx_scanner_scan_block(sc, 16, d.as_ptr(), d.len())) }
                };
                format!("scan_block/finish code={}", code)
            }
            74..=79 => {
                let name = match self.rng.below(6) { 0 => Arg::Null, 1 => Arg::BadUtf8, 2 => Arg::Valid(format!("t{}_nosuchmodule", self.tid)), 3 => Arg::Valid("test_proto2.TestProto2".into()), _ => Arg::Valid("test_proto2".into()) };
                let c = name.c();
                let garbage = self.rng.chance(1, 2);
                let payload: &[u8] = if garbage { b"\xff\xff\xff\xff\xff garbage" } else { b"" };
                let nulldata = self.rng.chance(1, 8);
                let code = if self.rng.chance(1, 3) {
                    rec.r("yrx_scanner_set_module_data", || yrx_scanner_set_module_data(sc, p(&c), if nulldata { null() } else { d.as_ptr() }, d.len()))
                } else {
                    rec.r("yrx_scanner_set_module_output", || yrx_scanner_set_module_output(sc, p(&c), if nulldata { null() } else { payload.as_ptr() }, if nulldata { 4 } else { payload.len() }))
                };
                format!("set_module_output/data {:?} garbage={} code={}", name, garbage, code)
            }
            80..=91 => {
                // set_global: known name with its type / another type, unknown, invalid
                let known = if have && self.scanners[si].rules != usize::MAX { self.rules.get(self.scanners[si].rules).and_then(|r| r.1.first().cloned()) } else { None };
                let ty = *self.rng.pick(&[Ty::B, Ty::I, Ty::F, Ty::S, Ty::J]);
                let name = match (self.rng.below(6), &known) {
                    (0, _) => Arg::Null, (1, _) => Arg::BadUtf8,
                    (2, _) | (_, None) => Arg::Valid(format!("t{}_nosuchglobal", self.tid)),
                    (_, Some((g, _))) => Arg::Valid(g.clone()),
                };
                let ty = match (&known, self.rng.chance(2, 3)) { (Some((_, t)), true) => *t, _ => ty };
                let n = name.c();
                let code = match ty {
                    Ty::B => rec.r("yrx_scanner_set_global_bool", || yrx_scanner_set_global_bool(sc, p(&n), false)),
                    Ty::I => rec.r("yrx_scanner_set_global_int", || yrx_scanner_set_global_int(sc, p(&n), i64::MIN)),
                    Ty::F => rec.r("yrx_scanner_set_global_float", || yrx_scanner_set_global_float(sc, p(&n), f64::NAN)),
                    Ty::S => { let v = Arg::gen(&mut self.rng, "zzz".into()).c(); rec.r("yrx_scanner_set_global_str", || yrx_scanner_set_global_str(sc, p(&n), p(&v))) }
                    Ty::J => { let v = match self.rng.below(5) { 0 => None, 1 => Some(cs("{oops")), 2 => Some(csb(b"\"\xfe\"")), 3 => Some(cs("[1,2]")), _ => Some(cs("{\"k\": 5}")) };
                               rec.r("yrx_scanner_set_global_json", || yrx_scanner_set_global_json(sc, p(&n), p(&v))) }
                };
                format!("set_global {:?} name={:?} known={:?} code={}", ty, name, known, code)
            }
            92..=95 => {
                let ud = &mut *self.counter as *mut usize as *mut c_void;
                match self.rng.below(7) {
                    0 => { rec.r("yrx_scanner_set_timeout", || yrx_scanner_set_timeout(sc, 30)); "set_timeout".into() }
                    1 => { rec.r("yrx_scanner_fast_scan", || yrx_scanner_fast_scan(sc, true)); "fast_scan".into() }
                    2 => { rec.r("yrx_scanner_max_matches_per_pattern", || yrx_scanner_max_matches_per_pattern(sc, 1)); "max_matches".into() }
                    3 => { rec.r("yrx_scanner_on_matching_rule", || yrx_scanner_on_matching_rule(sc, cb_rule_count, ud)); "on_matching_rule".into() }
                    4 => { rec.r("yrx_scanner_on_console_log", || yrx_scanner_on_console_log(sc, cb_console)); "on_console_log".into() }
                    5 => { rec.r("yrx_scanner_iter_slowest_rules", || yrx_scanner_iter_slowest_rules(sc, 3, cb_slowest, ud)); "iter_slowest".into() }
                    _ => { rec.r("yrx_scanner_clear_profiling_data", || yrx_scanner_clear_profiling_data(sc)); "clear_profiling".into() }
                }
            }
            96..=97 => {
                // null rule / pattern handles
                let (mut ptr, mut len) = (null::<u8>(), 0usize);
                let ud = &mut *self.counter as *mut usize as *mut c_void;
                match self.rng.below(6) {
                    0 => { rec.r("yrx_rule_identifier", || yrx_rule_identifier(null(), &mut ptr, &mut len)); }
                    1 => { rec.r("yrx_rule_namespace", || yrx_rule_namespace(null(), &mut ptr, &mut len)); }
                    2 => { rec.r("yrx_rule_iter_metadata", || yrx_rule_iter_metadata(null(), cb_meta, ud)); }
                    3 => { rec.r("yrx_rule_iter_patterns", || yrx_rule_iter_patterns(null(), cb_pattern, ud)); }
                    4 => { rec.r("yrx_rule_iter_tags", || yrx_rule_iter_tags(null(), cb_tag, ud)); }
                    _ => { rec.r("yrx_pattern_identifier", || yrx_pattern_identifier(null(), &mut ptr, &mut len));
                           rec.r("yrx_pattern_iter_matches", || yrx_pattern_iter_matches(null(), cb_match, ud)); }
                }
                "null rule/pattern handle".into()
            }
            98 => {
                if !have { return "noop".into(); }
                let s = self.scanners.remove(si);
                rec.o("yrx_scanner_destroy", || yrx_scanner_destroy(s.ptr));
                "scanner_destroy".into()
            }
            _ => {
                // a scan that times out (1 s): rarely, it costs a second of wall time
                if self.timeouts_left == 0 { return "noop".into(); }
                self.timeouts_left -= 1;
                let src = cs(SLOW_RULE);
                let mut rules = null_mut();
                if rec.r("yrx_compile", || yrx_compile(src.as_ptr(), &mut rules)) != SUCCESS { return "slow rule rejected".into(); }
                let mut s2 = null_mut();
                rec.r("yrx_scanner_create", || yrx_scanner_create(rules, &mut s2));
                rec.r("yrx_scanner_set_timeout", || yrx_scanner_set_timeout(s2, 1));
                let block = self.rng.chance(1, 3);
                let code = if block {
                    rec.r("yrx_scanner_scan_block", || yrx_scanner_scan_block(s2, 0, d.as_ptr(), d.len()));
                    rec.r("yrx_scanner_finish", || yrx_scanner_finish(s2))
                } else { rec.r("yrx_scanner_scan", || yrx_scanner_scan(s2, d.as_ptr(), d.len())) };
                // the scanner stays usable after the timeout
                let code2 = if block { rec.r("yrx_scanner_finish", || yrx_scanner_finish(s2)) } else { rec.r("yrx_scanner_scan", || yrx_scanner_scan(s2, null(), 0)) };
                rec.o("yrx_scanner_destroy", || yrx_scanner_destroy(s2));
                rec.o("yrx_rules_destroy", || yrx_rules_destroy(rules));
                format!("timeout scan block={} code={} again={}", block, code, code2)
            }
        }
    }
}

/// pointer wrapper for handing the shared rules to the worker threads
struct SendPtr<T>(*mut T);
unsafe impl<T> Send for SendPtr<T> {}

enum Cmd { Step, Slot, Quit }
enum Rsp { Stepped(Vec<Ev>, String), Slot(Option<String>), Done(Vec<Ev>) }

/// mode: 1 = one thread, 2 = two threads in lock step (the other thread's slot is read
/// around every operation), 3 = two threads running concurrently (own slot only)
fn run_plumbing(rng: &mut Rng, mode: u64, n_ops: usize, trace: &mut dyn FnMut(String)) -> Vec<Ev> {
    use std::sync::mpsc::channel;
    // shared rules compiled on this (third) thread, with one global of each simple type
    let shared_globals = vec![("sh_i".to_string(), Ty::I), ("sh_s".to_string(), Ty::S)];
    let shared = unsafe {
        let mut c = null_mut();
        yrx_compiler_create(0, &mut c);
        let (a, b, v) = (cs("sh_i"), cs("sh_s"), cs("v"));
        yrx_compiler_define_global_int(c, a.as_ptr(), 1);
        yrx_compiler_define_global_str(c, b.as_ptr(), v.as_ptr());
        let s = cs("rule shared { strings: $a = \"alpha\" condition: $a and sh_i == 1 and sh_s == \"v\" }");
        yrx_compiler_add_source(c, s.as_ptr());
        let r = yrx_compiler_build(c);
        yrx_compiler_destroy(c);
        r
    };
    let timeouts = if rng.chance(1, 25) { 1 } else { 0 };
    let mut evs: Vec<Ev> = vec![];
    if mode == 3 {
        let mut hs = vec![];
        for tid in 0..2u64 {
            let r = rng.fork();
            let sp = SendPtr(shared);
            let g = shared_globals.clone();
            hs.push(std::thread::spawn(move || unsafe {
                let sp = sp;
                let mut rec = Rec::new(tid);
                let mut t = TState::new(tid, r, Some((sp.0, g)), 0);
                let mut tr = vec![];
                for _ in 0..n_ops { tr.push(t.step(&mut rec)); }
                t.cleanup(&mut rec);
                (rec.evs, tr)
            }));
        }
        for h in hs { let (e, tr) = h.join().expect("worker panicked"); evs.extend(e); for x in tr { trace(x); } }
    } else {
        let mut chans = vec![];
        for tid in 0..2u64 {
            let (ctx, crx) = channel::<Cmd>();
            let (rtx, rrx) = channel::<Rsp>();
            let r = rng.fork();
            let sp = SendPtr(shared);
            let g = shared_globals.clone();
            let to = if tid == 0 { timeouts } else { 0 };
            std::thread::spawn(move || unsafe {
                let sp = sp;
                let mut rec = Rec::new(tid);
                let mut t = TState::new(tid, r, Some((sp.0, g)), to);
                loop {
                    match crx.recv() {
                        Ok(Cmd::Step) => { let k = rec.evs.len(); let d = t.step(&mut rec); let _ = rtx.send(Rsp::Stepped(rec.evs[k..].to_vec(), d)); }
                        Ok(Cmd::Slot) => { let _ = rtx.send(Rsp::Slot(slot())); }
                        Ok(Cmd::Quit) | Err(_) => { let k = rec.evs.len(); t.cleanup(&mut rec); let _ = rtx.send(Rsp::Done(rec.evs[k..].to_vec())); break; }
                    }
                }
            });
            chans.push((ctx, rrx));
        }
        let read_slot = |t: usize| -> Option<String> {
            chans[t].0.send(Cmd::Slot).unwrap();
            match chans[t].1.recv().expect("worker died") { Rsp::Slot(s) => s, _ => unreachable!() }
        };
        for _ in 0..n_ops {
            let t = if mode == 1 { 0 } else { rng.below(2) as usize };
            trace(format!("t{} ...", t));
            let ob = read_slot(1 - t);
            chans[t].0.send(Cmd::Step).unwrap();
            let (mut es, d) = match chans[t].1.recv().expect("worker died") { Rsp::Stepped(e, d) => (e, d), _ => unreachable!() };
            let oa = read_slot(1 - t);
            trace(format!("t{} {}", t, d));
            for e in es.iter_mut() { e.other = Some((ob.clone(), oa.clone())); }
            evs.extend(es);
        }
        for t in 0..2 {
            chans[t].0.send(Cmd::Quit).unwrap();
            if let Rsp::Done(es) = chans[t].1.recv().expect("worker died") { evs.extend(es); }
        }
    }
    unsafe { yrx_rules_destroy(shared); }
    evs
}
