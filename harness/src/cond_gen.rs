//! Shared by c02.rs and c07.rs (included with #[path]): the AST of conditions
//! (mirror of coq/Cond/Syntax.v), printers to YARA source (minimal
//! parentheses) and to Coq terms, the mirror of the compiler's constant
//! folder (to keep known-defect triggers out of the main stream and to aim
//! them in the dedicated streams), a type-directed generator, rule sets,
//! buffers, and the code that runs the implementation.
#![allow(dead_code)]
use verif_harness::util::*;
use std::panic::AssertUnwindSafe;

#[derive(Clone, Copy, Debug, PartialEq, Eq)]
pub enum Op { Add, Sub, Mul, Div, Mod, Shl, Shr, BAnd, BOr, BXor }
#[derive(Clone, Copy, Debug, PartialEq, Eq)]
pub enum Cmp { Eq, Ne, Lt, Le, Gt, Ge }
#[derive(Clone, Copy, Debug, PartialEq, Eq)]
pub enum SOp { Contains, IContains, StartsWith, IStartsWith, EndsWith, IEndsWith, IEquals }
#[derive(Clone, Copy, Debug, PartialEq, Eq)]
pub struct IntKind { pub bytes: usize, pub signed: bool, pub be: bool }
#[derive(Clone, Copy, Debug, PartialEq, Eq)]
pub enum P { Id(usize), Cur }
#[derive(Clone, Debug)]
pub enum Q { None, Any, All, Expr(Box<E>), Pct(Box<E>) }
#[derive(Clone, Debug)]
pub enum A { None, At(Box<E>), In(Box<E>, Box<E>) }
/// how a pattern set is written in the source
#[derive(Clone, Copy, Debug, PartialEq, Eq)]
pub enum SetSyn { Them, Wild, List(u64 /* seed for order / duplicates */) }

#[derive(Clone, Debug)]
pub enum E {
    Bool(bool), Int(i64), Str(Vec<u8>), Filesize, Var(usize), Global(usize), Rule(usize),
    Not(Box<E>), And(Box<E>, Box<E>), Or(Box<E>, Box<E>), Defined(Box<E>), Neg(Box<E>), BitNot(Box<E>),
    Arith(Op, Box<E>, Box<E>), Cmp(Cmp, Box<E>, Box<E>), StrOp(SOp, Box<E>, Box<E>), Read(IntKind, Box<E>),
    Pat(P, A), Count(P, Option<(Box<E>, Box<E>)>), Offset(P, Option<Box<E>>), Length(P, Option<Box<E>>),
    Of(Q, Vec<usize>, SetSyn, A), OfB(Q, Vec<E>), ForOf(Q, Vec<usize>, SetSyn, Box<E>),
    ForRange(Q, usize, Box<E>, Box<E>, Box<E>), ForTuple(Q, usize, Vec<E>, Box<E>),
    With(Vec<(usize, E)>, Box<E>),
}
fn bx(e: E) -> Box<E> { Box::new(e) }

// ------------------------------------------------------------------ globals
/// external variables of every generated rule set: (name, type)
#[derive(Clone, Copy, Debug, PartialEq, Eq)]
pub enum T { Bool, Int, Str }
pub const GLOBALS: [(&str, T); 6] = [("gi0", T::Int), ("gi1", T::Int), ("gb0", T::Bool), ("gb1", T::Bool), ("gs0", T::Str), ("gs1", T::Str)];
#[derive(Clone, Debug)]
pub enum GV { I(i64), B(bool), S(Vec<u8>) }

// ------------------------------------------------------------- Coq printing
fn cz(z: i64) -> String { if z < 0 { format!("({})", z) } else { format!("{}", z) } }
fn cnat(n: usize) -> String { format!("{}%nat", n) }
fn cbytes(b: &[u8]) -> String { coq_list(b, |x| format!("{}", x)) }
fn cop(o: Op) -> &'static str { match o { Op::Add => "Add", Op::Sub => "Sub", Op::Mul => "Mul", Op::Div => "Div", Op::Mod => "Mod", Op::Shl => "Shl", Op::Shr => "Shr", Op::BAnd => "BAnd", Op::BOr => "BOr", Op::BXor => "BXor" } }
fn ccmp(o: Cmp) -> &'static str { match o { Cmp::Eq => "Eq", Cmp::Ne => "Ne", Cmp::Lt => "Lt", Cmp::Le => "Le", Cmp::Gt => "Gt", Cmp::Ge => "Ge" } }
fn csop(o: SOp) -> &'static str { match o { SOp::Contains => "Contains", SOp::IContains => "IContains", SOp::StartsWith => "StartsWith", SOp::IStartsWith => "IStartsWith", SOp::EndsWith => "EndsWith", SOp::IEndsWith => "IEndsWith", SOp::IEquals => "IEquals" } }
fn cpref(p: P) -> String { match p { P::Id(i) => format!("(PId {})", cnat(i)), P::Cur => "PCur".into() } }
const DUMMY: &str = "(EInt 0)";
fn cquant(q: &Q) -> (String, String) {
    match q {
        Q::None => ("QNone".into(), DUMMY.into()), Q::Any => ("QAny".into(), DUMMY.into()), Q::All => ("QAll".into(), DUMMY.into()),
        Q::Expr(e) => ("QExpr".into(), to_coq(e)), Q::Pct(e) => ("QPct".into(), to_coq(e)),
    }
}
fn canchor(a: &A) -> String {
    match a {
        A::None => format!("ANone {} {}", DUMMY, DUMMY),
        A::At(e) => format!("AAt {} {}", to_coq(e), DUMMY),
        A::In(l, h) => format!("AIn {} {}", to_coq(l), to_coq(h)),
    }
}
fn cexprs(es: &[E]) -> String {
    let mut s = String::from("ENil");
    for e in es.iter().rev() { s = format!("(ECons {} {})", to_coq(e), s); }
    s
}
fn cset(s: &[usize]) -> String { coq_list(s, |i| cnat(*i)) }
pub fn to_coq(e: &E) -> String {
    match e {
        E::Bool(b) => format!("(EBool {})", coq_bool(*b)),
        E::Int(z) => format!("(EInt {})", cz(*z)),
        E::Str(s) => format!("(EStr {})", cbytes(s)),
        E::Filesize => "EFilesize".into(),
        E::Var(x) => format!("(EVar {})", cnat(*x)),
        E::Global(g) => format!("(EGlobal {})", cnat(*g)),
        E::Rule(r) => format!("(ERule {})", cnat(*r)),
        E::Not(a) => format!("(ENot {})", to_coq(a)),
        E::And(a, b) => format!("(EAnd {} {})", to_coq(a), to_coq(b)),
        E::Or(a, b) => format!("(EOr {} {})", to_coq(a), to_coq(b)),
        E::Defined(a) => format!("(EDefined {})", to_coq(a)),
        E::Neg(a) => format!("(ENeg {})", to_coq(a)),
        E::BitNot(a) => format!("(EBitNot {})", to_coq(a)),
        E::Arith(o, a, b) => format!("(EArith {} {} {})", cop(*o), to_coq(a), to_coq(b)),
        E::Cmp(o, a, b) => format!("(ECmp {} {} {})", ccmp(*o), to_coq(a), to_coq(b)),
        E::StrOp(o, a, b) => format!("(EStrOp {} {} {})", csop(*o), to_coq(a), to_coq(b)),
        E::Read(k, a) => format!("(ERead (IK {} {} {}) {})", cnat(k.bytes), coq_bool(k.signed), coq_bool(k.be), to_coq(a)),
        E::Pat(p, a) => format!("(EPat {} {})", cpref(*p), canchor(a)),
        E::Count(p, None) => format!("(ECount {} false {} {})", cpref(*p), DUMMY, DUMMY),
        E::Count(p, Some((l, h))) => format!("(ECount {} true {} {})", cpref(*p), to_coq(l), to_coq(h)),
        E::Offset(p, i) => format!("(EOffset {} {})", cpref(*p), i.as_ref().map(|e| to_coq(e)).unwrap_or("(EInt 1)".into())),
        E::Length(p, i) => format!("(ELength {} {})", cpref(*p), i.as_ref().map(|e| to_coq(e)).unwrap_or("(EInt 1)".into())),
        E::Of(q, s, _, a) => { let (k, qe) = cquant(q); format!("(EOf {} {} {} {})", k, qe, cset(s), canchor(a)) }
        E::OfB(q, items) => { let (k, qe) = cquant(q); format!("(EOfB {} {} {})", k, qe, cexprs(items)) }
        E::ForOf(q, s, _, b) => { let (k, qe) = cquant(q); format!("(EForOf {} {} {} {})", k, qe, cset(s), to_coq(b)) }
        E::ForRange(q, x, l, h, b) => { let (k, qe) = cquant(q); format!("(EForRange {} {} {} {} {} {})", k, qe, cnat(*x), to_coq(l), to_coq(h), to_coq(b)) }
        E::ForTuple(q, x, items, b) => { let (k, qe) = cquant(q); format!("(EForTuple {} {} {} {} {})", k, qe, cnat(*x), cexprs(items), to_coq(b)) }
        E::With(decls, b) => {
            let mut s = to_coq(b);
            for (x, d) in decls.iter().rev() { s = format!("(EWith {} {} {})", cnat(*x), to_coq(d), s); }
            s
        }
    }
}
pub fn gv_coq(g: &GV) -> String {
    match g { GV::I(z) => format!("(VInt {})", cz(*z)), GV::B(b) => format!("(VBool {})", coq_bool(*b)), GV::S(s) => format!("(VStr {})", cbytes(s)) }
}

// ------------------------------------------------------------ YARA printing
// binding levels, higher binds tighter (conditions.md table; cst2ast.rs)
const L_OR: u8 = 1; const L_AND: u8 = 2; const L_NOT: u8 = 3; const L_EQ: u8 = 4; const L_REL: u8 = 5;
const L_BOR: u8 = 6; const L_BXOR: u8 = 7; const L_BAND: u8 = 8; const L_SHIFT: u8 = 9; const L_ADD: u8 = 10;
const L_MUL: u8 = 11; const L_UNARY: u8 = 12; const L_ATOM: u8 = 13;
fn op_level(o: Op) -> u8 {
    match o { Op::BOr => L_BOR, Op::BXor => L_BXOR, Op::BAnd => L_BAND, Op::Shl | Op::Shr => L_SHIFT, Op::Add | Op::Sub => L_ADD, Op::Mul | Op::Div | Op::Mod => L_MUL }
}
fn op_str(o: Op) -> &'static str {
    match o { Op::Add => "+", Op::Sub => "-", Op::Mul => "*", Op::Div => "\\", Op::Mod => "%", Op::Shl => "<<", Op::Shr => ">>", Op::BAnd => "&", Op::BOr => "|", Op::BXor => "^" }
}
fn cmp_str(o: Cmp) -> &'static str { match o { Cmp::Eq => "==", Cmp::Ne => "!=", Cmp::Lt => "<", Cmp::Le => "<=", Cmp::Gt => ">", Cmp::Ge => ">=" } }
fn sop_str(o: SOp) -> &'static str {
    match o { SOp::Contains => "contains", SOp::IContains => "icontains", SOp::StartsWith => "startswith", SOp::IStartsWith => "istartswith",
              SOp::EndsWith => "endswith", SOp::IEndsWith => "iendswith", SOp::IEquals => "iequals" }
}
pub fn level(e: &E) -> u8 {
    match e {
        E::Or(..) => L_OR, E::And(..) => L_AND, E::Not(_) | E::Defined(_) => L_NOT,
        E::Cmp(Cmp::Eq | Cmp::Ne, ..) | E::StrOp(..) => L_EQ, E::Cmp(..) => L_REL,
        E::Arith(o, ..) => op_level(*o), E::Neg(_) | E::BitNot(_) => L_UNARY,
        E::Int(z) if *z < 0 => L_UNARY,
        _ => L_ATOM,
    }
}
pub fn yara_str(s: &[u8]) -> String {
    let mut o = String::from("\"");
    for &c in s {
        match c {
            b'"' => o.push_str("\\\""), b'\\' => o.push_str("\\\\"), b'\n' => o.push_str("\\n"), b'\t' => o.push_str("\\t"), b'\r' => o.push_str("\\r"),
            0x20..=0x7e => o.push(c as char),
            _ => o.push_str(&format!("\\x{:02x}", c)),
        }
    }
    o.push('"');
    o
}
/// names of the rule's patterns as written in its strings section
pub struct Names { pub pats: Vec<String> }
impl Names {
    fn p(&self, p: P, sigil: char) -> String {
        match p { P::Cur => sigil.to_string(), P::Id(i) => format!("{}{}", sigil, &self.pats[i][1..]) }
    }
    fn set(&self, s: &[usize], syn: SetSyn) -> String {
        match syn {
            SetSyn::Them => "them".into(),
            SetSyn::Wild => "($p*)".into(),
            SetSyn::List(seed) => {
                let mut r = Rng::new(seed);
                let mut items: Vec<String> = s.iter().map(|i| self.pats[*i].clone()).collect();
                // shuffle, sometimes repeat an item (a set: order and repetition do not matter)
                for i in (1..items.len()).rev() { let j = r.below(i as u64 + 1) as usize; items.swap(i, j); }
                if r.chance(1, 6) { let d = items[r.below(items.len() as u64) as usize].clone(); items.push(d); }
                format!("({})", items.join(", "))
            }
        }
    }
}
fn pr(e: &E, min: u8, n: &Names) -> String {
    let s = to_yara(e, n);
    if level(e) < min { format!("({})", s) } else { s }
}
fn yquant(q: &Q, n: &Names) -> String {
    match q {
        Q::None => "none".into(), Q::Any => "any".into(), Q::All => "all".into(),
        Q::Expr(e) => pr(e, L_BOR, n),
        // TERM `%`: a term is an atom, a unary operator applied to a term or a parenthesised expression
        Q::Pct(e) => format!("{}%", pr(e, L_UNARY, n)),
    }
}
fn yanchor(a: &A, n: &Names) -> String {
    match a {
        A::None => String::new(),
        A::At(e) => format!(" at {}", pr(e, L_BOR, n)),
        A::In(l, h) => format!(" in ({}..{})", pr(l, L_BOR, n), pr(h, L_BOR, n)),
    }
}
pub fn int_kind_name(k: IntKind) -> String {
    format!("{}int{}{}", if k.signed { "" } else { "u" }, k.bytes * 8, if k.be { "be" } else { "" })
}
pub fn to_yara(e: &E, n: &Names) -> String {
    match e {
        E::Bool(b) => if *b { "true".into() } else { "false".into() },
        E::Int(z) => {
            // occasionally hexadecimal for non-negative values (deterministic in the value)
            if *z >= 0 && (*z % 7 == 3) { format!("0x{:x}", z) } else { format!("{}", z) }
        }
        E::Str(s) => yara_str(s),
        E::Filesize => "filesize".into(),
        E::Var(x) => format!("v{}", x),
        E::Global(g) => GLOBALS[*g].0.into(),
        E::Rule(r) => format!("r{}", r),
        E::Not(a) => format!("not {}", pr(a, L_NOT, n)),
        E::Defined(a) => format!("defined {}", pr(a, L_NOT, n)),
        E::And(a, b) => format!("{} and {}", pr(a, L_AND, n), pr(b, L_AND + 1, n)),
        E::Or(a, b) => format!("{} or {}", pr(a, L_OR, n), pr(b, L_OR + 1, n)),
        E::Neg(a) => { let s = pr(a, L_UNARY, n); if s.starts_with('-') { format!("-({})", s) } else { format!("-{}", s) } }
        E::BitNot(a) => format!("~{}", pr(a, L_UNARY, n)),
        E::Arith(o, a, b) => { let l = op_level(*o); format!("{} {} {}", pr(a, l, n), op_str(*o), pr(b, l + 1, n)) }
        E::Cmp(o, a, b) => { let l = level(e); format!("{} {} {}", pr(a, l, n), cmp_str(*o), pr(b, l + 1, n)) }
        E::StrOp(o, a, b) => format!("{} {} {}", pr(a, L_EQ, n), sop_str(*o), pr(b, L_EQ + 1, n)),
        E::Read(k, a) => format!("{}({})", int_kind_name(*k), to_yara(a, n)),
        E::Pat(p, a) => format!("{}{}", n.p(*p, '$'), yanchor(a, n)),
        E::Count(p, None) => n.p(*p, '#'),
        E::Count(p, Some((l, h))) => format!("{} in ({}..{})", n.p(*p, '#'), pr(l, L_BOR, n), pr(h, L_BOR, n)),
        E::Offset(p, None) => n.p(*p, '@'),
        E::Offset(p, Some(i)) => format!("{}[{}]", n.p(*p, '@'), to_yara(i, n)),
        E::Length(p, None) => n.p(*p, '!'),
        E::Length(p, Some(i)) => format!("{}[{}]", n.p(*p, '!'), to_yara(i, n)),
        E::Of(q, s, syn, a) => format!("{} of {}{}", yquant(q, n), n.set(s, *syn), yanchor(a, n)),
        E::OfB(q, items) => {
            // a tuple made only of bare pattern identifiers would be read as a pattern set
            let all_bare = items.iter().all(|i| matches!(i, E::Pat(_, A::None)));
            let strs: Vec<String> = items.iter().enumerate().map(|(k, i)| if all_bare && k == 0 { format!("({})", to_yara(i, n)) } else { to_yara(i, n) }).collect();
            format!("{} of ({})", yquant(q, n), strs.join(", "))
        }
        E::ForOf(q, s, syn, b) => format!("for {} of {} : ({})", yquant(q, n), n.set(s, *syn), to_yara(b, n)),
        E::ForRange(q, x, l, h, b) => format!("for {} v{} in ({}..{}) : ({})", yquant(q, n), x, pr(l, L_BOR, n), pr(h, L_BOR, n), to_yara(b, n)),
        E::ForTuple(q, x, items, b) => format!("for {} v{} in ({}) : ({})", yquant(q, n), x,
            items.iter().map(|i| pr(i, L_BOR, n)).collect::<Vec<_>>().join(", "), to_yara(b, n)),
        E::With(decls, b) => format!("with {} : ({})",
            decls.iter().map(|(x, d)| format!("v{} = {}", x, pr(d, L_BOR, n))).collect::<Vec<_>>().join(", "), to_yara(b, n)),
    }
}

// ------------------------------------------------- AST walks used by stats
pub fn size(e: &E) -> usize {
    let mut n = 0; walk(e, &mut |_| n += 1); n
}
pub fn walk<'a>(e: &'a E, f: &mut dyn FnMut(&'a E)) {
    f(e);
    let q = |q: &'a Q, f: &mut dyn FnMut(&'a E)| { if let Q::Expr(x) | Q::Pct(x) = q { walk(x, f) } };
    let an = |a: &'a A, f: &mut dyn FnMut(&'a E)| { match a { A::None => {}, A::At(x) => walk(x, f), A::In(l, h) => { walk(l, f); walk(h, f) } } };
    match e {
        E::Not(a) | E::Defined(a) | E::Neg(a) | E::BitNot(a) | E::Read(_, a) => walk(a, f),
        E::And(a, b) | E::Or(a, b) | E::Arith(_, a, b) | E::Cmp(_, a, b) | E::StrOp(_, a, b) => { walk(a, f); walk(b, f) }
        E::Pat(_, a) => an(a, f),
        E::Count(_, Some((l, h))) => { walk(l, f); walk(h, f) }
        E::Offset(_, Some(i)) | E::Length(_, Some(i)) => walk(i, f),
        E::Of(qq, _, _, a) => { q(qq, f); an(a, f) }
        E::OfB(qq, items) => { q(qq, f); for i in items { walk(i, f) } }
        E::ForOf(qq, _, _, b) => { q(qq, f); walk(b, f) }
        E::ForRange(qq, _, l, h, b) => { q(qq, f); walk(l, f); walk(h, f); walk(b, f) }
        E::ForTuple(qq, _, items, b) => { q(qq, f); for i in items { walk(i, f) } walk(b, f) }
        E::With(decls, b) => { for (_, d) in decls { walk(d, f) } walk(b, f) }
        _ => {}
    }
}
/// no run-time input at all (the verdict is a constant of the source text)
pub fn is_constant(e: &E) -> bool {
    let mut c = true;
    walk(e, &mut |x| match x {
        E::Filesize | E::Global(_) | E::Rule(_) | E::Read(..) | E::Pat(..) | E::Count(..) | E::Offset(..) | E::Length(..) | E::Of(..) | E::ForOf(..) => c = false,
        _ => {}
    });
    c
}
pub fn used_patterns(e: &E, npats: usize) -> Vec<bool> {
    let mut u = vec![false; npats];
    walk(e, &mut |x| match x {
        E::Pat(P::Id(i), _) | E::Count(P::Id(i), _) | E::Offset(P::Id(i), _) | E::Length(P::Id(i), _) => u[*i] = true,
        E::Of(_, s, _, _) | E::ForOf(_, s, _, _) => for i in s { u[*i] = true },
        _ => {}
    });
    u
}
/// How the compiler anchors each pattern of a rule (mirror of ast2ir.rs: `$a at <constant>` and
/// `.. of <set> at <constant>` anchor a pattern unless it is also used in any other way or at
/// another offset).  An anchored pattern is only searched - and its matches only reported - at
/// that offset.  Unknown: the operand of `at` may be a constant the mirror cannot see.
#[derive(Clone, Copy, Debug, PartialEq, Eq)]
pub enum Anchoring { Free, At(i64), Unknown }
pub fn anchoring(e: &E, npats: usize) -> Vec<Anchoring> {
    #[derive(Clone, Copy, PartialEq)]
    enum St { Unused, At(i64), Non, Unknown }
    let mut st = vec![St::Unused; npats];
    fn has_var(e: &E) -> bool { let mut v = false; walk(e, &mut |x| if let E::Var(_) = x { v = true }); v }
    let mut non = |st: &mut Vec<St>, i: usize| { if st[i] != St::Unknown { st[i] = St::Non } };
    let mut at = |st: &mut Vec<St>, i: usize, a: &E| {
        match cfold(a, &vec![]) {
            Some(k) => match st[i] { St::Unused => st[i] = St::At(k), St::At(k0) if k0 != k => st[i] = St::Non, _ => {} },
            None => if has_var(a) { st[i] = St::Unknown } else if st[i] != St::Unknown { st[i] = St::Non },
        }
    };
    walk(e, &mut |x| match x {
        E::Pat(P::Id(i), A::At(a)) => at(&mut st, *i, a),
        E::Pat(P::Id(i), _) | E::Count(P::Id(i), _) | E::Offset(P::Id(i), _) | E::Length(P::Id(i), _) => non(&mut st, *i),
        E::Of(_, s, _, A::At(a)) => for i in s { at(&mut st, *i, a) },
        E::Of(_, s, _, _) | E::ForOf(_, s, _, _) => for i in s { non(&mut st, *i) },
        _ => {}
    });
    st.iter().map(|s| match s { St::Unused | St::Non => Anchoring::Free, St::At(k) => Anchoring::At(*k), St::Unknown => Anchoring::Unknown }).collect()
}

/// variable slots needed (mirror of Quirks.var_depth)
pub fn var_depth(e: &E) -> usize {
    fn qd(q: &Q) -> usize { if let Q::Expr(x) | Q::Pct(x) = q { var_depth(x) } else { 0 } }
    fn ad(a: &A) -> usize { match a { A::None => 0, A::At(x) => var_depth(x), A::In(l, h) => var_depth(l).max(var_depth(h)) } }
    match e {
        E::Not(a) | E::Defined(a) | E::Neg(a) | E::BitNot(a) | E::Read(_, a) => var_depth(a),
        E::And(a, b) | E::Or(a, b) | E::Arith(_, a, b) | E::Cmp(_, a, b) | E::StrOp(_, a, b) => var_depth(a).max(var_depth(b)),
        E::Pat(_, a) => ad(a),
        E::Count(_, Some((l, h))) => var_depth(l).max(var_depth(h)),
        E::Offset(_, Some(i)) | E::Length(_, Some(i)) => var_depth(i),
        E::Of(q, _, _, a) => qd(q).max(5 + ad(a)),
        E::OfB(q, items) => qd(q).max(5 + items.iter().map(var_depth).max().unwrap_or(0)),
        E::ForOf(q, _, _, b) => qd(q).max(5 + var_depth(b)),
        E::ForRange(q, _, l, h, b) => qd(q).max(var_depth(l)).max(var_depth(h)).max(7 + var_depth(b)),
        E::ForTuple(q, _, items, b) => qd(q).max(items.iter().map(var_depth).max().unwrap_or(0)).max(7 + var_depth(b)),
        E::With(decls, b) => decls.len() + var_depth(b),
        _ => 0,
    }
}

// ------------------------------------------ mirror of the constant folder
/// what lib/src/compiler/ir/mod.rs makes of an integer expression: `Some(v)` = folded to the
/// constant v (integer + - * with checked i64 arithmetic).  `flags` collects, over the whole
/// expression, whether some constant + - * chain overflows (rejected by the compiler:
/// NumberOutOfRange), whether i64::MIN is negated (compiler panic in the dev profile), and
/// whether a folded chain leaves the range in which f64 is exact (regression for finding 10).
#[derive(Default, Clone, Copy, Debug)]
pub struct FoldFlags { pub beyond_f64: bool, pub out_of_range: bool, pub neg_min: bool }
pub type ConstScope = Vec<(usize, Option<i64>)>;
fn additive(o: Op) -> bool { matches!(o, Op::Add | Op::Sub | Op::Mul) }
pub fn arith_i64(o: Op, a: i64, b: i64) -> Option<i64> {
    Some(match o {
        Op::Add => a.wrapping_add(b), Op::Sub => a.wrapping_sub(b), Op::Mul => a.wrapping_mul(b),
        Op::Div => if b == 0 { return None } else { a.wrapping_div(b) },
        Op::Mod => if b == 0 { return None } else { a.wrapping_rem(b) },
        Op::Shl => if b >= 64 { 0 } else { a.wrapping_shl((b & 63) as u32) },
        Op::Shr => if b >= 64 { 0 } else { a.wrapping_shr((b & 63) as u32) },
        Op::BAnd => a & b, Op::BOr => a | b, Op::BXor => a ^ b,
    })
}
fn fold_rec(e: &E, sc: &ConstScope, fl: &mut FoldFlags) -> Option<i64> {
    match e {
        E::Int(z) => Some(*z),
        E::Var(x) => match sc.iter().rev().find(|(n, _)| n == x) { Some((_, Some(v))) => Some(*v), _ => None },
        E::Neg(a) => fold_rec(a, sc, fl).map(|v| { if v == i64::MIN { fl.neg_min = true } v.wrapping_neg() }),
        E::BitNot(a) => fold_rec(a, sc, fl).map(|v| !v),
        E::Arith(o, a, b) => {
            let fa = fold_rec(a, sc, fl);
            let fb = fold_rec(b, sc, fl);
            match (fa, fb) {
                (Some(x), Some(y)) if additive(*o) => {
                    let r = match o { Op::Add => x.checked_add(y), Op::Sub => x.checked_sub(y), _ => x.checked_mul(y) };
                    match r {
                        None => { fl.out_of_range = true; None }
                        Some(v) => { if [x, y, v].iter().any(|t| t.unsigned_abs() > (1u64 << 53)) { fl.beyond_f64 = true } Some(v) }
                    }
                }
                (Some(x), Some(y)) => match o {
                    Op::BAnd | Op::BOr | Op::BXor => arith_i64(*o, x, y),
                    Op::Shl | Op::Shr if y >= 0 => arith_i64(*o, x, y),
                    _ => None,
                },
                _ => None,
            }
        }
        _ => None,
    }
}
/// the constant the compiler computes for an integer expression, if it folds
pub fn cfold(e: &E, sc: &ConstScope) -> Option<i64> { let mut fl = FoldFlags::default(); fold_rec(e, sc, &mut fl) }
pub fn fold_flags_of(e: &E, sc: &ConstScope) -> FoldFlags { let mut fl = FoldFlags::default(); let _ = fold_rec(e, sc, &mut fl); fl }

// ---------------------------------------------------------------- generator
#[derive(Clone, Copy, Debug, PartialEq, Eq)]
pub enum Stream { Main, Fold, OfZero, Deep, Lazy }
impl Stream { pub fn name(self) -> &'static str { match self { Stream::Main => "main", Stream::Fold => "fold", Stream::OfZero => "of_zero", Stream::Deep => "deep_vars", Stream::Lazy => "lazy_search" } } }

#[derive(Clone, Debug)]
pub struct VarInfo { pub name: usize, pub ty: T, pub cval: Option<i64>, /// known to hold a small value (usable as a loop bound)
    pub small: bool }

pub struct Gen<'a> {
    pub rng: &'a mut Rng,
    pub npats: usize,
    pub fsize: i64,
    pub scope: Vec<VarInfo>,
    pub for_of: usize,
    /// rules this condition may refer to
    pub refs: Vec<usize>,
    pub next_var: usize,
    pub slots: usize,
    pub max_slots: usize,
    pub budget: i32,
    pub stream: Stream,
    /// `0 of` / run-time zero quantifiers allowed in un-anchored `of`
    pub zero_of: bool,
    /// upper bound on the number of times the current position is evaluated (product of the
    /// enclosing loops' lengths); keeps nested loops cheap for the implementation and the model
    pub iters: u64,
}
pub const MAX_ITERS: u64 = 4000;
pub const SHIFT_COUNTS: [i64; 9] = [0, 1, 31, 62, 63, 64, 65, 127, 128];
pub const BOUNDARY: [i64; 22] = [0, 1, -1, 2, 3, 7, 63, 64, 65, 255, 256, 65535, 0x7fff_ffff, 0x8000_0000, 0xffff_ffff, 0x1_0000_0000,
    (1 << 53) - 1, 1 << 53, (1 << 53) + 1, i64::MAX, -i64::MAX, i64::MAX - 1];

impl<'a> Gen<'a> {
    fn cscope(&self) -> ConstScope { self.scope.iter().map(|v| (v.name, v.cval)).collect() }
    fn vars_of(&self, t: T) -> Vec<usize> {
        // innermost binding of each name wins
        let mut seen = vec![]; let mut out = vec![];
        for v in self.scope.iter().rev() { if !seen.contains(&v.name) { seen.push(v.name); if v.ty == t { out.push(v.name) } } }
        out
    }
    fn small_vars(&self) -> Vec<usize> {
        let mut seen = vec![]; let mut out = vec![];
        for v in self.scope.iter().rev() { if !seen.contains(&v.name) { seen.push(v.name); if v.ty == T::Int && v.small { out.push(v.name) } } }
        out
    }
    fn fresh(&mut self) -> usize {
        // mostly fresh names; sometimes shadow an existing one
        if !self.scope.is_empty() && self.rng.chance(1, 12) { let i = self.rng.below(self.scope.len() as u64) as usize; return self.scope[i].name; }
        let v = self.next_var; self.next_var += 1; v
    }
    fn small(&mut self) -> i64 { self.rng.range(0, 9) }
    fn pat(&mut self) -> P {
        if self.for_of > 0 && (self.npats == 0 || self.rng.chance(1, 2)) { P::Cur } else { P::Id(self.rng.below(self.npats as u64) as usize) }
    }
    fn has_pat(&self) -> bool { self.npats > 0 || self.for_of > 0 }
    /// a run-time expression whose value is the constant c (not foldable)
    pub fn rt(&mut self, c: i64) -> E {
        let base = E::Arith(Op::Sub, bx(E::Filesize), bx(E::Int(self.fsize)));
        if c == 0 { base } else if c > 0 { E::Arith(Op::Add, bx(base), bx(E::Int(c))) } else if c == i64::MIN {
            E::Arith(Op::Sub, bx(E::Arith(Op::Sub, bx(base), bx(E::Int(i64::MAX)))), bx(E::Int(1)))
        } else { E::Arith(Op::Sub, bx(base), bx(E::Int(-c))) }
    }
    fn undef_int(&mut self) -> E {
        match self.rng.below(if self.has_pat() { 4 } else { 3 }) {
            0 => E::Read(self.int_kind(), bx(E::Arith(Op::Add, bx(E::Filesize), bx(E::Int(self.rng.range(0, 6)))))),
            1 => { let z = self.rt(0); E::Arith(if self.rng.chance(1, 2) { Op::Div } else { Op::Mod }, bx(self.int_leaf()), bx(z)) }
            2 => E::Read(self.int_kind(), bx(E::Int(-1 - self.small()))),
            _ => { let p = self.pat(); let k = 40 + self.small(); if self.rng.chance(1, 2) { E::Offset(p, Some(bx(E::Int(k)))) } else { E::Length(p, Some(bx(E::Int(k)))) } }
        }
    }
    fn int_kind(&mut self) -> IntKind { IntKind { bytes: *self.rng.pick(&[1usize, 1, 2, 4]), signed: self.rng.chance(1, 3), be: self.rng.chance(1, 3) } }
    fn int_const(&mut self) -> i64 {
        match self.rng.below(10) { 0..=4 => self.small(), 5 => -self.small(), 6 => self.rng.range(10, 300), _ => *self.rng.pick(&BOUNDARY) }
    }
    pub fn int_leaf(&mut self) -> E {
        let vars = self.vars_of(T::Int);
        loop {
            match self.rng.below(13) {
                0 | 1 => return E::Int(self.int_const()),
                2 => return E::Filesize,
                3 if !vars.is_empty() => return E::Var(*self.rng.pick(&vars)),
                4 if !vars.is_empty() => return E::Var(*self.rng.pick(&vars)),
                5 if self.has_pat() => return E::Count(self.pat(), None),
                6 if self.has_pat() => { let p = self.pat(); let i = if self.rng.chance(1, 3) { None } else { Some(bx(E::Int(self.rng.range(1, 4)))) }; return E::Offset(p, i) }
                7 if self.has_pat() => { let p = self.pat(); let i = if self.rng.chance(1, 3) { None } else { Some(bx(E::Int(self.rng.range(1, 4)))) }; return E::Length(p, i) }
                8 => { let k = self.int_kind(); let off = self.rng.range(0, (self.fsize + 2).max(1)); return E::Read(k, bx(E::Int(off))) }
                9 => return E::Global(self.rng.below(2) as usize),
                10 => { let c = self.int_const(); return self.rt(c) }
                11 if self.rng.chance(1, 3) => return self.undef_int(),
                12 if self.rng.chance(1, 4) => { let c = if self.rng.chance(1, 8) { i64::MIN } else { *self.rng.pick(&BOUNDARY) }; return self.rt(c) }
                _ => {}
            }
        }
    }
    /// small non-negative values: offsets, range bounds, shift counts, indexes
    pub fn small_int(&mut self, d: u32) -> E {
        let vars = self.small_vars();
        loop {
            match self.rng.below(12) {
                0..=3 => return E::Int(self.rng.range(0, 12)),
                4 => return E::Filesize,
                5 => { let k = self.rng.range(0, 6); return E::Arith(Op::Sub, bx(E::Filesize), bx(E::Int(k))) }
                6 if !vars.is_empty() => { let v = E::Var(*self.rng.pick(&vars)); return if self.rng.chance(1, 2) { v } else { E::Arith(Op::Add, bx(v), bx(E::Int(self.rng.range(0, 5)))) } }
                7 if self.has_pat() => return E::Count(self.pat(), None),
                8 if self.has_pat() => { let p = self.pat(); return E::Offset(p, Some(bx(E::Int(self.rng.range(1, 3))))) }
                9 => { let off = self.rng.range(0, (self.fsize).max(1)); return E::Read(IntKind { bytes: 1, signed: false, be: false }, bx(E::Int(off))) }
                10 if d > 0 => { let a = self.small_int(d - 1); let b = self.small_int(d - 1); let o = *self.rng.pick(&[Op::Add, Op::Sub, Op::Mod, Op::BAnd]); return self.arith(o, a, b) }
                11 if self.rng.chance(1, 6) => return self.undef_int(),
                _ => {}
            }
        }
    }
    /// builds a op b, dropping b when the compiler would reject the constant chain (overflow)
    fn arith(&mut self, o: Op, a: E, b: E) -> E {
        let a2 = a.clone();
        let e = E::Arith(o, bx(a), bx(b));
        let fl = fold_flags_of(&e, &self.cscope());
        if fl.out_of_range || fl.neg_min { return a2; }
        if matches!(o, Op::Shl | Op::Shr) {
            if let E::Arith(_, _, b) = &e { if let Some(v) = cfold(b, &self.cscope()) { if v < 0 { return a2; } } }
        }
        e
    }
    pub fn gen_int(&mut self, d: u32) -> E {
        self.budget -= 1;
        if d == 0 || self.budget <= 0 || self.rng.chance(2, 5) { return self.int_leaf(); }
        match self.rng.below(14) {
            0..=7 => {
                let o = *self.rng.pick(&[Op::Add, Op::Add, Op::Sub, Op::Sub, Op::Mul, Op::Div, Op::Mod, Op::Shl, Op::Shr, Op::BAnd, Op::BOr, Op::BXor]);
                let a = self.gen_int(d - 1);
                let (a, b) = if matches!(o, Op::Shl | Op::Shr) {
                    // boundary shift counts, as constants (folded by the compiler) and manufactured
                    // at run time (the emitted `< 64` guard); interesting left operands
                    let c = *self.rng.pick(&SHIFT_COUNTS);
                    let b = match self.rng.below(6) {
                        0 => E::Int(c),
                        1 | 2 => self.rt(c),
                        3 if self.has_pat() => { let p = self.pat(); E::Arith(Op::Add, bx(E::Arith(Op::Sub, bx(E::Count(p, None)), bx(E::Count(p, None)))), bx(E::Int(c))) }
                        4 => { let vars = self.small_vars(); if vars.is_empty() { self.rt(c) } else { E::Arith(Op::Add, bx(E::Var(*self.rng.pick(&vars))), bx(E::Int(c - c % 2))) } }
                        _ => self.small_int(1),
                    };
                    let a = if self.rng.chance(1, 3) { let l = *self.rng.pick(&[1i64, -1, i64::MIN, i64::MAX]); if l == i64::MIN || self.rng.chance(1, 2) { self.rt(l) } else { E::Int(l) } } else { a };
                    (a, b)
                } else { let b = self.gen_int(d - 1); (a, b) };
                self.arith(o, a, b)
            }
            8 => { let a = self.gen_int(d - 1); let e = E::Neg(bx(a.clone())); if fold_flags_of(&e, &self.cscope()).neg_min { a } else { e } }
            9 => E::BitNot(bx(self.gen_int(d - 1))),
            10 | 11 if self.has_pat() => { let p = self.pat(); let (l, h) = self.range(d - 1); E::Count(p, Some((bx(l), bx(h)))) }
            12 if self.has_pat() => { let p = self.pat(); let i = self.index(d - 1); if self.rng.chance(1, 2) { E::Offset(p, Some(bx(i))) } else { E::Length(p, Some(bx(i))) } }
            _ => { let k = self.int_kind(); let o = self.small_int(d - 1); E::Read(k, bx(o)) }
        }
    }
    /// operand of `at`: a constant must be >= 0
    fn offset(&mut self, d: u32) -> E {
        let e = if self.rng.chance(1, 5) { self.gen_int(d) } else { self.small_int(d) };
        match cfold(&e, &self.cscope()) { Some(v) if v < 0 => E::Int(self.small()), _ => e }
    }
    /// (lo..hi): constants must satisfy 0 <= lo <= hi; keep ranges short
    fn range(&mut self, d: u32) -> (E, E) {
        let lo = self.small_int(d.min(1));
        let lo = match cfold(&lo, &self.cscope()) { Some(v) if v < 0 => E::Int(0), _ => lo };
        let hi = match self.rng.below(4) {
            0 => self.small_int(d.min(1)),
            1 => E::Arith(Op::Add, bx(lo.clone()), bx(E::Int(self.rng.range(0, 12)))),
            2 => E::Filesize,
            _ => E::Int(self.rng.range(0, 40)),
        };
        let sc = self.cscope();
        let hi = match (cfold(&lo, &sc), cfold(&hi, &sc)) {
            (Some(l), Some(h)) if h < l || h < 0 => E::Int(l + self.rng.range(0, 9)),
            (None, Some(h)) if h < 0 => E::Int(self.small()),
            _ => hi,
        };
        // `lo + k` may have become a constant chain
        let hi = match (cfold(&lo, &sc), cfold(&hi, &sc)) { (Some(l), Some(h)) if h < l => E::Int(l), _ => hi };
        (lo, hi)
    }
    /// index of @a[i] / !a[i]: a constant must be >= 1
    fn index(&mut self, d: u32) -> E {
        let e = match self.rng.below(4) { 0 | 1 => E::Int(self.rng.range(1, 5)), 2 => self.small_int(d), _ => E::Arith(Op::Add, bx(self.small_int(0)), bx(E::Int(1))) };
        match cfold(&e, &self.cscope()) { Some(v) if v < 1 => E::Int(1), _ => e }
    }
    /// quantifier; min = smallest value it may take at run time (0 or 1)
    fn quant(&mut self, n_items: usize, min: i64, d: u32) -> Q {
        match self.rng.below(10) {
            0 => Q::None, 1 | 2 => Q::Any, 3 | 4 => Q::All,
            5 | 6 => Q::Expr(bx(E::Int(self.rng.range(min, n_items as i64 + 1)))),
            7 => {
                // run-time value >= min: a non-negative quantity plus a constant
                let base = match self.rng.below(4) {
                    0 if self.has_pat() => E::Count(self.pat(), None),
                    1 => E::Read(IntKind { bytes: 1, signed: false, be: false }, bx(E::Int(self.rng.range(0, self.fsize.max(1))))),
                    2 => { let c = self.rng.range(0, 3); self.rt(c) }
                    _ => E::Arith(Op::BAnd, bx(E::Filesize), bx(E::Int(3))),
                };
                let k = self.rng.range(min, 2);
                let e = if k == 0 { base } else { E::Arith(Op::Add, bx(base), bx(E::Int(k))) };
                let _ = d;
                Q::Expr(bx(e))
            }
            8 => Q::Pct(bx(E::Int(if min == 0 { self.rng.range(0, 100) } else { self.rng.range(1, 100) }))),
            _ => {
                let e = match self.rng.below(3) {
                    0 => E::Arith(Op::Add, bx(E::Arith(Op::Mod, bx(E::Filesize), bx(E::Int(100)))), bx(E::Int(1))),
                    1 => { let c = self.rng.range(1, 100); self.rt(c) }
                    _ => E::Arith(Op::Add, bx(E::Read(IntKind { bytes: 1, signed: false, be: false }, bx(E::Int(self.rng.range(0, self.fsize.max(1)))))), bx(E::Int(1))),
                };
                Q::Pct(bx(e))
            }
        }
    }
    fn pat_set(&mut self) -> (Vec<usize>, SetSyn) {
        let n = self.npats;
        if self.rng.chance(2, 5) { return ((0..n).collect(), if self.rng.chance(1, 3) { SetSyn::Wild } else { SetSyn::Them }); }
        let mut s: Vec<usize> = (0..n).filter(|_| self.rng.chance(1, 2)).collect();
        if s.is_empty() { s.push(self.rng.below(n as u64) as usize); }
        (s, SetSyn::List(self.rng.next()))
    }
    fn anchor(&mut self, d: u32) -> A {
        match self.rng.below(6) { 0 | 1 => A::At(bx(self.offset(d))), 2 => { let (l, h) = self.range(d); A::In(bx(l), bx(h)) } _ => A::None }
    }
    fn str_expr(&mut self) -> E {
        let vars = self.vars_of(T::Str);
        match self.rng.below(4) {
            0 | 1 => E::Global(4 + self.rng.below(2) as usize),
            2 if !vars.is_empty() => E::Var(*self.rng.pick(&vars)),
            _ => E::Str(gen_string(self.rng)),
        }
    }
    fn bool_ident(&mut self) -> Option<E> {
        let vars = self.vars_of(T::Bool);
        let mut opts: Vec<E> = vec![E::Global(2), E::Global(3)];
        for r in &self.refs { opts.push(E::Rule(*r)); }
        for v in vars { opts.push(E::Var(v)); opts.push(E::Var(v)); }
        Some(self.rng.pick(&opts).clone())
    }
    fn int_cmp(&mut self, d: u32) -> E {
        let o = *self.rng.pick(&[Cmp::Eq, Cmp::Ne, Cmp::Lt, Cmp::Le, Cmp::Gt, Cmp::Ge]);
        let a = self.gen_int(d); let b = self.gen_int(d);
        E::Cmp(o, bx(a), bx(b))
    }
    fn rel_cmp(&mut self, d: u32) -> E {
        let o = *self.rng.pick(&[Cmp::Lt, Cmp::Le, Cmp::Gt, Cmp::Ge]);
        let a = self.gen_int(d); let b = self.gen_int(d);
        E::Cmp(o, bx(a), bx(b))
    }
    pub fn bool_leaf(&mut self) -> E {
        loop {
            match self.rng.below(12) {
                0 | 1 | 2 if self.has_pat() => return E::Pat(self.pat(), A::None),
                3 if self.has_pat() => { let p = self.pat(); let a = self.anchor(0); return E::Pat(p, a) }
                4 | 5 => return self.int_cmp(0),
                6 => return self.bool_ident().unwrap(),
                7 if self.rng.chance(1, 5) => return E::Bool(self.rng.chance(1, 2)),
                8 => { let o = *self.rng.pick(&[SOp::Contains, SOp::IContains, SOp::StartsWith, SOp::IStartsWith, SOp::EndsWith, SOp::IEndsWith, SOp::IEquals]);
                       let a = self.str_expr(); let b = self.str_expr(); return E::StrOp(o, bx(a), bx(b)) }
                9 => { let o = *self.rng.pick(&[Cmp::Eq, Cmp::Ne, Cmp::Lt, Cmp::Ge]); let a = self.str_expr(); let b = self.str_expr(); return E::Cmp(o, bx(a), bx(b)) }
                10 => { let x = if self.rng.chance(1, 2) { self.undef_int() } else { self.int_leaf() }; return E::Defined(bx(x)) }
                11 if self.npats > 0 && self.slots + 5 <= self.max_slots => return self.of_expr(0),
                _ => {}
            }
        }
    }
    fn of_expr(&mut self, d: u32) -> E {
        let (s, syn) = self.pat_set();
        let a = self.anchor(d);
        // un-anchored `N of` with N = 0 used to be findings 6/11; negative N is undocumented and not generated here
        let min = if matches!(a, A::None) && !self.zero_of { 1 } else { 0 };
        let q = self.quant(s.len(), min, d);
        E::Of(q, s, syn, a)
    }
    fn with_scope<R>(&mut self, vars: Vec<VarInfo>, slots: usize, f: impl FnOnce(&mut Self) -> R) -> R {
        let n = self.scope.len();
        self.scope.extend(vars);
        self.slots += slots;
        let r = f(self);
        self.slots -= slots;
        self.scope.truncate(n);
        r
    }
    pub fn gen_bool(&mut self, d: u32) -> E {
        self.budget -= 1;
        if d == 0 || self.budget <= 0 || self.rng.chance(1, 4) { return self.bool_leaf(); }
        match self.rng.below(22) {
            0 | 1 => E::Not(bx(self.gen_bool(d - 1))),
            2..=4 => { let a = self.gen_bool(d - 1); let b = self.gen_bool(d - 1); E::And(bx(a), bx(b)) }
            5..=7 => { let a = self.gen_bool(d - 1); let b = self.gen_bool(d - 1); E::Or(bx(a), bx(b)) }
            8 | 9 => self.int_cmp(d - 1),
            10 => {
                // bool == bool: the operands allowed by the grammar are identifiers and comparisons
                let l = match self.rng.below(3) { 0 => self.bool_ident().unwrap(), 1 => self.int_cmp(d.min(2) - 1), _ => { let a = self.bool_ident().unwrap(); let b = self.bool_ident().unwrap(); E::Cmp(Cmp::Eq, bx(a), bx(b)) } };
                let r = if self.rng.chance(1, 2) { self.bool_ident().unwrap() } else { self.rel_cmp(d.min(2) - 1) };
                E::Cmp(Cmp::Eq, bx(l), bx(r))
            }
            11 => { let x = if self.rng.chance(1, 2) { self.gen_int(d - 1) } else { return E::Defined(bx(self.gen_bool(d - 1))) }; E::Defined(bx(x)) }
            12 | 13 if self.npats > 0 && self.slots + 5 <= self.max_slots => self.of_expr(d - 1),
            14 if self.slots + 5 <= self.max_slots => {
                let n = 1 + self.rng.below(4) as usize;
                let q = self.quant(n, 0, d - 1);
                let items = self.with_scope(vec![], 5, |g| (0..n).map(|_| g.gen_bool(d - 1)).collect());
                E::OfB(q, items)
            }
            15 | 16 if self.npats > 0 && self.slots + 5 <= self.max_slots => {
                let (s, syn) = self.pat_set();
                let q = self.quant(s.len(), 0, d - 1);
                self.for_of += 1;
                let saved = self.iters; self.iters = self.iters.saturating_mul(s.len() as u64);
                let b = self.with_scope(vec![], 5, |g| g.gen_bool(d - 1));
                self.iters = saved;
                self.for_of -= 1;
                E::ForOf(q, s, syn, bx(b))
            }
            17 | 18 if self.slots + 7 <= self.max_slots => {
                // an outermost loop may run over anything small (filesize, #a, uint8(..): at most
                // a few hundred values); nested ones get ranges of known, short length
                let allowed = MAX_ITERS / self.iters.max(1);
                let (lo, hi, len) = if self.iters <= 1 { let (l, h) = self.range(d - 1); (l, h, 300u64) } else {
                    let k = self.rng.range(0, (allowed.min(12) as i64 - 1).max(0));
                    let lo = if self.rng.chance(1, 2) { E::Int(self.rng.range(0, 6)) } else { self.small_int(0) };
                    let lo = match cfold(&lo, &self.cscope()) { Some(v) if v < 0 => E::Int(0), _ => lo };
                    let hi = match cfold(&lo, &self.cscope()) { Some(v) => E::Int(v + k), None => E::Arith(Op::Add, bx(lo.clone()), bx(E::Int(k))) };
                    (lo, hi, (k + 1) as u64)
                };
                let q = self.quant(4, 0, d - 1);
                let x = self.fresh();
                let saved = self.iters; self.iters = self.iters.saturating_mul(len);
                let b = self.with_scope(vec![VarInfo { name: x, ty: T::Int, cval: None, small: true }], 7, |g| g.gen_bool(d - 1));
                self.iters = saved;
                E::ForRange(q, x, bx(lo), bx(hi), bx(b))
            }
            19 if self.slots + 7 <= self.max_slots => {
                let n = 1 + self.rng.below(4) as usize;
                let ty = *self.rng.pick(&[T::Int, T::Int, T::Int, T::Str, T::Bool]);
                let items: Vec<E> = (0..n).map(|_| match ty { T::Int => self.gen_int(d.min(2) - 1), T::Str => self.str_expr(), T::Bool => self.bool_ident().unwrap() }).collect();
                let q = self.quant(n, 0, d - 1);
                let x = self.fresh();
                let saved = self.iters; self.iters = self.iters.saturating_mul(n as u64);
                let b = self.with_scope(vec![VarInfo { name: x, ty, cval: None, small: false }], 7, |g| g.gen_bool(d - 1));
                self.iters = saved;
                E::ForTuple(q, x, items, bx(b))
            }
            20 | 21 if self.slots + 3 <= self.max_slots => {
                let n = 1 + self.rng.below(3) as usize;
                let mut decls = vec![]; let mut infos: Vec<VarInfo> = vec![];
                let base = self.scope.len();
                for _ in 0..n {
                    let ty = *self.rng.pick(&[T::Int, T::Int, T::Int, T::Str, T::Bool]);
                    let e = match ty { T::Int => if self.rng.chance(1, 4) { self.undef_int() } else { self.gen_int(d.min(3) - 1) }, T::Str => self.str_expr(), T::Bool => self.bool_ident().unwrap() };
                    let x = self.fresh();
                    let cval = if ty == T::Int { cfold(&e, &self.cscope()) } else { None };
                    let vi = VarInfo { name: x, ty, cval, small: false };
                    self.scope.push(vi.clone()); infos.push(vi);
                    decls.push((x, e));
                }
                self.scope.truncate(base);
                let b = self.with_scope(infos, n, |g| g.gen_bool(d - 1));
                E::With(decls, bx(b))
            }
            _ => self.bool_leaf(),
        }
    }
}
pub fn gen_string(rng: &mut Rng) -> Vec<u8> {
    let pool: [&[u8]; 12] = [b"", b"a", b"A", b"ab", b"AB", b"Hello", b"hello", b"HELLO world", b"lo", b"He", b"l", b"World"];
    // beyond ASCII (the case-insensitive operators lower-case with the Unicode mapping when an
    // operand is not ASCII): case pairs in prefix / suffix / infix / equal / near-miss positions,
    // the two lower-case sigmas, U+0130 whose lower case is longer, and invalid UTF-8
    let wide: [&[u8]; 22] = [
        b"CAF\xc3\x89", b"caf\xc3\xa9", b"f\xc3\xa9", b"\xc3\x89", b"\xc3\xa9a", b"\xc3\x89A", b"Caf", b"af\xc3\x89x",
        b"\xce\xa3\xce\x91\xce\xa3", b"\xcf\x83\xce\xb1\xcf\x82", b"\xcf\x83\xce\xb1\xcf\x83", b"\xce\xa3", b"\xcf\x82",
        b"\xc4\xb0", b"i\xcc\x87", b"I", b"i", b"\xc4\xb0x",
        b"\xc3", b"\xc3A", b"\xffA", b"a\xc3",
    ];
    if rng.chance(1, 3) { rng.pick(&wide).to_vec() } else { rng.pick(&pool).to_vec() }
}

// ---------------------------------------------------------------- rule sets
#[derive(Clone, Debug)]
pub struct RuleSpec { pub ns: usize, pub global: bool, pub private: bool, pub pats: Vec<Vec<u8>>, pub cond: E }

pub fn pattern_names(r: &RuleSpec) -> Names {
    let used = used_patterns(&r.cond, r.pats.len());
    Names { pats: (0..r.pats.len()).map(|i| if used[i] { format!("$p{}", i) } else { format!("$_p{}", i) }).collect() }
}
pub fn rule_source(idx: usize, r: &RuleSpec) -> String {
    let names = pattern_names(r);
    let mut s = String::new();
    if r.global { s.push_str("global "); }
    if r.private { s.push_str("private "); }
    s.push_str(&format!("rule r{} {{\n", idx));
    if !r.pats.is_empty() {
        s.push_str("  strings:\n");
        for (i, p) in r.pats.iter().enumerate() { s.push_str(&format!("    {} = {}\n", names.pats[i], yara_str(p))); }
    }
    s.push_str(&format!("  condition:\n    {}\n}}\n", to_yara(&r.cond, &names)));
    s
}
pub fn full_source(rules: &[RuleSpec]) -> String {
    let mut s = String::new(); let mut cur = usize::MAX;
    for (i, r) in rules.iter().enumerate() {
        if r.ns != cur { s.push_str(&format!("//NS ns{}\n", r.ns)); cur = r.ns; }
        s.push_str(&rule_source(i, r));
    }
    s
}
pub fn rule_coq(r: &RuleSpec) -> String {
    format!("(mkRule {} {} {} {} {})", cnat(r.ns), coq_bool(r.global), coq_bool(r.private), coq_list(&r.pats, |p| cbytes(p)), to_coq(&r.cond))
}

pub const ALPHABET: &[u8] = b"abcAB";
pub fn gen_pattern_text(rng: &mut Rng) -> Vec<u8> {
    let n = 2 + rng.below(3) as usize;
    (0..n).map(|_| *rng.pick(ALPHABET)).collect()
}
/// buffers assembled from the patterns' own text, near misses and filler
pub fn gen_data(rng: &mut Rng, pool: &[Vec<u8>]) -> Vec<u8> {
    if rng.chance(1, 25) { return vec![]; }
    let mut d = vec![];
    let chunks = rng.below(14);
    for _ in 0..chunks {
        match rng.below(6) {
            0 | 1 | 2 if !pool.is_empty() => { let p: &Vec<u8> = rng.pick(pool); d.extend_from_slice(p) }
            3 => { let n = rng.below(4); for _ in 0..n { d.push(*rng.pick(ALPHABET)); } }
            4 => { let n = rng.below(5); for _ in 0..n { d.push(rng.below(256) as u8); } }
            _ => d.push(b'.'),
        }
    }
    d
}
pub fn gen_globals(rng: &mut Rng) -> Vec<GV> {
    GLOBALS.iter().map(|(_, t)| match t {
        T::Int => GV::I(match rng.below(4) { 0 => *rng.pick(&BOUNDARY), 1 => -rng.range(0, 5), _ => rng.range(0, 12) }),
        T::Bool => GV::B(rng.chance(1, 2)),
        T::Str => GV::S(gen_string(rng)),
    }).collect()
}

// ------------------------------------------------- running the implementation
#[derive(Debug)]
pub enum Outcome { Rejected(String), Panic(String), Ok { all: Vec<usize>, public: Vec<usize> } }

pub fn define_globals(c: &mut yara_x::Compiler, compile_time: &[GV]) {
    for ((name, _), v) in GLOBALS.iter().zip(compile_time) {
        match v { GV::I(z) => { c.define_global(name, *z).unwrap(); } GV::B(b) => { c.define_global(name, *b).unwrap(); } GV::S(s) => { c.define_global(name, s.as_slice()).unwrap(); } }
    }
}
pub fn set_globals(s: &mut yara_x::Scanner, vals: &[GV]) {
    for ((name, _), v) in GLOBALS.iter().zip(vals) {
        match v { GV::I(z) => { s.set_global(name, *z).unwrap(); } GV::B(b) => { s.set_global(name, *b).unwrap(); } GV::S(x) => { s.set_global(name, x.as_slice()).unwrap(); } }
    }
}
/// compile `sources` (namespace, source text) in order
pub fn compile(sources: &[(String, String)], compile_time: &[GV]) -> Result<yara_x::Rules, String> {
    let mut c = yara_x::Compiler::new();
    define_globals(&mut c, compile_time);
    for (ns, src) in sources {
        c.new_namespace(ns);
        c.add_source(src.as_str()).map_err(|e| e.to_string())?;
    }
    Ok(c.build())
}
/// a writer the IR dump of the compiler is collected in
#[derive(Clone, Default)]
pub struct SharedBuf(pub std::sync::Arc<std::sync::Mutex<Vec<u8>>>);
impl std::io::Write for SharedBuf {
    fn write(&mut self, b: &[u8]) -> std::io::Result<usize> { self.0.lock().unwrap().extend_from_slice(b); Ok(b.len()) }
    fn flush(&mut self) -> std::io::Result<()> { Ok(()) }
}
/// like [compile], also returning what `Compiler::set_ir_writer` received: the IR the compiler
/// built for every rule ("RULE <name>" followed by the tree)
pub fn compile_with_ir(sources: &[(String, String)], compile_time: &[GV]) -> Result<(yara_x::Rules, String), String> {
    let buf = SharedBuf::default();
    let mut c = yara_x::Compiler::new();
    c.set_ir_writer(buf.clone());
    define_globals(&mut c, compile_time);
    for (ns, src) in sources {
        c.new_namespace(ns);
        c.add_source(src.as_str()).map_err(|e| e.to_string())?;
    }
    let rules = c.build();
    let text = String::from_utf8_lossy(&buf.0.lock().unwrap()).to_string();
    Ok((rules, text))
}
// ------------------------------------------------------------ the real IR
/// one node of the IR dump (`impl Debug for IR`): constructor of Cond/IrTree.v irk, integer
/// attributes, children in dump order
#[derive(Clone, Debug)]
pub struct IrNode { pub kind: &'static str, pub args: Vec<i64>, pub kids: Vec<IrNode> }
impl IrNode {
    pub fn to_coq(&self) -> String {
        format!("(IR {} {} {})", self.kind, coq_list(&self.args, |z| cz(*z)), coq_list(&self.kids, |k| k.to_coq()))
    }
    pub fn size(&self) -> usize { 1 + self.kids.iter().map(|k| k.size()).sum::<usize>() }
}
fn after<'a>(s: &'a str, key: &str) -> Option<&'a str> { s.find(key).map(|i| &s[i + key.len()..]) }
fn leading_int(s: &str) -> Option<i64> {
    let end = s.char_indices().find(|(i, c)| !(c.is_ascii_digit() || (*i == 0 && *c == '-'))).map(|(i, _)| i).unwrap_or(s.len());
    s[..end].parse().ok()
}
fn unescape(s: &str) -> Result<Vec<i64>, String> {
    let b = s.as_bytes(); let mut out = vec![]; let mut i = 0;
    while i < b.len() {
        if b[i] == b'\\' {
            i += 1;
            match b.get(i) {
                Some(b'n') => out.push(10), Some(b't') => out.push(9), Some(b'r') => out.push(13), Some(b'0') => out.push(0),
                Some(b'"') => out.push(34), Some(b'\\') => out.push(92), Some(b'\'') => out.push(39),
                Some(b'u') => {
                    let rest = std::str::from_utf8(&b[i + 1..]).map_err(|e| e.to_string())?;
                    let end = rest.find('}').ok_or("\\u escape")?;
                    let cp = u32::from_str_radix(rest[..end].trim_start_matches('{'), 16).map_err(|e| e.to_string())?;
                    let ch = char::from_u32(cp).ok_or("code point")?;
                    let mut buf = [0u8; 4];
                    for x in ch.encode_utf8(&mut buf).as_bytes() { out.push(*x as i64); }
                    i += end + 1;
                }
                Some(b'x') => { let h = std::str::from_utf8(&b[i + 1..i + 3]).map_err(|e| e.to_string())?; out.push(i64::from_str_radix(h, 16).map_err(|e| e.to_string())?); i += 2; }
                other => return Err(format!("escape {:?}", other)),
            }
            i += 1;
        } else { out.push(b[i] as i64); i += 1; }
    }
    Ok(out)
}
/// pattern reference of PATTERN_* lines: `PatternIdx(3)` or the loop variable of a for..of
fn pat_ref(rest: &str) -> Result<(Vec<i64>, &str), String> {
    if let Some(r) = rest.strip_prefix("PatternIdx(") {
        let n = leading_int(r).ok_or("pattern index")?;
        let tail = after(r, ")").ok_or("pattern index )")?;
        Ok((vec![0, n], tail))
    } else if rest.starts_with("Var {") {
        let r = after(rest, "index: ").ok_or("pattern var index")?;
        let n = leading_int(r).ok_or("pattern var index")?;
        // `Var { var: Var { .. index: N }, type_value: integer(unknown) }<flags>`
        let tail = after(r, "} }").or_else(|| after(r, ") }")).ok_or("pattern var tail")?;
        Ok((vec![1, n], tail))
    } else { Err(format!("pattern reference: {}", rest)) }
}
fn ir_line(body: &str) -> Result<(&'static str, Vec<i64>), String> {
    let body = match body.find(" -- hash:") { Some(i) => &body[..i], None => body };
    let (head, rest) = match body.find(' ') { Some(i) => (&body[..i], body[i + 1..].trim_end()), None => (body.trim_end(), "") };
    let plain = |k: &'static str| -> Result<(&'static str, Vec<i64>), String> { if rest.is_empty() { Ok((k, vec![])) } else { Err(format!("unexpected text after {}: {}", head, rest)) } };
    match head {
        "CONST" => {
            if let Some(r) = rest.strip_prefix("integer(") { Ok(("KConstInt", vec![leading_int(r).ok_or("const integer")?])) }
            else if let Some(r) = rest.strip_prefix("boolean(") { Ok(("KConstBool", vec![if r.starts_with("true") { 1 } else if r.starts_with("false") { 0 } else { return Err(format!("const {}", rest)) }])) }
            else if let Some(r) = rest.strip_prefix("string(\"") { let inner = r.strip_suffix("\")").ok_or("const string")?; Ok(("KConstStr", unescape(inner)?)) }
            else { Err(format!("constant {}", rest)) }
        }
        "FILESIZE" => plain("KFilesize"), "NOT" => plain("KNot"), "AND" => plain("KAnd"), "OR" => plain("KOr"), "MINUS" => plain("KMinus"),
        "ADD" => plain("KAdd"), "SUB" => plain("KSub"), "MUL" => plain("KMul"), "DIV" => plain("KDiv"), "MOD" => plain("KMod"),
        "SHL" => plain("KShl"), "SHR" => plain("KShr"), "EQ" => plain("KEq"), "NE" => plain("KNe"), "LT" => plain("KLt"), "GT" => plain("KGt"),
        "LE" => plain("KLe"), "GE" => plain("KGe"), "BITWISE_NOT" => plain("KBitNot"), "BITWISE_AND" => plain("KBitAnd"), "BITWISE_OR" => plain("KBitOr"),
        "BITWISE_XOR" => plain("KBitXor"), "CONTAINS" => plain("KContains"), "ICONTAINS" => plain("KIContains"), "STARTS_WITH" => plain("KStartsWith"),
        "ISTARTS_WITH" => plain("KIStartsWith"), "ENDS_WITH" => plain("KEndsWith"), "IENDS_WITH" => plain("KIEndsWith"), "IEQUALS" => plain("KIEquals"),
        "DEFINED" => plain("KDefined"), "WITH" => plain("KWith"), "OF" => plain("KOf"), "FOR_OF" => plain("KForOf"), "FOR_IN" => plain("KForIn"),
        "SYMBOL" => {
            if rest.starts_with("Var {") { Ok(("KSymVar", vec![leading_int(after(rest, "index: ").ok_or("symbol var")?).ok_or("symbol var index")?])) }
            else if rest.starts_with("Field {") { Ok(("KSymField", vec![leading_int(after(rest, "index: ").ok_or("symbol field")?).ok_or("symbol field index")?])) }
            else if rest.starts_with("Rule {") { Ok(("KSymRule", vec![leading_int(after(rest, "RuleId(").ok_or("symbol rule")?).ok_or("symbol rule id")?])) }
            else { Err(format!("symbol {}", rest)) }
        }
        "FN_CALL" => {
            let name = rest.split('@').next().unwrap_or("");
            let (signed, r) = match name.strip_prefix("uint") { Some(r) => (0, r), None => (1, name.strip_prefix("int").ok_or_else(|| format!("function {}", name))?) };
            let (be, bits) = match r.strip_suffix("be") { Some(b) => (1, b), None => (0, r) };
            let bytes = match bits { "8" => 1, "16" => 2, "32" => 4, _ => return Err(format!("function {}", name)) };
            Ok(("KFnRead", vec![bytes, signed, be]))
        }
        "PATTERN_MATCH" => { let (mut a, tail) = pat_ref(rest)?; a.push(match tail.trim() { "" => 0, "AT" => 1, "IN" => 2, t => return Err(format!("anchor {}", t)) }); Ok(("KPatMatch", a)) }
        "PATTERN_COUNT" => { let (mut a, tail) = pat_ref(rest)?; a.push(match tail.trim() { "" => 0, "IN" => 1, t => return Err(format!("range {}", t)) }); Ok(("KPatCount", a)) }
        "PATTERN_OFFSET" | "PATTERN_LENGTH" => {
            let (mut a, tail) = pat_ref(rest)?; a.push(match tail.trim() { "" => 0, "INDEX" => 1, t => return Err(format!("index {}", t)) });
            Ok((if head == "PATTERN_OFFSET" { "KPatOffset" } else { "KPatLength" }, a))
        }
        _ => Err(format!("unknown IR node: {}", body)),
    }
}
/// the normalisations documented in Cond/IrTree.v
fn ir_normalise(mut n: IrNode) -> IrNode {
    n.kids = n.kids.into_iter().map(ir_normalise).collect();
    if (n.kind == "KPatOffset" || n.kind == "KPatLength") && n.args.last() == Some(&0) && n.kids.is_empty() {
        *n.args.last_mut().unwrap() = 1;
        n.kids.push(IrNode { kind: "KConstInt", args: vec![1], kids: vec![] });
    }
    if n.kind == "KWith" && n.kids.len() > 2 {
        let mut kids = n.kids; let body = kids.pop().unwrap();
        let mut acc = body;
        for d in kids.into_iter().rev() { acc = IrNode { kind: "KWith", args: vec![], kids: vec![d, acc] }; }
        return acc;
    }
    n
}
/// parses what `Compiler::set_ir_writer` received: (rule name, tree) in the order of the dump
pub fn parse_ir(text: &str) -> Result<Vec<(String, IrNode)>, String> {
    let mut out: Vec<(String, IrNode)> = vec![];
    // stack of (depth, node) of the rule being read
    let mut stack: Vec<(usize, IrNode)> = vec![];
    let mut name: Option<String> = None;
    fn close(stack: &mut Vec<(usize, IrNode)>, to_depth: usize) {
        while stack.len() > 1 && stack.last().unwrap().0 >= to_depth {
            let (_, n) = stack.pop().unwrap();
            stack.last_mut().unwrap().1.kids.push(n);
        }
    }
    let mut finish = |name: &mut Option<String>, stack: &mut Vec<(usize, IrNode)>, out: &mut Vec<(String, IrNode)>| -> Result<(), String> {
        if let Some(nm) = name.take() {
            close(stack, 0);
            match stack.pop() { Some((_, n)) if stack.is_empty() => out.push((nm, ir_normalise(n))), _ => return Err(format!("rule {}: no single root", nm)) }
        }
        stack.clear();
        Ok(())
    };
    for line in text.lines() {
        if let Some(n) = line.strip_prefix("RULE ") { finish(&mut name, &mut stack, &mut out)?; name = Some(n.trim().to_string()); continue; }
        if line.trim().is_empty() || name.is_none() { continue; }
        let indent = line.len() - line.trim_start().len();
        let t = line.trim_start();
        // `<id>: KIND ..`
        let colon = t.find(": ");
        let is_node = colon.map(|i| i > 0 && t[..i].bytes().all(|c| c.is_ascii_digit())).unwrap_or(false);
        if is_node {
            let depth = indent / 2;
            let (kind, args) = ir_line(&t[colon.unwrap() + 2..])?;
            if stack.is_empty() { stack.push((depth, IrNode { kind, args, kids: vec![] })); continue; }
            if depth <= stack[0].0 { return Err(format!("second root: {}", line)); }
            close(&mut stack, depth);
            stack.push((depth, IrNode { kind, args, kids: vec![] }));
        } else if let Some(i) = colon {
            // n / i / max_count / count / item of a loop
            let key = &t[..i];
            if ["n", "i", "max_count", "count", "item"].contains(&key) {
                let v = leading_int(after(t, "index: ").ok_or("loop variable")?).ok_or("loop variable index")?;
                stack.last_mut().ok_or("loop variable without node")?.1.args.push(v);
            } else if t.starts_with("FilesizeBounds") || t.starts_with("start:") || t.starts_with("end:") { /* trailing note of the dump */ }
            else { return Err(format!("unexpected line in IR dump: {}", line)); }
        } else if t.starts_with("FilesizeBounds") || t == "}" || t == ")," || t == ")" { /* trailing note of the dump */ }
        else { return Err(format!("unexpected line in IR dump: {}", line)); }
    }
    finish(&mut name, &mut stack, &mut out)?;
    Ok(out)
}

/// the WASM module the compiler emits for these sources (`Compiler::emit_wasm_file`)
pub fn emitted_wasm(sources: &[(String, String)], compile_time: &[GV]) -> Result<Vec<u8>, String> {
    let mut c = yara_x::Compiler::new();
    define_globals(&mut c, compile_time);
    for (ns, src) in sources {
        c.new_namespace(ns);
        c.add_source(src.as_str()).map_err(|e| e.to_string())?;
    }
    let dir = std::env::temp_dir().join(format!("c02-wasm-{}", std::process::id()));
    std::fs::create_dir_all(&dir).map_err(|e| e.to_string())?;
    let path = dir.join("rules.wasm");
    c.emit_wasm_file(&path).map_err(|e| e.to_string())?;
    let bytes = std::fs::read(&path).map_err(|e| e.to_string())?;
    let _ = std::fs::remove_file(&path); let _ = std::fs::remove_dir(&dir);
    Ok(bytes)
}
/// one add_source call per rule, or one per namespace block
pub fn sources_of(rules: &[RuleSpec], per_rule: bool) -> Vec<(String, String)> {
    let mut out: Vec<(String, String)> = vec![];
    let mut cur = usize::MAX;
    for (i, r) in rules.iter().enumerate() {
        let ns = format!("ns{}", r.ns);
        if per_rule || r.ns != cur { out.push((ns, rule_source(i, r))); } else { out.last_mut().unwrap().1.push_str(&rule_source(i, r)); }
        cur = r.ns;
    }
    out
}
pub fn rule_index(ident: &str) -> Option<usize> { if ident.starts_with('r') { ident[1..].parse().ok() } else { None } }
/// a rule whose condition calls search_for_patterns before anything else
pub const WARMUP: &str = "rule warmup { strings: $w = \"\\x00WARM-UP\\x01\" condition: #w >= 0 }\n";
pub fn with_warmup(sources: &[(String, String)]) -> Vec<(String, String)> {
    let mut v = vec![("warmup".to_string(), WARMUP.to_string())];
    v.extend_from_slice(sources);
    v
}
pub fn run_impl(sources: &[(String, String)], compile_time: &[GV], globals: &[GV], data: &[u8]) -> Outcome {
    run_impl_ir(sources, compile_time, globals, data).0
}
/// what [run_impl_ir] learns about the compilation besides the verdicts
#[derive(Default, Clone, Debug)]
pub struct CompileInfo {
    /// the IR dump (Compiler::set_ir_writer)
    pub ir: String,
    /// per rule: the PatternId of each declared pattern (hook Rules::verif_c02_pattern_ids)
    pub pattern_ids: Vec<Vec<usize>>,
}
/// also returns the IR dump of the very compilation whose rules are scanned
pub fn run_impl_ir(sources: &[(String, String)], compile_time: &[GV], globals: &[GV], data: &[u8]) -> (Outcome, CompileInfo) {
    let (rules, ir) = match catch(AssertUnwindSafe(|| compile_with_ir(sources, compile_time))) {
        Err(p) => return (Outcome::Panic(format!("compile: {}", p)), CompileInfo::default()),
        Ok(Err(e)) => return (Outcome::Rejected(e), CompileInfo::default()),
        Ok(Ok(r)) => r,
    };
    let info = CompileInfo { ir, pattern_ids: rules.verif_c02_pattern_ids() };
    let o = match catch(AssertUnwindSafe(|| {
        let mut s = yara_x::Scanner::new(&rules);
        s.set_timeout(std::time::Duration::from_secs(20));
        set_globals(&mut s, globals);
        let res = s.scan(data).map_err(|e| e.to_string())?;
        let mut all: Vec<usize> = res.matching_rules().include_private(true).filter_map(|r| rule_index(r.identifier())).collect();
        let mut public: Vec<usize> = res.matching_rules().filter_map(|r| rule_index(r.identifier())).collect();
        all.sort(); public.sort();
        Ok::<_, String>((all, public))
    })) {
        Err(p) => Outcome::Panic(format!("scan: {}", p)),
        Ok(Err(e)) => Outcome::Panic(format!("scan error: {}", e)),
        Ok(Ok((all, public))) => Outcome::Ok { all, public },
    };
    (o, info)
}
/// a string value of a replay file: text, or {"hex": ..} when it is not UTF-8
pub fn gv_str(v: &serde_json::Value) -> Vec<u8> {
    match v.as_str() { Some(t) => t.as_bytes().to_vec(), None => unhex(v["hex"].as_str().unwrap_or("")) }
}
pub fn gv_json(g: &[GV]) -> String {
    let v: Vec<String> = GLOBALS.iter().zip(g).map(|((n, _), v)| format!("{}:{}", json_str(n), match v { GV::I(z) => format!("{}", z), GV::B(b) => format!("{}", b), GV::S(s) => match std::str::from_utf8(s) { Ok(t) => json_str(t), Err(_) => format!("{{\"hex\":\"{}\"}}", hex(s)) } })).collect();
    format!("{{{}}}", v.join(","))
}
