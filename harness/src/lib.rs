//! Shared library of the verification harness (one binary per property in src/bin).
pub mod util;
