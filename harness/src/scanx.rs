//! Shared by the c04 / c14 / c16 binaries (included with #[path]): canonical
//! result dumps, digests, a scanner that is either contiguous or block mode.
#![allow(dead_code)]
use std::collections::BTreeMap;
use std::panic::AssertUnwindSafe;
use verif_harness::util::*;

pub fn fnv(b: &[u8]) -> u64 {
    let mut h: u32 = 0x811c9dc5;
    for x in b { h ^= *x as u32; h = h.wrapping_mul(0x01000193); }
    h as u64
}

/// One reported match: (start, len, xor key + 1 or 0, fnv of data(), fnv of
/// data_with_context().0, start of the match inside the context window)
pub type MatchDump = (u64, u64, u64, u64, u64, u64);

#[derive(Clone, Debug, PartialEq, Eq)]
pub struct RuleDump { pub name: String, pub matched: bool, pub pats: Vec<(String, Vec<MatchDump>)> }

/// Canonical dump of a scan outcome.
#[derive(Clone, Debug, PartialEq, Eq)]
pub enum Outcome {
    /// rules sorted by "namespace:identifier"; names of modules with output
    Done { rules: Vec<RuleDump>, module_outputs: Vec<String> },
    Timeout,
    ModuleError,
    OtherError(String),
    Panic(String),
}

pub fn dump_results(r: &yara_x::ScanResults) -> Outcome {
    let res = catch(AssertUnwindSafe(|| {
        let mut rules = vec![];
        for rule in r.matching_rules().include_private(true) {
            let mut pats = vec![];
            for p in rule.patterns().include_private(true) {
                let mut ms = vec![];
                for m in p.matches() {
                    let (c, rg) = m.data_with_context();
                    ms.push((m.range().start as u64, m.range().len() as u64, m.xor_key().map_or(0, |k| k as u64 + 1),
                             fnv(m.data()), fnv(c), rg.start as u64));
                }
                pats.push((p.identifier().to_string(), ms));
            }
            rules.push(RuleDump { name: format!("{}:{}", rule.namespace(), rule.identifier()), matched: true, pats });
        }
        for rule in r.non_matching_rules().include_private(true) {
            rules.push(RuleDump { name: format!("{}:{}", rule.namespace(), rule.identifier()), matched: false, pats: vec![] });
        }
        rules.sort_by(|a, b| a.name.cmp(&b.name));
        let mut outs: Vec<String> = r.module_outputs().map(|(n, _)| n.to_string()).collect();
        outs.sort();
        Outcome::Done { rules, module_outputs: outs }
    }));
    match res { Ok(o) => o, Err(e) => Outcome::Panic(e) }
}

pub fn err_outcome(e: &yara_x::ScanError) -> Outcome {
    match e {
        yara_x::ScanError::Timeout => Outcome::Timeout,
        yara_x::ScanError::ModuleError { .. } => Outcome::ModuleError,
        other => Outcome::OtherError(format!("{}", other).chars().take(60).collect()),
    }
}

impl Outcome {
    pub fn tag(&self) -> &'static str {
        match self { Outcome::Done { .. } => "done", Outcome::Timeout => "timeout", Outcome::ModuleError => "module_error",
                     Outcome::OtherError(_) => "error", Outcome::Panic(_) => "panic" }
    }
    /// Coq term of type `outcome` (Scanner/StateCheck.v); rule and pattern
    /// names are replaced by their index in the sorted dump.
    pub fn coq(&self) -> String {
        match self {
            Outcome::Done { rules, module_outputs } => format!("ODone {} {}",
                coq_list(rules, |r| format!("({}, {})", coq_bool(r.matched),
                    coq_list(&r.pats, |(_, ms)| coq_list(&Self::abridge(ms), |m| format!("({},{},{},{},{},{})%N", m.0, m.1, m.2, m.3, m.4, m.5))))),
                coq_n(module_outputs.len() as u64)),
            Outcome::Timeout => "OTimeout".into(),
            Outcome::ModuleError => "OModuleError".into(),
            Outcome::OtherError(_) => "OOtherError".into(),
            Outcome::Panic(_) => "OPanic".into(),
        }
    }
    /// Long match lists (heavy scans) are written as: the first and last 20 matches plus one synthetic entry
    /// holding the number of matches and a digest of all of them, so that the Coq case stays small while the
    /// comparison still covers every match.
    fn abridge(ms: &[MatchDump]) -> Vec<MatchDump> {
        if ms.len() <= 48 { return ms.to_vec(); }
        let mut h: u64 = 0xcbf29ce484222325;
        for m in ms { for x in [m.0, m.1, m.2, m.3, m.4, m.5] { h ^= x; h = h.wrapping_mul(0x100000001b3); } }
        let mut v = ms[..20].to_vec();
        v.push((ms.len() as u64, h >> 1, 0, 0, 0, 0));
        v.extend_from_slice(&ms[ms.len() - 20..]);
        v
    }
    pub fn json(&self) -> String {
        match self {
            Outcome::Done { rules, module_outputs } => {
                let rs: Vec<String> = rules.iter().map(|r| {
                    let ps: Vec<String> = r.pats.iter().filter(|(_, ms)| !ms.is_empty()).map(|(n, ms)| format!("{}:{}", n,
                        Self::abridge(ms).iter().map(|m| format!("{}+{}{}", m.0, m.1, if m.2 > 0 { format!("^{}", m.2 - 1) } else { String::new() })).collect::<Vec<_>>().join("|"))).collect();
                    format!("{}{}{}", if r.matched { "+" } else { "-" }, r.name, if ps.is_empty() { String::new() } else { format!("[{}]", ps.join(" ")) })
                }).collect();
                json_str(&format!("done {} outputs={}", rs.join(" "), module_outputs.join(",")))
            }
            o => json_str(&format!("{:?}", o)),
        }
    }
    /// names of rules whose verdict or matches differ between two outcomes
    pub fn diff(&self, other: &Outcome) -> Vec<String> {
        match (self, other) {
            (Outcome::Done { rules: a, module_outputs: ma }, Outcome::Done { rules: b, module_outputs: mb }) => {
                let mut d = vec![];
                let bm: BTreeMap<&str, &RuleDump> = b.iter().map(|r| (r.name.as_str(), r)).collect();
                for r in a { match bm.get(r.name.as_str()) { Some(x) if *x == r => {}, _ => d.push(r.name.clone()) } }
                if a.len() != b.len() && d.is_empty() { d.push("<rule-count>".into()); }
                if ma != mb { d.push("<module-outputs>".into()); }
                d
            }
            (a, b) if a.tag() == b.tag() => vec![],
            (a, b) => vec![format!("<outcome:{}-vs-{}>", a.tag(), b.tag())],
        }
    }
}

/// digest string -> map
pub fn parse_digest(d: &str) -> BTreeMap<String, String> {
    d.split(' ').filter_map(|kv| kv.split_once('=')).map(|(k, v)| (k.to_string(), v.to_string())).collect()
}

/// numeric view of a digest value: plain numbers, `n[..]` lists -> n,
/// some/none, true/false, scan-state tags; sum of `name:count` lists.
pub fn digest_num(key: &str, v: &str) -> i128 {
    match v {
        "none" | "false" | "Idle" => return 0,
        "some" | "true" | "Timeout" => return 1,
        "ScanningData" => return 2, "ScanningBlock" => return 3, "Finished" => return 4,
        _ => {}
    }
    if key == "root.modules" {
        return v.trim_matches(|c| c == '[' || c == ']').split(',').filter_map(|x| x.split_once(':')).map(|(_, n)| n.parse::<i128>().unwrap_or(0)).sum();
    }
    if let Some((n, _)) = v.split_once('[') { return n.parse().unwrap_or(-1); }
    v.parse().unwrap_or(-1)
}

/// A scanner of either kind.
pub enum AnyScanner<'r> { Contig(yara_x::Scanner<'r>), Blocks(yara_x::blocks::Scanner<'r>), Gone }
impl<'r> AnyScanner<'r> {
    pub fn is_blocks(&self) -> bool { matches!(self, AnyScanner::Blocks(_)) }
    pub fn digest(&mut self) -> String {
        match self { AnyScanner::Contig(s) => s.verif_state_digest(), AnyScanner::Blocks(s) => s.verif_state_digest(), AnyScanner::Gone => String::new() }
    }
    pub fn into_blocks(&mut self) {
        let old = std::mem::replace(self, AnyScanner::Gone);
        *self = match old { AnyScanner::Contig(s) => AnyScanner::Blocks(yara_x::blocks::Scanner::from(s)), o => o };
    }
}
